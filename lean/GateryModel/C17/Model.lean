/-!
# C17 — model of gatery's scl arithmetic / coding primitives

Structural models that follow the *generator code* (the C++ that builds the circuit): every `for`
loop of the generator is a fold / recursion with the same iteration order and the same chunking, every
frontend operator is the corresponding operation on `Nat` values of an explicit bit width
(`UInt` of width `w` = a `Nat < 2^w`; bit vectors that the generator iterates over are `List Bool`,
LSB first).  Guards under which the real code throws are modelled as `none`.

Core Lean only (the driver links against this file).
-/
namespace Gatery.C17

/-! ## width helpers (utils/BitManipulation.h, frontend/BitWidth.h) -/

/-- `utils::Log2` (BitManipulation.h:55): number of times `v` can be shifted right before it is 0. -/
def log2 (v : Nat) : Nat := Nat.log2 v

/-- `utils::Log2C` (BitManipulation.h:65); the C++ asserts `v > 0`. -/
def log2C (v : Nat) : Nat := if v = 1 then 0 else Nat.log2 (v - 1) + 1

/-- `BitWidth::last(value)` (BitWidth.h:69): bits needed so that `value` is the last representable value. -/
def bwLast (v : Nat) : Nat := log2C (v + 1)

/-- `BitWidth::count(count)` (BitWidth.h:70): bits needed to enumerate `count` values. -/
def bwCount (c : Nat) : Nat := if c ≤ 1 then 0 else log2C c

/-- `utils::nextPow2` (BitManipulation.h:96): smallest power of two `≥ v` (`0 ↦ 0`, wrap-around of the
C++ `v--; smear; v++`).  The bit-smearing loop itself is not modelled; the harness prints the value the
real function returns for every chunking decision and the driver compares. -/
def nextPow2 (v : Nat) : Nat := if v = 0 then 0 else 2 ^ log2C v

/-- `utils::isPow2` : popcount = 1 -/
def isPow2 (v : Nat) : Bool := v != 0 && v == 2 ^ Nat.log2 v

/-- value of a bit list, LSB first -/
def toNat : List Bool → Nat
  | [] => 0
  | b :: t => b.toNat + 2 * toNat t

/-- the `w` low bits of `v`, LSB first -/
def ofNat : (w : Nat) → Nat → List Bool
  | 0, _ => []
  | w+1, v => (v % 2 == 1) :: ofNat w (v / 2)

/-- two's complement value of a `w`-bit word -/
def toInt (w v : Nat) : Int := if w ≠ 0 ∧ v.testBit (w - 1) then (v : Int) - (2 ^ w : Nat) else v

/-- a model output: width and value (`none` = undefined, printed as `x…x`) -/
structure Out where
  w : Nat
  v : Option Nat
  deriving Repr, BEq, DecidableEq

/-! ## bitcount (utils/BitCount.h:24-39)

```
UInt sumOfOnes = ConstUInt(0, BitWidth::last(vec.size()));
for (const auto& it : vec) sumOfOnes += (UInt)zext(it);
``` -/
def bitcountW (n : Nat) : Nat := bwLast n

def bitcount (bits : List Bool) : Nat :=
  bits.foldl (fun s b => (s + b.toNat) % 2 ^ bitcountW bits.length) 0

/-! ## one-hot decoder / encoder (utils/OneHot.cpp:25-45, 120-127) -/

/-- `decoder`: `OneHot ret = BitWidth{1 << in.size()}; ret.setBit(in)`; `setBit`: `for i: at(i) = idx == i`. -/
def decoder (w v : Nat) : List Bool := (List.range (2 ^ w)).map fun i => v == i

/-- loop of `encoder`: `for i: ret |= ext(i & in[i])` -/
def encGo : List Bool → Nat → Nat → Nat
  | [], _, ret => ret
  | b :: t, i, ret => encGo t (i + 1) (ret ||| (if b then i else 0))

/-- `encoder` (OneHot.cpp:32): result width `Log2C(in.size())`.  `in.size() = 0` fails the `v > 0` assertion of
`Log2C`, `in.size() = 1` gives a zero-width `ret` and `ret = 0` is rejected (width mismatch): both `none`. -/
def encoder (bits : List Bool) : Option Out :=
  if bits.length < 2 then none else some ⟨log2C bits.length, some (encGo bits 0 0)⟩

/-! ## priority encoders (utils/OneHot.cpp:69-118)

Both use the idiom `for (i = n-1; i < n; --i) IF(c[i]) ret = f(i)`: a scan from the top in which the last
assignment (lowest index) wins. -/

/-- `scanDown k f r`: run `for (i = k-1 … 0) IF (f i is some x) r = x` -/
def scanDown {α : Type} (f : Nat → Option α) : Nat → Option α → Option α
  | 0, r => r
  | k+1, r => scanDown f k (match f k with | some x => some x | none => r)

structure PEOut where
  w : Nat
  v : Option Nat     -- `none` = undefined (`ConstUInt(width)` never assigned)
  valid : Bool
  deriving Repr, BEq, DecidableEq

/-- `priorityEncoder` (OneHot.cpp:69-80) -/
def priorityEncoder (bits : List Bool) : PEOut :=
  if bits.isEmpty then ⟨0, some 0, false⟩
  else
    ⟨bwCount bits.length,
     scanDown (fun i => if bits.getD i false then some i else none) bits.length none,
     bits.any id⟩

/-- the slices `in(i, min(per, n-i))` for `i = 0, per, 2·per, …` (OneHot.cpp:91-95) -/
def chunks (per : Nat) : (fuel : Nat) → List Bool → List (List Bool)
  | 0, _ => []
  | fuel+1, l => if l.isEmpty then [] else l.take per :: chunks per fuel (l.drop per)

/-- `mapM` for `Option`, written out -/
def mapOpt {α β : Type} (f : α → Option β) : List α → Option (List β)
  | [] => some []
  | a :: t => match f a with
    | none => none
    | some b => match mapOpt f t with
      | none => none
      | some bs => some (b :: bs)

/-- condition/assignment of the select loop of the tree (OneHot.cpp:104-110):
`IF(valid(lowerStep[i])) { highSelect = i; *lowSelect = zext(*lowerStep[i]); valid(lowSelect) = '1'; }` -/
def treeSelF (lower : List PEOut) (i : Nat) : Option (Nat × Option Nat) :=
  match lower[i]? with
  | some o => if o.valid then some (i, o.v) else none
  | none => none

/-- the combination step of one tree level (OneHot.cpp:97-113): the select loop
`for (i = lowerStep.size()-1 … 0) IF(valid(lowerStep[i])) { highSelect = i; lowSelect = zext(*lowerStep[i]); valid = 1 }`
followed by `cat(highSelect, lowSelect)` (`bps` and `BitWidth::count(per)` bits; both undefined when nothing is valid) -/
def treeCombine (bps per : Nat) (lower : List PEOut) : PEOut :=
  let lowW := bwCount per
  match scanDown (treeSelF lower) lower.length none with
  | none => ⟨bps + lowW, none, false⟩
  | some (i, lo) => ⟨bps + lowW, lo.map (fun l => (i % 2 ^ bps) * 2 ^ lowW + l % 2 ^ lowW), true⟩

/-- `priorityEncoderTree(in, registerStep = false, bps)` (OneHot.cpp:82-118).  `fuel` bounds the recursion depth
(the C++ recursion does not terminate for `bps = 0`: `none`). -/
def peTree (bps : Nat) : (fuel : Nat) → List Bool → Option PEOut
  | 0, _ => none
  | fuel+1, bits =>
    let stepBits := 2 ^ bps
    let per := nextPow2 ((bits.length + stepBits - 1) / stepBits)
    if per ≤ 1 then some (priorityEncoder bits)
    else
      match mapOpt (peTree bps fuel) (chunks per bits.length bits) with
      | none => none
      | some lower => some (treeCombine bps per lower)

/-- `zext(x, per)` of a chunk: zeros appended at the top -/
def padTo (per : Nat) (l : List Bool) : List Bool := l ++ List.replicate (per - l.length) false

/-- `priorityEncoderTree(in, registerStep = true, bps)` (OneHot.cpp:82-122): every chunk is zero-extended to `inBitsPerStep` bits
before the recursive call (so that all chunks recurse equally deep), and every level that is not the flat base case ends in
`out = reg(out)` — a plain register, so the level's output in cycle `t` is what it computed from its lower level in cycle `t-1`.
`hist s` = the input word in cycle `s`.  (Power-on contents are not modelled: `t - 1` saturates at 0; the output is meaningful for
`t ≥ peTreeRegDepth`, when every register has been loaded.) -/
def peTreeReg (bps : Nat) : (fuel : Nat) → (hist : Nat → List Bool) → (t : Nat) → Option PEOut
  | 0, _, _ => none
  | fuel+1, hist, t =>
    let n := (hist t).length
    let stepBits := 2 ^ bps
    let per := nextPow2 ((n + stepBits - 1) / stepBits)
    if per ≤ 1 then some (priorityEncoder (hist t))
    else
      let m := (chunks per n (hist t)).length
      match mapOpt (fun i => peTreeReg bps fuel (fun s => padTo per ((chunks per n (hist s)).getD i [])) (t - 1)) (List.range m) with
      | none => none
      | some lower => some (treeCombine bps per lower)

/-- number of register levels (= latency in clock cycles) of the registered tree for an `n`-bit input: all chunks have `per` bits -/
def peTreeRegDepth (bps : Nat) : (fuel : Nat) → (n : Nat) → Nat
  | 0, _ => 0
  | fuel+1, n =>
    let stepBits := 2 ^ bps
    let per := nextPow2 ((n + stepBits - 1) / stepBits)
    if per ≤ 1 then 0 else 1 + peTreeRegDepth bps fuel per

/-- `countLeadingZeros` (OneHot.cpp:58-67): `UInt ret = in.size(); for i: IF(in[i]) ret = in.size() - i - 1;` -/
def clzGo (n : Nat) : List Bool → Nat → Nat → Nat
  | [], _, ret => ret
  | b :: t, i, ret => clzGo n t (i + 1) (if b then n - i - 1 else ret)

def countLeadingZeros (bits : List Bool) : Out :=
  ⟨bwLast bits.length, some (clzGo bits.length bits 0 bits.length)⟩

/-! ## thermometric code (utils/Thermometric.cpp:24-41) -/

/-- `uintToThermometric(in)`: `ret` has `in.width().last() = 2^w - 1` bits, `ret[i] = in > i` -/
def uintToThermometric (w v : Nat) : List Bool := (List.range (2 ^ w - 1)).map fun i => decide (v > i)

/-- `uintToThermometric(in, outW)` = `.lower(outW)`; rejected when `outW` exceeds the full width -/
def uintToThermometricW (w v outW : Nat) : Option (List Bool) :=
  if outW ≤ 2 ^ w - 1 then some ((uintToThermometric w v).take outW) else none

/-- `thermometricToUInt(in) = bitcount((UInt)in)` -/
def thermometricToUInt (bits : List Bool) : Nat := bitcount bits

/-! ## gray code (cdc.cpp:23-38) -/

/-- `grayEncode(val) = val ^ (val >> 1)` -/
def grayEncode (x : Nat) : Nat := x ^^^ (x >>> 1)

/-- loop of `grayDecode`: `for (i = w-2 … 0) ret[i] = ret[i+1] ^ val[i]`; `ret` starts as `ConstUInt(0, w)` with the msb copied -/
def grayDecodeGo (val : Nat) : Nat → Nat → Nat
  | 0, ret => ret
  | i+1, ret => grayDecodeGo val i (if (ret.testBit (i + 1) ^^ val.testBit i) then ret ||| 2 ^ i else ret)

/-- `grayDecode` (cdc.cpp:28): `msb()` of a zero-width vector is rejected -/
def grayDecode (w val : Nat) : Option Nat :=
  if w = 0 then none
  else some (grayDecodeGo val (w - 1) (if val.testBit (w - 1) then 2 ^ (w - 1) else 0))

/-! ## synchronizeGrayCode (cdc.cpp:72-82, cdc.h:76-110)

```
grayDecode(synchronize(grayEncode(in), [grayEncode(reset),] inClock, outClock, params))
synchronize: if (params.inStage) val = reg(val, [reset,] {.clock = inClock});
             for (i < params.outStages) val = reg(val, [reset,] {.clock = syncRegClock});      // derived from outClock
```
All registers hold gray code; with the reset overload every register's reset value is `grayEncode(reset)`, without it the
registers have no reset (undefined = `none` until loaded). -/

structure GraySync where
  w : Nat
  outStages : Nat
  inStage : Bool
  reset : Option Nat
  deriving Repr

structure GraySyncState where
  inReg : Option Nat                -- the register in the input clock domain (unused when `inStage = false`)
  stages : List (Option Nat)        -- the synchronizer chain in the output clock domain, first stage first
  deriving Repr, BEq, DecidableEq

/-- register contents at power-on / during reset -/
def graySyncInit (c : GraySync) : GraySyncState :=
  ⟨c.reset.map grayEncode, List.replicate c.outStages (c.reset.map grayEncode)⟩

/-- one instant at which the registers of the input domain (`a`) and / or of the output domain (`b`) take their inputs
(simultaneously, from the values before the instant); `inp` = the input word at that instant.  An edge that falls into the
domain's reset cycle is not such an instant for registers that have a reset value. -/
def graySyncStep (c : GraySync) (s : GraySyncState) (a b : Bool) (inp : Nat) : GraySyncState :=
  let g := some (grayEncode inp)
  let src := if c.inStage then s.inReg else g
  ⟨if a then g else s.inReg, if b then src :: s.stages.dropLast else s.stages⟩

/-- `grayDecode` of the last stage -/
def graySyncOut (c : GraySync) (s : GraySyncState) : Option Nat :=
  match s.stages.getLast? with
  | some (some g) => grayDecode c.w g
  | _ => none

def graySyncRun (c : GraySync) (s : GraySyncState) (es : List (Bool × Bool × Nat)) : GraySyncState :=
  es.foldl (fun s e => graySyncStep c s e.1 e.2.1 e.2.2) s

/-! ## min / max (math.h:41-55): `ret = a; IF(a > b) ret = b;` — operands of different width are rejected

For `SInt` the frontend's comparison is `lt(l, r) = (sext(l, w+1) - sext(r, w+1)).sign()`, `gt(l, r) = lt(r, l)`
(frontend/SignalCompareOp.cpp:40-49): the subtraction is done in one more bit than the operands, its sign bit is the result. -/
def minU (a b : Nat) : Nat := if a > b then b else a
def maxU (a b : Nat) : Nat := if a < b then b else a
/-- `sext(x, w+1)` of a `w`-bit word -/
def sext1 (w x : Nat) : Nat := if w ≠ 0 ∧ x.testBit (w - 1) then x + 2 ^ w else x
/-- `lt(x, y)` on `SInt`: sign bit (bit `w`) of the `(w+1)`-bit difference of the sign-extended operands -/
def ltS (w x y : Nat) : Bool := ((sext1 w x + 2 ^ (w + 1) - sext1 w y) % 2 ^ (w + 1)).testBit w
def minS (w a b : Nat) : Nat := if ltS w b a then b else a     -- a > b  :=  lt(b, a)
def maxS (w a b : Nat) : Nat := if ltS w a b then b else a     -- a < b

/-! ## biggestPowerOfTwo (math.cpp:23-32)

`for i < w: UInt candidate = ConstUInt(0, w); candidate[i] = '1'; IF(input[i]) result = candidate;` -/
def bptGo (v : Nat) : Nat → Nat → Nat
  | 0, res => res
  | k+1, res => let r := bptGo v k res; if v.testBit k then 2 ^ k else r

def biggestPowerOfTwo (w v : Nat) : Nat := bptGo v w 0

/-! ## longDivision (math.cpp:34-72) -/

/-- one iteration of the loop body for loop variable `i` (`j = i-1`):
```
UInt& workingSlice = remainder(i-1, denomW+1);
quotient[i-1] = workingSlice >= zext(denominator);
IF(quotient[i-1]) workingSlice -= zext(denominator);
``` -/
def divStep (dw d : Nat) (j : Nat) (st : Nat × Nat) : Nat × Nat :=
  let (q, rem) := st
  let sw := dw + 1
  let slice := (rem >>> j) % 2 ^ sw
  let qb := decide (slice ≥ d)
  let slice' := if qb then (slice + 2 ^ sw - d) % 2 ^ sw else slice
  -- write the slice back into bits [j, j+sw) of the remainder register
  let rem' := rem % 2 ^ j + slice' * 2 ^ j + (rem >>> (j + sw)) * 2 ^ (j + sw)
  (if qb then q ||| 2 ^ j else q, rem')

/-- `for (i = numW; i > 0; i--)` -/
def divLoop (dw d : Nat) : Nat → Nat × Nat → Nat × Nat
  | 0, st => st
  | i+1, st => divLoop dw d i (divStep dw d i st)

/-- unsigned `longDivision` without pipeline registers: returns (quotient, final remainder register);
`remainder = cat(ConstUInt(0, denomW), numerator)` -/
def longDivision (nw dw n d : Nat) : Nat × Nat := divLoop dw d nw (0, n)

/-- `if (stepsPerPipelineReg != 0 && i % stepsPerPipelineReg == 0) workingSlice = pipestage(workingSlice);` for `i = numW … 1`:
number of pipeline stages on the way to the quotient (= latency in clock cycles once retiming has balanced the inputs).
The hint of the last iteration (`i = 1`, only taken for `stepsPerPipelineReg = 1`) sits behind the last quotient bit: it is on no
path to the result and spawns no register. -/
def longDivisionStages (nw steps : Nat) : Nat :=
  if steps = 0 then 0 else ((List.range nw).filter fun j => j ≥ 1 && (j + 1) % steps == 0).length

/-- signed variant (math.cpp:50-70): sign-magnitude around the unsigned divider -/
def longDivisionS (nw dw n d : Nat) : Nat :=
  let sign := nw ≠ 0 ∧ n.testBit (nw - 1)
  let mag := if sign then (2 ^ nw - 1 - n + 1) % 2 ^ nw else n          -- ~num + 1
  let r := (longDivision nw dw mag d).1
  if sign then (2 ^ nw - 1 - r + 1) % 2 ^ nw else r                     -- ~res + 1

/-! ## adders (Adder.cpp) -/

/-- `addCarrySave(a,b,c)` (Adder.cpp:59-64) -/
def addCarrySave (a b c : Nat) : Nat × Nat := (a ^^^ b ^^^ c, (a &&& c) ||| (a &&& b) ||| (c &&& b))

/-- `add(a,b,cin)` (Adder.cpp:46-57): `sum = a + b + cin; cout = ((a | b) & ~sum) | (a & b)` at width `w` -/
def addC (w a b : Nat) (cin : Bool) : Nat × Nat :=
  let sum := (a + b + cin.toNat) % 2 ^ w
  (sum, ((a ||| b) &&& (2 ^ w - 1 - sum)) ||| (a &&& b))

/-- state of `CarrySafeAdder` (Adder.h:60-80): count, sum, carry -/
structure CSAState where
  count : Nat := 0
  sum : Nat := 0
  carry : Nat := 0

/-- `CarrySafeAdder::add` (Adder.cpp:23-36) at width `w`: `carry <<= 1` drops the top bit -/
def CSAState.add (w : Nat) (s : CSAState) (b : Nat) : CSAState :=
  if s.count = 0 then { s with count := 1, sum := b }
  else if s.count = 1 then { s with count := 2, carry := b }
  else
    let (sm, cy) := addCarrySave s.sum s.carry b
    { count := s.count + 1, sum := sm, carry := (cy <<< 1) % 2 ^ w }

/-- `CarrySafeAdder::sum` (Adder.cpp:38-44) -/
def CSAState.total (w : Nat) (s : CSAState) : Nat :=
  if s.count ≤ 1 then s.sum else (s.sum + s.carry) % 2 ^ w

def csaAddAll (w : Nat) (ops : List Nat) : CSAState := ops.foldl (CSAState.add w) {}

/-! ## Counter (Counter.cpp) -/

structure CounterCfg where
  w : Nat                 -- counterW
  checkOverflows : Bool
  autoInc : Bool          -- neither inc() nor dec() is ever called: `m_incrementNeverUsed` stays '1'
  deriving Repr

/-- per-cycle inputs: the values of `m_inc`, `m_dec`, `m_load`, `m_loadValue` and `(end-1).lower(counterW)` -/
structure CounterIn where
  inc : Bool
  dec : Bool
  load : Bool
  loadValue : Nat
  endM1 : Nat

structure CounterOut where
  value : Nat
  last : Bool
  first : Bool
  becomesFirst : Bool
  next : Nat
  deriving Repr

/-- one clock cycle of `Counter::init`'s logic (Counter.cpp:67-117) -/
def counterStep (c : CounterCfg) (v : Nat) (i : CounterIn) : CounterOut :=
  let mask := 2 ^ c.w - 1
  let last := v == i.endM1
  let first := v == 0
  let v1 :=
    if c.w = 0 then v
    else
      let delta := if c.autoInc then 1 else 0
      let delta := if i.inc && !i.dec then 1 else delta
      let delta := if i.dec && !i.inc then delta ||| mask else delta
      let v1 := (v + delta) % 2 ^ c.w
      if c.checkOverflows then
        let v1 := if delta == 1 && last then 0 else v1
        if delta == mask && first then i.endM1 else v1
      else v1
  let v2 := if i.load then i.loadValue else v1
  ⟨v, last, first, v2 == 0, v2⟩

/-- what the user logic does with the counter in one cycle -/
structure CounterOp where
  inc : Bool
  dec : Bool
  load : Bool
  lv : Nat

/-- register value after a history of cycles (`em1` = the constant `(end-1).lower(counterW)`) -/
def counterRun (c : CounterCfg) (em1 : Nat) (v : Nat) (ops : List CounterOp) : Nat :=
  ops.foldl (fun v o => (counterStep c v ⟨o.inc, o.dec, o.load, o.lv, em1⟩).next) v

/-! ### the `Counter` API as a usage pattern

`Counter::inc()` and `Counter::dec()` each set their request bit under the caller's condition and, *unconditionally*
(`ConditionalScope{'1', true}`), clear `m_incrementNeverUsed` (Counter.cpp:50-62).  So what matters is which methods the user
logic ever calls on the instance: a counter on which neither `inc()` nor `dec()` is ever called free-runs (auto-increment),
one on which either of them is called moves only on request.  `reset()` is `load(m_resetValue)`; `load(v)` sets `m_load` and
assigns `m_loadValue` — when `load` and `reset` are both requested in a cycle, the call placed later in the program wins. -/

/-- which methods are ever called on the instance (anywhere in the design, under any condition) -/
structure CounterUse where
  inc : Bool
  dec : Bool
  reset : Bool
  load : Bool
  deriving Repr, DecidableEq

/-- value of `m_incrementNeverUsed` after elaboration -/
def CounterUse.autoInc (u : CounterUse) : Bool := !(u.inc || u.dec)

/-- the conditions of the calls in one cycle -/
structure CounterCalls where
  inc : Bool
  dec : Bool
  reset : Bool
  load : Bool
  lv : Nat

/-- the per-cycle values of `m_inc`, `m_dec`, `m_load`, `m_loadValue` produced by the calls that exist (`resetLast`: `reset()` is
placed after `load(v)` in the program) -/
def callsToIn (u : CounterUse) (resetLast : Bool) (rv em1 : Nat) (c : CounterCalls) : CounterIn :=
  let ld := u.load && c.load
  let rs := u.reset && c.reset
  ⟨u.inc && c.inc, u.dec && c.dec, ld || rs,
   if ld && rs then (if resetLast then rv else c.lv) else if rs then rv else c.lv, em1⟩

/-- register value after a history of per-cycle call patterns on an instance with usage `u` -/
def counterApiRun (w : Nat) (chk : Bool) (u : CounterUse) (resetLast : Bool) (rv em1 v : Nat) (hist : List CounterCalls) : Nat :=
  hist.foldl (fun v c => (counterStep ⟨w, chk, u.autoInc⟩ v (callsToIn u resetLast rv em1 c)).next) v

/-- `Counter(size_t end, startup)` (Counter.cpp:23-33): width and overflow handling chosen from `end` -/
def counterCfgOfEnd (end_ : Nat) (autoInc : Bool) : CounterCfg :=
  if isPow2 end_ then ⟨bwCount end_, false, autoInc⟩ else ⟨bwLast end_, true, autoInc⟩

/-- `Counter(BitWidth ctrW, startup)` (Counter.cpp:43-49): `end = ctrW.count()` -/
def counterCfgOfWidth (w : Nat) (autoInc : Bool) : CounterCfg := ⟨w, true, autoInc⟩

/-- `(end - 1).lower(counterW)` -/
def endM1 (w end_ : Nat) : Nat := (end_ + 2 ^ w - 1) % 2 ^ w

/-- `counterUpDown` (Counter.cpp:118-134):
`IF(inc & !dec) IF(!ctr.isLast()) ctr.inc(); IF(dec & !inc) IF(!ctr.isFirst()) ctr.dec(); IF(reset) ctr.reset();` -/
def counterUpDownStep (w resetValue v : Nat) (inc dec reset : Bool) : CounterOut :=
  let e := endM1 w (2 ^ w)
  counterStep (counterCfgOfWidth w false) v
    ⟨inc && !dec && !(v == e), dec && !inc && !(v == 0), reset, resetValue % 2 ^ w, e⟩

/-- register value of `counterUpDown` after a history of (increment, decrement, reset) cycles -/
def counterUpDownRun (w rv v : Nat) (ops : List (Bool × Bool × Bool)) : Nat :=
  ops.foldl (fun v o => (counterUpDownStep w rv v o.1 o.2.1 o.2.2).next) v

/-! ## CRC (crc.cpp:88-134) -/

/-- body of `for(i < data.size())`: `sub = rem.msb(); rem <<= 1; IF(sub) rem.upper(polyW) ^= polynomial;` -/
def crcStep (W pw poly : Nat) (rem : Nat) : Nat :=
  let sub := rem.testBit (W - 1)
  let rem' := (rem <<< 1) % 2 ^ W
  if sub then rem' ^^^ (poly <<< (W - pw)) else rem'

def iter {α : Type} (f : α → α) : Nat → α → α
  | 0, a => a
  | n+1, a => iter f n (f a)

/-- `crc(remainder, data, polynomial)` (crc.cpp:88-112); `upper(pw)` on a narrower `rem` is rejected -/
def crc (rw dw pw : Nat) (rem data poly : Nat) : Option Nat :=
  let W := max rw dw
  if pw > W ∨ W = 0 ∨ dw = 0 then none     -- `upper()` of more bits than there are / zero-width slices are rejected
  else
    let r0 := rem <<< (W - rw)
    let r1 := r0 ^^^ (data <<< (W - dw))
    let r := iter (crcStep W pw poly) dw r1
    some (if W > rw then r >>> (W - rw) else r)

/-- bit reversal of a `w`-bit word (`swapEndian(x, 1_b)`) -/
def bitReverse : (w : Nat) → Nat → Nat
  | 0, _ => 0
  | w+1, v => (v % 2) * 2 ^ w + bitReverse w (v / 2)

structure CrcParams where
  w : Nat
  polynomial : Nat
  initialRemainder : Nat
  reverseData : Bool
  reverseCrc : Bool
  xorOut : Nat
  deriving Repr

/-- `CrcState::update` (crc.cpp:119-125) with a `dw`-bit data word -/
def crcUpdate (p : CrcParams) (dw : Nat) (rem data : Nat) : Option Nat :=
  crc p.w dw p.w rem (if p.reverseData then bitReverse dw data else data) p.polynomial

/-- `CrcState::checksum` (crc.cpp:127-134) -/
def crcChecksum (p : CrcParams) (rem : Nat) : Nat :=
  let res := rem ^^^ p.xorOut
  if p.reverseCrc then bitReverse p.w res else res

/-- `init(); update(d₀); update(d₁); …; checksum()` -/
def crcRun (p : CrcParams) (dw : Nat) (data : List Nat) : Option Nat :=
  (data.foldlM (fun r d => crcUpdate p dw r d) p.initialRemainder).map (crcChecksum p)

/-- `CrcParams::init` (crc.cpp:21-86) -/
def crc5Usb : CrcParams := ⟨5, 0x05, 0x1F, true, true, 0x1F⟩
def crc16Ccitt : CrcParams := ⟨16, 0x1021, 0x1D0F, false, false, 0⟩
def crc16Usb : CrcParams := ⟨16, 0x8005, 0xFFFF, true, true, 0xFFFF⟩
def crc32 : CrcParams := ⟨32, 0x04C11DB7, 0xFFFFFFFF, true, true, 0xFFFFFFFF⟩
def crc32C : CrcParams := ⟨32, 0x1EDC6F41, 0xFFFFFFFF, true, true, 0xFFFFFFFF⟩
def crc32D : CrcParams := ⟨32, 0xA833982B, 0xFFFFFFFF, true, true, 0xFFFFFFFF⟩
def crc32Q : CrcParams := ⟨32, 0x814141AB, 0, false, false, 0⟩
def wellKnown : List CrcParams := [crc5Usb, crc16Ccitt, crc16Usb, crc32, crc32C, crc32D, crc32Q]

end Gatery.C17
