import GateryModel.C17.Model
/-!
# C17 — the mathematical definitions the primitives are compared against

Independent of the generator structure: plain arithmetic on `Nat` / `Int`, polynomial division over GF(2).
Used (a) in the statements of `Properties/C17.lean`, (b) by the driver for the `PROPFAIL` comparison.
Core Lean only.
-/
namespace Gatery.C17.Spec

/-- number of set bits -/
def popcount (bits : List Bool) : Nat := bits.count true

/-- index of the lowest set bit -/
def lowestSet : List Bool → Option Nat
  | [] => none
  | true :: _ => some 0
  | false :: t => (lowestSet t).map (· + 1)

/-- index of the highest set bit -/
def highestSet : List Bool → Option Nat
  | [] => none
  | b :: t => match highestSet t with
    | some j => some (j + 1)
    | none => if b then some 0 else none

/-- number of zero bits above the highest set bit (`n` if there is none) -/
def clz (bits : List Bool) : Nat :=
  match highestSet bits with
  | some j => bits.length - 1 - j
  | none => bits.length

/-- binary-reflected Gray code by its defining reflection: the upper half of the `w+1`-bit code is the
lower half in reverse order with the top bit set -/
def reflectedGray : (w : Nat) → Nat → Nat
  | 0, _ => 0
  | w+1, x => if x < 2 ^ w then reflectedGray w x else 2 ^ w + reflectedGray w (2 ^ (w + 1) - 1 - x)

/-- number of positions in which two words differ -/
def hamming (w a b : Nat) : Nat := ((List.range w).filter fun i => a.testBit i != b.testBit i).length

/-- largest power of two `≤ v` (0 for 0) -/
def biggestPowerOfTwo (v : Nat) : Nat := if v = 0 then 0 else 2 ^ Nat.log2 v

/-- truncated signed division of a `w`-bit two's complement numerator by an unsigned denominator, as a `w`-bit word -/
def sdiv (w n d : Nat) : Nat := (Int.tdiv (toInt w n) d % (2 ^ w : Nat)).toNat

/-- carry out of bit position `i` of `a + b + cin` -/
def carryOut (a b : Nat) (cin : Bool) (i : Nat) : Bool :=
  decide (a % 2 ^ (i + 1) + b % 2 ^ (i + 1) + cin.toNat ≥ 2 ^ (i + 1))

/-! ### counters -/

/-- one step of a modulo-`E` counter -/
def wrapStep (E v : Nat) (inc dec load : Bool) (lv : Nat) : Nat :=
  if load then lv
  else if inc && !dec then (v + 1) % E
  else if dec && !inc then (v + E - 1) % E
  else v

/-- definition of one cycle of a `Counter` instance by its API: it free-runs (`+1` modulo `E`) iff neither `inc()` nor `dec()` is
ever called on it; otherwise `inc` / `dec` requests move it by one modulo `E` (both together cancel); a `load(v)` or `reset()`
request overrides the counting, the later of the two calls in the program deciding the value when both are requested. -/
def apiStep (E rv : Nat) (u : CounterUse) (resetLast : Bool) (v : Nat) (c : CounterCalls) : Nat :=
  let ld := u.load && c.load
  let rs := u.reset && c.reset
  let free := !u.inc && !u.dec
  wrapStep E v ((u.inc && c.inc) || free) (u.dec && c.dec) (ld || rs)
    (if ld && rs then (if resetLast then rv else c.lv) else if rs then rv else c.lv)

def apiRun (E rv : Nat) (u : CounterUse) (resetLast : Bool) (v : Nat) (hist : List CounterCalls) : Nat :=
  hist.foldl (apiStep E rv u resetLast) v

/-- value of the modulo-`E` counter after a history of cycles -/
def wrapRun (E v : Nat) (ops : List CounterOp) : Nat :=
  ops.foldl (fun v o => wrapStep E v o.inc o.dec o.load o.lv) v

/-- one step of a saturating up/down counter on `[0, max]`: the net change `inc - dec` is applied and clamped -/
def clampStep (max v : Nat) (inc dec reset : Bool) (rv : Nat) : Nat :=
  if reset then rv
  else
    let t : Int := (v : Int) + (if inc then 1 else 0) - (if dec then 1 else 0)
    if t < 0 then 0 else if t > max then max else t.toNat

/-- value of the saturating counter after a history of (inc, dec, reset) cycles -/
def clampRun (mx rv v : Nat) (ops : List (Bool × Bool × Bool)) : Nat :=
  ops.foldl (fun v o => clampStep mx v o.1 o.2.1 o.2.2 rv) v

/-! ### GF(2)[x], polynomials as `Nat` (bit `i` = coefficient of `x^i`) -/

/-- carry-less product `q · p` -/
def clmul : Nat → Nat → Nat
  | 0, _ => 0
  | q+1, p => (if (q + 1) % 2 = 1 then p else 0) ^^^ 2 * clmul ((q + 1) / 2) p
decreasing_by omega

/-- cancel the coefficients `n+k-1 … n` of `a` with multiples of the monic degree-`n` polynomial `P` -/
def pmodGo (n P : Nat) : Nat → Nat → Nat
  | 0, a => a
  | k+1, a => pmodGo n P k (if a.testBit (n + k) then a ^^^ (P <<< k) else a)

/-- remainder of `a` modulo `x^n + poly` -/
def pmod (n poly a : Nat) : Nat := pmodGo n (2 ^ n + poly) (a.log2 + 1 - n) a

/-- reverse the low `w` bits -/
def reflect (w v : Nat) : Nat := (List.range w).foldl (fun r i => if v.testBit i then r ||| 2 ^ (w - 1 - i) else r) 0

/-- CRC of a message given as `dw`-bit words, by definition: with `M` the message polynomial (words most significant
first, each reflected when `refIn`), `crc = (init·x^{|M|} + M·x^w) mod (x^w + poly)`, then reflected / xor-ed. -/
def crcDef (p : CrcParams) (dw : Nat) (data : List Nat) : Nat :=
  let M := data.foldl (fun m d => (m <<< dw) ^^^ (if p.reverseData then reflect dw d else d)) 0
  let len := dw * data.length
  let r := pmod p.w p.polynomial ((p.initialRemainder <<< len) ^^^ (M <<< p.w))
  let r := r ^^^ p.xorOut
  if p.reverseCrc then reflect p.w r else r

/-- published check values (CRC of the ASCII string "123456789") of the well-known parameter sets, in the order of `wellKnown` -/
def checkValues : List Nat := [0x19, 0xE5CC, 0xB4C8, 0xCBF43926, 0xE3069283, 0x87315576, 0x3010BF7F]

def checkMessage : List Nat := [0x31, 0x32, 0x33, 0x34, 0x35, 0x36, 0x37, 0x38, 0x39]

end Gatery.C17.Spec
