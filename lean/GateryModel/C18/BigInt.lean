import GateryModel.C18.Lemmas3
/-! `extractBigInt` (both code paths) equals the unsigned number spelled by the addressed bits. -/
namespace Gatery.C18
open Gatery.Gen

theorem wordsToNat_testBit (ws : List W) (j : Nat) :
    (wordsToNat ws).testBit j = (ws.getD (j / 64) 0#64).getLsbD (j % 64) := by
  induction ws generalizing j with
  | nil => simp [wordsToNat]
  | cons w ws ih =>
    simp only [wordsToNat]
    rw [Nat.add_comm, Nat.testBit_two_pow_mul_add _ w.isLt]
    by_cases hj : j < 64
    · have e1 : j / 64 = 0 := by omega
      have e2 : j % 64 = j := by omega
      simp [hj, e1, e2, BitVec.getLsbD]
    · have e1 : j / 64 = (j - 64) / 64 + 1 := by omega
      have e2 : j % 64 = (j - 64) % 64 := by omega
      simp only [hj, if_false, ih, e1, e2, List.getD_cons_succ]

/-- `extractBigInt` reads exactly the addressed bits as an unsigned number (both the ≤ 64 bit path and the word-aligned wide path) -/
theorem extractBigInt_testBit (p : Plane) (off size j : Nat) (hin : off + size ≤ 64 * p.length)
    (hal : size > 64 → off % 64 = 0) :
    (extractBigInt p off size).testBit j = (decide (j < size) && bit p (off + j)) := by
  unfold extractBigInt
  split
  · rename_i hs
    by_cases h0 : size = 0
    · subst h0
      have : (extract p off 0) = 0#64 := by
        apply BitVec.eq_of_getLsbD_eq; intro i hi
        simp [extract, BitVec.getLsbD_and, bitMaskRange_getLsbD]
      simp [this]
    · have hpx : PreX p off size := ⟨hs, by omega, by intro; omega⟩
      rw [← BitVec.getLsbD, extract_getLsbD _ _ _ _ hpx]
  · rename_i hs
    have hs : size > 64 := by omega
    have ha := hal hs
    simp only
    rw [Nat.testBit_or, wordsToNat_testBit, Nat.testBit_shiftLeft]
    have hoff : off = 64 * (off / 64) := by omega
    -- the full words
    have hfull : ((List.take ((off + size) / 64 - off / 64) (List.drop (off / 64) p)).getD (j / 64) 0#64) =
        if j / 64 < (off + size) / 64 - off / 64 then wget p (off / 64 + j / 64) else 0#64 := by
      unfold wget
      simp only [List.getD_eq_getElem?_getD, List.getElem?_take, List.getElem?_drop]
      split <;> simp
    rw [hfull]
    by_cases hjs : j < size
    · simp only [hjs, decide_true, Bool.true_and]
      by_cases hw : j / 64 < (off + size) / 64 - off / 64
      · -- bit lies in a full word
        simp only [hw, if_true]
        have hge : ¬ ((off + size) / 64 * 64 - off ≤ j) := by omega
        simp only [ge_iff_le, hge, decide_false, Bool.false_and, Bool.or_false]
        unfold bit
        congr 1
        · congr 1; omega
        · omega
      · -- bit lies in the trailing partial chunk
        simp only [hw, if_false]
        have hge : (off + size) / 64 * 64 - off ≤ j := by omega
        simp only [ge_iff_le, hge, decide_true, Bool.true_and, BitVec.getLsbD_zero, Bool.false_or]
        have hlw : size - ((off + size) / 64 * 64 - off) > 0 := by omega
        simp only [hlw, if_true]
        have hpx : PreXNS p ((off + size) / 64 * 64) (size - ((off + size) / 64 * 64 - off)) := ⟨by omega, by omega⟩
        rw [← BitVec.getLsbD, extractNS_getLsbD _ _ _ _ hpx]
        have : j - ((off + size) / 64 * 64 - off) < size - ((off + size) / 64 * 64 - off) := by omega
        simp only [this, decide_true, Bool.true_and]
        congr 1; omega
    · simp only [hjs, decide_false, Bool.false_and]
      have hw : ¬ j / 64 < (off + size) / 64 - off / 64 := by omega
      simp only [hw, if_false, BitVec.getLsbD_zero, Bool.false_or]
      by_cases hge : (off + size) / 64 * 64 - off ≤ j
      · simp only [ge_iff_le, hge, decide_true, Bool.true_and]
        split
        · rename_i hlw
          have hpx : PreXNS p ((off + size) / 64 * 64) (size - ((off + size) / 64 * 64 - off)) := ⟨by omega, by omega⟩
          rw [← BitVec.getLsbD, extractNS_getLsbD _ _ _ _ hpx]
          have : ¬ j - ((off + size) / 64 * 64 - off) < size - ((off + size) / 64 * 64 - off) := by omega
          simp [this]
        · simp
      · simp [hge]

theorem extractBigInt_spec (p : Plane) (n off size : Nat) (hin : off + size ≤ 64 * p.length) (hn : off + size ≤ n)
    (hal : size > 64 → off % 64 = 0) :
    extractBigInt p off size = specBigExtract (absPlane p n) off size := by
  apply Nat.eq_of_testBit_eq
  intro j
  rw [extractBigInt_testBit _ _ _ _ hin hal]
  unfold specBigExtract
  rw [bitsToNat_testBit, slice_getD, sBit_absPlane]
  by_cases hj : j < size
  · have : off + j < n := by omega
    simp [hj, this]
  · simp [hj]

end Gatery.C18
