import GateryModel.C18.Lemmas3
import GateryModel.C18.Seq
/-! `extractBigInt` (both code paths) equals the unsigned number spelled by the addressed bits. -/
namespace Gatery.C18
open Gatery.Gen

theorem wordsToNat_testBit (ws : List W) (j : Nat) :
    (wordsToNat ws).testBit j = (ws.getD (j / 64) 0#64).getLsbD (j % 64) := by
  induction ws generalizing j with
  | nil => simp [wordsToNat]
  | cons w ws ih =>
    simp only [wordsToNat]
    rw [Nat.add_comm, Nat.testBit_two_pow_mul_add _ w.isLt]
    by_cases hj : j < 64
    · have e1 : j / 64 = 0 := by omega
      have e2 : j % 64 = j := by omega
      simp [hj, e1, e2, BitVec.getLsbD]
    · have e1 : j / 64 = (j - 64) / 64 + 1 := by omega
      have e2 : j % 64 = (j - 64) % 64 := by omega
      simp only [hj, if_false, ih, e1, e2, List.getD_cons_succ]

/-- `extractBigInt` reads exactly the addressed bits as an unsigned number (both the ≤ 64 bit path and the word-aligned wide path) -/
theorem extractBigInt_testBit (p : Plane) (off size j : Nat) (hin : off + size ≤ 64 * p.length)
    (hal : size > 64 → off % 64 = 0) :
    (extractBigInt p off size).testBit j = (decide (j < size) && bit p (off + j)) := by
  unfold extractBigInt
  split
  · rename_i hs
    by_cases h0 : size = 0
    · subst h0
      have : (extract p off 0) = 0#64 := by
        apply BitVec.eq_of_getLsbD_eq; intro i hi
        simp [extract, BitVec.getLsbD_and, bitMaskRange_getLsbD]
      simp [this]
    · have hpx : PreX p off size := ⟨hs, by omega, by intro; omega⟩
      rw [← BitVec.getLsbD, extract_getLsbD _ _ _ _ hpx]
  · rename_i hs
    have hs : size > 64 := by omega
    have ha := hal hs
    simp only
    rw [Nat.testBit_or, wordsToNat_testBit, Nat.testBit_shiftLeft]
    have hoff : off = 64 * (off / 64) := by omega
    -- the full words
    have hfull : ((List.take ((off + size) / 64 - off / 64) (List.drop (off / 64) p)).getD (j / 64) 0#64) =
        if j / 64 < (off + size) / 64 - off / 64 then wget p (off / 64 + j / 64) else 0#64 := by
      unfold wget
      simp only [List.getD_eq_getElem?_getD, List.getElem?_take, List.getElem?_drop]
      split <;> simp
    rw [hfull]
    by_cases hjs : j < size
    · simp only [hjs, decide_true, Bool.true_and]
      by_cases hw : j / 64 < (off + size) / 64 - off / 64
      · -- bit lies in a full word
        simp only [hw, if_true]
        have hge : ¬ ((off + size) / 64 * 64 - off ≤ j) := by omega
        simp only [ge_iff_le, hge, decide_false, Bool.false_and, Bool.or_false]
        unfold bit
        congr 1
        · congr 1; omega
        · omega
      · -- bit lies in the trailing partial chunk
        simp only [hw, if_false]
        have hge : (off + size) / 64 * 64 - off ≤ j := by omega
        simp only [ge_iff_le, hge, decide_true, Bool.true_and, BitVec.getLsbD_zero, Bool.false_or]
        have hlw : size - ((off + size) / 64 * 64 - off) > 0 := by omega
        simp only [hlw, if_true]
        have hpx : PreXNS p ((off + size) / 64 * 64) (size - ((off + size) / 64 * 64 - off)) := ⟨by omega, by omega⟩
        rw [← BitVec.getLsbD, extractNS_getLsbD _ _ _ _ hpx]
        have : j - ((off + size) / 64 * 64 - off) < size - ((off + size) / 64 * 64 - off) := by omega
        simp only [this, decide_true, Bool.true_and]
        congr 1; omega
    · simp only [hjs, decide_false, Bool.false_and]
      have hw : ¬ j / 64 < (off + size) / 64 - off / 64 := by omega
      simp only [hw, if_false, BitVec.getLsbD_zero, Bool.false_or]
      by_cases hge : (off + size) / 64 * 64 - off ≤ j
      · simp only [ge_iff_le, hge, decide_true, Bool.true_and]
        split
        · rename_i hlw
          have hpx : PreXNS p ((off + size) / 64 * 64) (size - ((off + size) / 64 * 64 - off)) := ⟨by omega, by omega⟩
          rw [← BitVec.getLsbD, extractNS_getLsbD _ _ _ _ hpx]
          have : ¬ j - ((off + size) / 64 * 64 - off) < size - ((off + size) / 64 * 64 - off) := by omega
          simp [this]
        · simp
      · simp [hge]

theorem extractBigInt_spec (p : Plane) (n off size : Nat) (hin : off + size ≤ 64 * p.length) (hn : off + size ≤ n)
    (hal : size > 64 → off % 64 = 0) :
    extractBigInt p off size = specBigExtract (absPlane p n) off size := by
  apply Nat.eq_of_testBit_eq
  intro j
  rw [extractBigInt_testBit _ _ _ _ hin hal]
  unfold specBigExtract
  rw [bitsToNat_testBit, slice_getD, sBit_absPlane]
  by_cases hj : j < size
  · have : off + j < n := by omega
    simp [hj, this]
  · simp [hj]

/-! ### insertBigInt -/

theorem wordsToNat_lt (ws : List W) : wordsToNat ws < 2 ^ (64 * ws.length) := by
  induction ws with
  | nil => simp [wordsToNat]
  | cons w ws ih =>
    simp only [wordsToNat, List.length_cons]
    have hw := w.isLt
    have : 2 ^ (64 * (ws.length + 1)) = 2^64 * 2 ^ (64 * ws.length) := by
      rw [Nat.mul_add, Nat.pow_add, Nat.mul_comm]
    rw [this]
    have h2 : 2^64 * (wordsToNat ws + 1) ≤ 2^64 * 2 ^ (64 * ws.length) := Nat.mul_le_mul_left _ ih
    rw [Nat.mul_add] at h2
    omega

theorem wordsToNat_natToWords (fuel n : Nat) (h : n < fuel) : wordsToNat (natToWords fuel n) = n := by
  induction fuel generalizing n with
  | zero => omega
  | succ f ih =>
    unfold natToWords
    split
    · rename_i h0; simp [wordsToNat, h0]
    · rename_i h0
      simp only [wordsToNat]
      have hd : n / 2^64 < f := by
        have : n / 2^64 < n := Nat.div_lt_self (by omega) (by decide)
        omega
      rw [ih _ hd, BitVec.toNat_ofNat]
      exact Nat.mod_add_div n (2^64)

theorem natToWords_isEmpty (fuel n : Nat) (h : n < fuel) : (natToWords fuel n).isEmpty = decide (n = 0) := by
  cases fuel with
  | zero => omega
  | succ f =>
    unfold natToWords
    by_cases h0 : n = 0 <;> simp [h0]

theorem wordsToNat_append (a b : List W) : wordsToNat (a ++ b) = wordsToNat a + 2 ^ (64 * a.length) * wordsToNat b := by
  induction a with
  | nil => simp [wordsToNat]
  | cons w ws ih =>
    simp only [List.cons_append, wordsToNat, ih, List.length_cons]
    have : 2 ^ (64 * (ws.length + 1)) = 2^64 * 2 ^ (64 * ws.length) := by
      rw [Nat.mul_add, Nat.pow_add, Nat.mul_comm]
    rw [this, Nat.mul_add, Nat.mul_assoc]
    omega

theorem wordsToNat_replicate_ones (k : Nat) : wordsToNat (List.replicate k (~~~(0#64))) + 1 = 2 ^ (64 * k) := by
  induction k with
  | zero => simp [wordsToNat]
  | succ k ih =>
    simp only [List.replicate_succ, wordsToNat]
    have : 2 ^ (64 * (k + 1)) = 2^64 * 2 ^ (64 * k) := by
      rw [Nat.mul_add, Nat.pow_add, Nat.mul_comm]
    rw [this, ← ih, Nat.mul_add]
    have : (~~~(0#64) : W).toNat = 2^64 - 1 := by decide
    omega

theorem wordsToNat_map_not (ws : List W) : wordsToNat (ws.map (~~~ ·)) + wordsToNat ws + 1 = 2 ^ (64 * ws.length) := by
  induction ws with
  | nil => simp [wordsToNat]
  | cons w ws ih =>
    simp only [List.map_cons, wordsToNat, List.length_cons]
    have : 2 ^ (64 * (ws.length + 1)) = 2^64 * 2 ^ (64 * ws.length) := by
      rw [Nat.mul_add, Nat.pow_add, Nat.mul_comm]
    rw [this, ← ih]
    have hn : (~~~w).toNat = 2^64 - 1 - w.toNat := by
      rw [BitVec.toNat_not]
    have hw := w.isLt
    simp only [Nat.mul_add]
    omega

/-- the two's complement helper: `bitwiseNegation(|v|, width) + 1 = 2^(64·T) − |v|` for some `T` with `64·T ≥ width` -/
theorem bitwiseNegation_succ (a width : Nat) :
    ∃ T, width ≤ 64 * T ∧ a < 2 ^ (64 * T) ∧ bitwiseNegation a width + 1 + a = 2 ^ (64 * T) := by
  unfold bitwiseNegation
  simp only
  let ws := natToWords (a + 1) a
  have ha : wordsToNat ws = a := wordsToNat_natToWords _ _ (by omega)
  have hlt := wordsToNat_lt ws
  refine ⟨ws.length + ((width + 63) / 64 - ws.length), by omega, ?_, ?_⟩
  · rw [ha] at hlt
    exact Nat.lt_of_lt_of_le hlt (Nat.pow_le_pow_right (by decide) (by omega))
  · show wordsToNat (ws.map (~~~ ·) ++ List.replicate ((width + 63) / 64 - (ws.map (~~~ ·)).length) (~~~(0#64))) + 1 + a = _
    rw [wordsToNat_append, List.length_map]
    have h1 := wordsToNat_map_not ws
    have h2 := wordsToNat_replicate_ones ((width + 63) / 64 - ws.length)
    rw [ha] at h1
    rw [Nat.mul_add, Nat.pow_add, ← h2, Nat.mul_add, ← h1]
    omega

/-- the magnitude written by `insertBigInt` is congruent to `v` modulo `2^size` -/
theorem bigM_mod (v : Int) (size : Nat) :
    (if v < 0 then bitwiseNegation v.natAbs size + 1 else v.toNat) % 2 ^ size = (v % (2 ^ size : Int)).toNat := by
  have hpow : ((2 ^ size : Nat) : Int) = (2 : Int) ^ size := by push_cast; rfl
  split
  · rename_i hneg
    obtain ⟨T, hT, _, hsum⟩ := bitwiseNegation_succ v.natAbs size
    generalize bitwiseNegation v.natAbs size + 1 = m at hsum
    have hv : v = -(v.natAbs : Int) := by omega
    have hsplit : 2 ^ (64 * T) = 2 ^ size * 2 ^ (64 * T - size) := by
      rw [← Nat.pow_add]; congr 1; omega
    have hm : (m : Int) = v + (2 : Int) ^ size * ((2 ^ (64 * T - size) : Nat) : Int) := by
      rw [← hpow, ← Int.natCast_mul, ← hsplit, ← hsum]
      push_cast; omega
    have : ((m % 2 ^ size : Nat) : Int) = v % (2 : Int) ^ size := by
      rw [Int.natCast_emod, hm, hpow, Int.add_mul_emod_self_left]
    rw [← this, Int.toNat_natCast]
  · rename_i hpos
    obtain ⟨n, rfl⟩ := Int.eq_ofNat_of_zero_le (by omega : 0 ≤ v)
    rw [← hpow]
    simp only [Int.toNat_natCast]
    rw [← Int.natCast_emod, Int.toNat_natCast]

theorem bigM_testBit (v : Int) (size j : Nat) (hj : j < size) :
    (if v < 0 then bitwiseNegation v.natAbs size + 1 else v.toNat).testBit j = ((v % (2 ^ size : Int)).toNat).testBit j := by
  rw [← bigM_mod, Nat.testBit_mod_two_pow]
  simp [hj]

theorem insertBigIntChunks_length (p : Plane) (off size : Nat) (words : List W) (fuel chunk : Nat) :
    (insertBigIntChunks p off size words fuel chunk).length = p.length := by
  induction fuel generalizing p chunk with
  | zero => simp [insertBigIntChunks]
  | succ f ih =>
    unfold insertBigIntChunks
    split
    · simp only
      rw [ih]
      split <;> simp [insertNS_length, setRange_length]
    · rfl

theorem bit_insertBigIntChunks (p : Plane) (off size : Nat) (words : List W) (fuel chunk i : Nat)
    (hoff : off % 64 = 0) (hch : chunk % 64 = 0 ∨ size ≤ chunk) (hin : off + size ≤ 64 * p.length)
    (hfuel : size ≤ chunk + 64 * fuel) :
    bit (insertBigIntChunks p off size words fuel chunk) i =
      if off + chunk ≤ i ∧ i < off + size then (wordsToNat words).testBit (i - off) else bit p i := by
  induction fuel generalizing p chunk with
  | zero =>
    have : ¬ (off + chunk ≤ i ∧ i < off + size) := by omega
    simp [insertBigIntChunks, this]
  | succ f ih =>
    unfold insertBigIntChunks
    split
    · rename_i hlt
      have hc0 : chunk % 64 = 0 := by omega
      simp only
      have hcs : min 64 (size - chunk) ≤ 64 := Nat.min_le_left _ _
      have hcs2 : min 64 (size - chunk) ≤ size - chunk := Nat.min_le_right _ _
      have hcs3 : 0 < min 64 (size - chunk) := by omega
      generalize hcsdef : min 64 (size - chunk) = cs at *
      have hnext : (chunk + cs) % 64 = 0 ∨ size ≤ chunk + cs := by omega
      rw [ih _ _ hnext (by split <;> simp [insertNS_length, setRange_length, hin]) (by omega)]
      by_cases hin2 : off + (chunk + cs) ≤ i ∧ i < off + size
      · simp only [hin2, and_self, if_true]
        have : off + chunk ≤ i := by omega
        simp [this]
      · simp only [hin2, if_false]
        by_cases hhere : off + chunk ≤ i ∧ i < off + size
        · -- the bit written in this iteration
          have hr : off + chunk ≤ i ∧ i < off + chunk + cs := by omega
          simp only [hhere, and_self, if_true]
          rw [wordsToNat_testBit]
          have e1 : (i - off) / 64 = chunk / 64 := by omega
          have e2 : (i - off) % 64 = i - (off + chunk) := by omega
          rw [e1, e2]
          split
          · rw [bit_insertNS _ _ _ _ _ ⟨by omega, by intro; omega⟩]
            simp [hr]
          · rename_i hw
            rw [bit_setRange _ _ _ _ _ (by unfold InRange; omega)]
            have : words[chunk / 64]? = none := List.getElem?_eq_none (by omega)
            simp [hr, this]
        · simp only [hhere, if_false]
          have hr : ¬ (off + chunk ≤ i ∧ i < off + chunk + cs) := by omega
          split
          · rw [bit_insertNS _ _ _ _ _ ⟨by omega, by intro; omega⟩]
            simp [hr]
          · rw [bit_setRange _ _ _ _ _ (by unfold InRange; omega)]
            simp [hr]
    · rename_i hge
      have : ¬ (off + chunk ≤ i ∧ i < off + size) := by omega
      simp [this]

/-- `insertBigInt` writes `v mod 2^size` (two's complement for negative `v`) into `[off, off+size)` and nothing else -/
theorem bit_insertBigInt (p : Plane) (off size i : Nat) (v : Int) (hin : off + size ≤ 64 * p.length)
    (hal : size > 64 → off % 64 = 0) :
    bit (insertBigInt p off size v) i =
      if off ≤ i ∧ i < off + size then ((v % (2 ^ size : Int)).toNat).testBit (i - off) else bit p i := by
  unfold insertBigInt
  simp only
  generalize hm : (if v < 0 then bitwiseNegation v.natAbs size + 1 else v.toNat) = m
  have hmt : ∀ j, j < size → m.testBit j = ((v % (2 ^ size : Int)).toNat).testBit j := by
    intro j hj; rw [← hm]; exact bigM_testBit v size j hj
  have hw : wordsToNat (natToWords (m + 1) m) = m := wordsToNat_natToWords _ _ (by omega)
  split
  · rename_i hs
    split
    · rename_i he
      rw [natToWords_isEmpty _ _ (by omega)] at he
      have hm0 : m = 0 := by simpa using he
      rw [bit_setRange _ _ _ _ _ hin]
      by_cases hr : off ≤ i ∧ i < off + size
      · simp only [hr, and_self, if_true]
        rw [← hmt _ (by omega), hm0]; simp
      · simp [hr]
    · rename_i he
      rw [bit_insert _ _ _ _ _ ⟨hs, by intro; omega, by intro; omega⟩]
      by_cases hr : off ≤ i ∧ i < off + size
      · simp only [hr, and_self, if_true]
        rw [← hmt _ (by omega)]
        have := wordsToNat_testBit (natToWords (m + 1) m) (i - off)
        rw [hw] at this
        rw [this]
        have e1 : (i - off) / 64 = 0 := by omega
        have e2 : (i - off) % 64 = i - off := by omega
        rw [e1, e2]
        rfl
      · simp [hr]
  · rename_i hs
    rw [bit_insertBigIntChunks _ _ _ _ _ _ _ (hal (by omega)) (Or.inl rfl) hin (by omega), hw]
    by_cases hr : off ≤ i ∧ i < off + size
    · simp only [Nat.add_zero, hr, and_self, if_true]
      exact hmt _ (by omega)
    · simp [hr]

theorem insertBigInt_length (p : Plane) (off size : Nat) (v : Int) : (insertBigInt p off size v).length = p.length := by
  unfold insertBigInt
  simp only
  generalize (if v < 0 then bitwiseNegation v.natAbs size + 1 else v.toNat) = m
  split
  · split
    · exact setRange_length _ _ _ _
    · exact insert_length _ _ _ _
  · exact insertBigIntChunks_length _ _ _ _ _ _

theorem insertBigInt_abs (p : Plane) (n off size : Nat) (v : Int) (hin : off + size ≤ 64 * p.length)
    (hal : size > 64 → off % 64 = 0) :
    absPlane (insertBigInt p off size v) n = specBigInsert (absPlane p n) off size v := by
  unfold specBigInsert
  simp only [absPlane_length]
  apply abs_of_pointwise p
  intro i hi
  rw [bit_insertBigInt _ _ _ _ _ hin hal, sBit_absPlane]
  simp [hi]

/-- write then read: the big-integer round trip returns `v mod 2^size` -/
theorem extract_insertBigInt (p : Plane) (off size : Nat) (v : Int) (hin : off + size ≤ 64 * p.length)
    (hal : size > 64 → off % 64 = 0) :
    extractBigInt (insertBigInt p off size v) off size = (v % (2 ^ size : Int)).toNat := by
  apply Nat.eq_of_testBit_eq
  intro j
  rw [extractBigInt_testBit _ _ _ _ (by rw [insertBigInt_length]; exact hin) hal, bit_insertBigInt _ _ _ _ _ hin hal]
  by_cases hj : j < size
  · have : off ≤ off + j ∧ off + j < off + size := by omega
    simp [hj, this]
  · have hlt : (v % (2 ^ size : Int)).toNat < 2 ^ size := by
      have h1 : v % (2 ^ size : Int) < 2 ^ size := Int.emod_lt_of_pos _ (Int.pow_pos (by decide))
      have h0 : 0 ≤ v % (2 ^ size : Int) := Int.emod_nonneg _ (Int.pow_ne_zero (by decide))
      have hpow : ((2 ^ size : Nat) : Int) = (2 : Int) ^ size := by push_cast; rfl
      omega
    have : (v % (2 ^ size : Int)).toNat < 2 ^ j := Nat.lt_of_lt_of_le hlt (Nat.pow_le_pow_right (by decide) (by omega))
    simp [hj, Nat.testBit_lt_two_pow this]

end Gatery.C18
