import GateryModel.C18.Lemmas2
/-! `compareRange<ExtendedConfig>` (chunked, four planes) decides the bit-by-bit extended comparison. -/
namespace Gatery.C18
open Gatery.Gen

/-- the extended comparison of one bit: don't-care on either side matches anything; otherwise high impedance and definedness
    must agree and, where the source is defined, the values -/
def cmpExtAt (d s : BVS) (dOff sOff j : Nat) : Bool :=
  (bit (s.plane 2) (sOff + j) || bit (d.plane 2) (dOff + j)) ||
  (bit (s.plane 3) (sOff + j) == bit (d.plane 3) (dOff + j) &&
   bit (s.plane 1) (sOff + j) == bit (d.plane 1) (dOff + j) &&
   (!bit (s.plane 1) (sOff + j) || bit (s.plane 0) (sOff + j) == bit (d.plane 0) (dOff + j)))

/-- a word whose bit `j` is `p j` below `chunk` and 0 above is zero iff `p` is false below `chunk` -/
theorem word_test (w : W) (chunk : Nat) (p : Nat → Bool) (h : ∀ j, j < 64 → w.getLsbD j = (decide (j < chunk) && p j)) (hc : chunk ≤ 64) :
    (w != 0#64) = false ↔ ∀ j, j < chunk → p j = false := by
  rw [bne_eq_false_iff_eq, word_zero_iff]
  constructor
  · intro hz j hj
    have := hz j (by omega)
    rw [h j (by omega)] at this
    simpa [hj] using this
  · intro hp j hj
    rw [h j hj]
    by_cases hjc : j < chunk
    · simp [hp j hjc]
    · simp [hjc]

theorem compareChunksExt_spec (d s : BVS) (dOff sOff width fuel offset : Nat)
    (hd : ∀ k, k < 4 → dOff + width ≤ 64 * (d.plane k).length) (hs : ∀ k, k < 4 → sOff + width ≤ 64 * (s.plane k).length)
    (hf : width - offset ≤ 64 * fuel) :
    compareChunksExt d s dOff sOff width fuel offset = true ↔
      ∀ j, offset ≤ j → j < width → cmpExtAt d s dOff sOff j = true := by
  induction fuel generalizing offset with
  | zero =>
    simp only [compareChunksExt, true_iff]
    intro j h1 h2; omega
  | succ f ih =>
    simp only [compareChunksExt]
    split
    · rename_i hlt
      have hc1 : min 64 (width - offset) ≤ 64 := Nat.min_le_left _ _
      have hc2 : min 64 (width - offset) ≤ width - offset := Nat.min_le_right _ _
      have hc3 : min 64 (width - offset) = 64 ∨ min 64 (width - offset) = width - offset := by omega
      generalize hck : min 64 (width - offset) = chunk at *
      have gx : ∀ (q : Plane) (o : Nat) (h : o + width ≤ 64 * q.length) (j : Nat),
          (extract q (o + offset) chunk).getLsbD j = (decide (j < chunk) && bit q (o + offset + j)) :=
        fun q o h j => extract_getLsbD _ _ _ _ ⟨hc1, by omega, by intro; omega⟩
      have gs := fun k (hk : k < 4) => gx (s.plane k) sOff (hs k hk)
      have gd := fun k (hk : k < 4) => gx (d.plane k) dOff (hd k hk)
      -- the three word tests as statements about bits
      have t1 := word_test
        ((extract (s.plane 3) (sOff + offset) chunk ^^^ extract (d.plane 3) (dOff + offset) chunk) &&&
          ~~~(extract (s.plane 2) (sOff + offset) chunk ||| extract (d.plane 2) (dOff + offset) chunk)) chunk
        (fun j => (bit (s.plane 3) (sOff + offset + j) ^^ bit (d.plane 3) (dOff + offset + j)) &&
                  !(bit (s.plane 2) (sOff + offset + j) || bit (d.plane 2) (dOff + offset + j)))
        (by
          intro j hj
          simp only [BitVec.getLsbD_and, BitVec.getLsbD_xor, BitVec.getLsbD_not, BitVec.getLsbD_or, gs 3 (by omega), gd 3 (by omega),
            gs 2 (by omega), gd 2 (by omega), hj, decide_true, Bool.true_and]
          by_cases hjc : j < chunk <;> simp [hjc]) hc1
      have t2 := word_test
        ((extract (s.plane 1) (sOff + offset) chunk ^^^ extract (d.plane 1) (dOff + offset) chunk) &&&
          ~~~(extract (s.plane 2) (sOff + offset) chunk ||| extract (d.plane 2) (dOff + offset) chunk)) chunk
        (fun j => (bit (s.plane 1) (sOff + offset + j) ^^ bit (d.plane 1) (dOff + offset + j)) &&
                  !(bit (s.plane 2) (sOff + offset + j) || bit (d.plane 2) (dOff + offset + j)))
        (by
          intro j hj
          simp only [BitVec.getLsbD_and, BitVec.getLsbD_xor, BitVec.getLsbD_not, BitVec.getLsbD_or, gs 1 (by omega), gd 1 (by omega),
            gs 2 (by omega), gd 2 (by omega), hj, decide_true, Bool.true_and]
          by_cases hjc : j < chunk <;> simp [hjc]) hc1
      have t3 := word_test
        ((extract (s.plane 0) (sOff + offset) chunk ^^^ extract (d.plane 0) (dOff + offset) chunk) &&&
          extract (s.plane 1) (sOff + offset) chunk &&&
          ~~~(extract (s.plane 2) (sOff + offset) chunk ||| extract (d.plane 2) (dOff + offset) chunk)) chunk
        (fun j => (bit (s.plane 0) (sOff + offset + j) ^^ bit (d.plane 0) (dOff + offset + j)) && bit (s.plane 1) (sOff + offset + j) &&
                  !(bit (s.plane 2) (sOff + offset + j) || bit (d.plane 2) (dOff + offset + j)))
        (by
          intro j hj
          simp only [BitVec.getLsbD_and, BitVec.getLsbD_xor, BitVec.getLsbD_not, BitVec.getLsbD_or, gs 0 (by omega), gd 0 (by omega),
            gs 1 (by omega), gs 2 (by omega), gd 2 (by omega), hj, decide_true, Bool.true_and]
          by_cases hjc : j < chunk <;> simp [hjc]) hc1
      -- one chunk + the rest
      have step : (∀ j, offset ≤ j → j < width → cmpExtAt d s dOff sOff j = true) ↔
          ((∀ j, j < chunk → cmpExtAt d s dOff sOff (offset + j) = true) ∧
           (∀ j, offset + chunk ≤ j → j < width → cmpExtAt d s dOff sOff j = true)) := by
        constructor
        · intro h
          exact ⟨fun j hj => h _ (by omega) (by omega), fun j h1 h2 => h j (by omega) h2⟩
        · intro ⟨h1, h2⟩ j hj1 hj2
          by_cases hc : j < offset + chunk
          · have := h1 (j - offset) (by omega)
            rwa [show offset + (j - offset) = j by omega] at this
          · exact h2 j (by omega) hj2
      -- the chunk's bit predicate is the conjunction of the three tests
      have hchunk : (∀ j, j < chunk → cmpExtAt d s dOff sOff (offset + j) = true) ↔
          ((∀ j, j < chunk → ((bit (s.plane 3) (sOff + offset + j) ^^ bit (d.plane 3) (dOff + offset + j)) &&
                  !(bit (s.plane 2) (sOff + offset + j) || bit (d.plane 2) (dOff + offset + j))) = false) ∧
           (∀ j, j < chunk → ((bit (s.plane 1) (sOff + offset + j) ^^ bit (d.plane 1) (dOff + offset + j)) &&
                  !(bit (s.plane 2) (sOff + offset + j) || bit (d.plane 2) (dOff + offset + j))) = false) ∧
           (∀ j, j < chunk → ((bit (s.plane 0) (sOff + offset + j) ^^ bit (d.plane 0) (dOff + offset + j)) && bit (s.plane 1) (sOff + offset + j) &&
                  !(bit (s.plane 2) (sOff + offset + j) || bit (d.plane 2) (dOff + offset + j))) = false)) := by
        constructor
        · intro h
          refine ⟨fun j hj => ?_, fun j hj => ?_, fun j hj => ?_⟩ <;>
          · have := h j hj
            simp only [cmpExtAt, ← Nat.add_assoc] at this
            revert this
            cases bit (s.plane 0) (sOff + offset + j) <;> cases bit (d.plane 0) (dOff + offset + j) <;>
            cases bit (s.plane 1) (sOff + offset + j) <;> cases bit (d.plane 1) (dOff + offset + j) <;>
            cases bit (s.plane 2) (sOff + offset + j) <;> cases bit (d.plane 2) (dOff + offset + j) <;>
            cases bit (s.plane 3) (sOff + offset + j) <;> cases bit (d.plane 3) (dOff + offset + j) <;> decide
        · intro ⟨h1, h2, h3⟩ j hj
          have a1 := h1 j hj
          have a2 := h2 j hj
          have a3 := h3 j hj
          simp only [cmpExtAt, ← Nat.add_assoc]
          revert a1 a2 a3
          cases bit (s.plane 0) (sOff + offset + j) <;> cases bit (d.plane 0) (dOff + offset + j) <;>
          cases bit (s.plane 1) (sOff + offset + j) <;> cases bit (d.plane 1) (dOff + offset + j) <;>
          cases bit (s.plane 2) (sOff + offset + j) <;> cases bit (d.plane 2) (dOff + offset + j) <;>
          cases bit (s.plane 3) (sOff + offset + j) <;> cases bit (d.plane 3) (dOff + offset + j) <;> decide
      rw [step, hchunk, ← t1, ← t2, ← t3]
      have hrest := ih (offset + chunk) (by omega)
      generalize hT1 : (((extract (s.plane 3) (sOff + offset) chunk ^^^ extract (d.plane 3) (dOff + offset) chunk) &&&
          ~~~(extract (s.plane 2) (sOff + offset) chunk ||| extract (d.plane 2) (dOff + offset) chunk)) != 0#64) = T1
      generalize hT2 : (((extract (s.plane 1) (sOff + offset) chunk ^^^ extract (d.plane 1) (dOff + offset) chunk) &&&
          ~~~(extract (s.plane 2) (sOff + offset) chunk ||| extract (d.plane 2) (dOff + offset) chunk)) != 0#64) = T2
      generalize hT3 : (((extract (s.plane 0) (sOff + offset) chunk ^^^ extract (d.plane 0) (dOff + offset) chunk) &&&
          extract (s.plane 1) (sOff + offset) chunk &&&
          ~~~(extract (s.plane 2) (sOff + offset) chunk ||| extract (d.plane 2) (dOff + offset) chunk)) != 0#64) = T3
      rw [← hrest]
      cases T1 <;> cases T2 <;> cases T3 <;> simp
    · rename_i hge
      simp only [true_iff]
      intro j h1 h2; omega

end Gatery.C18
