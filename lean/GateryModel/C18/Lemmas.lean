import GateryModel.C18.Spec
namespace Gatery.C18
open Gatery.Gen

theorem ones_getLsbD (k : Nat) : (18446744073709551615#64).getLsbD k = decide (k < 64) := by
  rw [show (18446744073709551615#64) = BitVec.ofNat 64 (2^64 - 1) from rfl, BitVec.getLsbD_ofNat, Nat.testBit_two_pow_sub_one]
  simp

theorem getLsbD_one_shl_sub_one (c i : Nat) (hc : c < 64) :
    ((((1#64) <<< c) - 1#64)).getLsbD i = decide (i < c) := by
  have h : ((1#64) <<< c) - 1#64 = BitVec.ofNat 64 (2^c - 1) := by
    apply BitVec.eq_of_toNat_eq
    have hp : 2^c < 2^64 := Nat.pow_lt_pow_right (by omega) hc
    have hpos : 0 < 2^c := Nat.pow_pos (by omega)
    simp [BitVec.toNat_sub, BitVec.toNat_shiftLeft, Nat.shiftLeft_eq]
    have : 2^c < 18446744073709551616 := hp
    omega
  rw [h]
  simp [BitVec.getLsbD_ofNat, Nat.testBit_two_pow_sub_one]
  omega

macro "bool_omega" : tactic => `(tactic| (rw [Bool.eq_iff_iff]; simp only [Bool.and_eq_true, Bool.or_eq_true, Bool.not_eq_true', decide_eq_true_eq, decide_eq_false_iff_not, Bool.not_eq_true]; omega))

theorem bitMaskRange_getLsbD (start count i : Nat) :
    (bitMaskRange start count).getLsbD i = (decide (i < 64) && decide (start ≤ i) && decide (i < start + count)) := by
  unfold bitMaskRange
  split
  · simp only [BitVec.getLsbD_shiftLeft, BitVec.reduceNot, ones_getLsbD]
    bool_omega
  · rename_i hc
    have hc : count < 64 := by omega
    simp only [BitVec.getLsbD_shiftLeft, getLsbD_one_shl_sub_one _ _ hc]
    bool_omega

theorem wget_wset (p : Plane) (k j : Nat) (w : W) :
    wget (wset p k w) j = if j = k ∧ k < p.length then w else wget p j := by
  unfold wget wset
  simp only [List.getD_eq_getElem?_getD, List.getElem?_set]
  by_cases h : k = j
  · subst h
    by_cases h2 : k < p.length <;> simp [h2]
  · have : ¬ (j = k) := fun e => h e.symm
    simp [h, this]

theorem wset_length (p : Plane) (k : Nat) (w : W) : (wset p k w).length = p.length := by
  simp [wset]

theorem bitfieldInsert_getLsbD (a v : W) (start count i : Nat) :
    (bitfieldInsert a start count v).getLsbD i =
      if start ≤ i ∧ i < start + count ∧ i < 64 then v.getLsbD (i - start) else a.getLsbD i := by
  unfold bitfieldInsert andNot
  simp only [BitVec.getLsbD_or, BitVec.getLsbD_and, BitVec.getLsbD_not, bitMaskRange_getLsbD, BitVec.getLsbD_shiftLeft]
  by_cases h1 : i < 64 <;> by_cases h2 : start ≤ i <;> by_cases h3 : i < start + count <;> simp [h1, h2, h3]
  all_goals first | omega | (intro; omega) | skip
  all_goals (have := a.getLsbD_of_ge i (by omega); simp_all)

theorem bitfieldExtract_getLsbD (a : W) (start count j : Nat) (hs : start < 256) (hc : count < 256) :
    (bitfieldExtract a start count).getLsbD j = (decide (j < count) && decide (j < 64) && a.getLsbD (start + j)) := by
  unfold bitfieldExtract
  have e1 : start &&& 0xFF = start := by
    have : start &&& 0xFF = start % 256 := Nat.and_two_pow_sub_one_eq_mod start 8
    omega
  have e2 : count &&& 0xFF = count := by
    have : count &&& 0xFF = count % 256 := Nat.and_two_pow_sub_one_eq_mod count 8
    omega
  rw [e1, e2]
  simp only [BitVec.getLsbD_and, BitVec.getLsbD_ushiftRight, bitMaskRange_getLsbD]
  by_cases h1 : j < 64 <;> by_cases h3 : j < count <;> simp [h1, h3]

theorem bit_wset (p : Plane) (k i : Nat) (w : W) (hk : k < p.length) :
    bit (wset p k w) i = if i / 64 = k then w.getLsbD (i % 64) else bit p i := by
  unfold bit
  rw [wget_wset]
  by_cases h : i / 64 = k <;> simp [h, hk]

theorem bit_insertNS (p : Plane) (start size i : Nat) (v : W) (h : PreNS p start size) :
    bit (insertNS p start size v) i =
      if start ≤ i ∧ i < start + size then v.getLsbD (i - start) else bit p i := by
  unfold insertNS
  obtain ⟨h1, h2⟩ := h
  by_cases hs : size = 0
  · simp [hs]; intro; omega
  · simp only [hs, if_false]
    rw [bit_wset _ _ _ _ (h2 hs)]
    by_cases hw : i / 64 = start / 64
    · simp only [hw, if_true, bitfieldInsert_getLsbD]
      have hi : i % 64 < 64 := Nat.mod_lt _ (by omega)
      have e : start % 64 ≤ i % 64 ∧ i % 64 < start % 64 + size ∧ i % 64 < 64 ↔ start ≤ i ∧ i < start + size := by omega
      by_cases hc : start ≤ i ∧ i < start + size
      · rw [if_pos (e.mpr hc), if_pos hc]
        congr 1; omega
      · rw [if_neg (fun x => hc (e.mp x)), if_neg hc]
        unfold bit; rw [hw]
    · simp only [hw, if_false]
      have : ¬ (start ≤ i ∧ i < start + size) := by omega
      rw [if_neg this]

theorem extractNS_getLsbD (p : Plane) (start size j : Nat) (h : PreXNS p start size) :
    (extractNS p start size).getLsbD j = (decide (j < size) && bit p (start + j)) := by
  unfold extractNS
  obtain ⟨h1, h2⟩ := h
  rw [bitfieldExtract_getLsbD _ _ _ _ (by omega) (by omega)]
  by_cases hj : j < size
  · have : j < 64 := by omega
    simp only [hj, this, decide_true, Bool.true_and]
    unfold bit
    have e1 : (start + j) / 64 = start / 64 := by omega
    have e2 : (start + j) % 64 = start % 64 + j := by omega
    rw [e1, e2]
  · simp [hj]


theorem extract_getLsbD (p : Plane) (off size j : Nat) (h : PreX p off size) :
    (extract p off size).getLsbD j = (decide (j < size) && bit p (off + j)) := by
  obtain ⟨h1, h2, h3⟩ := h
  unfold extract
  simp only
  have hwo : off % 64 < 64 := Nat.mod_lt _ (by omega)
  by_cases hj : j < size
  · have hj64 : j < 64 := by omega
    split
    · rename_i hst
      simp only [BitVec.getLsbD_and, BitVec.getLsbD_or, BitVec.getLsbD_ushiftRight, BitVec.getLsbD_shiftLeft, bitMaskRange_getLsbD]
      simp only [hj, hj64, decide_true, Nat.zero_le, Nat.zero_add, Bool.true_and, Bool.and_true]
      unfold bit
      by_cases hin : off % 64 + j < 64
      · have e1 : (off + j) / 64 = off / 64 := by omega
        have e2 : (off + j) % 64 = off % 64 + j := by omega
        have : j < 64 - off % 64 := by omega
        rw [e1, e2]; simp [this]
      · have e1 : (off + j) / 64 = off / 64 + 1 := by omega
        have e2 : (off + j) % 64 = j - (64 - off % 64) := by omega
        have : ¬ j < 64 - off % 64 := by omega
        rw [e1, e2]
        have hz : (wget p (off / 64)).getLsbD (off % 64 + j) = false := BitVec.getLsbD_of_ge _ _ (by omega)
        simp [this, hz]
    · rename_i hst
      simp only [BitVec.getLsbD_and, BitVec.getLsbD_ushiftRight, bitMaskRange_getLsbD]
      simp only [hj, hj64, decide_true, Nat.zero_le, Nat.zero_add, Bool.true_and, Bool.and_true]
      unfold bit
      have e1 : (off + j) / 64 = off / 64 := by omega
      have e2 : (off + j) % 64 = off % 64 + j := by omega
      rw [e1, e2]
  · split <;> simp [BitVec.getLsbD_and, bitMaskRange_getLsbD, hj]

theorem bit_insert (p : Plane) (off size i : Nat) (v : W) (h : PreI p off size) :
    bit (insert p off size v) i = if off ≤ i ∧ i < off + size then v.getLsbD (i - off) else bit p i := by
  obtain ⟨h1, h2, h3⟩ := h
  unfold insert
  simp only
  have hwo : off % 64 < 64 := Nat.mod_lt _ (by omega)
  split
  · rename_i hns
    exact bit_insertNS p off size i v ⟨hns, h2⟩
  · rename_i hst
    have hst : off % 64 + size > 64 := by omega
    have hl1 := h3 hst
    have hl0 : off / 64 < p.length := by omega
    rw [bit_wset _ _ _ _ (by rw [wset_length]; exact hl1)]
    by_cases hw1 : i / 64 = off / 64 + 1
    · simp only [hw1, if_true]
      rw [bitfieldInsert_getLsbD]
      have hi : i % 64 < 64 := Nat.mod_lt _ (by omega)
      by_cases hc : i % 64 < (off % 64 + size) % 64
      · have hin : off ≤ i ∧ i < off + size := by omega
        rw [if_pos ⟨Nat.zero_le _, by omega, hi⟩, if_pos hin]
        simp only [BitVec.getLsbD_ushiftRight]
        congr 1; omega
      · have hin : ¬ (off ≤ i ∧ i < off + size) := by omega
        rw [if_neg (by omega), if_neg hin]
        rw [wget_wset]
        have : ¬ (off / 64 + 1 = off / 64 ∧ off / 64 < p.length) := by omega
        rw [if_neg this]
        unfold bit; rw [hw1]
    · simp only [hw1, if_false]
      rw [bit_wset _ _ _ _ hl0]
      by_cases hw0 : i / 64 = off / 64
      · simp only [hw0, if_true]
        rw [bitfieldInsert_getLsbD]
        have hi : i % 64 < 64 := Nat.mod_lt _ (by omega)
        by_cases hc : off % 64 ≤ i % 64
        · have hin : off ≤ i ∧ i < off + size := by omega
          rw [if_pos ⟨hc, by omega, hi⟩, if_pos hin]
          congr 1; omega
        · have hin : ¬ (off ≤ i ∧ i < off + size) := by omega
          rw [if_neg (by omega), if_neg hin]
          unfold bit; rw [hw0]
      · simp only [hw0, if_false]
        have hin : ¬ (off ≤ i ∧ i < off + size) := by omega
        rw [if_neg hin]

theorem insert_length (p : Plane) (off size : Nat) (v : W) : (insert p off size v).length = p.length := by
  unfold insert insertNS; simp only; split <;> (try split) <;> simp [wset_length]

theorem insertNS_length (p : Plane) (off size : Nat) (v : W) : (insertNS p off size v).length = p.length := by
  unfold insertNS; split <;> simp [wset_length]

theorem fillWords_length (p : Plane) (wo : Nat) (c : W) (n : Nat) : (fillWords p wo c n).length = p.length := by
  induction n with
  | zero => rfl
  | succ n ih => simp [fillWords, wset_length, ih]

theorem bit_fillWords (p : Plane) (wo : Nat) (c : W) (n i : Nat) (h : wo + n ≤ p.length) :
    bit (fillWords p wo c n) i = if wo ≤ i / 64 ∧ i / 64 < wo + n then c.getLsbD (i % 64) else bit p i := by
  induction n with
  | zero => simp [fillWords]; intro; omega
  | succ n ih =>
    simp only [fillWords]
    rw [bit_wset _ _ _ _ (by rw [fillWords_length]; omega)]
    by_cases hw : i / 64 = wo + n
    · simp only [hw, if_true]
      have : wo ≤ wo + n ∧ wo + n < wo + (n + 1) := by omega
      rw [if_pos this]
    · simp only [hw, if_false]
      rw [ih (by omega)]
      by_cases hc : wo ≤ i / 64 ∧ i / 64 < wo + n
      · rw [if_pos hc, if_pos (by omega)]
      · rw [if_neg hc, if_neg (by omega)]

theorem content_getLsbD (b : Bool) (k : Nat) (hk : k < 64) : (if b then ~~~(0#64) else 0#64 : W).getLsbD k = b := by
  cases b
  · simp
  · simp only [if_true, BitVec.reduceNot]; rw [ones_getLsbD]; simp [hk]

theorem bit_setRange (p : Plane) (off size i : Nat) (b : Bool) (h : InRange p off size) :
    bit (setRange p off size b) i = if off ≤ i ∧ i < off + size then b else bit p i := by
  unfold InRange at h
  unfold setRange
  have hcg : ∀ k, k < 64 → (if b then ~~~(0#64) else 0#64 : W).getLsbD k = b := content_getLsbD b
  generalize (if b then ~~~(0#64) else 0#64 : W) = content at hcg
  simp only
  have hi : i % 64 < 64 := Nat.mod_lt _ (by omega)
  by_cases hal : off % 64 = 0
  · -- aligned start: no head segment
    simp only [hal, if_true, Nat.sub_zero]
    by_cases htr : size % 64 > 0
    · simp only [htr, if_true]
      rw [bit_insertNS _ _ _ _ _ ⟨by omega, by intro; rw [fillWords_length]; omega⟩]
      rw [bit_fillWords _ _ _ _ _ (by omega)]
      (repeat' split) <;> first | rfl | (exact hcg _ (by omega)) | (exfalso; omega)
    · simp only [htr, if_false]
      rw [bit_fillWords _ _ _ _ _ (by omega)]
      (repeat' split) <;> first | rfl | (exact hcg _ (by omega)) | (exfalso; omega)
  · simp only [hal, if_false]
    have hfw : min size (64 - off % 64) ≤ size := Nat.min_le_left _ _
    have hfw2 : min size (64 - off % 64) ≤ 64 - off % 64 := Nat.min_le_right _ _
    have hfw3 : min size (64 - off % 64) = size ∨ min size (64 - off % 64) = 64 - off % 64 := by omega
    generalize min size (64 - off % 64) = fw at *
    have hpre1 : PreNS p off fw := by
      refine ⟨by omega, ?_⟩
      intro hne
      omega
    by_cases htr : (size - fw) % 64 > 0
    · simp only [htr, if_true]
      rw [bit_insertNS _ _ _ _ _ ⟨by omega, by intro; rw [fillWords_length, insertNS_length]; omega⟩]
      rw [bit_fillWords _ _ _ _ _ (by rw [insertNS_length]; omega)]
      rw [bit_insertNS _ _ _ _ _ hpre1]
      (repeat' split) <;> first | rfl | (exact hcg _ (by omega)) | (exfalso; omega)
    · simp only [htr, if_false]
      rw [bit_fillWords _ _ _ _ _ (by rw [insertNS_length]; omega)]
      rw [bit_insertNS _ _ _ _ _ hpre1]
      (repeat' split) <;> first | rfl | (exact hcg _ (by omega)) | (exfalso; omega)

theorem copyChunks_length (dst src : Plane) (dOff sOff width fuel offset : Nat) :
    (copyChunks dst src dOff sOff width fuel offset).length = dst.length := by
  induction fuel generalizing dst offset with
  | zero => rfl
  | succ f ih =>
    simp only [copyChunks]
    split
    · rw [ih, insert_length]
    · rfl

theorem bit_copyChunks (dst src : Plane) (dOff sOff width fuel offset i : Nat)
    (hd : dOff + width ≤ 64 * dst.length) (hs : sOff + width ≤ 64 * src.length)
    (hf : width - offset ≤ 64 * fuel) :
    bit (copyChunks dst src dOff sOff width fuel offset) i =
      if dOff + offset ≤ i ∧ i < dOff + width then bit src (sOff + (i - dOff)) else bit dst i := by
  induction fuel generalizing dst offset with
  | zero =>
    simp only [copyChunks]
    have : ¬ (dOff + offset ≤ i ∧ i < dOff + width) := by omega
    rw [if_neg this]
  | succ f ih =>
    simp only [copyChunks]
    split
    · rename_i hlt
      have hc1 : min 64 (width - offset) ≤ 64 := Nat.min_le_left _ _
      have hc2 : min 64 (width - offset) ≤ width - offset := Nat.min_le_right _ _
      have hc3 : min 64 (width - offset) = 64 ∨ min 64 (width - offset) = width - offset := by omega
      generalize hck : min 64 (width - offset) = chunk at *
      have hpi : PreI dst (dOff + offset) chunk := ⟨hc1, by intro; omega, by intro; omega⟩
      have hpx : PreX src (sOff + offset) chunk := ⟨hc1, by omega, by intro; omega⟩
      rw [ih _ _ (by rw [insert_length]; exact hd) (by omega)]
      rw [bit_insert _ _ _ _ _ hpi]
      by_cases hA : dOff + (offset + chunk) ≤ i ∧ i < dOff + width
      · rw [if_pos hA, if_pos (by omega)]
      · rw [if_neg hA]
        by_cases hB : dOff + offset ≤ i ∧ i < dOff + offset + chunk
        · rw [if_pos hB, if_pos (by omega), extract_getLsbD _ _ _ _ hpx]
          have : i - (dOff + offset) < chunk := by omega
          simp only [this, decide_true, Bool.true_and]
          congr 1; omega
        · rw [if_neg hB, if_neg (by omega)]
    · rename_i hge
      have : ¬ (dOff + offset ≤ i ∧ i < dOff + width) := by omega
      rw [if_neg this]

theorem memcpyBytes_length (dst src : Plane) (db sb n : Nat) : (memcpyBytes dst src db sb n).length = dst.length := by
  induction n with
  | zero => rfl
  | succ n ih => simp [memcpyBytes, insertNS_length, ih]

theorem bit_memcpyBytes (dst src : Plane) (db sb n i : Nat)
    (hd : (db + n) * 8 ≤ 64 * dst.length) (hs : (sb + n) * 8 ≤ 64 * src.length) :
    bit (memcpyBytes dst src db sb n) i =
      if db * 8 ≤ i ∧ i < (db + n) * 8 then bit src (sb * 8 + (i - db * 8)) else bit dst i := by
  induction n with
  | zero => simp [memcpyBytes]; intro; omega
  | succ n ih =>
    simp only [memcpyBytes]
    have hpn : PreNS (memcpyBytes dst src db sb n) ((db + n) * 8) 8 := ⟨by omega, by intro; rw [memcpyBytes_length]; omega⟩
    have hpx : PreXNS src ((sb + n) * 8) 8 := ⟨by omega, by omega⟩
    rw [bit_insertNS _ _ _ _ _ hpn, ih (by omega) (by omega)]
    by_cases hA : (db + n) * 8 ≤ i ∧ i < (db + n) * 8 + 8
    · rw [if_pos hA, if_pos (by omega), extractNS_getLsbD _ _ _ _ hpx]
      have : i - (db + n) * 8 < 8 := by omega
      simp only [this, decide_true, Bool.true_and]
      congr 1; omega
    · rw [if_neg hA]
      by_cases hB : db * 8 ≤ i ∧ i < (db + n) * 8
      · rw [if_pos hB, if_pos (by omega)]
      · rw [if_neg hB, if_neg (by omega)]

theorem bit_copyRange (dst src : Plane) (dOff sOff size i : Nat)
    (hd : dOff + size ≤ 64 * dst.length) (hs : sOff + size ≤ 64 * src.length) :
    bit (copyRange dst src dOff sOff size) i =
      if dOff ≤ i ∧ i < dOff + size then bit src (sOff + (i - dOff)) else bit dst i := by
  unfold copyRange
  split
  · rename_i hb
    obtain ⟨hb1, hb2, hb3⟩ := hb
    simp only
    rw [bit_copyChunks _ _ _ _ _ _ _ _ (by rw [memcpyBytes_length]; omega) (by omega) (by omega)]
    rw [bit_memcpyBytes _ _ _ _ _ _ (by omega) (by omega)]
    by_cases hA : dOff + size / 8 * 8 + 0 ≤ i ∧ i < dOff + size / 8 * 8 + (size - size / 8 * 8)
    · rw [if_pos hA, if_pos (by omega)]
      congr 1; omega
    · rw [if_neg hA]
      by_cases hB : dOff / 8 * 8 ≤ i ∧ i < (dOff / 8 + size / 8) * 8
      · rw [if_pos hB, if_pos (by omega)]
        congr 1; omega
      · rw [if_neg hB, if_neg (by omega)]
  · rw [bit_copyChunks _ _ _ _ _ _ _ _ hd hs (by omega)]
    simp


theorem wget_of_ge (p : Plane) (k : Nat) (h : p.length ≤ k) : wget p k = 0#64 := by
  unfold wget; simp [List.getD_eq_getElem?_getD, List.getElem?_eq_none h]

theorem bit_of_ge (p : Plane) (i : Nat) (h : 64 * p.length ≤ i) : bit p i = false := by
  unfold bit; rw [wget_of_ge _ _ (by omega)]; simp

theorem resizePlane_length (p : Plane) (n : Nat) : (resizePlane p n).length = (n + 63) / 64 := by
  unfold resizePlane
  simp only
  split <;> split <;> simp [wset_length] <;> omega

theorem wget_take (p : Plane) (n k : Nat) : wget (p.take n) k = if k < n then wget p k else 0#64 := by
  unfold wget
  simp only [List.getD_eq_getElem?_getD, List.getElem?_take]
  split <;> simp

theorem wget_append_replicate (p : Plane) (m k : Nat) : wget (p ++ List.replicate m 0#64) k = wget p k := by
  unfold wget
  simp only [List.getD_eq_getElem?_getD, List.getElem?_append]
  split
  · rfl
  · rename_i h
    have : p[k]? = none := List.getElem?_eq_none (by omega)
    rw [this]
    simp [List.getElem?_replicate]
    split <;> simp

theorem bit_resizePlane (p : Plane) (n i : Nat) :
    bit (resizePlane p n) i = (decide (i < n) && bit p i) := by
  unfold resizePlane
  simp only
  have hi : i % 64 < 64 := Nat.mod_lt _ (by omega)
  -- the plane after vector::resize
  have hq : ∀ k, wget (if (n + 63) / 64 ≤ p.length then p.take ((n + 63) / 64) else p ++ List.replicate ((n + 63) / 64 - p.length) 0#64) k
      = if k < (n + 63) / 64 then wget p k else 0#64 := by
    intro k
    split
    · exact wget_take _ _ _
    · rw [wget_append_replicate]
      split
      · rfl
      · exact wget_of_ge _ _ (by omega)
  have hql : (if (n + 63) / 64 ≤ p.length then p.take ((n + 63) / 64) else p ++ List.replicate ((n + 63) / 64 - p.length) 0#64).length = (n + 63) / 64 := by
    split <;> simp <;> omega
  generalize (if (n + 63) / 64 ≤ p.length then p.take ((n + 63) / 64) else p ++ List.replicate ((n + 63) / 64 - p.length) 0#64) = q at hq hql
  split
  · rename_i hm
    rw [bit_wset _ _ _ _ (by omega)]
    split
    · rename_i hw
      simp only [BitVec.getLsbD_and, bitMaskRange_getLsbD, hq]
      have : (n + 63) / 64 - 1 < (n + 63) / 64 := by omega
      simp only [this, if_true, hi, decide_true, Nat.zero_le, Nat.zero_add, Bool.true_and]
      unfold bit
      rw [hw]
      have e : (i % 64 < n % 64) ↔ i < n := by omega
      by_cases hc : i < n
      · simp [hc, e.mpr hc, Bool.and_comm]
      · have : ¬ (i % 64 < n % 64) := fun x => hc (e.mp x)
        simp [hc, this]
    · rename_i hw
      unfold bit
      rw [hq]
      by_cases hc : i < n
      · have : i / 64 < (n + 63) / 64 := by omega
        simp [hc, this]
      · have : ¬ i / 64 < (n + 63) / 64 := by omega
        simp [hc, this]
  · rename_i hm
    unfold bit
    rw [hq]
    by_cases hc : i < n
    · have : i / 64 < (n + 63) / 64 := by omega
      simp [hc, this]
    · have : ¬ i / 64 < (n + 63) / 64 := by omega
      simp [hc, this]

end Gatery.C18
