import GateryModel.C18.Spec
namespace Gatery.C18
open Gatery.Gen

theorem ones_getLsbD (k : Nat) : (18446744073709551615#64).getLsbD k = decide (k < 64) := by
  rw [show (18446744073709551615#64) = BitVec.ofNat 64 (2^64 - 1) from rfl, BitVec.getLsbD_ofNat, Nat.testBit_two_pow_sub_one]
  simp

theorem getLsbD_one_shl_sub_one (c i : Nat) (hc : c < 64) :
    ((((1#64) <<< c) - 1#64)).getLsbD i = decide (i < c) := by
  have h : ((1#64) <<< c) - 1#64 = BitVec.ofNat 64 (2^c - 1) := by
    apply BitVec.eq_of_toNat_eq
    have hp : 2^c < 2^64 := Nat.pow_lt_pow_right (by omega) hc
    have hpos : 0 < 2^c := Nat.pow_pos (by omega)
    simp [BitVec.toNat_sub, BitVec.toNat_shiftLeft, Nat.shiftLeft_eq]
    have : 2^c < 18446744073709551616 := hp
    omega
  rw [h]
  simp [BitVec.getLsbD_ofNat, Nat.testBit_two_pow_sub_one]
  omega

macro "bool_omega" : tactic => `(tactic| (rw [Bool.eq_iff_iff]; simp only [Bool.and_eq_true, Bool.or_eq_true, Bool.not_eq_true', decide_eq_true_eq, decide_eq_false_iff_not, Bool.not_eq_true]; omega))

theorem bitMaskRange_getLsbD (start count i : Nat) :
    (bitMaskRange start count).getLsbD i = (decide (i < 64) && decide (start ≤ i) && decide (i < start + count)) := by
  unfold bitMaskRange
  split
  · simp only [BitVec.getLsbD_shiftLeft, BitVec.reduceNot, ones_getLsbD]
    bool_omega
  · rename_i hc
    have hc : count < 64 := by omega
    simp only [BitVec.getLsbD_shiftLeft, getLsbD_one_shl_sub_one _ _ hc]
    bool_omega

theorem wget_wset (p : Plane) (k j : Nat) (w : W) :
    wget (wset p k w) j = if j = k ∧ k < p.length then w else wget p j := by
  unfold wget wset
  simp only [List.getD_eq_getElem?_getD, List.getElem?_set]
  by_cases h : k = j
  · subst h
    by_cases h2 : k < p.length <;> simp [h2]
  · have : ¬ (j = k) := fun e => h e.symm
    simp [h, this]

theorem wset_length (p : Plane) (k : Nat) (w : W) : (wset p k w).length = p.length := by
  simp [wset]

theorem bitfieldInsert_getLsbD (a v : W) (start count i : Nat) :
    (bitfieldInsert a start count v).getLsbD i =
      if start ≤ i ∧ i < start + count ∧ i < 64 then v.getLsbD (i - start) else a.getLsbD i := by
  unfold bitfieldInsert andNot
  simp only [BitVec.getLsbD_or, BitVec.getLsbD_and, BitVec.getLsbD_not, bitMaskRange_getLsbD, BitVec.getLsbD_shiftLeft]
  by_cases h1 : i < 64 <;> by_cases h2 : start ≤ i <;> by_cases h3 : i < start + count <;> simp [h1, h2, h3]
  all_goals first | omega | (intro; omega) | skip
  all_goals (have := a.getLsbD_of_ge i (by omega); simp_all)

theorem bitfieldExtract_getLsbD (a : W) (start count j : Nat) (hs : start < 256) (hc : count < 256) :
    (bitfieldExtract a start count).getLsbD j = (decide (j < count) && decide (j < 64) && a.getLsbD (start + j)) := by
  unfold bitfieldExtract
  have e1 : start &&& 0xFF = start := by
    have : start &&& 0xFF = start % 256 := Nat.and_two_pow_sub_one_eq_mod start 8
    omega
  have e2 : count &&& 0xFF = count := by
    have : count &&& 0xFF = count % 256 := Nat.and_two_pow_sub_one_eq_mod count 8
    omega
  rw [e1, e2]
  simp only [BitVec.getLsbD_and, BitVec.getLsbD_ushiftRight, bitMaskRange_getLsbD]
  by_cases h1 : j < 64 <;> by_cases h3 : j < count <;> simp [h1, h3]

theorem bit_wset (p : Plane) (k i : Nat) (w : W) (hk : k < p.length) :
    bit (wset p k w) i = if i / 64 = k then w.getLsbD (i % 64) else bit p i := by
  unfold bit
  rw [wget_wset]
  by_cases h : i / 64 = k <;> simp [h, hk]

theorem bit_insertNS (p : Plane) (start size i : Nat) (v : W) (h : PreNS p start size) :
    bit (insertNS p start size v) i =
      if start ≤ i ∧ i < start + size then v.getLsbD (i - start) else bit p i := by
  unfold insertNS
  obtain ⟨h1, h2⟩ := h
  by_cases hs : size = 0
  · simp [hs]; intro; omega
  · simp only [hs, if_false]
    rw [bit_wset _ _ _ _ (h2 hs)]
    by_cases hw : i / 64 = start / 64
    · simp only [hw, if_true, bitfieldInsert_getLsbD]
      have hi : i % 64 < 64 := Nat.mod_lt _ (by omega)
      have e : start % 64 ≤ i % 64 ∧ i % 64 < start % 64 + size ∧ i % 64 < 64 ↔ start ≤ i ∧ i < start + size := by omega
      by_cases hc : start ≤ i ∧ i < start + size
      · rw [if_pos (e.mpr hc), if_pos hc]
        congr 1; omega
      · rw [if_neg (fun x => hc (e.mp x)), if_neg hc]
        unfold bit; rw [hw]
    · simp only [hw, if_false]
      have : ¬ (start ≤ i ∧ i < start + size) := by omega
      rw [if_neg this]

theorem extractNS_getLsbD (p : Plane) (start size j : Nat) (h : PreXNS p start size) :
    (extractNS p start size).getLsbD j = (decide (j < size) && bit p (start + j)) := by
  unfold extractNS
  obtain ⟨h1, h2⟩ := h
  rw [bitfieldExtract_getLsbD _ _ _ _ (by omega) (by omega)]
  by_cases hj : j < size
  · have : j < 64 := by omega
    simp only [hj, this, decide_true, Bool.true_and]
    unfold bit
    have e1 : (start + j) / 64 = start / 64 := by omega
    have e2 : (start + j) % 64 = start % 64 + j := by omega
    rw [e1, e2]
  · simp [hj]

end Gatery.C18
