import GateryModel.C18.Lemmas
namespace Gatery.C18
open Gatery.Gen

theorem absPlane_length (p : Plane) (n : Nat) : (absPlane p n).length = n := by simp [absPlane]

theorem sBit_absPlane (p : Plane) (n i : Nat) : sBit (absPlane p n) i = (decide (i < n) && bit p i) := by
  unfold sBit absPlane
  by_cases h : i < n
  · simp [List.getD_eq_getElem?_getD, h]
  · simp [List.getD_eq_getElem?_getD, h]

theorem absPlane_congr (p q : Plane) (n : Nat) (h : ∀ i, i < n → bit p i = bit q i) : absPlane p n = absPlane q n := by
  unfold absPlane
  apply List.map_congr_left
  intro i hi
  exact h i (by simpa using hi)

/-- generic lifting: a plane transformer whose bits are given pointwise by `f` on the old abstraction -/
theorem abs_of_pointwise (p q : Plane) (n : Nat) (f : Nat → Bool)
    (h : ∀ i, i < n → bit q i = f i) : absPlane q n = (List.range n).map f := by
  unfold absPlane
  apply List.map_congr_left
  intro i hi
  exact h i (by simpa using hi)

theorem setRange_abs (p : Plane) (n off size : Nat) (b : Bool) (h : InRange p off size) :
    absPlane (setRange p off size b) n = specSetRange (absPlane p n) off size b := by
  unfold specSetRange
  rw [absPlane_length]
  apply abs_of_pointwise p
  intro i hi
  rw [bit_setRange _ _ _ _ _ h, sBit_absPlane]
  simp [hi]

theorem insert_abs (p : Plane) (n off size : Nat) (v : W) (h : PreI p off size) :
    absPlane (insert p off size v) n = specInsert (absPlane p n) off size v := by
  unfold specInsert
  rw [absPlane_length]
  apply abs_of_pointwise p
  intro i hi
  rw [bit_insert _ _ _ _ _ h, sBit_absPlane]
  simp [hi]

theorem insertNS_abs (p : Plane) (n off size : Nat) (v : W) (h : PreNS p off size) :
    absPlane (insertNS p off size v) n = specInsert (absPlane p n) off size v := by
  unfold specInsert
  rw [absPlane_length]
  apply abs_of_pointwise p
  intro i hi
  rw [bit_insertNS _ _ _ _ _ h, sBit_absPlane]
  simp [hi]

theorem copyRange_abs (dst src : Plane) (n m dOff sOff size : Nat)
    (hd : dOff + size ≤ 64 * dst.length) (hs : sOff + size ≤ 64 * src.length) (hm : sOff + size ≤ m) :
    absPlane (copyRange dst src dOff sOff size) n = specCopy (absPlane dst n) (absPlane src m) dOff sOff size := by
  unfold specCopy
  rw [absPlane_length]
  apply abs_of_pointwise dst
  intro i hi
  rw [bit_copyRange _ _ _ _ _ _ hd hs, sBit_absPlane, sBit_absPlane]
  by_cases hc : dOff ≤ i ∧ i < dOff + size
  · have : sOff + (i - dOff) < m := by omega
    simp [hc, this]
  · simp [hc, hi]

/-- representation invariant kept by `resize`: bits past the logical size are zero -/
def Clean (p : Plane) (n : Nat) : Prop := ∀ i, n ≤ i → bit p i = false

theorem resize_abs (p : Plane) (n m : Nat) (hc : Clean p n) :
    absPlane (resizePlane p m) m = specResize (absPlane p n) m := by
  unfold specResize
  rw [absPlane_length]
  apply abs_of_pointwise p
  intro i hi
  rw [bit_resizePlane, sBit_absPlane]
  by_cases hlt : i < n
  · simp [hi, hlt]
  · simp [hi, hlt, hc i (by omega)]

theorem resize_clean (p : Plane) (m : Nat) : Clean (resizePlane p m) m := by
  intro i hi
  rw [bit_resizePlane]
  have : ¬ i < m := by omega
  simp [this]

theorem bitsToNat_testBit (l : Bits) (j : Nat) : (bitsToNat l).testBit j = l.getD j false := by
  induction l generalizing j with
  | nil => simp [bitsToNat]
  | cons x xs ih =>
    cases j with
    | zero =>
      simp only [bitsToNat, Nat.testBit_zero, List.getD_cons_zero]
      cases x <;> simp <;> omega
    | succ j =>
      simp only [bitsToNat, Nat.testBit_succ, List.getD_cons_succ]
      have : ((if x = true then 1 else 0) + 2 * bitsToNat xs) / 2 = bitsToNat xs := by
        cases x <;> simp <;> omega
      rw [this, ih]

theorem slice_getD (b : Bits) (off size j : Nat) : (slice b off size).getD j false = (decide (j < size) && sBit b (off + j)) := by
  unfold slice
  by_cases h : j < size
  · simp [List.getD_eq_getElem?_getD, h]
  · simp [List.getD_eq_getElem?_getD, h]

theorem specExtract_getLsbD (b : Bits) (off size j : Nat) :
    (specExtract b off size).getLsbD j = (decide (j < 64) && decide (j < size) && sBit b (off + j)) := by
  unfold specExtract
  rw [BitVec.getLsbD_ofNat, bitsToNat_testBit, slice_getD]
  simp [Bool.and_assoc]

theorem extract_spec_eq (p : Plane) (n off size : Nat) (h : PreX p off size) (hn : off + size ≤ n) :
    extract p off size = specExtract (absPlane p n) off size := by
  apply BitVec.eq_of_getLsbD_eq
  intro j hj
  rw [extract_getLsbD _ _ _ _ h, specExtract_getLsbD, sBit_absPlane]
  by_cases hc : j < size
  · have : off + j < n := by omega
    simp [hc, hj, this]
  · simp [hc]

theorem extractNS_spec_eq (p : Plane) (n off size : Nat) (h : PreXNS p off size) (hn : off + size ≤ n) :
    extractNS p off size = specExtract (absPlane p n) off size := by
  apply BitVec.eq_of_getLsbD_eq
  intro j hj
  rw [extractNS_getLsbD _ _ _ _ h, specExtract_getLsbD, sBit_absPlane]
  by_cases hc : j < size
  · have : off + j < n := by omega
    simp [hc, hj, this]
  · simp [hc]

theorem word_eq_iff (a b : W) : a = b ↔ ∀ j, j < 64 → a.getLsbD j = b.getLsbD j :=
  ⟨fun h _ _ => by rw [h], fun h => BitVec.eq_of_getLsbD_eq (fun j hj => h j hj)⟩

theorem word_zero_iff (a : W) : a = 0#64 ↔ ∀ j, j < 64 → a.getLsbD j = false := by
  rw [word_eq_iff]; simp

/-- pointwise predicate of the DefaultConfig comparison at relative bit `j` -/
def cmpDefAt (dv dd sv sd : Plane) (dOff sOff j : Nat) : Bool :=
  bit sd (sOff + j) == bit dd (dOff + j) && (!bit sd (sOff + j) || bit sv (sOff + j) == bit dv (dOff + j))

theorem compareChunksDefault_spec (dv dd sv sd : Plane) (dOff sOff width fuel offset : Nat)
    (hdv : dOff + width ≤ 64 * dv.length) (hdd : dOff + width ≤ 64 * dd.length)
    (hsv : sOff + width ≤ 64 * sv.length) (hsd : sOff + width ≤ 64 * sd.length)
    (hf : width - offset ≤ 64 * fuel) :
    compareChunksDefault dv dd sv sd dOff sOff width fuel offset = true ↔
      ∀ j, offset ≤ j → j < width → cmpDefAt dv dd sv sd dOff sOff j = true := by
  induction fuel generalizing offset with
  | zero =>
    simp only [compareChunksDefault, true_iff]
    intro j h1 h2; omega
  | succ f ih =>
    simp only [compareChunksDefault]
    split
    · rename_i hlt
      have hc1 : min 64 (width - offset) ≤ 64 := Nat.min_le_left _ _
      have hc2 : min 64 (width - offset) ≤ width - offset := Nat.min_le_right _ _
      have hc3 : min 64 (width - offset) = 64 ∨ min 64 (width - offset) = width - offset := by omega
      generalize hck : min 64 (width - offset) = chunk at *
      have px : ∀ (q : Plane) (o : Nat), o + width ≤ 64 * q.length → PreX q (o + offset) chunk :=
        fun q o h => ⟨hc1, by omega, by intro; omega⟩
      have gx : ∀ (q : Plane) (o : Nat) (h : o + width ≤ 64 * q.length) (j : Nat),
          (extract q (o + offset) chunk).getLsbD j = (decide (j < chunk) && bit q (o + offset + j)) :=
        fun q o h j => extract_getLsbD _ _ _ _ (px q o h)
      -- the two word tests as statements about bits
      have t1 : (extract sd (sOff + offset) chunk != extract dd (dOff + offset) chunk) = false ↔
          ∀ j, j < chunk → bit sd (sOff + offset + j) = bit dd (dOff + offset + j) := by
        rw [bne_eq_false_iff_eq, word_eq_iff]
        constructor
        · intro h j hj
          have := h j (by omega)
          rw [gx _ _ hsd, gx _ _ hdd] at this
          simpa [hj] using this
        · intro h j hj
          rw [gx _ _ hsd, gx _ _ hdd]
          by_cases hjc : j < chunk
          · simp [hjc, h j hjc]
          · simp [hjc]
      have t2 : (((extract sv (sOff + offset) chunk ^^^ extract dv (dOff + offset) chunk) &&& extract sd (sOff + offset) chunk) != 0#64) = false ↔
          ∀ j, j < chunk → (bit sd (sOff + offset + j) = true → bit sv (sOff + offset + j) = bit dv (dOff + offset + j)) := by
        rw [bne_eq_false_iff_eq, word_zero_iff]
        constructor
        · intro h j hj hd
          have := h j (by omega)
          simp only [BitVec.getLsbD_and, BitVec.getLsbD_xor, gx _ _ hsv, gx _ _ hdv, gx _ _ hsd, hj, decide_true, Bool.true_and, hd, Bool.and_true] at this
          cases h1 : bit sv (sOff + offset + j) <;> cases h2 : bit dv (dOff + offset + j) <;> simp_all
        · intro h j hj
          simp only [BitVec.getLsbD_and, BitVec.getLsbD_xor, gx _ _ hsv, gx _ _ hdv, gx _ _ hsd]
          by_cases hjc : j < chunk
          · have := h j hjc
            cases h0 : bit sd (sOff + offset + j) <;> simp_all
          · simp [hjc]
      have step : (∀ j, offset ≤ j → j < width → cmpDefAt dv dd sv sd dOff sOff j = true) ↔
          ((∀ j, j < chunk → cmpDefAt dv dd sv sd dOff sOff (offset + j) = true) ∧
           (∀ j, offset + chunk ≤ j → j < width → cmpDefAt dv dd sv sd dOff sOff j = true)) := by
        constructor
        · intro h
          exact ⟨fun j hj => h _ (by omega) (by omega), fun j h1 h2 => h j (by omega) h2⟩
        · intro ⟨h1, h2⟩ j hj1 hj2
          by_cases hc : j < offset + chunk
          · have := h1 (j - offset) (by omega)
            rwa [show offset + (j - offset) = j by omega] at this
          · exact h2 j (by omega) hj2
      rw [step]
      by_cases hA : (extract sd (sOff + offset) chunk != extract dd (dOff + offset) chunk) = true
      · simp only [hA, if_true]
        have : ¬ (∀ j, j < chunk → bit sd (sOff + offset + j) = bit dd (dOff + offset + j)) := by
          intro h; rw [← t1] at h; simp [h] at hA
        simp only [Bool.false_eq_true, false_iff]
        intro ⟨h1, _⟩
        apply this
        intro j hj
        have := h1 j hj
        simp only [cmpDefAt, Bool.and_eq_true, beq_iff_eq, Nat.add_assoc] at this
        simpa [Nat.add_assoc] using this.1
      · have hA' : (extract sd (sOff + offset) chunk != extract dd (dOff + offset) chunk) = false := by simpa using hA
        simp only [hA', Bool.false_eq_true, if_false]
        by_cases hB : (((extract sv (sOff + offset) chunk ^^^ extract dv (dOff + offset) chunk) &&& extract sd (sOff + offset) chunk) != 0#64) = true
        · simp only [hB, if_true, Bool.false_eq_true, false_iff]
          intro ⟨h1, _⟩
          have : ¬ (∀ j, j < chunk → (bit sd (sOff + offset + j) = true → bit sv (sOff + offset + j) = bit dv (dOff + offset + j))) := by
            intro h; rw [← t2] at h; simp [h] at hB
          apply this
          intro j hj hd
          have := h1 j hj
          simp only [cmpDefAt, Bool.and_eq_true, Bool.or_eq_true, Bool.not_eq_true', beq_iff_eq, Nat.add_assoc] at this
          rcases this.2 with h0 | h0
          · rw [Nat.add_assoc] at hd; simp [hd] at h0
          · simpa [Nat.add_assoc] using h0
        · have hB' : (((extract sv (sOff + offset) chunk ^^^ extract dv (dOff + offset) chunk) &&& extract sd (sOff + offset) chunk) != 0#64) = false := by simpa using hB
          simp only [hB', Bool.false_eq_true, if_false]
          rw [ih _ (by omega)]
          constructor
          · intro h
            refine ⟨?_, h⟩
            intro j hj
            have e1 := (t1.mp hA') j hj
            have e2 := (t2.mp hB') j hj
            simp only [cmpDefAt, Bool.and_eq_true, Bool.or_eq_true, Bool.not_eq_true', beq_iff_eq, ← Nat.add_assoc]
            refine ⟨e1, ?_⟩
            cases h0 : bit sd (sOff + offset + j)
            · exact Or.inl rfl
            · exact Or.inr (e2 h0)
          · intro ⟨_, h⟩; exact h
    · rename_i hge
      simp only [true_iff]
      intro j h1 h2; omega

end Gatery.C18
