import GateryModel.C18.Seq
/-! Scans, equality, state-level extract / insert / append. -/
namespace Gatery.C18
open Gatery.Gen

theorem range_all_iff (n : Nat) (f : Nat → Bool) : (List.range n).all f = true ↔ ∀ j, j < n → f j = true := by
  simp [List.all_eq_true]

theorem scanRange_spec (p : Plane) (start size : Nat) (wt : W → Bool) (bt : Bool → Bool)
    (hwt : ∀ w : W, wt w = true ↔ ∀ k, k < 64 → bt (w.getLsbD k) = true) :
    scanRange p start size wt bt = true ↔ ∀ j, j < size → bt (bit p (start + j)) = true := by
  unfold scanRange
  simp only
  split
  · rename_i hlt
    simp only [Bool.and_eq_true, range_all_iff]
    constructor
    · intro ⟨⟨hfull, hhead⟩, htail⟩ j hj
      by_cases h1 : start + j < (start + 63) / 64 * 64
      · have := hhead (j) (by omega); exact this
      · by_cases h2 : start + j < (start + size) / 64 * 64
        · -- inside a full word
          have hc := hfull ((start + j) / 64 - (start + 63) / 64 * 64 / 64) (by omega)
          rw [hwt] at hc
          have := hc ((start + j) % 64) (Nat.mod_lt _ (by omega))
          unfold bit
          have e : (start + 63) / 64 * 64 / 64 + ((start + j) / 64 - (start + 63) / 64 * 64 / 64) = (start + j) / 64 := by omega
          rw [e] at this; exact this
        · have := htail (start + j - (start + size) / 64 * 64) (by omega)
          rw [show (start + size) / 64 * 64 + (start + j - (start + size) / 64 * 64) = start + j by omega] at this
          exact this
    · intro h
      refine ⟨⟨?_, ?_⟩, ?_⟩
      · intro c hc
        rw [hwt]
        intro k hk
        have := h (((start + 63) / 64 * 64 / 64 + c) * 64 + k - start) (by omega)
        rw [show start + (((start + 63) / 64 * 64 / 64 + c) * 64 + k - start) = ((start + 63) / 64 * 64 / 64 + c) * 64 + k by omega] at this
        unfold bit at this
        rw [show (((start + 63) / 64 * 64 / 64 + c) * 64 + k) / 64 = (start + 63) / 64 * 64 / 64 + c by omega,
            show (((start + 63) / 64 * 64 / 64 + c) * 64 + k) % 64 = k by omega] at this
        exact this
      · intro i hi; exact h i (by omega)
      · intro i hi
        have := h ((start + size) / 64 * 64 + i - start) (by omega)
        rw [show start + ((start + size) / 64 * 64 + i - start) = (start + size) / 64 * 64 + i by omega] at this
        exact this
  · simp only [range_all_iff]

theorem allOnes_word_iff (w : W) : (~~~w == 0#64) = true ↔ ∀ k, k < 64 → (fun b : Bool => b) (w.getLsbD k) = true := by
  rw [beq_iff_eq, word_zero_iff]
  constructor
  · intro h k hk; have := h k hk; simp [BitVec.getLsbD_not, hk] at this; exact this
  · intro h k hk; simp [BitVec.getLsbD_not, hk, h k hk]

theorem zero_word_iff (w : W) : (w == 0#64) = true ↔ ∀ k, k < 64 → (fun b : Bool => !b) (w.getLsbD k) = true := by
  rw [beq_iff_eq, word_zero_iff]
  constructor
  · intro h k hk; simp [h k hk]
  · intro h k hk; have := h k hk; simpa using this

/-- `allOne(vec, plane, start, size)`: true iff every bit of the (clamped) range is set -/
theorem allOne_spec (p : Plane) (vsize start size : Nat) :
    allOne p vsize start size = true ↔ ∀ j, j < min size (vsize - start) → bit p (start + j) = true := by
  unfold allOne
  exact scanRange_spec p start _ _ _ allOnes_word_iff

theorem allZero_spec (p : Plane) (vsize start size : Nat) :
    allZero p vsize start size = true ↔ ∀ j, j < min size (vsize - start) → bit p (start + j) = false := by
  unfold allZero
  rw [scanRange_spec p start _ _ _ zero_word_iff]
  simp

theorem anyOne_spec (p : Plane) (vsize start size : Nat) :
    anyOne p vsize start size = true ↔ ∃ j, j < min size (vsize - start) ∧ bit p (start + j) = true := by
  unfold anyOne
  rw [Bool.not_eq_true', ← Bool.not_eq_true, scanRange_spec p start _ _ _ zero_word_iff]
  simp only [Bool.not_eq_true', Classical.not_forall, not_imp, Bool.not_eq_false]
  constructor
  · intro ⟨j, hj, h⟩; exact ⟨j, hj, h⟩
  · intro ⟨j, hj, h⟩; exact ⟨j, hj, h⟩


theorem masked_eq_iff (x y : W) (m : Nat) :
    ((x &&& bitMaskRange 0 m) == (y &&& bitMaskRange 0 m)) = true ↔ ∀ k, k < min 64 m → x.getLsbD k = y.getLsbD k := by
  rw [beq_iff_eq, word_eq_iff]
  constructor
  · intro h k hk
    have := h k (by omega)
    simp only [BitVec.getLsbD_and, bitMaskRange_getLsbD] at this
    have h1 : k < 64 := by omega
    have h2 : k < 0 + m := by omega
    have h3 : decide (0 ≤ k) = true := by simp
    simp only [h1, h2, h3, decide_true, Bool.and_true] at this
    exact this
  · intro h k hk
    simp only [BitVec.getLsbD_and, bitMaskRange_getLsbD]
    by_cases hm : k < m
    · rw [h k (by omega)]
    · have h2 : ¬ k < 0 + m := by omega
      simp only [h2, decide_false, Bool.and_false]

theorem eqPlane_spec (a b : Plane) (size n : Nat) :
    eqPlane a b size n = true ↔ ∀ j, j < min size (64 * n) → bit a j = bit b j := by
  induction n with
  | zero => simp [eqPlane]
  | succ n ih =>
    simp only [eqPlane, Bool.and_eq_true, ih, masked_eq_iff]
    constructor
    · intro ⟨h1, h2⟩ j hj
      by_cases hlow : j < 64 * n
      · exact h1 j (by omega)
      · have := h2 (j - 64 * n) (by omega)
        unfold bit
        rw [show j / 64 = n by omega, show j % 64 = j - 64 * n by omega]
        exact this
    · intro h
      refine ⟨fun j hj => h j (by omega), fun k hk => ?_⟩
      have := h (64 * n + k) (by omega)
      unfold bit at this
      rw [show (64 * n + k) / 64 = n by omega, show (64 * n + k) % 64 = k by omega] at this
      exact this


theorem insertStateChunks_length (dst src : Plane) (width fuel offset so : Nat) :
    (insertStateChunks dst src width fuel offset so).length = dst.length := by
  induction fuel generalizing dst offset so with
  | zero => rfl
  | succ f ih =>
    simp only [insertStateChunks]
    split
    · rw [ih, insertNS_length]
    · rfl

/-- the chunk loop of `insert(const BitVectorState&, offset, size)`: chunks end at word borders of source and destination -/
theorem bit_insertStateChunks (dst src : Plane) (width fuel offset0 so i : Nat)
    (hd : offset0 + width ≤ 64 * dst.length) (hs : width ≤ 64 * src.length) (hf : width - so < fuel) (hso : so ≤ width) :
    bit (insertStateChunks dst src width fuel (offset0 + so) so) i =
      if offset0 + so ≤ i ∧ i < offset0 + width then bit src (i - offset0) else bit dst i := by
  induction fuel generalizing dst so with
  | zero => omega
  | succ f ih =>
    simp only [insertStateChunks]
    split
    · rename_i hlt
      generalize hck : min (64 - (offset0 + so + 64) % 64) (min (64 - (so + 64) % 64) (min 64 (width - so))) = chunk
      have hc1 : chunk ≤ 64 - (offset0 + so) % 64 := by omega
      have hc2 : chunk ≤ 64 - so % 64 := by omega
      have hc3 : chunk ≤ width - so := by omega
      have hc4 : 0 < chunk := by omega
      have hpn : PreNS dst (offset0 + so) chunk := ⟨by omega, by intro; omega⟩
      have hpx : PreXNS src so chunk := ⟨by omega, by omega⟩
      have := ih (insertNS dst (offset0 + so) chunk (extractNS src so chunk)) (so + chunk)
        (by rw [insertNS_length]; exact hd) (by omega) (by omega)
      rw [show offset0 + so + chunk = offset0 + (so + chunk) by omega, this, bit_insertNS _ _ _ _ _ hpn]
      by_cases hA : offset0 + (so + chunk) ≤ i ∧ i < offset0 + width
      · rw [if_pos hA, if_pos (by omega)]
      · rw [if_neg hA]
        by_cases hB : offset0 + so ≤ i ∧ i < offset0 + so + chunk
        · rw [if_pos hB, if_pos (by omega), extractNS_getLsbD _ _ _ _ hpx]
          have : i - (offset0 + so) < chunk := by omega
          simp only [this, decide_true, Bool.true_and]
          congr 1; omega
        · rw [if_neg hB, if_neg (by omega)]
    · rename_i hge
      have : ¬ (offset0 + so ≤ i ∧ i < offset0 + width) := by omega
      rw [if_neg this]

/-- one plane of `BitVectorState::extract(start, size)` -/
def extractPlane (sp : Plane) (start size : Nat) : Plane :=
  if start % 8 = 0 ∧ size % 8 = 0 then memcpyBytes (resizePlane [] size) sp 0 (start / 8) ((size + 7) / 8)
  else copyRange (resizePlane [] size) sp 0 start size

theorem bit_extractPlane (sp : Plane) (start size i : Nat) (hs : start + size ≤ 64 * sp.length) :
    bit (extractPlane sp start size) i = (decide (i < size) && bit sp (start + i)) := by
  unfold extractPlane
  have hl : (resizePlane [] size).length = (size + 63) / 64 := resizePlane_length _ _
  have hr : ∀ j, bit (resizePlane ([] : Plane) size) j = false := by
    intro j; rw [bit_resizePlane, bit_of_ge [] j (by simp)]; simp
  split
  · rename_i h
    rw [bit_memcpyBytes _ _ _ _ _ _ (by omega) (by omega), hr]
    by_cases hc : i < size
    · have : 0 * 8 ≤ i ∧ i < (0 + (size + 7) / 8) * 8 := by omega
      rw [if_pos this]; simp only [hc, decide_true, Bool.true_and]; congr 1; omega
    · have : ¬ (0 * 8 ≤ i ∧ i < (0 + (size + 7) / 8) * 8) := by omega
      rw [if_neg this]; simp [hc]
  · rw [bit_copyRange _ _ _ _ _ _ (by omega) hs, hr]
    by_cases hc : i < size
    · have : 0 ≤ i ∧ i < 0 + size := by omega
      rw [if_pos this]; simp [hc]
    · have : ¬ (0 ≤ i ∧ i < 0 + size) := by omega
      rw [if_neg this]; simp [hc]

/-- one plane of `append(src)`: resize followed by copyRange at the old end -/
def appendPlane (dp sp : Plane) (dsize ssize : Nat) : Plane :=
  copyRange (resizePlane dp (dsize + ssize)) sp dsize 0 ssize

theorem bit_appendPlane (dp sp : Plane) (dsize ssize i : Nat) (hs : ssize ≤ 64 * sp.length) :
    bit (appendPlane dp sp dsize ssize) i =
      if i < dsize then bit dp i else if i < dsize + ssize then bit sp (i - dsize) else false := by
  unfold appendPlane
  have hl : (resizePlane dp (dsize + ssize)).length = (dsize + ssize + 63) / 64 := resizePlane_length _ _
  rw [bit_copyRange _ _ _ _ _ _ (by omega) (by omega), bit_resizePlane]
  by_cases h1 : i < dsize
  · have h0 : ¬ (dsize ≤ i ∧ i < dsize + ssize) := by omega
    have h2 : i < dsize + ssize := by omega
    rw [if_neg h0, if_pos h1]; simp [h2]
  · by_cases h2 : i < dsize + ssize
    · have h0 : dsize ≤ i ∧ i < dsize + ssize := by omega
      rw [if_pos h0, if_neg h1, if_pos h2]; congr 1; omega
    · have h0 : ¬ (dsize ≤ i ∧ i < dsize + ssize) := by omega
      rw [if_neg h0, if_neg h1, if_neg h2]; simp [h2]

end Gatery.C18
