import GateryModel.C18.Spec
/-!
# C18 — literal parsing (`parseBitVector`, BitVectorState.cpp:172-262) and formatting (`operator<<`, `formatState`, `formatRange`)

`parseBitVector` builds a DefaultConfig state (VALUE = plane 0, DEFINED = plane 1) with the container operations
`resize`, `setRange`, `insert`, `set`; the model uses the word-level functions of `Model.lean`, so the
assertions of those operations are part of the model. (At the pinned commit digits were written with `insertNonStraddling`,
so the 22nd octal digit, which straddles a 64-bit word, made the real code throw: finding F9, fixed.)
Formatting only reads single bits.
-/
namespace Gatery.C18
open Gatery.Gen

/-- result of the parser: `(size, value plane, defined plane)` or an exception -/
inductive ParseResult where
  | ok (size : Nat) (value defined : Plane)
  | designError            -- HCL_DESIGNCHECK / spirit expectation failure
  | internalError          -- HCL_ASSERT
  deriving Repr, BEq

def isDigit (c : Char) : Bool := '0' ≤ c ∧ c ≤ '9'

/-- `-uint_`: optional leading decimal number -/
def splitWidth (s : List Char) : Option Nat × List Char :=
  let ds := s.takeWhile isDigit
  if ds.isEmpty then (none, s) else (some (ds.foldl (fun a c => a * 10 + (c.toNat - '0'.toNat)) 0), s.dropWhile isDigit)

def hexDigit (c : Char) : Option Nat :=
  if '0' ≤ c ∧ c ≤ '9' then some (c.toNat - '0'.toNat)
  else if 'a' ≤ c ∧ c ≤ 'f' then some (c.toNat - 'a'.toNat + 10)
  else if 'A' ≤ c ∧ c ≤ 'F' then some (c.toNat - 'A'.toNat + 10)
  else none

/-- the character classes of the three `parseHex` alternatives -/
def digitOk (bps : Nat) (c : Char) : Bool :=
  c == 'x' || c == 'X' ||
  (if bps == 4 then (hexDigit c).isSome else if bps == 3 then ('0' ≤ c ∧ c ≤ '7') else (c == '0' || c == '1'))

/-- the state after `parseWidth` (or the empty state) -/
def initState (width : Option Nat) : Nat × Plane × Plane :=
  match width with
  | none => (0, [], [])
  | some w =>
    let v := resizePlane [] w; let d := resizePlane [] w
    (w, setRange v 0 w false, setRange d 0 w true)

/-- `parseHex(bps, …)`: digit `i` from the left goes to bits `[(n-1-i)*bps, …+bps)` (`insert`); a non-digit (x/X) clears DEFINED of its digit -/
def parseDigits (bps : Nat) (num : List Char) (st : Nat × Plane × Plane) : ParseResult :=
  let (size0, v0, d0) := st
  let n := num.length
  let (size, v, d) := if size0 == 0 then (n * bps, resizePlane v0 (n * bps), resizePlane d0 (n * bps)) else (size0, v0, d0)
  if size0 != 0 && size < n * bps then .designError else
  let rec go (i : Nat) (cs : List Char) (v d : Plane) : ParseResult :=
    match cs with
    | [] => .ok size v d
    | c :: rest =>
      let value : Nat := (hexDigit c).getD 0
      let defined : Nat := if (hexDigit c).isSome then 0xFF else 0
      let dst := (n - 1 - i) * bps
      if PreI v dst bps ∧ PreI d dst bps then
        go (i + 1) rest (insert v dst bps (BitVec.ofNat 64 value)) (insert d dst bps (BitVec.ofNat 64 defined))
      else .internalError
  go 0 num v d

/-- `Log2C(v)` for `v > 0` -/
def log2c (v : Nat) : Nat := if v ≤ 1 then 0 else Nat.log2 (v - 1) + 1

def parseDec (num : List Char) (st : Nat × Plane × Plane) : ParseResult :=
  let (size0, v0, d0) := st
  let nat := num.foldl (fun a c => a * 10 + (c.toNat - '0'.toNat)) 0
  if nat ≥ 2^64 then .designError else              -- strtoull reports ERANGE
  let n64 := nat
  let width := if n64 = 2^64 - 1 then 64 else log2c (n64 + 1)
  let (size, v, d) := if size0 == 0 then (width, resizePlane v0 width, resizePlane d0 width) else (size0, v0, d0)
  if size < width then .designError else
  let d := setRange d 0 width true
  let v := (List.range width).foldl (fun v i => assignBit v i (n64.testBit i)) v
  .ok size v d

def parseStr (str : List Char) (st : Nat × Plane × Plane) : ParseResult :=
  let (size0, v0, d0) := st
  let width := str.length * 8
  let (size, v, d) := if size0 == 0 then (width, resizePlane v0 width, resizePlane d0 width) else (size0, v0, d0)
  if size < width then .designError else
  let d := setRange d 0 width true
  let v := (List.range width).foldl (fun v i => assignBit v i ((str.getD (i / 8) ' ').toNat.testBit (i % 8))) v
  .ok size v d

/-- `parseBitVector(std::string_view)` -/
def parseBitVector (s : String) : ParseResult :=
  let (width, rest) := splitWidth s.toList
  let st := initState width
  match rest with
  | 's' :: t => parseStr t st
  | 'x' :: t => if t.all (digitOk 4) then parseDigits 4 t st else .designError
  | 'o' :: t => if t.all (digitOk 3) then parseDigits 3 t st else .designError
  | 'b' :: t => if t.all (digitOk 1) then parseDigits 1 t st else .designError
  | 'd' :: t => if t.all isDigit then parseDec t st else .designError
  | _ => .designError

/-! ## specification of the literal grammar on bit arrays (no words) -/

/-- bits (LSB first) of one digit: `none` = undefined digit -/
def digitBits (bps : Nat) (c : Char) : List (Option Bool) :=
  match hexDigit c with
  | some v => (List.range bps).map fun k => some (v.testBit k)
  | none => List.replicate bps none

/-- the literal's own bits, LSB first -/
def literalBits (bps : Nat) (num : List Char) : List (Option Bool) := (num.reverse.map (digitBits bps)).flatten

/-- the value a `b`/`o`/`x` literal denotes: its bits, zero-extended (defined 0) to an explicit width -/
def specDigits (bps : Nat) (num : List Char) (width : Option Nat) : Option (List (Option Bool)) :=
  let bits := literalBits bps num
  match width with
  | none => some bits
  | some 0 => some bits
  | some w => if w < bits.length then none else some (bits ++ List.replicate (w - bits.length) (some false))

/-- the number a decimal digit string spells (`strtoull`, before its range check) -/
def decValue (num : List Char) : Nat := num.foldl (fun a c => a * 10 + (c.toNat - '0'.toNat)) 0

/-- `d` literals: the number in exactly as many bits as it needs (`Log2C(n+1)`; 64 for 2^64-1), or in the explicit width -/
def specDec (num : List Char) (width : Option Nat) : Option (List (Option Bool)) :=
  let n := decValue num
  if n ≥ 2^64 then none else
  let w := if n = 2^64 - 1 then 64 else log2c (n + 1)
  let size := match width with | none => w | some 0 => w | some W => W
  if size < w then none else some ((List.range size).map fun i => some (n.testBit i))

/-- `s` literals: character `k` (from the left) occupies bits `[8k, 8k+8)`, zero extended to an explicit width -/
def specStr (str : List Char) (width : Option Nat) : Option (List (Option Bool)) :=
  let w := str.length * 8
  let size := match width with | none => w | some 0 => w | some W => W
  if size < w then none else
    some ((List.range size).map fun i => some (decide (i < w) && (str.getD (i / 8) ' ').toNat.testBit (i % 8)))

/-- the grammar specification of the whole literal syntax -/
def specLiteral (s : String) : Option (List (Option Bool)) :=
  let (width, rest) := splitWidth s.toList
  match rest with
  | 's' :: t => specStr t width
  | 'x' :: t => if t.all (digitOk 4) then specDigits 4 t width else none
  | 'o' :: t => if t.all (digitOk 3) then specDigits 3 t width else none
  | 'b' :: t => if t.all (digitOk 1) then specDigits 1 t width else none
  | 'd' :: t => if t.all isDigit then specDec t width else none
  | _ => none

def resultBits : ParseResult → Option (List (Option Bool))
  | .ok size v d => some ((List.range size).map fun i => if bit d i then some (bit v i) else none)
  | _ => none

/-! ## formatting -/

def fmtChar (v d : Plane) (i : Nat) : Char := if !bit d i then 'X' else if bit v i then '1' else '0'

/-- `operator<<` without `std::hex` (or with a size that is not a multiple of 4): MSB first over `0 1 X` -/
def formatBinary (size : Nat) (v d : Plane) : String :=
  String.ofList ((List.range size).reverse.map (fmtChar v d))

def hexChar (n : Nat) : Char := if n < 10 then Char.ofNat ('0'.toNat + n) else Char.ofNat ('a'.toNat + (n - 10))

/-- `operator<<` with `std::hex` and `size % 4 = 0`: one character per nibble, `X` if any bit of it is undefined -/
def formatHex (size : Nat) (v d : Plane) : String :=
  String.ofList ((List.range (size / 4)).map fun i =>
    let top := size - 1 - i * 4
    let allDef := (List.range 4).all fun j => bit d (top - j)
    let n := (List.range 4).foldl (fun a j => a * 2 + (if bit v (top - j) then 1 else 0)) 0
    if allDef then hexChar n else 'X')

/-! ## round trip at the level of the grammar -/

def fmtBit : Option Bool → Char
  | none => 'X' | some true => '1' | some false => '0'

/-- what `operator<<` prints for a vector given as a list of four-state bits (LSB first): MSB first over `0 1 X` -/
def formatBits (bits : List (Option Bool)) : List Char := bits.reverse.map fmtBit

theorem digitBits_fmtBit (b : Option Bool) : digitBits 1 (fmtBit b) = [b] := by
  cases b with
  | none => decide
  | some v => cases v <;> decide

/-- **Round trip at the level of the grammar**: the binary text printed for a four-state vector denotes, as a `b` literal,
    exactly that vector (any length, any mix of 0/1/undefined). -/
theorem literalBits_formatBits (bits : List (Option Bool)) : literalBits 1 (formatBits bits) = bits := by
  unfold literalBits formatBits
  rw [← List.map_reverse, List.reverse_reverse, List.map_map]
  induction bits with
  | nil => rfl
  | cons b bs ih =>
    simp only [List.map_cons, List.flatten_cons, Function.comp, digitBits_fmtBit, ih]
    rfl

theorem formatBits_digitOk (bits : List (Option Bool)) : (formatBits bits).all (digitOk 1) = true := by
  unfold formatBits
  rw [List.all_eq_true]
  intro c hc
  obtain ⟨b, _, rfl⟩ := List.mem_map.mp hc
  cases b with
  | none => decide
  | some v => cases v <;> decide


/-! ## `formatRange` / `formatState` (BitVectorState.h:488-556) -/

/-- one digit character as `formatRange` / `formatState` write it -/
def digitChar (v : Nat) : Char := if v < 10 then Char.ofNat ('0'.toNat + v) else Char.ofNat ('A'.toNat + (v - 10))

/-- `formatRange(stream, state, base, offset, size)`: digits of `Log2C(base)` bits, most significant first; the leading digit is
    filled up with (defined) zeros; a digit with an undefined bit inside the range prints `X`. `base ≤ 1` divides by zero in the code. -/
def formatRange (v d : Plane) (base offset size : Nat) : String :=
  let lb := log2c base
  let ru := (size + lb - 1) / lb * lb
  String.ofList ((List.range (ru / lb)).map fun i =>
    let idxs := (List.range lb).map fun j => ru - 1 - i * lb - j
    let allDef := idxs.all fun idx => !(decide (idx < size)) || bit d (offset + idx)
    let val := idxs.foldl (fun acc idx => 2 * acc + (if idx < size && bit v (offset + idx) then 1 else 0)) 0
    if allDef then digitChar val else 'X')

/-- `formatState(stream, state, base, dropLeadingZeros)` (after ddf5a6b: hexadecimal digits as characters) -/
def formatState (size : Nat) (v d : Plane) (base : Nat) (drop : Bool) : String :=
  if base = 16 ∧ size % 4 = 0 then
    let n := size / 4
    let step (acc : List Char × Bool) (i : Nat) : List Char × Bool :=
      let idxs := (List.range 4).map fun j => size - 1 - i * 4 - j
      let allDef := idxs.all fun idx => bit d idx
      let val := idxs.foldl (fun a idx => 2 * a + (if bit v idx then 1 else 0)) 0
      if !acc.2 || val != 0 || i + 1 ≥ n then (acc.1 ++ [if allDef then digitChar val else 'X'], false) else acc
    String.ofList ((List.range n).foldl step ([], drop)).1
  else
    let step (acc : List Char × Bool) (k : Nat) : List Char × Bool :=
      let i := size - 1 - k
      if !bit d i then (acc.1 ++ ['X'], false)
      else if bit v i then (acc.1 ++ ['1'], false)
      else if !acc.2 || i == 0 then (acc.1 ++ ['0'], acc.2) else acc
    String.ofList ((List.range size).foldl step ([], drop)).1

/-- specification of `formatRange` on bit arrays -/
def specFormatRange (vb db : Bits) (base offset size : Nat) : String :=
  let lb := log2c base
  let ru := (size + lb - 1) / lb * lb
  String.ofList ((List.range (ru / lb)).map fun i =>
    let idxs := (List.range lb).map fun j => ru - 1 - i * lb - j
    let allDef := idxs.all fun idx => !(decide (idx < size)) || sBit db (offset + idx)
    let val := idxs.foldl (fun acc idx => 2 * acc + (if idx < size && sBit vb (offset + idx) then 1 else 0)) 0
    if allDef then digitChar val else 'X')

end Gatery.C18
