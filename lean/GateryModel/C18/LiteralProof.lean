import GateryModel.C18.Literal
import GateryModel.C18.Seq
/-! `parseBitVector` on `b` / `o` / `x` literals (the digit loop on the word-level container) denotes the grammar's bit array. -/
namespace Gatery.C18
open Gatery.Gen

theorem getLsbD_ofNat64 (v r : Nat) (hr : r < 64) : (BitVec.ofNat 64 v).getLsbD r = v.testBit r := by
  rw [BitVec.getLsbD_ofNat]; simp [hr]

/-- the digit loop: digit `m` from the right lands at bits `[m*bps, (m+1)*bps)`; everything above the digits is left alone -/
theorem go_spec (bps n size : Nat) (hb : 0 < bps) (hb8 : bps ≤ 8) (cs : List Char) :
    ∀ (i : Nat) (v d : Plane), i + cs.length = n → n * bps ≤ size → size ≤ 64 * v.length → size ≤ 64 * d.length →
    ∃ v' d', parseDigits.go bps n size i cs v d = .ok size v' d' ∧ v'.length = v.length ∧ d'.length = d.length ∧
      (∀ m r, m < cs.length → r < bps →
        bit v' (m * bps + r) = ((hexDigit (cs.getD (cs.length - 1 - m) '0')).getD 0).testBit r ∧
        bit d' (m * bps + r) = (hexDigit (cs.getD (cs.length - 1 - m) '0')).isSome) ∧
      (∀ p, cs.length * bps ≤ p → bit v' p = bit v p ∧ bit d' p = bit d p) := by
  induction cs with
  | nil =>
    intro i v d _ _ _ _
    exact ⟨v, d, rfl, rfl, rfl, fun m r hm => by simp at hm, fun p _ => ⟨rfl, rfl⟩⟩
  | cons c rest ih =>
    intro i v d hi hsz hv hd
    simp only [List.length_cons] at hi
    have hdst : n - 1 - i = rest.length := by omega
    have hmul : n * bps = rest.length * bps + bps + i * bps := by
      have : n = rest.length + 1 + i := by omega
      rw [this, Nat.add_mul, Nat.add_mul, Nat.one_mul]
    generalize hD : rest.length * bps = dst at *
    generalize i * bps = ib at *
    have hpv : PreI v dst bps := ⟨by omega, by intro; omega, by intro; omega⟩
    have hpd : PreI d dst bps := ⟨by omega, by intro; omega, by intro; omega⟩
    unfold parseDigits.go
    simp only [hdst, hD, hpv, hpd, and_self, if_true]
    obtain ⟨v', d', hgo, hlv, hld, hdig, hrest⟩ := ih (i + 1)
      (insert v dst bps (BitVec.ofNat 64 ((hexDigit c).getD 0)))
      (insert d dst bps (BitVec.ofNat 64 (if (hexDigit c).isSome = true then 255 else 0)))
      (by omega) (by omega) (by rw [insert_length]; exact hv) (by rw [insert_length]; exact hd)
    refine ⟨v', d', hgo, by rw [hlv, insert_length], by rw [hld, insert_length], ?_, ?_⟩
    · intro m r hm hr
      simp only [List.length_cons] at hm
      by_cases hlast : m = rest.length
      · -- this digit
        subst hlast
        have hp := hrest (rest.length * bps + r) (by rw [hD]; omega)
        rw [hD] at hp ⊢
        rw [hp.1, hp.2, bit_insert _ _ _ _ _ hpv, bit_insert _ _ _ _ _ hpd]
        have hin : dst ≤ dst + r ∧ dst + r < dst + bps := by omega
        simp only [hin, and_self, if_true, Nat.add_sub_cancel_left, List.length_cons]
        have hidx : rest.length + 1 - 1 - rest.length = 0 := by omega
        rw [hidx, List.getD_cons_zero, getLsbD_ofNat64 _ _ (by omega), getLsbD_ofNat64 _ _ (by omega)]
        refine ⟨rfl, ?_⟩
        cases (hexDigit c).isSome
        · simp
        · have : r < 8 := by omega
          have h255 : ∀ k, k < 8 → Nat.testBit 255 k = true := by decide
          simp [h255 r this]
      · have hm' : m < rest.length := by omega
        have := hdig m r hm' hr
        have hidx : (c :: rest).length - 1 - m = (rest.length - 1 - m) + 1 := by simp only [List.length_cons]; omega
        rw [hidx, List.getD_cons_succ]
        exact this
    · intro p hp
      simp only [List.length_cons] at hp
      have hp' : dst + bps ≤ p := by rw [Nat.add_mul, Nat.one_mul, hD] at hp; exact hp
      have := hrest p (by omega)
      rw [this.1, this.2, bit_insert _ _ _ _ _ hpv, bit_insert _ _ _ _ _ hpd]
      have hout : ¬ (dst ≤ p ∧ p < dst + bps) := by omega
      simp [hout]

end Gatery.C18

namespace Gatery.C18
open Gatery.Gen

theorem flatten_uniform_getElem? {α : Type} (k : Nat) (l : List (List α)) (hl : ∀ x ∈ l, x.length = k) (m r : Nat) (hr : r < k) :
    l.flatten[m * k + r]? = (l[m]?).bind (·[r]?) := by
  induction l generalizing m with
  | nil => simp
  | cons x xs ih =>
    have hx : x.length = k := hl x (by simp)
    have hxs : ∀ y ∈ xs, y.length = k := fun y hy => hl y (by simp [hy])
    cases m with
    | zero =>
      simp only [List.flatten_cons, Nat.zero_mul, Nat.zero_add, List.getElem?_cons_zero, Option.bind_some]
      rw [List.getElem?_append_left (by omega)]
    | succ m =>
      simp only [List.flatten_cons, List.getElem?_cons_succ]
      rw [List.getElem?_append_right (by rw [hx, Nat.succ_mul]; omega)]
      have : (m + 1) * k + r - x.length = m * k + r := by rw [hx, Nat.succ_mul]; omega
      rw [this]
      exact ih hxs m

theorem flatten_uniform_length {α : Type} (k : Nat) (l : List (List α)) (hl : ∀ x ∈ l, x.length = k) : l.flatten.length = l.length * k := by
  induction l with
  | nil => simp
  | cons x xs ih =>
    simp only [List.flatten_cons, List.length_append, List.length_cons]
    rw [ih (fun y hy => hl y (by simp [hy])), hl x (by simp), Nat.succ_mul]; omega

theorem digitBits_length (bps : Nat) (c : Char) : (digitBits bps c).length = bps := by
  unfold digitBits; split <;> simp

theorem literalBits_length (bps : Nat) (num : List Char) : (literalBits bps num).length = num.length * bps := by
  unfold literalBits
  rw [flatten_uniform_length bps _ (by intro x hx; simp only [List.mem_map] at hx; obtain ⟨c, _, rfl⟩ := hx; exact digitBits_length bps c)]
  simp

/-- the bit of a digit, as the parser's planes will hold it -/
def digitBit (c : Char) (r : Nat) : Option Bool :=
  if (hexDigit c).isSome then some (((hexDigit c).getD 0).testBit r) else none

theorem literalBits_getElem? (bps : Nat) (num : List Char) (m r : Nat) (hm : m < num.length) (hr : r < bps) :
    (literalBits bps num)[m * bps + r]? = some (digitBit (num.getD (num.length - 1 - m) '0') r) := by
  unfold literalBits
  rw [flatten_uniform_getElem? bps _ (by intro x hx; simp only [List.mem_map] at hx; obtain ⟨c, _, rfl⟩ := hx; exact digitBits_length bps c) m r hr]
  have hrev : num.reverse[m]? = some (num.getD (num.length - 1 - m) '0') := by
    rw [List.getElem?_reverse hm, List.getD_eq_getElem?_getD]
    have : num.length - 1 - m < num.length := by omega
    simp [List.getElem?_eq_getElem this]
  simp only [List.getElem?_map, hrev, Option.map_some, Option.bind_some]
  unfold digitBits digitBit
  cases h : hexDigit (num.getD (num.length - 1 - m) '0') with
  | none => simp [hr]
  | some v => simp [hr]

/-- decomposition of a position below `n * bps` into digit and bit -/
theorem pos_decomp (bps n p : Nat) (hb : 0 < bps) (hp : p < n * bps) : p / bps < n ∧ p % bps < bps ∧ p = p / bps * bps + p % bps :=
  ⟨(Nat.div_lt_iff_lt_mul hb).mpr hp, Nat.mod_lt _ hb, by rw [Nat.mul_comm]; exact (Nat.div_add_mod p bps).symm⟩

/-- the planes after the digit loop spell the literal, given what they held above the digits -/
theorem resultBits_of_go (bps size : Nat) (hb : 0 < bps) (num : List Char) (v' d' : Plane) (hsz : num.length * bps ≤ size)
    (hdig : ∀ m r, m < num.length → r < bps →
        bit v' (m * bps + r) = ((hexDigit (num.getD (num.length - 1 - m) '0')).getD 0).testBit r ∧
        bit d' (m * bps + r) = (hexDigit (num.getD (num.length - 1 - m) '0')).isSome)
    (hrest : ∀ p, num.length * bps ≤ p → p < size → bit v' p = false ∧ bit d' p = true) :
    resultBits (.ok size v' d') = some (literalBits bps num ++ List.replicate (size - num.length * bps) (some false)) := by
  simp only [resultBits, Option.some.injEq]
  apply List.ext_getElem?
  intro p
  by_cases hp : p < num.length * bps
  · obtain ⟨h1, h2, h3⟩ := pos_decomp bps num.length p hb hp
    rw [List.getElem?_append_left (by rw [literalBits_length]; exact hp)]
    rw [h3, literalBits_getElem? bps num _ _ h1 h2]
    have := hdig _ _ h1 h2
    rw [← h3] at this ⊢
    simp only [List.getElem?_map, List.getElem?_range (by omega : p < size), Option.map_some, this.1, this.2, digitBit]
  · rw [List.getElem?_append_right (by rw [literalBits_length]; omega), literalBits_length]
    by_cases hps : p < size
    · have := hrest p (by omega) hps
      simp only [List.getElem?_map, List.getElem?_range hps, Option.map_some, this.1, this.2, if_true]
      rw [List.getElem?_replicate]
      simp [show p - num.length * bps < size - num.length * bps by omega]
    · rw [List.getElem?_eq_none (by simp; omega), List.getElem?_eq_none (by simp; omega)]


theorem len_bound (k : Nat) : k ≤ 64 * ((k + 63) / 64) := by omega

theorem parseDigits_none (bps : Nat) (hb : 0 < bps) (hb8 : bps ≤ 8) (num : List Char) (v0 d0 : Plane) :
    resultBits (parseDigits bps num (0, v0, d0)) = some (literalBits bps num) := by
  unfold parseDigits
  simp only [beq_self_eq_true, if_true, bne_self_eq_false, Bool.false_and, Bool.false_eq_true, if_false]
  obtain ⟨v', d', hgo, _, _, hdig, _⟩ := go_spec bps num.length (num.length * bps) hb hb8 num 0
    (resizePlane v0 (num.length * bps)) (resizePlane d0 (num.length * bps)) (by omega) (Nat.le_refl _)
    (by rw [resizePlane_length]; exact len_bound _) (by rw [resizePlane_length]; exact len_bound _)
  rw [hgo, resultBits_of_go bps _ hb num v' d' (Nat.le_refl _) hdig (fun p h1 h2 => by omega)]
  simp

theorem parseDigits_width (bps : Nat) (hb : 0 < bps) (hb8 : bps ≤ 8) (num : List Char) (w : Nat) :
    resultBits (parseDigits bps num (initState (some (w + 1)))) = specDigits bps num (some (w + 1)) := by
  unfold parseDigits initState specDigits
  simp only [literalBits_length]
  have hne : (w + 1 == 0) = false := by simp
  simp only [hne, Bool.false_eq_true, if_false, bne, Bool.not_false, Bool.true_and, decide_eq_true_eq]
  by_cases hlt : w + 1 < num.length * bps
  · simp [hlt, resultBits]
  · simp only [hlt, if_false]
    have hlen : ∀ b, (setRange (resizePlane [] (w + 1)) 0 (w + 1) b).length = (w + 1 + 63) / 64 := by
      intro b; rw [setRange_length, resizePlane_length]
    have hin : InRange (resizePlane [] (w + 1)) 0 (w + 1) := by
      unfold InRange; rw [resizePlane_length]; have := len_bound (w + 1); omega
    obtain ⟨v', d', hgo, _, _, hdig, hrest⟩ := go_spec bps num.length (w + 1) hb hb8 num 0
      (setRange (resizePlane [] (w + 1)) 0 (w + 1) false) (setRange (resizePlane [] (w + 1)) 0 (w + 1) true) (by omega) (by omega)
      (by rw [hlen]; exact len_bound _) (by rw [hlen]; exact len_bound _)
    rw [hgo, resultBits_of_go bps _ hb num v' d' (by omega) hdig]
    intro p h1 h2
    have := hrest p h1
    rw [this.1, this.2, bit_setRange _ _ _ _ _ hin, bit_setRange _ _ _ _ _ hin]
    simp [h2]

/-- **Literals.** For every `b` (bps = 1), `o` (3) and `x` (4) literal of any length, with or without an explicit width, the
    parser (digit loop on the word-level container) yields exactly the bit array the grammar denotes, or rejects exactly
    when the explicit width is too small. -/
theorem parseDigits_spec (bps : Nat) (hb : 0 < bps) (hb8 : bps ≤ 8) (num : List Char) (width : Option Nat) :
    resultBits (parseDigits bps num (initState width)) = specDigits bps num width := by
  cases width with
  | none => simpa [initState, specDigits] using parseDigits_none bps hb hb8 num [] []
  | some w =>
    cases w with
    | zero => simpa [initState, specDigits] using parseDigits_none bps hb hb8 num _ _
    | succ w => exact parseDigits_width bps hb hb8 num w

/-- the whole parser on `x` / `o` / `b` literals: the grammar's bit array for well-formed digit strings, a design error otherwise -/
theorem parseBitVector_digits (s : String) (width : Option Nat) (tag : Char) (num : List Char)
    (h : splitWidth s.toList = (width, tag :: num)) (bps : Nat) (ht : (tag = 'x' ∧ bps = 4) ∨ (tag = 'o' ∧ bps = 3) ∨ (tag = 'b' ∧ bps = 1)) :
    resultBits (parseBitVector s) = if num.all (digitOk bps) then specDigits bps num width else none := by
  unfold parseBitVector
  simp only [h]
  rcases ht with ⟨rfl, rfl⟩ | ⟨rfl, rfl⟩ | ⟨rfl, rfl⟩
  · by_cases hok : num.all (digitOk 4) = true
    · simp only [hok, if_true]; exact parseDigits_spec 4 (by omega) (by omega) num width
    · simp only [hok, if_false, Bool.false_eq_true, resultBits]
  · by_cases hok : num.all (digitOk 3) = true
    · simp only [hok, if_true]; exact parseDigits_spec 3 (by omega) (by omega) num width
    · simp only [hok, if_false, Bool.false_eq_true, resultBits]
  · by_cases hok : num.all (digitOk 1) = true
    · simp only [hok, if_true]; exact parseDigits_spec 1 (by omega) (by omega) num width
    · simp only [hok, if_false, Bool.false_eq_true, resultBits]


/-! ## decimal literals -/

theorem bit_foldAssign (f : Nat → Bool) (w : Nat) (v : Plane) (hw : w ≤ 64 * v.length) (p : Nat) :
    (bit ((List.range w).foldl (fun v i => assignBit v i (f i)) v) p = if p < w then f p else bit v p) ∧
    ((List.range w).foldl (fun v i => assignBit v i (f i)) v).length = v.length := by
  induction w with
  | zero => simp
  | succ k ih =>
    obtain ⟨h1, h2⟩ := ih (by omega)
    rw [List.range_succ, List.foldl_append]
    simp only [List.foldl_cons, List.foldl_nil]
    refine ⟨?_, by rw [assignBit_length, h2]⟩
    rw [bit_assignBit _ _ _ _ (by rw [h2]; omega)]
    by_cases hp : p = k
    · subst hp; simp
    · rw [h1]
      by_cases hlt : p < k
      · have : p < k + 1 := by omega
        simp [hp, hlt, this]
      · have : ¬ p < k + 1 := by omega
        simp [hp, hlt, this]

theorem dec_width_bound (n : Nat) (h : n < 2^64) : n < 2 ^ (if n = 2^64 - 1 then 64 else log2c (n + 1)) := by
  split
  · exact h
  · unfold log2c
    split
    · rename_i h1; have : n = 0 := by omega
      subst this; simp
    · rename_i h1
      simp only [Nat.add_sub_cancel]
      exact Nat.lt_log2_self

theorem parseDec_core (num : List Char) (size : Nat) (v d : Plane) (hn : decValue num < 2^64)
    (hsz : (if decValue num = 2^64 - 1 then 64 else log2c (decValue num + 1)) ≤ size)
    (hv : size ≤ 64 * v.length) (hd : size ≤ 64 * d.length)
    (hv0 : ∀ p, p < size → bit v p = false)
    (hd0 : ∀ p, (if decValue num = 2^64 - 1 then 64 else log2c (decValue num + 1)) ≤ p → p < size → bit d p = true) :
    resultBits (.ok size
        ((List.range (if decValue num = 2^64 - 1 then 64 else log2c (decValue num + 1))).foldl
          (fun v i => assignBit v i ((decValue num).testBit i)) v)
        (setRange d 0 (if decValue num = 2^64 - 1 then 64 else log2c (decValue num + 1)) true)) =
      some ((List.range size).map fun i => some ((decValue num).testBit i)) := by
  have hb := dec_width_bound _ hn
  generalize (if decValue num = 2^64 - 1 then 64 else log2c (decValue num + 1)) = w at *
  simp only [resultBits, Option.some.injEq]
  apply List.map_congr_left
  intro p hp
  simp only [List.mem_range] at hp
  rw [(bit_foldAssign _ w v (by omega) p).1, bit_setRange _ _ _ _ _ (by unfold InRange; omega)]
  by_cases hpw : p < w
  · simp [hpw]
  · have h1 : bit d p = true := hd0 p (by omega) hp
    have h2 : (decValue num).testBit p = false :=
      Nat.testBit_lt_two_pow (Nat.lt_of_lt_of_le hb (Nat.pow_le_pow_right (by decide) (by omega)))
    simp [hpw, h1, hv0 p hp, h2]


def decW (n : Nat) : Nat := if n = 2^64 - 1 then 64 else log2c (n + 1)

theorem parseDec_implicit (num : List Char) (v0 d0 : Plane) :
    parseDec num (0, v0, d0) = if decValue num ≥ 2^64 then .designError else
      .ok (decW (decValue num))
        ((List.range (decW (decValue num))).foldl (fun v i => assignBit v i ((decValue num).testBit i)) (resizePlane v0 (decW (decValue num))))
        (setRange (resizePlane d0 (decW (decValue num))) 0 (decW (decValue num)) true) := by
  unfold parseDec decValue decW
  simp only [beq_self_eq_true, if_true, Nat.lt_irrefl, if_false]

theorem parseDec_explicit (num : List Char) (W : Nat) (v0 d0 : Plane) :
    parseDec num (W + 1, v0, d0) = if decValue num ≥ 2^64 then .designError else
      if W + 1 < decW (decValue num) then .designError else
      .ok (W + 1)
        ((List.range (decW (decValue num))).foldl (fun v i => assignBit v i ((decValue num).testBit i)) v0)
        (setRange d0 0 (decW (decValue num)) true) := by
  unfold parseDec decValue decW
  have hne : (W + 1 == 0) = false := by simp
  simp only [hne, Bool.false_eq_true, if_false]

theorem specDec_eq (num : List Char) (width : Option Nat) : specDec num width =
    if decValue num ≥ 2^64 then none else
    if (match width with | none => decW (decValue num) | some 0 => decW (decValue num) | some W => W) < decW (decValue num) then none
    else some ((List.range (match width with | none => decW (decValue num) | some 0 => decW (decValue num) | some W => W)).map
      fun i => some ((decValue num).testBit i)) := by
  unfold specDec decW; rfl

theorem parseDec_zero (num : List Char) (v0 d0 : Plane) (h0 : v0.length = 0) :
    resultBits (parseDec num (0, v0, d0)) = specDec num none := by
  rw [parseDec_implicit, specDec_eq]
  by_cases hn : decValue num ≥ 2^64
  · simp [hn, resultBits]
  · simp only [hn, if_false, Nat.lt_irrefl]
    exact parseDec_core num _ _ _ (by omega) (Nat.le_refl _) (by rw [resizePlane_length]; exact len_bound _)
      (by rw [resizePlane_length]; exact len_bound _)
      (fun p _ => by rw [bit_resizePlane, bit_of_ge v0 p (by omega)]; simp) (fun p h1 h2 => by unfold decW at *; omega)

theorem parseDec_spec (num : List Char) (width : Option Nat) :
    resultBits (parseDec num (initState width)) = specDec num width := by
  cases width with
  | none => simpa [initState] using parseDec_zero num [] [] rfl
  | some W =>
    cases W with
    | zero =>
      have := parseDec_zero num (setRange (resizePlane [] 0) 0 0 false) (setRange (resizePlane [] 0) 0 0 true)
        (by rw [setRange_length, resizePlane_length])
      simpa [initState, specDec] using this
    | succ W =>
      unfold initState
      rw [parseDec_explicit, specDec_eq]
      by_cases hn : decValue num ≥ 2^64
      · simp [hn, resultBits]
      · simp only [hn, if_false]
        by_cases hsz : W + 1 < decW (decValue num)
        · simp [hsz, resultBits]
        · simp only [hsz, if_false]
          have hlen : ∀ b, (setRange (resizePlane [] (W + 1)) 0 (W + 1) b).length = (W + 1 + 63) / 64 := by
            intro b; rw [setRange_length, resizePlane_length]
          have hin : InRange (resizePlane [] (W + 1)) 0 (W + 1) := by
            unfold InRange; rw [resizePlane_length]; have := len_bound (W + 1); omega
          exact parseDec_core num (W + 1) _ _ (by omega) (by unfold decW at hsz; omega) (by rw [hlen]; exact len_bound _) (by rw [hlen]; exact len_bound _)
            (fun p hp => by rw [bit_setRange _ _ _ _ _ hin]; simp [hp])
            (fun p _ hp => by rw [bit_setRange _ _ _ _ _ hin]; simp [hp])


theorem parseBitVector_dec (s : String) (width : Option Nat) (num : List Char) (h : splitWidth s.toList = (width, 'd' :: num)) :
    resultBits (parseBitVector s) = if num.all isDigit then specDec num width else none := by
  unfold parseBitVector
  simp only [h]
  by_cases hok : num.all isDigit = true
  · simp only [hok, if_true]; exact parseDec_spec num width
  · simp only [hok, if_false, Bool.false_eq_true, resultBits]


/-! ## string literals and the whole literal syntax -/

theorem parseStr_implicit (str : List Char) (v0 d0 : Plane) :
    parseStr str (0, v0, d0) =
      .ok (str.length * 8)
        ((List.range (str.length * 8)).foldl (fun v i => assignBit v i ((str.getD (i / 8) ' ').toNat.testBit (i % 8))) (resizePlane v0 (str.length * 8)))
        (setRange (resizePlane d0 (str.length * 8)) 0 (str.length * 8) true) := by
  unfold parseStr
  simp only [beq_self_eq_true, if_true, Nat.lt_irrefl, if_false]

theorem parseStr_explicit (str : List Char) (W : Nat) (v0 d0 : Plane) :
    parseStr str (W + 1, v0, d0) = if W + 1 < str.length * 8 then .designError else
      .ok (W + 1)
        ((List.range (str.length * 8)).foldl (fun v i => assignBit v i ((str.getD (i / 8) ' ').toNat.testBit (i % 8))) v0)
        (setRange d0 0 (str.length * 8) true) := by
  unfold parseStr
  have hne : (W + 1 == 0) = false := by simp
  simp only [hne, Bool.false_eq_true, if_false]

theorem parseStr_core (f : Nat → Bool) (w size : Nat) (v d : Plane) (hsz : w ≤ size)
    (hv : size ≤ 64 * v.length) (hd : size ≤ 64 * d.length)
    (hv0 : ∀ p, p < size → bit v p = false) (hd0 : ∀ p, w ≤ p → p < size → bit d p = true) :
    resultBits (.ok size ((List.range w).foldl (fun v i => assignBit v i (f i)) v) (setRange d 0 w true)) =
      some ((List.range size).map fun i => some (decide (i < w) && f i)) := by
  simp only [resultBits, Option.some.injEq]
  apply List.map_congr_left
  intro p hp
  simp only [List.mem_range] at hp
  rw [(bit_foldAssign _ w v (by omega) p).1, bit_setRange _ _ _ _ _ (by unfold InRange; omega)]
  by_cases hpw : p < w
  · simp [hpw]
  · simp [hpw, hd0 p (by omega) hp, hv0 p hp]

theorem parseStr_zero (str : List Char) (v0 d0 : Plane) (h0 : v0.length = 0) :
    resultBits (parseStr str (0, v0, d0)) = specStr str none := by
  rw [parseStr_implicit]
  unfold specStr
  simp only [Nat.lt_irrefl, if_false]
  exact parseStr_core _ _ _ _ _ (Nat.le_refl _) (by rw [resizePlane_length]; exact len_bound _)
    (by rw [resizePlane_length]; exact len_bound _)
    (fun p _ => by rw [bit_resizePlane, bit_of_ge v0 p (by omega)]; simp) (fun p h1 h2 => by omega)

theorem parseStr_spec (str : List Char) (width : Option Nat) :
    resultBits (parseStr str (initState width)) = specStr str width := by
  cases width with
  | none => simpa [initState] using parseStr_zero str [] [] rfl
  | some W =>
    cases W with
    | zero =>
      have := parseStr_zero str (setRange (resizePlane [] 0) 0 0 false) (setRange (resizePlane [] 0) 0 0 true)
        (by rw [setRange_length, resizePlane_length])
      simpa [initState, specStr] using this
    | succ W =>
      unfold initState
      rw [parseStr_explicit]
      unfold specStr
      simp only
      by_cases hsz : W + 1 < str.length * 8
      · simp [hsz, resultBits]
      · simp only [hsz, if_false]
        have hlen : ∀ b, (setRange (resizePlane [] (W + 1)) 0 (W + 1) b).length = (W + 1 + 63) / 64 := by
          intro b; rw [setRange_length, resizePlane_length]
        have hin : InRange (resizePlane [] (W + 1)) 0 (W + 1) := by
          unfold InRange; rw [resizePlane_length]; have := len_bound (W + 1); omega
        exact parseStr_core _ _ (W + 1) _ _ (by omega) (by rw [hlen]; exact len_bound _) (by rw [hlen]; exact len_bound _)
          (fun p hp => by rw [bit_setRange _ _ _ _ _ hin]; simp [hp])
          (fun p _ hp => by rw [bit_setRange _ _ _ _ _ hin]; simp [hp])

/-- **Every literal.** -/
theorem parseBitVector_spec (s : String) : resultBits (parseBitVector s) = specLiteral s := by
  unfold parseBitVector specLiteral
  generalize splitWidth s.toList = sw
  obtain ⟨width, rest⟩ := sw
  have h4 := parseDigits_spec 4 (by omega) (by omega)
  have h3 := parseDigits_spec 3 (by omega) (by omega)
  have h1 := parseDigits_spec 1 (by omega) (by omega)
  simp only
  split
  · exact parseStr_spec _ _
  · by_cases hok : List.all ‹List Char› (digitOk 4) = true
    · simp only [hok, if_true]; exact h4 _ _
    · simp [hok, resultBits]
  · by_cases hok : List.all ‹List Char› (digitOk 3) = true
    · simp only [hok, if_true]; exact h3 _ _
    · simp [hok, resultBits]
  · by_cases hok : List.all ‹List Char› (digitOk 1) = true
    · simp only [hok, if_true]; exact h1 _ _
    · simp [hok, resultBits]
  · by_cases hok : List.all ‹List Char› isDigit = true
    · simp only [hok, if_true]; exact parseDec_spec _ _
    · simp [hok, resultBits]
  · rename_i hs hx ho hb hd
    simp only [resultBits]


end Gatery.C18

namespace Gatery.C18
open Gatery.Gen

/-- `formatRange` reads exactly the addressed bits: on the bit-array abstraction it is the specification (digit groups most significant
    first, leading digit padded with zeros, `X` for a group holding an undefined bit of the range) — in particular it never looks at
    the bit behind the range. -/
theorem formatRange_abs (v d : Plane) (n base offset size : Nat) (hn : offset + size ≤ n) :
    formatRange v d base offset size = specFormatRange (absPlane v n) (absPlane d n) base offset size := by
  unfold formatRange specFormatRange
  simp only
  congr 1
  apply List.map_congr_left
  intro i _
  have hbit : ∀ (p : Plane) (idx : Nat), idx < size → sBit (absPlane p n) (offset + idx) = bit p (offset + idx) := by
    intro p idx h
    rw [sBit_absPlane]
    have : offset + idx < n := by omega
    simp [this]
  have hall : ∀ (l : List Nat),
      (l.all fun idx => !(decide (idx < size)) || bit d (offset + idx)) =
      (l.all fun idx => !(decide (idx < size)) || sBit (absPlane d n) (offset + idx)) := by
    intro l
    apply List.all_congr rfl
    intro idx
    by_cases h : idx < size
    · simp [h, hbit d idx h]
    · simp [h]
  have hval : ∀ (l : List Nat) (a : Nat),
      l.foldl (fun acc idx => 2 * acc + (if idx < size && bit v (offset + idx) then 1 else 0)) a =
      l.foldl (fun acc idx => 2 * acc + (if idx < size && sBit (absPlane v n) (offset + idx) then 1 else 0)) a := by
    intro l
    induction l with
    | nil => intro a; rfl
    | cons x xs ih =>
      intro a
      simp only [List.foldl_cons]
      by_cases h : x < size
      · simp only [h, decide_true, Bool.true_and, hbit v x h]; exact ih _
      · simp only [h, decide_false, Bool.false_and]; exact ih _
  rw [hall, hval]

end Gatery.C18
