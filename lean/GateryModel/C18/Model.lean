import GateryModel.Gen.BitManip
/-!
# C18 — word-level model of `gtry::sim::BitVectorState<Config>`

A plane is the `std::vector<uint64_t>` of one plane; the model follows
`simulation/BitVectorState.h` member by member (same branches, same word arithmetic).
Leaf bit arithmetic (`bitMaskRange`, `bitfieldInsert`, `bitfieldExtract`, `andNot`)
comes from the translator (`Gen/BitManip.lean`).

Functions are total; where the C++ code asserts (`HCL_ASSERT`) or would access out of
bounds the model's `Pre…` predicates say so and the theorems are stated under them.
The driver refuses (prints `error`) exactly when the predicate is false.
-/
namespace Gatery.C18
open Gatery.Gen

abbrev Plane := List W

/-- word `i` of the plane (0 past the end: only reached outside the preconditions) -/
def wget (p : Plane) (i : Nat) : W := p.getD i 0

/-- `utils::bitExtract(data, idx)` : `data[idx/64] & (1ull << (idx % 64))` -/
def bit (p : Plane) (i : Nat) : Bool := (wget p (i / 64)).getLsbD (i % 64)

def wset (p : Plane) (i : Nat) (w : W) : Plane := p.set i w

/-- `bitSet(void*, idx)` -/
def setBit (p : Plane) (i : Nat) : Plane := wset p (i/64) (wget p (i/64) ||| ((1#64) <<< (i % 64)))
/-- `bitClear(void*, idx)` : `v = andNot(1ull << (idx % 64), v)` -/
def clearBit (p : Plane) (i : Nat) : Plane := wset p (i/64) (andNot ((1#64) <<< (i % 64)) (wget p (i/64)))
/-- `bitToggle(void*, idx)` -/
def toggleBit (p : Plane) (i : Nat) : Plane := wset p (i/64) (wget p (i/64) ^^^ ((1#64) <<< (i % 64)))
/-- `set(plane, idx, bit)` -/
def assignBit (p : Plane) (i : Nat) (b : Bool) : Plane := if b then setBit p i else clearBit p i

/-- `insertNonStraddling` (asserts: `start % 64 + size ≤ 64`, and if `size ≠ 0`: `start / 64 < words`) -/
def insertNS (p : Plane) (start size : Nat) (v : W) : Plane :=
  if size = 0 then p else wset p (start/64) (bitfieldInsert (wget p (start/64)) (start % 64) size v)

def PreNS (p : Plane) (start size : Nat) : Prop := start % 64 + size ≤ 64 ∧ (size ≠ 0 → start / 64 < p.length)
instance (p : Plane) (s n : Nat) : Decidable (PreNS p s n) := by unfold PreNS; infer_instance

/-- `extractNonStraddling` (asserts: `start % 64 + size ≤ 64` and, unless `size = 0` (50cb7cb: a read of zero bits returns 0 without
    touching the storage), `start / 64 < words`) -/
def extractNS (p : Plane) (start size : Nat) : W :=
  bitfieldExtract (wget p (start/64)) (start % 64) size

def PreXNS (p : Plane) (start size : Nat) : Prop := start % 64 + size ≤ 64 ∧ (size ≠ 0 → start / 64 < p.length)
instance (p : Plane) (s n : Nat) : Decidable (PreXNS p s n) := by unfold PreXNS; infer_instance

/-- `extract(plane, offset, size)` (assert: `size ≤ 64`) -/
def extract (p : Plane) (offset size : Nat) : W :=
  let wo := offset % 64
  let val := wget p (offset/64) >>> wo
  let val := if wo + size > 64 then val ||| (wget p (offset/64 + 1) <<< (64 - wo)) else val
  val &&& bitMaskRange 0 size

/-- what `extract` needs to stay in bounds (239873e: a read of zero bits touches nothing) -/
def PreX (p : Plane) (offset size : Nat) : Prop :=
  size ≤ 64 ∧ (size ≠ 0 → offset / 64 < p.length) ∧ (offset % 64 + size > 64 → offset / 64 + 1 < p.length)
instance (p : Plane) (s n : Nat) : Decidable (PreX p s n) := by unfold PreX; infer_instance

/-- `insert(plane, offset, size, value)` (assert: `size ≤ 64`) -/
def insert (p : Plane) (offset size : Nat) (value : W) : Plane :=
  let wo := offset % 64
  if wo + size ≤ 64 then insertNS p offset size value
  else
    let i := offset / 64
    let p := wset p i (bitfieldInsert (wget p i) wo (64 - wo) value)
    let value := value >>> (64 - wo)
    wset p (i+1) (bitfieldInsert (wget p (i+1)) 0 ((wo + size) % 64) value)

def PreI (p : Plane) (offset size : Nat) : Prop :=
  size ≤ 64 ∧ (size ≠ 0 → offset / 64 < p.length) ∧ (offset % 64 + size > 64 → offset / 64 + 1 < p.length)
instance (p : Plane) (s n : Nat) : Decidable (PreI p s n) := by unfold PreI; infer_instance

/-- the loop `for i in Range(numFullWords) m_values[plane][wordOffset+i] = content` -/
def fillWords (p : Plane) (wordOffset : Nat) (content : W) : Nat → Plane
  | 0 => p
  | n+1 => wset (fillWords p wordOffset content n) (wordOffset + n) content

/-- `setRange(plane, offset, size, bit)` -/
def setRange (p : Plane) (offset size : Nat) (b : Bool) : Plane :=
  let content : W := if b then ~~~(0#64) else 0#64
  let firstWordSize := if offset % 64 = 0 then 0 else min size (64 - offset % 64)
  let wordOffset := if offset % 64 = 0 then offset / 64 else offset / 64 + 1
  let p := if offset % 64 = 0 then p else insertNS p offset firstWordSize content
  let numFullWords := (size - firstWordSize) / 64
  let p := fillWords p wordOffset content numFullWords
  let trailing := (size - firstWordSize) % 64
  if trailing > 0 then insertNS p (offset + firstWordSize + numFullWords * 64) trailing content else p

/-- bits `[offset, offset+size)` lie inside the allocated words -/
def InRange (p : Plane) (offset size : Nat) : Prop := offset + size ≤ 64 * p.length
instance (p : Plane) (s n : Nat) : Decidable (InRange p s n) := by unfold InRange; infer_instance

/-- `memcpy` of `bytes` bytes from byte offset `sb` of `src` to byte offset `db` of `dst`
    (distinct objects), as byte-sized non-straddling inserts -/
def memcpyBytes (dst src : Plane) (db sb : Nat) : Nat → Plane
  | 0 => dst
  | n+1 => insertNS (memcpyBytes dst src db sb n) ((db + n) * 8) 8 (extractNS src ((sb + n) * 8) 8)

/-- the `while (offset < width)` chunk loop of `copyRange`, for one plane; `fuel` ≥ number of chunks -/
def copyChunks (dst src : Plane) (dOff sOff width : Nat) : Nat → Nat → Plane
  | 0, _ => dst
  | fuel+1, offset =>
    if offset < width then
      let chunk := min 64 (width - offset)
      copyChunks (insert dst (dOff + offset) chunk (extract src (sOff + offset) chunk)) src dOff sOff width fuel (offset + chunk)
    else dst

/-- `copyRange(dstOffset, src, srcOffset, size)` for one plane -/
def copyRange (dst src : Plane) (dOff sOff size : Nat) : Plane :=
  if sOff % 8 = 0 ∧ dOff % 8 = 0 ∧ size ≥ 8 then
    let bytes := size / 8
    let dst := memcpyBytes dst src (dOff / 8) (sOff / 8) bytes
    let rest := size - bytes * 8
    copyChunks dst src (dOff + bytes * 8) (sOff + bytes * 8) rest (rest / 64 + 1) 0
  else copyChunks dst src dOff sOff size (size / 64 + 1) 0

/-- `resize(size)` for one plane: vector resize (new words are 0) + mask of the last word -/
def resizePlane (p : Plane) (size : Nat) : Plane :=
  let n := (size + 63) / 64
  let p := if n ≤ p.length then p.take n else p ++ List.replicate (n - p.length) 0#64
  if size % 64 ≠ 0 then wset p (n - 1) (wget p (n - 1) &&& bitMaskRange 0 (size % 64)) else p

/-- word-wise masked comparison of `operator==` for one plane -/
def eqPlane (a b : Plane) (size : Nat) : Nat → Bool
  | 0 => true
  | n+1 => eqPlane a b size n &&
      (let mask := bitMaskRange 0 (min 64 (size - n * 64)); (wget a n &&& mask) == (wget b n &&& mask))

/-- `allOne/allZero/anyDefined` scans: the chunked loop structure of the header -/
def scanRange (p : Plane) (start size : Nat) (wordTest : W → Bool) (bitTest : Bool → Bool) : Bool :=
  let startFull := (start + 63) / 64 * 64
  let endFull := (start + size) / 64 * 64
  if startFull < endFull then
    ((List.range (endFull / 64 - startFull / 64)).all fun c => wordTest (wget p (startFull / 64 + c))) &&
    ((List.range (startFull - start)).all fun i => bitTest (bit p (start + i))) &&
    ((List.range (start + size - endFull)).all fun i => bitTest (bit p (endFull + i)))
  else (List.range size).all fun i => bitTest (bit p (start + i))

def allOne (p : Plane) (vsize start size : Nat) : Bool :=
  scanRange p start (min size (vsize - start)) (fun w => ~~~w == 0#64) (fun b => b)
def allZero (p : Plane) (vsize start size : Nat) : Bool :=
  scanRange p start (min size (vsize - start)) (fun w => w == 0#64) (fun b => !b)
/-- `anyDefined` = not (all bits zero) with the same scan -/
def anyOne (p : Plane) (vsize start size : Nat) : Bool :=
  !(scanRange p start (min size (vsize - start)) (fun w => w == 0#64) (fun b => !b))

/-! ## Whole states -/

structure BVS where
  size : Nat
  planes : List Plane
  deriving Repr, BEq, DecidableEq

def BVS.empty (nplanes : Nat) : BVS := ⟨0, List.replicate nplanes []⟩
def BVS.plane (s : BVS) (k : Nat) : Plane := s.planes.getD k []
def BVS.mapPlane (s : BVS) (k : Nat) (f : Plane → Plane) : BVS := { s with planes := s.planes.modify k f }
def BVS.resize (s : BVS) (n : Nat) : BVS := ⟨n, s.planes.map (resizePlane · n)⟩

def BVS.copyRange (d : BVS) (dOff : Nat) (s : BVS) (sOff size : Nat) : BVS :=
  { d with planes := List.zipWith (fun dp sp => C18.copyRange dp sp dOff sOff size) d.planes s.planes }

/-- `compareRange` specialisation for `DefaultConfig` (planes VALUE=0, DEFINED=1) -/
def compareChunksDefault (dv dd sv sd : Plane) (dOff sOff width : Nat) : Nat → Nat → Bool
  | 0, _ => true
  | fuel+1, offset =>
    if offset < width then
      let chunk := min 64 (width - offset)
      let a_value := extract sv (sOff + offset) chunk
      let b_value := extract dv (dOff + offset) chunk
      let a_def := extract sd (sOff + offset) chunk
      let b_def := extract dd (dOff + offset) chunk
      if a_def != b_def then false
      else if ((a_value ^^^ b_value) &&& a_def) != 0#64 then false
      else compareChunksDefault dv dd sv sd dOff sOff width fuel (offset + chunk)
    else true

def BVS.compareRangeDefault (d : BVS) (dOff : Nat) (s : BVS) (sOff size : Nat) : Bool :=
  compareChunksDefault (d.plane 0) (d.plane 1) (s.plane 0) (s.plane 1) dOff sOff size (size / 64 + 1) 0

/-- `compareRange` specialisation for `ExtendedConfig` (VALUE, DEFINED, DONT_CARE, HIGH_IMPEDANCE) -/
def compareChunksExt (d s : BVS) (dOff sOff width : Nat) : Nat → Nat → Bool
  | 0, _ => true
  | fuel+1, offset =>
    if offset < width then
      let chunk := min 64 (width - offset)
      let ex (st : BVS) (k o : Nat) := extract (st.plane k) (o + offset) chunk
      let dc := ex s 2 sOff ||| ex d 2 dOff
      if ((ex s 3 sOff ^^^ ex d 3 dOff) &&& ~~~dc) != 0#64 then false
      else if ((ex s 1 sOff ^^^ ex d 1 dOff) &&& ~~~dc) != 0#64 then false
      else if ((ex s 0 sOff ^^^ ex d 0 dOff) &&& ex s 1 sOff &&& ~~~dc) != 0#64 then false
      else compareChunksExt d s dOff sOff width fuel (offset + chunk)
    else true

def BVS.compareRangeExt (d : BVS) (dOff : Nat) (s : BVS) (sOff size : Nat) : Bool :=
  compareChunksExt d s dOff sOff size (size / 64 + 1) 0

/-- `BitVectorState::extract(start,size)`: resize + (memcpy if byte aligned | copyRange) -/
def BVS.extractState (s : BVS) (start size : Nat) : BVS :=
  let r := (BVS.empty s.planes.length).resize size
  if start % 8 = 0 ∧ size % 8 = 0 then
    { r with planes := List.zipWith (fun rp sp => memcpyBytes rp sp 0 (start / 8) ((size + 7) / 8)) r.planes s.planes }
  else r.copyRange 0 s start size

/-- the chunk loop of `insert(const BitVectorState&, offset, size)` for one plane -/
def insertStateChunks (dst src : Plane) (width : Nat) : Nat → Nat → Nat → Plane
  | 0, _, _ => dst
  | fuel+1, offset, srcOffset =>
    if srcOffset < width then
      let chunk := min 64 (width - srcOffset)
      let chunk := min (64 - (srcOffset + 64) % 64) chunk
      let chunk := min (64 - (offset + 64) % 64) chunk
      insertStateChunks (insertNS dst offset chunk (extractNS src srcOffset chunk)) src width fuel (offset + chunk) (srcOffset + chunk)
    else dst

def BVS.insertState (d : BVS) (s : BVS) (offset size : Nat) : BVS :=
  let width := if size ≠ 0 then size else s.size
  { d with planes := List.zipWith (fun dp sp => insertStateChunks dp sp width (width + 1) offset 0) d.planes s.planes }

def BVS.append (d s : BVS) : BVS :=
  (d.resize (d.size + s.size)).copyRange d.size s 0 s.size

def BVS.eq (a b : BVS) : Bool :=
  a.size == b.size && (List.zipWith (fun pa pb => eqPlane pa pb a.size pa.length) a.planes b.planes).all id

/-! ## Big integers (`extractBigInt` / `insertBigInt` on the VALUE plane) -/

def wordsToNat : List W → Nat
  | [] => 0
  | w :: ws => w.toNat + 2^64 * wordsToNat ws

/-- `extractBigInt(vec, offset, size)`; assert `offset % 64 = 0` when `size > 64` -/
def extractBigInt (p : Plane) (offset size : Nat) : Nat :=
  if size ≤ 64 then (extract p offset size).toNat
  else
    let lastChunkOffset := (offset + size) / 64 * 64
    let lastChunkWidth := size - (lastChunkOffset - offset)
    let part := if lastChunkWidth > 0 then (extractNS p lastChunkOffset lastChunkWidth).toNat else 0
    let full := wordsToNat ((p.drop (offset / 64)).take ((offset + size) / 64 - offset / 64))
    full ||| (part <<< (lastChunkOffset - offset))

/-- `export_bits(v, …, 64, false)` of a non-negative value: little-endian words, none for 0 -/
def natToWords (fuel : Nat) (n : Nat) : List W :=
  match fuel with
  | 0 => []
  | f+1 => if n = 0 then [] else BitVec.ofNat 64 n :: natToWords f (n / 2^64)

/-- `bitwiseNegation(v,width)` on the magnitude `m = |v|` -/
def bitwiseNegation (m : Nat) (width : Nat) : Nat :=
  let words := (natToWords (m + 1) m).map (~~~ ·)
  let words := words ++ List.replicate ((width + 63) / 64 - words.length) (~~~(0#64))
  wordsToNat words

def insertBigIntChunks (p : Plane) (offset size : Nat) (words : List W) : Nat → Nat → Plane
  | 0, _ => p
  | fuel+1, chunk =>
    if chunk < size then
      let chunkSize := min 64 (size - chunk)
      let wordIdx := chunk / 64
      let p := if wordIdx < words.length then insertNS p (offset + chunk) chunkSize (words.getD wordIdx 0)
               else setRange p (offset + chunk) chunkSize false
      insertBigIntChunks p offset size words fuel (chunk + chunkSize)
    else p

/-- `insertBigInt(vec, offset, size, v)`; boost's `cpp_int` is sign-magnitude, `export_bits` exports the magnitude -/
def insertBigInt (p : Plane) (offset size : Nat) (v : Int) : Plane :=
  let m : Nat := if v < 0 then bitwiseNegation v.natAbs size + 1 else v.toNat
  let words := natToWords (m + 1) m
  if size ≤ 64 then
    if words.isEmpty then setRange p offset size false else insert p offset size (words.getD 0 0)
  else insertBigIntChunks p offset size words (size / 64 + 1) 0

/-! ## Specification: an array of bits -/

/-- the abstraction: the first `n` bits of a plane -/
def absPlane (p : Plane) (n : Nat) : List Bool := (List.range n).map (bit p)

def BVS.abs (s : BVS) : List (List Bool) := s.planes.map (absPlane · s.size)

end Gatery.C18
