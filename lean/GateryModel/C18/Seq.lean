import GateryModel.C18.Lemmas2
/-! Operation sequences on one plane: the word-level model refines the bit-array spec along any history. -/
namespace Gatery.C18
open Gatery.Gen

/-- one plane together with the logical size of its state -/
structure P1 where
  size : Nat
  words : Plane

structure S1 where
  bits : Bits

inductive Op where
  | resize (n : Nat)
  | assign (i : Nat) (b : Bool)
  | toggle (i : Nat)
  | setRange (off size : Nat) (b : Bool)
  | insert (off size : Nat) (v : W)
  | copyFrom (dOff : Nat) (src : P1) (sOff size : Nat)

def P1.WF (s : P1) : Prop := s.words.length = (s.size + 63) / 64 ∧ Clean s.words s.size

def Op.valid (s : P1) : Op → Prop
  | .resize _ => True
  | .assign i _ => i < s.size
  | .toggle i => i < s.size
  | .setRange off size _ => off + size ≤ s.size
  | .insert off size _ => size ≤ 64 ∧ off + size ≤ s.size
  | .copyFrom dOff src sOff size => src.WF ∧ dOff + size ≤ s.size ∧ sOff + size ≤ src.size

def P1.apply (s : P1) : Op → P1
  | .resize n => ⟨n, resizePlane s.words n⟩
  | .assign i b => ⟨s.size, assignBit s.words i b⟩
  | .toggle i => ⟨s.size, toggleBit s.words i⟩
  | .setRange off size b => ⟨s.size, setRange s.words off size b⟩
  | .insert off size v => ⟨s.size, insert s.words off size v⟩
  | .copyFrom dOff src sOff size => ⟨s.size, copyRange s.words src.words dOff sOff size⟩

def P1.abs (s : P1) : Bits := absPlane s.words s.size

def specApply (b : Bits) : Op → Bits
  | .resize n => specResize b n
  | .assign i v => specAssign b i v
  | .toggle i => specToggle b i
  | .setRange off size v => specSetRange b off size v
  | .insert off size v => specInsert b off size v
  | .copyFrom dOff src sOff size => specCopy b src.abs dOff sOff size

def validSeq (s : P1) : List Op → Prop
  | [] => True
  | op :: ops => op.valid s ∧ validSeq (s.apply op) ops

theorem one_shl_getLsbD (k j : Nat) (hk : k < 64) : ((1#64) <<< k).getLsbD j = decide (j = k) := by
  simp only [BitVec.getLsbD_shiftLeft]
  by_cases h : j = k
  · subst h; simp [hk]
  · by_cases h2 : j < k
    · simp [h, h2]
    · have : j - k ≠ 0 := by omega
      have hj : ¬ j < k := h2
      simp only [hj, decide_false, Bool.not_false, Bool.true_and, h]
      by_cases h64 : j < 64
      · simp [h64]; intro e; omega
      · simp [h64]

theorem bit_assignBit (p : Plane) (i j : Nat) (b : Bool) (h : i / 64 < p.length) :
    bit (assignBit p i b) j = if j = i then b else bit p j := by
  have hi : i % 64 < 64 := Nat.mod_lt _ (by omega)
  have hj : j % 64 < 64 := Nat.mod_lt _ (by omega)
  unfold assignBit setBit clearBit andNot
  cases b
  · simp only [Bool.false_eq_true, if_false]
    rw [bit_wset _ _ _ _ h]
    by_cases hw : j / 64 = i / 64
    · simp only [hw, if_true, BitVec.getLsbD_and, BitVec.getLsbD_not, one_shl_getLsbD _ _ hi, hj, decide_true, Bool.true_and]
      by_cases e : j = i
      · subst e; simp
      · have : ¬ j % 64 = i % 64 := by omega
        simp only [this, decide_false, Bool.not_false, Bool.true_and, e, if_false]
        unfold bit; rw [hw]
    · have : ¬ j = i := by intro e; subst e; exact hw rfl
      simp [hw, this]
  · simp only [if_true]
    rw [bit_wset _ _ _ _ h]
    by_cases hw : j / 64 = i / 64
    · simp only [hw, if_true, BitVec.getLsbD_or, one_shl_getLsbD _ _ hi]
      by_cases e : j = i
      · subst e; simp
      · have : ¬ j % 64 = i % 64 := by omega
        simp only [this, decide_false, Bool.or_false, e, if_false]
        unfold bit; rw [hw]
    · have : ¬ j = i := by intro e; subst e; exact hw rfl
      simp [hw, this]

theorem bit_toggleBit (p : Plane) (i j : Nat) (h : i / 64 < p.length) :
    bit (toggleBit p i) j = if j = i then !bit p j else bit p j := by
  have hi : i % 64 < 64 := Nat.mod_lt _ (by omega)
  unfold toggleBit
  rw [bit_wset _ _ _ _ h]
  by_cases hw : j / 64 = i / 64
  · simp only [hw, if_true, BitVec.getLsbD_xor, one_shl_getLsbD _ _ hi]
    by_cases e : j = i
    · subst e; simp [bit]
    · have : ¬ j % 64 = i % 64 := by omega
      simp only [this, decide_false, Bool.xor_false, e, if_false]
      unfold bit; rw [hw]
  · have : ¬ j = i := by intro e; subst e; exact hw rfl
    simp [hw, this]

theorem assignBit_length (p : Plane) (i : Nat) (b : Bool) : (assignBit p i b).length = p.length := by
  unfold assignBit setBit clearBit; split <;> simp [wset_length]
theorem toggleBit_length (p : Plane) (i : Nat) : (toggleBit p i).length = p.length := by
  unfold toggleBit; simp [wset_length]
theorem setRange_length (p : Plane) (off size : Nat) (b : Bool) : (setRange p off size b).length = p.length := by
  unfold setRange; simp only; split <;> split <;> simp [insertNS_length, fillWords_length]
theorem copyRange_length (d s : Plane) (a b c : Nat) : (copyRange d s a b c).length = d.length := by
  unfold copyRange; split <;> simp [copyChunks_length, memcpyBytes_length]

theorem sBit_getD_set (b : Bits) (i j : Nat) (v : Bool) (h : i < b.length) :
    sBit (b.set i v) j = if j = i then v else sBit b j := by
  unfold sBit
  simp only [List.getD_eq_getElem?_getD, List.getElem?_set]
  by_cases e : i = j
  · subst e; simp [h]
  · have : ¬ j = i := fun x => e x.symm
    simp [e, this]

theorem list_eq_of_sBit (a b : Bits) (hl : a.length = b.length) (h : ∀ i, i < a.length → sBit a i = sBit b i) : a = b := by
  apply List.ext_getElem hl
  intro i h1 h2
  have := h i h1
  unfold sBit at this
  simpa [List.getD_eq_getElem?_getD, h1, h2] using this

/-- single-step refinement + invariant preservation -/
theorem apply_abs (s : P1) (op : Op) (hwf : s.WF) (hv : op.valid s) :
    (s.apply op).abs = specApply s.abs op ∧ (s.apply op).WF := by
  obtain ⟨hlen, hclean⟩ := hwf
  have hcap : s.size ≤ 64 * s.words.length := by omega
  cases op with
  | resize n =>
    exact ⟨resize_abs _ _ _ hclean, resizePlane_length _ _, resize_clean _ _⟩
  | assign i b =>
    have hi : i < s.size := hv
    have hw : i / 64 < s.words.length := by omega
    refine ⟨?_, by simp [P1.apply, assignBit_length, hlen], ?_⟩
    · apply list_eq_of_sBit
      · simp [P1.abs, P1.apply, specApply, specAssign, absPlane_length]
      · intro j hj
        simp only [P1.abs, P1.apply, specApply, specAssign, absPlane_length] at hj ⊢
        rw [sBit_absPlane, bit_assignBit _ _ _ _ hw, sBit_getD_set _ _ _ _ (by rw [absPlane_length]; exact hi), sBit_absPlane]
        by_cases e : j = i <;> simp [e, hj, hi]
    · intro j hj
      simp only [P1.apply] at hj ⊢
      rw [bit_assignBit _ _ _ _ hw]
      have : ¬ j = i := by omega
      simp [this, hclean j hj]
  | toggle i =>
    have hi : i < s.size := hv
    have hw : i / 64 < s.words.length := by omega
    refine ⟨?_, by simp [P1.apply, toggleBit_length, hlen], ?_⟩
    · apply list_eq_of_sBit
      · simp [P1.abs, P1.apply, specApply, specToggle, absPlane_length]
      · intro j hj
        simp only [P1.abs, P1.apply, specApply, specToggle, absPlane_length] at hj ⊢
        rw [sBit_absPlane, bit_toggleBit _ _ _ hw, sBit_getD_set _ _ _ _ (by rw [absPlane_length]; exact hi), sBit_absPlane, sBit_absPlane]
        by_cases e : j = i <;> simp [e, hj, hi]
    · intro j hj
      simp only [P1.apply] at hj ⊢
      rw [bit_toggleBit _ _ _ hw]
      have : ¬ j = i := by omega
      simp [this, hclean j hj]
  | setRange off size b =>
    have hr : off + size ≤ s.size := hv
    have hin : InRange s.words off size := by unfold InRange; omega
    refine ⟨setRange_abs _ _ _ _ _ hin, by simp [P1.apply, setRange_length, hlen], ?_⟩
    intro j hj
    simp only [P1.apply] at hj ⊢
    rw [bit_setRange _ _ _ _ _ hin]
    have : ¬ (off ≤ j ∧ j < off + size) := by omega
    simp [this, hclean j hj]
  | insert off size v =>
    obtain ⟨h64, hr⟩ := hv
    have hpi : PreI s.words off size := ⟨h64, by intro; omega, by intro; omega⟩
    refine ⟨insert_abs _ _ _ _ _ hpi, by simp [P1.apply, insert_length, hlen], ?_⟩
    intro j hj
    simp only [P1.apply] at hj ⊢
    rw [bit_insert _ _ _ _ _ hpi]
    have : ¬ (off ≤ j ∧ j < off + size) := by omega
    simp [this, hclean j hj]
  | copyFrom dOff src sOff size =>
    obtain ⟨⟨slen, _⟩, hd, hs⟩ := hv
    have hd' : dOff + size ≤ 64 * s.words.length := by omega
    have hs' : sOff + size ≤ 64 * src.words.length := by omega
    refine ⟨copyRange_abs _ _ _ _ _ _ _ hd' hs' hs, by simp [P1.apply, copyRange_length, hlen], ?_⟩
    intro j hj
    simp only [P1.apply] at hj ⊢
    rw [bit_copyRange _ _ _ _ _ _ hd' hs']
    have : ¬ (dOff ≤ j ∧ j < dOff + size) := by omega
    simp [this, hclean j hj]

/-- every operation history: the model's abstraction equals the spec run on the abstraction -/
theorem run_abs (s : P1) (ops : List Op) (hwf : s.WF) (hv : validSeq s ops) :
    (ops.foldl P1.apply s).abs = ops.foldl specApply s.abs ∧ (ops.foldl P1.apply s).WF := by
  induction ops generalizing s with
  | nil => exact ⟨rfl, hwf⟩
  | cons op ops ih =>
    obtain ⟨h1, h2⟩ := hv
    obtain ⟨e, w⟩ := apply_abs s op hwf h1
    simp only [List.foldl_cons]
    rw [← e]
    exact ih _ w h2

end Gatery.C18
