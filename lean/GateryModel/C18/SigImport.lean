/-!
# C18 — integers through the simulation signal handles (`simulation/SigHandle.cpp`)

`SigHandle::operator=(std::uint64_t)` (`:32-45`), `operator=(std::int64_t)` (`:47-59`), `assign(BigInt)` (`:190-199`, through
`insertBigInt`), and the way back: `value()`, `operator std::int64_t` (`:208-224`), `operator BigInt` (`:201-205`).
Model = the statements as written (prefill of the VALUE plane, then word 0 overwritten); specification = the number modulo `2^w`
in two's complement. Core Lean only.
-/
namespace Gatery.C18.Sig

/-- the machine word a `std::int64_t` / `std::uint64_t` argument is stored as -/
def word64 (v : Int) : Nat := (v % (2:Int)^64).toNat

/-- `operator=(std::uint64_t v)`: VALUE plane cleared, `data(VALUE)[0] = v`; bits of the signal = bits `< w` of that -/
def importU64 (w : Nat) (v : Nat) (i : Nat) : Bool := decide (i < w) && decide (i < 64) && (v % 2^64).testBit i

/-- `operator=(std::int64_t v)`: VALUE plane prefilled with the sign bit `(v >> 63) & 1`, then `data(VALUE)[0] = v` -/
def importI64 (w : Nat) (v : Int) (i : Nat) : Bool :=
  decide (i < w) && (if i < 64 then (word64 v).testBit i else (word64 v).testBit 63)

/-- specification: bit `i` of `v mod 2^w` (two's complement in `w` bits) -/
def specImport (w : Nat) (v : Int) (i : Nat) : Bool := decide (i < w) && (v % (2:Int)^w).toNat.testBit i

/-- unsigned value of a bit function of width `w` -/
def toNat (w : Nat) (bits : Nat → Bool) : Nat := (List.range w).foldl (fun acc i => acc + (if bits i then 2^i else 0)) 0

/-- `operator std::int64_t` for `w ≤ 64`: sign extension from bit `w-1` (`res |= ~0 << w`), read as a signed 64 bit number -/
def exportI64 (w : Nat) (bits : Nat → Bool) : Int :=
  if w = 0 then 0 else
  let u := toNat w bits
  let ext := if w < 64 ∧ bits (w - 1) then u + (2^64 - 2^w) else u
  if ext < 2^63 then (ext : Int) else (ext : Int) - (2:Int)^64

/-- specification: the signed reading of the `w` bits -/
def specSigned (w : Nat) (bits : Nat → Bool) : Int :=
  if w = 0 then 0 else if bits (w - 1) then (toNat w bits : Int) - (2:Int)^w else toNat w bits

/-! ## byte arrays (`BitVectorState.cpp`: `createDefaultBitVectorState(span)`, `operator==(state, span)`) — specification -/

/-- bit `i` of a byte array read as a little-endian bit string -/
def bytesBit (bytes : List Nat) (i : Nat) : Bool := (bytes.getD (i / 8) 0).testBit (i % 8)

/-- a state given by its characters (LSB first, `0`/`1`/`x`) is the import of the byte array: `8·n` bits, all defined, bit for bit -/
def isImportOf (chars : List Char) (bytes : List Nat) : Bool :=
  chars.length == 8 * bytes.length && (List.range chars.length).all fun i => chars.getD i 'x' == (if bytesBit bytes i then '1' else '0')

/-- `state == bytes`: every bit of the state is defined and equals the corresponding bit of the array (an undefined bit anywhere makes
    the comparison false) — which is the same predicate -/
def eqBytesSpec (chars : List Char) (bytes : List Nat) : Bool := isImportOf chars bytes

/-- `asData(state, dst, filler)`: bit `i` of the exported bytes is the state's bit where it is defined, else bit `i % 8` of the filler
    byte `(i / 8) % |filler|` (the byte `'X'` = 0x58 when no filler is given) -/
def asDataBit (chars : List Char) (filler : List Nat) (i : Nat) : Bool :=
  let c := chars.getD i 'x'
  if c == '1' then true else if c == '0' then false
  else (if filler.isEmpty then 0x58 else filler.getD ((i / 8) % filler.length) 0).testBit (i % 8)

end Gatery.C18.Sig
