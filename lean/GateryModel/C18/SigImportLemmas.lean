import GateryModel.C18.SigImport
/-!
# C18 — the signal-handle integer conversions equal the number modulo `2^w` in two's complement (proofs)
-/
namespace Gatery.C18.Sig

theorem emod_nonneg_toNat (n w : Nat) : (((n : Int)) % (2:Int)^w).toNat = n % 2^w := by
  have : ((2:Int)^w) = ((2^w : Nat) : Int) := by simp
  rw [this, ← Int.natCast_emod, Int.toNat_natCast]

theorem emod_negSucc_toNat (m w : Nat) : ((Int.negSucc m) % (2:Int)^w).toNat = 2^w - (m % 2^w + 1) := by
  have h2 : ((2:Int)^w) = ((2^w : Nat) : Int) := by simp
  have hp : (0:Int) < (2:Int)^w := by rw [h2]; exact Int.natCast_pos.mpr (Nat.two_pow_pos w)
  rw [Int.negSucc_emod m hp, h2, ← Int.natCast_emod]
  have hlt : m % 2^w < 2^w := Nat.mod_lt _ (Nat.two_pow_pos w)
  omega

theorem testBit_of_lt_pow {n i j : Nat} (h : n < 2^i) (hij : i ≤ j) : n.testBit j = false :=
  Nat.testBit_lt_two_pow (Nat.lt_of_lt_of_le h (Nat.pow_le_pow_right (by omega) hij))

/-- **`operator=(std::int64_t)`** stores the number modulo `2^w` in two's complement, for every width (sign extension above bit 63) -/
theorem importI64_spec (w : Nat) (v : Int) (hlo : -(2:Int)^63 ≤ v) (hhi : v < (2:Int)^63) (i : Nat) :
    importI64 w v i = specImport w v i := by
  unfold importI64 specImport word64
  by_cases hiw : i < w
  · simp only [hiw, decide_true, Bool.true_and]
    cases v with
    | ofNat n =>
      have hn : n < 2^63 := by
        have : ((n : Int)) < ((2^63 : Nat) : Int) := by simpa using hhi
        exact Int.ofNat_lt.mp this
      rw [show (Int.ofNat n) = (n : Int) from rfl, emod_nonneg_toNat, emod_nonneg_toNat]
      rw [Nat.testBit_mod_two_pow, Nat.testBit_mod_two_pow, Nat.testBit_mod_two_pow]
      by_cases h64 : i < 64
      · simp [h64, hiw]
      · simp only [h64, if_false, hiw, decide_true, Bool.true_and]
        rw [testBit_of_lt_pow hn (Nat.le_refl 63), testBit_of_lt_pow hn (by omega)]
        simp
    | negSucc m =>
      have hm : m < 2^63 := by
        have : -((2^63 : Nat) : Int) ≤ Int.negSucc m := by simpa using hlo
        rw [Int.negSucc_eq] at this
        omega
      rw [emod_negSucc_toNat, emod_negSucc_toNat]
      have l64 : m % 2^64 < 2^64 := Nat.mod_lt _ (Nat.two_pow_pos 64)
      have lw : m % 2^w < 2^w := Nat.mod_lt _ (Nat.two_pow_pos w)
      rw [Nat.testBit_two_pow_sub_succ l64, Nat.testBit_two_pow_sub_succ l64, Nat.testBit_two_pow_sub_succ lw]
      rw [Nat.testBit_mod_two_pow, Nat.testBit_mod_two_pow, Nat.testBit_mod_two_pow]
      by_cases h64 : i < 64
      · simp [h64, hiw]
      · simp only [h64, if_false, hiw, decide_true, Bool.true_and]
        rw [testBit_of_lt_pow hm (Nat.le_refl 63), testBit_of_lt_pow hm (by omega)]
        simp
  · simp [hiw]

/-- **`operator=(std::uint64_t)`** stores the number zero extended, for every width -/
theorem importU64_spec (w v : Nat) (hv : v < 2^64) (i : Nat) : importU64 w v i = specImport w (v : Int) i := by
  unfold importU64 specImport
  rw [emod_nonneg_toNat, Nat.testBit_mod_two_pow, Nat.testBit_mod_two_pow]
  by_cases hiw : i < w <;> by_cases h64 : i < 64 <;> simp [hiw, h64]
  exact testBit_of_lt_pow (i := 64) hv (by omega)
end Gatery.C18.Sig

namespace Gatery.C18.Sig
theorem toNat_succ (w : Nat) (bits : Nat → Bool) : toNat (w+1) bits = toNat w bits + (if bits w then 2^w else 0) := by
  simp [toNat, List.range_succ, List.foldl_append]

theorem toNat_lt (w : Nat) (bits : Nat → Bool) : toNat w bits < 2^w := by
  induction w with
  | zero => simp [toNat]
  | succ n ih =>
    rw [toNat_succ, Nat.pow_succ]
    split <;> omega

/-- **`operator std::int64_t`** returns the signed (two's complement) reading of the `w ≤ 64` bits -/
theorem exportI64_spec (w : Nat) (hw : w ≤ 64) (bits : Nat → Bool) : exportI64 w bits = specSigned w bits := by
  unfold exportI64 specSigned
  by_cases h0 : w = 0
  · simp [h0]
  · simp only [h0, if_false]
    obtain ⟨n, rfl⟩ : ∃ n, w = n + 1 := ⟨w - 1, by omega⟩
    simp only [Nat.add_sub_cancel]
    have hu := toNat_lt n bits
    have hs := toNat_succ n bits
    have hp : 2^(n+1) = 2 * 2^n := by rw [Nat.pow_succ]; omega
    have hpow : 2^n ≤ 2^63 := Nat.pow_le_pow_right (by omega) (by omega)
    have h63 : (2:Nat)^63 = 9223372036854775808 := by decide
    have h64 : (2:Nat)^64 = 18446744073709551616 := by decide
    have hi63 : (2:Int)^63 = 9223372036854775808 := by decide
    have hi64 : (2:Int)^64 = 18446744073709551616 := by decide
    have hcast : ((2:Int)^(n+1)) = ((2^(n+1) : Nat) : Int) := by simp
    rw [hcast]
    by_cases hb : bits n = true
    · simp only [hb, if_true] at hs ⊢
      by_cases hlt : n + 1 < 64
      · simp only [hlt, true_and, if_true]
        have : ¬ (toNat (n+1) bits + (2^64 - 2^(n+1)) < 2^63) := by omega
        simp only [this, if_false]
        have hle : 2^(n+1) ≤ 2^64 := Nat.pow_le_pow_right (by omega) (by omega)
        push_cast
        omega
      · have hn : n = 63 := by omega
        have hp64 : (2:Nat)^(n+1) = 2^64 := by rw [hn]
        simp only [hlt, false_and, if_false]
        have : ¬ (toNat (n+1) bits < 2^63) := by omega
        simp only [this, if_false]
        rw [hp64]
        omega
    · simp only [hb, Bool.false_eq_true, if_false, and_false] at hs ⊢
      have : toNat (n+1) bits < 2^63 := by omega
      rw [if_pos this]
end Gatery.C18.Sig
