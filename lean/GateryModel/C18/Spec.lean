import GateryModel.C18.Model
/-!
# C18 — the specification: a plain array of bits per plane

Every operation of the container is specified on `List Bool` (index = bit index),
without any reference to words. `Properties/C18.lean` proves the word-level model equal to
these; the driver also evaluates them against the implementation's dumps directly.
-/
namespace Gatery.C18
open Gatery.Gen

abbrev Bits := List Bool

def sBit (b : Bits) (i : Nat) : Bool := b.getD i false

def specResize (b : Bits) (n : Nat) : Bits := (List.range n).map fun i => if i < b.length then sBit b i else false
def specAssign (b : Bits) (i : Nat) (v : Bool) : Bits := b.set i v
def specToggle (b : Bits) (i : Nat) : Bits := b.set i (!sBit b i)
def specSetRange (b : Bits) (off size : Nat) (v : Bool) : Bits :=
  (List.range b.length).map fun i => if off ≤ i ∧ i < off + size then v else sBit b i
def specCopy (dst src : Bits) (dOff sOff size : Nat) : Bits :=
  (List.range dst.length).map fun i => if dOff ≤ i ∧ i < dOff + size then sBit src (sOff + (i - dOff)) else sBit dst i
def specInsert (b : Bits) (off size : Nat) (v : W) : Bits :=
  (List.range b.length).map fun i => if off ≤ i ∧ i < off + size then v.getLsbD (i - off) else sBit b i

def bitsToNat : Bits → Nat
  | [] => 0
  | x :: xs => (if x then 1 else 0) + 2 * bitsToNat xs

def slice (b : Bits) (off size : Nat) : Bits := (List.range size).map fun j => sBit b (off + j)

def specExtract (b : Bits) (off size : Nat) : W := BitVec.ofNat 64 (bitsToNat (slice b off size))
def specBigExtract (b : Bits) (off size : Nat) : Nat := bitsToNat (slice b off size)
/-- writes `v mod 2^size` (two's complement for negative `v`) -/
def specBigInsert (b : Bits) (off size : Nat) (v : Int) : Bits :=
  let m : Nat := (v % (2 ^ size : Int)).toNat
  (List.range b.length).map fun i => if off ≤ i ∧ i < off + size then m.testBit (i - off) else sBit b i

def specAll (b : Bits) (vsize start size : Nat) (t : Bool) : Bool :=
  (List.range (min size (vsize - start))).all fun j => sBit b (start + j) == t

/-- DefaultConfig comparison: same definedness and equal values where defined -/
def specCompareDefault (dv dd sv sd : Bits) (dOff sOff size : Nat) : Bool :=
  (List.range size).all fun j =>
    sBit sd (sOff + j) == sBit dd (dOff + j) && (!sBit sd (sOff + j) || sBit sv (sOff + j) == sBit dv (dOff + j))

/-- ExtendedConfig comparison: positions where either side is don't-care are ignored -/
def specCompareExt (d s : List Bits) (dOff sOff size : Nat) : Bool :=
  let pl (x : List Bits) (k : Nat) := x.getD k []
  (List.range size).all fun j =>
    let dc := sBit (pl s 2) (sOff + j) || sBit (pl d 2) (dOff + j)
    dc || (sBit (pl s 3) (sOff + j) == sBit (pl d 3) (dOff + j)
        && sBit (pl s 1) (sOff + j) == sBit (pl d 1) (dOff + j)
        && (!sBit (pl s 1) (sOff + j) || sBit (pl s 0) (sOff + j) == sBit (pl d 0) (dOff + j)))

end Gatery.C18
