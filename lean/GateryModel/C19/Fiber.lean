/-!
# C19 — the thread hand-off protocol of `sim::SimulationFiber`

Anchor: `/repo/source/gatery/simulation/simProc/SimulationFiber.cpp:27-87` (`start`, `suspend`, `resume`, `terminate`, the thread
lambda, `~SimulationFiber`), `SimulationFiber.h:59-77` (`awaitCoroutine` calls `suspend()` from the fiber thread, the wrapper
coroutine calls `resume()` from the simulator thread).

A transition system over (simulator-thread pc, fiber-thread pc, owner of `m_mutex`, `m_threadRunning`, `m_terminate`).
`std::condition_variable::wait` = release the mutex, block, wake up (on a notification **or spuriously**, i.e. at any time),
re-acquire the mutex. Because spurious wake-ups are allowed, notifications add no behaviour for safety and are not represented.
Every interleaving of the two threads is a path of `next`.
-/
namespace Gatery.C19.Fiber

/-- program counter of the simulator ("main") thread -/
inductive MPc
  | idle                                  -- outside `start/resume/terminate/join`: simulator code runs
  | startLock | startSpawn | startCheck | startWait | startWake          -- `start()`
  | resumeLock | resumeSet | resumeCheck | resumeWait | resumeWake       -- `resume()`
  | termLock | termSet | termCheck | termWait | termWake                 -- `terminate()`
  | joining                                                              -- `m_thread.join()` in `~SimulationFiber`
  deriving DecidableEq, Repr

/-- program counter of the fiber thread -/
inductive FPc
  | notStarted
  | body                                  -- `m_body()` runs user code
  | suspLock | suspSet | suspCheck | suspWait | suspWake | suspTermCheck  -- `suspend()`
  | unwind                                -- `SimulationTerminated` propagates through the user code (destructors run)
  | exitLock | exitSet                    -- tail of the thread lambda: lock, `m_threadRunning = false`, notify
  | finished
  deriving DecidableEq, Repr

inductive Owner | free | main | fiber
  deriving DecidableEq, Repr

structure St where
  m : MPc
  f : FPc
  lock : Owner
  running : Bool       -- `m_threadRunning`
  terminate : Bool     -- `m_terminate`
  deriving DecidableEq, Repr

/-- a freshly constructed `SimulationFiber` (`m_terminate = false`, `m_threadRunning = true`, SimulationFiber.h:52-53) -/
def init : St := ⟨.idle, .notStarted, .free, true, false⟩

/-- steps of the simulator thread -/
def nextMain (s : St) : List St :=
  match s.m with
  | .idle =>
    -- the simulator may call `start()` once, then `resume()` / `terminate()` at any time it runs
    (if s.f = .notStarted then [{ s with m := .startLock }] else [{ s with m := .resumeLock }, { s with m := .termLock }])
  | .startLock => if s.lock = .free then [{ s with m := .startSpawn, lock := .main }] else []
  | .startSpawn => [{ s with m := .startCheck, terminate := false, running := true, f := .body }]
  | .startCheck => if s.running then [{ s with m := .startWait, lock := .free }] else [{ s with m := .idle, lock := .free }]
  | .startWait => [{ s with m := .startWake }]
  | .startWake => if s.lock = .free then [{ s with m := .startCheck, lock := .main }] else []
  | .resumeLock => if s.lock = .free then [{ s with m := .resumeSet, lock := .main }] else []
  | .resumeSet => [{ s with m := .resumeCheck, running := true }]
  | .resumeCheck => if s.running then [{ s with m := .resumeWait, lock := .free }] else [{ s with m := .idle, lock := .free }]
  | .resumeWait => [{ s with m := .resumeWake }]
  | .resumeWake => if s.lock = .free then [{ s with m := .resumeCheck, lock := .main }] else []
  | .termLock => if s.lock = .free then [{ s with m := .termSet, lock := .main }] else []
  | .termSet => [{ s with m := .termCheck, terminate := true }]
  | .termCheck => if s.running then [{ s with m := .termWait, lock := .free }] else [{ s with m := .joining, lock := .free }]
  | .termWait => [{ s with m := .termWake }]
  | .termWake => if s.lock = .free then [{ s with m := .termCheck, lock := .main }] else []
  | .joining => if s.f = .finished then [{ s with m := .idle }] else []

/-- steps of the fiber thread -/
def nextFiber (s : St) : List St :=
  match s.f with
  | .notStarted => []
  | .body => [{ s with f := .suspLock }, { s with f := .exitLock }]      -- calls `suspend()` (via `awaitCoroutine`) or returns
  | .suspLock => if s.lock = .free then [{ s with f := .suspSet, lock := .fiber }] else []
  | .suspSet => [{ s with f := .suspCheck, running := false }]
  | .suspCheck => if !s.running then [{ s with f := .suspWait, lock := .free }] else [{ s with f := .body, lock := .free }]
  | .suspWait => [{ s with f := .suspWake }]
  | .suspWake => if s.lock = .free then [{ s with f := .suspTermCheck, lock := .fiber }] else []
  | .suspTermCheck => if s.terminate then [{ s with f := .unwind, lock := .free }] else [{ s with f := .suspCheck }]
  | .unwind => [{ s with f := .exitLock }]
  | .exitLock => if s.lock = .free then [{ s with f := .exitSet, lock := .fiber }] else []
  | .exitSet => [{ s with f := .finished, running := false, lock := .free }]
  | .finished => []

def next (s : St) : List St := nextMain s ++ nextFiber s

inductive Reachable : St → Prop
  | init : Reachable init
  | step {s s' : St} : Reachable s → s' ∈ next s → Reachable s'

/-- simulator code runs -/
def mainActive (s : St) : Bool := s.m = .idle
/-- user code of the fiber runs (body or exception unwinding) -/
def fiberActive (s : St) : Bool := s.f = .body || s.f = .unwind

/-- the two threads never run user/simulator code at the same time, and the mutex is never held by both -/
def safe (s : St) : Bool := !(mainActive s && fiberActive s)

/-! ### reachable states by exhaustive exploration (finite state space) -/

def addNew (seen : List St) : List St → List St
  | [] => seen
  | x :: xs => if seen.contains x then addNew seen xs else addNew (seen ++ [x]) xs

/-- breadth-first closure, `fuel` rounds -/
def explore : Nat → List St → List St
  | 0, seen => seen
  | n+1, seen => explore n (addNew seen (seen.flatMap next))

/-- all reachable states (the exploration is closed after 40 rounds, see `closed`) -/
def reachList : List St := explore 40 [init]

set_option maxRecDepth 1000000 in
theorem init_mem : init ∈ reachList := by decide
set_option maxRecDepth 1000000 in
theorem closed : (reachList.all fun s => (next s).all fun s' => reachList.contains s') = true := by decide
set_option maxRecDepth 1000000 in
theorem all_safe : reachList.all safe = true := by decide

theorem reachable_mem {s : St} (h : Reachable s) : s ∈ reachList := by
  induction h with
  | init => exact init_mem
  | step _ hn ih =>
    have := List.all_eq_true.1 closed _ ih
    have := List.all_eq_true.1 this _ hn
    simpa using this

/-- **mutual exclusion for every interleaving**: in every reachable state of the hand-off protocol — any scheduling of the two
    threads, any spurious wake-ups — simulator code and the fiber's user code are never both running -/
theorem fiber_mutex {s : St} (h : Reachable s) : ¬ (mainActive s = true ∧ fiberActive s = true) := by
  have := List.all_eq_true.1 all_safe _ (reachable_mem h)
  intro ⟨h1, h2⟩
  simp [safe, h1, h2] at this

end Gatery.C19.Fiber
