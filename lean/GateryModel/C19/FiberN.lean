import GateryModel.C19.Fiber
/-!
# C19 — any number of fibers

Every `SimulationFiber` has its own mutex, flags and condition variables; the simulator thread is inside a blocking call
(`start`, `resume`, `terminate`, `join`) of at most one fiber at a time. The global system projects, fiber by fiber, onto the
single-fiber protocol of `Fiber.lean` (a global step is a step of the projection or leaves it unchanged), so the exhaustively
checked invariant lifts to any number of fibers: at most one of {simulator, fiber₁, …, fiberₙ} runs code at any time.
-/
namespace Gatery.C19.Fiber

/-- per-fiber state -/
structure Local where
  f : FPc := .notStarted
  lock : Owner := .free
  running : Bool := true
  terminate : Bool := false
  deriving DecidableEq, Repr

/-- global state: simulator-thread pc, the fiber whose member function it is executing (meaningful when `m ≠ idle`), all fibers -/
structure G where
  m : MPc
  cur : Nat
  fibers : List Local

def G.loc (g : G) (i : Nat) : Local := g.fibers.getD i {}

/-- the single-fiber view of fiber `i` -/
def proj (g : G) (i : Nat) : St :=
  ⟨if g.cur = i then g.m else .idle, (g.loc i).f, (g.loc i).lock, (g.loc i).running, (g.loc i).terminate⟩

def St.loc (s : St) : Local := ⟨s.f, s.lock, s.running, s.terminate⟩

inductive GStep : G → G → Prop
  /-- the simulator thread executes a step of a member function of fiber `j` (it can start one only when it is idle) -/
  | main (g : G) (j : Nat) (hj : j < g.fibers.length) (hfree : g.m = .idle ∨ g.cur = j) (s' : St)
      (hs : s' ∈ nextMain ⟨g.m, (g.loc j).f, (g.loc j).lock, (g.loc j).running, (g.loc j).terminate⟩) :
      GStep g ⟨s'.m, j, g.fibers.set j s'.loc⟩
  /-- the thread of fiber `i` executes a step -/
  | fiber (g : G) (i : Nat) (hi : i < g.fibers.length) (s' : St) (hs : s' ∈ nextFiber (proj g i)) :
      GStep g ⟨g.m, g.cur, g.fibers.set i s'.loc⟩

inductive GReach (n : Nat) : G → Prop
  | init : GReach n ⟨.idle, 0, List.replicate n {}⟩
  | step {g g' : G} : GReach n g → GStep g g' → GReach n g'

theorem loc_set_self (l : List Local) (i : Nat) (x : Local) (h : i < l.length) : (l.set i x).getD i {} = x := by
  simp [List.getD_eq_getElem?_getD, List.getElem?_set, h]
theorem loc_set_ne (l : List Local) (i k : Nat) (x : Local) (h : i ≠ k) : (l.set i x).getD k {} = l.getD k {} := by
  simp [List.getD_eq_getElem?_getD, List.getElem?_set, h]

theorem nextFiber_m {s s' : St} (h : s' ∈ nextFiber s) : s'.m = s.m := by
  unfold nextFiber at h
  cases hf : s.f <;> simp only [hf] at h <;> (try split at h) <;> simp at h <;>
    (try (rcases h with h | h)) <;> (try subst h) <;> rfl

theorem nextMain_of_m {s t : St} (hm : s.m = t.m) (hf : s.f = t.f) (hl : s.lock = t.lock) (hr : s.running = t.running)
    (ht : s.terminate = t.terminate) : s = t := by
  cases s; cases t; simp_all

/-- every global step is, for every fiber, a step of its single-fiber view or leaves the view unchanged -/
theorem proj_step {g g' : G} (st : GStep g g') (k : Nat) : proj g' k = proj g k ∨ proj g' k ∈ next (proj g k) := by
  cases st with
  | main j hj hfree s' hs =>
    by_cases hk : k = j
    · subst hk
      right
      have hp : proj g k = ⟨g.m, (g.loc k).f, (g.loc k).lock, (g.loc k).running, (g.loc k).terminate⟩ := by
        unfold proj
        rcases hfree with h | h
        · simp [h]
        · simp [h]
      have hq : proj ⟨s'.m, k, g.fibers.set k s'.loc⟩ k = s' := by
        unfold proj G.loc
        simp only [if_true, loc_set_self _ _ _ hj]
        cases s'; rfl
      rw [hq, hp]
      exact List.mem_append_left _ hs
    · left
      unfold proj G.loc
      simp only [loc_set_ne _ _ _ _ (fun x => hk x.symm)]
      have h1 : ¬ j = k := fun x => hk x.symm
      simp only [h1, if_false]
      rcases hfree with h | h
      · simp [h]
      · have : ¬ g.cur = k := by rw [h]; exact h1
        simp [this]
  | fiber i hi s' hs =>
    by_cases hk : k = i
    · subst hk
      right
      have hm := nextFiber_m hs
      have hq : proj ⟨g.m, g.cur, g.fibers.set k s'.loc⟩ k = s' := by
        unfold proj G.loc
        simp only [loc_set_self _ _ _ hi]
        have : (if g.cur = k then g.m else MPc.idle) = s'.m := by rw [hm]; rfl
        rw [this]; cases s'; rfl
      rw [hq]
      exact List.mem_append_right _ hs
    · left
      unfold proj G.loc
      simp only [loc_set_ne _ _ _ _ (fun x => hk x.symm)]

theorem proj_init (n k : Nat) : proj ⟨.idle, 0, List.replicate n {}⟩ k = init := by
  unfold proj G.loc init
  have : (List.replicate n ({} : Local)).getD k {} = {} := by
    simp only [List.getD_eq_getElem?_getD, List.getElem?_replicate]
    split <;> rfl
  rw [this]; simp

/-- every single-fiber view of a reachable global state is a reachable state of the single-fiber protocol -/
theorem proj_reachable {n : Nat} {g : G} (h : GReach n g) (k : Nat) : Reachable (proj g k) := by
  induction h with
  | init => rw [proj_init]; exact .init
  | step _ st ih =>
    rcases proj_step st k with h | h
    · rw [h]; exact ih
    · exact .step ih h

def G.fiberActive (g : G) (i : Nat) : Bool := (g.loc i).f = .body || (g.loc i).f = .unwind

/-- **mutual exclusion for any number of fibers**: in every reachable global state, if fiber `i` runs user code then the simulator
    thread is blocked inside a call on that very fiber; hence no two fibers run at the same time and none runs while the simulator does -/
theorem fibers_mutex {n : Nat} {g : G} (h : GReach n g) (i : Nat) (hi : g.fiberActive i = true) :
    g.m ≠ .idle ∧ g.cur = i ∧ ∀ j, j ≠ i → g.fiberActive j = false := by
  have key : ∀ k, g.fiberActive k = true → g.m ≠ .idle ∧ g.cur = k := by
    intro k hk
    have := fiber_mutex (proj_reachable h k)
    have hfa : fiberActive (proj g k) = true := hk
    have hma : mainActive (proj g k) ≠ true := fun x => this ⟨x, hfa⟩
    unfold mainActive proj at hma
    by_cases hc : g.cur = k
    · simp [hc] at hma; exact ⟨hma, hc⟩
    · simp [hc] at hma
  obtain ⟨h1, h2⟩ := key i hi
  refine ⟨h1, h2, fun j hj => ?_⟩
  cases hja : g.fiberActive j with
  | false => rfl
  | true => exact absurd ((key j hja).2.symm.trans h2) hj

end Gatery.C19.Fiber
