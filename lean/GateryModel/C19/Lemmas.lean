import GateryModel.Sched.ProcLawful
import GateryModel.C19.Spec
import GateryModel.C04.Main
/-!
# C19 — lemmas about process suspension/resumption in the event-loop model
-/
namespace Gatery.C19
open Gatery.Sched Gatery.C04

/-! ### WaitFor -/

theorem add_eq_self_iff (t d : Rat) : t + d = t ↔ d = 0 := by
  constructor
  · intro h; grind
  · intro h; rw [h]; grind

/-- `co_await WaitFor(d)` at time `t` queues exactly one resume event: at time `t + d`, AFTER phase, micro tick 0 (one micro tick later
    for a zero wait in the AFTER phase), with the next insertion id -/
theorem waitFor_event (s : PSim) (h : Nat) (d : Rat) :
    ∃ e : Event, (suspend s h (.waitFor d)).queue = s.queue ++ [e] ∧ e.type = .simProcResume ∧ e.handle = h ∧
      e.time = specWaitForTime s.time d ∧ e.phase = .after ∧ e.microTick = specWaitForTick d s.phase s.microTick ∧
      e.insertionId = s.nextId ∧ (suspend s h (.waitFor d)).nextId = s.nextId + 1 := by
  refine ⟨_, rfl, rfl, rfl, rfl, rfl, ?_, rfl, rfl⟩
  simp only [specWaitForTick, add_eq_self_iff]

/-! ### insertion ids and the order of same-instant resumptions -/

/-- two resume events due at the same (time, phase, micro tick): the one with the smaller insertion id is popped first -/
theorem resume_order_by_id {a b : Event} (ha : a.type = .simProcResume) (hb : b.type = .simProcResume)
    (ht : a.time = b.time) (hp : a.phase = b.phase) (hm : a.microTick = b.microTick) :
    a.earlier b = true ↔ specResumesBefore a.insertionId b.insertionId := by
  rw [earlier_iff]
  unfold Later specResumesBefore Event.ordId
  rw [ha, hb, ht, hp, hm]
  constructor
  · rintro (h | ⟨_, h⟩)
    · exact absurd h Rat.lt_irrefl
    · simp at h; omega
  · intro h; right; simp; omega

/-- every suspension that takes an insertion id takes the current counter value and increments the counter: a process that suspends
    later gets a larger id -/
theorem suspend_nextId (s : PSim) (h : Nat) (w : Instr) :
    (suspend s h w).nextId = if w = .waitStable ∨ w.isWait = false then s.nextId else s.nextId + 1 := by
  cases w <;> simp [suspend, Instr.isWait, Sim.push]

theorem clockWait_id (s : PSim) (h dom : Nat) (ph : Phase) :
    (suspend s h (.waitClk dom ph)).awaiting = s.awaiting ++ [{ dom := dom, sortId := s.nextId, phase := ph, handle := h }] := rfl

/-- the counter never decreases while a process runs -/
theorem runProc_nextId_mono (fuel : Nat) (s : PSim) (h : Nat) : s.nextId ≤ (runProc fuel s h).nextId := by
  induction fuel generalizing s h with
  | zero => exact Nat.le_refl _
  | succ n ih =>
    unfold runProc
    cases hp : s.ext.procs.getD h [] with
    | nil => simp only [finishProc]; split <;> exact Nat.le_refl _
    | cons ins rest =>
      simp only
      cases ins with
      | read sigs =>
        exact ih ((setProc s h rest).addLog (.proc h (setProc s h rest).time (setProc s h rest).phase (setProc s h rest).microTick
          (sigs.map (sigVal (setProc s h rest))))) h
      | write k v =>
        have h1 : s.nextId ≤ (setPin (setProc s h rest) k v).nextId := by
          unfold setPin; split <;> exact Nat.le_refl _
        exact Nat.le_trans h1 (ih (setPin (setProc s h rest) k v) h)
      | fork c =>
        let s1 : PSim := { setProc s h rest with ext := { (setProc s h rest).ext with
          procs := (setProc s h rest).ext.procs ++ [(setProc s h rest).ext.scripts.getD c []],
          forked := (setProc s h rest).ext.forked ++ [(setProc s h rest).ext.procs.length] } }
        have h1 : s.nextId ≤ (runProc n s1 (setProc s h rest).ext.procs.length).nextId := ih s1 _
        exact Nat.le_trans h1 (ih (runProc n s1 (setProc s h rest).ext.procs.length) h)
      | join k =>
        show s.nextId ≤ (match (setProc s h rest).ext.forked[k]? with
          | none => runProc n (setProc s h rest) h
          | some t =>
            if (setProc s h rest).ext.finished.contains t then runProc n (setProc s h rest) h
            else { setProc s h rest with ext := { (setProc s h rest).ext with joiners := (setProc s h rest).ext.joiners ++ [(t, h)] } }).nextId
        split
        · exact ih (setProc s h rest) h
        · split
          · exact ih (setProc s h rest) h
          · exact Nat.le_refl _
      | waitFor d => simp [suspend, setProc, Sim.push]
      | waitClk d ph => simp [suspend, setProc]
      | waitClkFree f ph => simp [suspend, setProc, Sim.push]
      | waitChange sigs => simp [suspend, setProc]
      | waitStable => simp [suspend, setProc]

/-- the resume events the trigger handler creates for the waiters of a clock carry the waiters' phases and insertion ids and the
    trigger's time -/
theorem releaseAwaiting_events (s : PSim) (e : Event) (di : Nat) :
    (releaseAwaiting s e di).queue = s.queue ++ (s.awaiting.filter (·.dom = di)).map (fun a =>
      ({ e with type := .simProcResume, handle := a.handle, insertionId := a.sortId, phase := a.phase, pin := 0, flag := false } : Event)) ∧
    (releaseAwaiting s e di).awaiting = s.awaiting.filter (·.dom ≠ di) := ⟨rfl, rfl⟩

/-! ### WaitChange -/

/-- the snapshot of a `WaitChange` is the value of the watched signals at suspension -/
theorem waitChange_snapshot (s : PSim) (h : Nat) (sigs : List Sig) :
    (suspend s h (.waitChange sigs)).ext.watches =
      s.ext.watches ++ [{ handle := h, sigs := sigs, snap := sigs.map (sigVal s), insertionId := s.nextId }] := rfl

/-- `checkSignalWatches`: a watch is resumed (and removed) iff one of its signals differs from the snapshot; the resume events are
    queued in watch order for the next micro tick of the AFTER phase (micro tick 0 if the change happened before the AFTER phase) -/
theorem checkWatches_spec (s : PSim) :
    (∀ w, w ∈ (checkWatches s).ext.watches ↔ w ∈ s.ext.watches ∧ w.sigs.map (sigVal s) = w.snap) ∧
    (checkWatches s).queue = s.queue ++ (s.ext.watches.filter fun w => w.sigs.map (sigVal s) != w.snap).map (fun w =>
      ({ type := .simProcResume, time := s.time, microTick := if s.phase = .after then s.microTick + 1 else 0,
         phase := .after, handle := w.handle, insertionId := w.insertionId } : Event)) := by
  refine ⟨fun w => ?_, rfl⟩
  simp [checkWatches, List.mem_filter]

/-- a watch whose signals are unchanged produces no resume event -/
theorem checkWatches_no_spurious (s : PSim) (w : Watch) (hw : w ∈ s.ext.watches) (hsame : w.sigs.map (sigVal s) = w.snap) :
    ∀ e ∈ (checkWatches s).queue, e ∉ s.queue → e.insertionId = w.insertionId → ∃ w' ∈ s.ext.watches,
      w'.insertionId = w.insertionId ∧ w'.sigs.map (sigVal s) ≠ w'.snap := by
  intro e he hne hid
  rw [(checkWatches_spec s).2] at he
  rcases List.mem_append.1 he with he | he
  · exact absurd he hne
  · obtain ⟨w', hw', rfl⟩ := List.mem_map.1 he
    have := List.mem_filter.1 hw'
    exact ⟨w', this.1, hid, by simpa using this.2⟩

/-! ### phases: who runs before / after the registers of an instant -/

/-- a resume event of the BEFORE phase, or of micro tick 0 of the DURING phase, is popped before the value-change event of a clock edge
    of the same instant: the process sees pre-edge register outputs -/
theorem resume_precedes_edge {r v : Event} (hr : r.type = .simProcResume) (hv : v.type = .clockValueChange)
    (ht : r.time = v.time) (hvp : v.phase = .during)
    (hph : r.phase = .before ∨ (r.phase = .during ∧ r.microTick ≤ v.microTick)) : r.earlier v = true := by
  rw [earlier_iff]
  unfold Later
  right
  refine ⟨ht.symm, ?_⟩
  rcases hph with h | ⟨h, hm⟩
  · left; rw [h, hvp]; decide
  · right
    refine ⟨by rw [h, hvp], ?_⟩
    by_cases hmm : r.microTick = v.microTick
    · right; refine ⟨hmm.symm, ?_⟩
      left; rw [hr, hv]; decide
    · left; omega

/-- a resume event of the AFTER phase is popped after every clock edge of the same instant: the process sees post-edge outputs -/
theorem edge_precedes_after_resume {r v : Event} (ht : r.time = v.time) (hvp : v.phase = .during) (hph : r.phase = .after) :
    v.earlier r = true := by
  rw [earlier_iff]
  unfold Later
  right
  refine ⟨ht, ?_⟩
  left; rw [hph, hvp]; decide

/-- handling a process-resume event never touches a register — neither its output nor its latched D/ENABLE: what a process writes
    in the DURING phase (same micro tick as the edge, no re-evaluation in between) is not captured by that edge -/
theorem resume_leaves_registers (P : Prog) (n : Nat) (s : PSim) (e : Event) (he : e.type = .simProcResume) :
    (processEvent P (scriptSem n) (s.dequeue e) e).regs = s.regs := by
  unfold processEvent
  rw [he]
  exact (resumeTop_frame _ _).regs

/-- every micro tick of a phase is followed by `reevaluate` before the next micro tick or phase: what a process writes in the BEFORE
    phase is latched by the registers before the DURING phase handles the edge -/
theorem phaseLoop_reevaluates (P : Prog) (S : ProcSem PExt) (fuel n : Nat) (s : PSim) (e : Event)
    (hm : minEvent s.queue = some e) (hc : e.time = s.time ∧ e.phase = s.phase) :
    phaseLoop P S fuel (n+1) s =
      let s1 := if s.microTick = 0 ∨ s.phase ≠ .during then s else s.fail "assert:microTick==0||phase!=DURING"
      let s2 := reevaluate P (advanceMicroTick P S fuel s1)
      let s3 := S.checkWatches P s2
      phaseLoop P S fuel n { s3 with microTick := s3.microTick + 1 } := by
  rw [phaseLoop]
  simp only [hm, hc, and_self, if_true]

end Gatery.C19
