import GateryModel.Sched.Proc
/-!
# C19 — specification: what the property statement says about process resumption

Plain functions over observable quantities; the theorems of `Properties/C19.lean` relate the model to them and the driver evaluates
them on the log of the real simulator.
-/
namespace Gatery.C19
open Gatery.Sched

/-- a process that waits for a duration `d` at time `t` resumes at exactly `t + d` -/
def specWaitForTime (t d : Rat) : Rat := t + d

/-- micro tick at which a `WaitFor` resumes: a zero wait in the AFTER phase takes one micro tick (one re-evaluation of the
    combinational network), everything else resumes in micro tick 0 of the AFTER phase of the target instant -/
def specWaitForTick (d : Rat) (ph : Phase) (tick : Nat) : Nat := if d = 0 ∧ ph = .after then tick + 1 else 0

/-- `WaitClock` on a clock that is not part of the simulated circuit: the next multiple of its period strictly after `t` -/
def specFreeClockTime (t f : Rat) : Rat := ((floorRat (t * f) + 1 : Nat) : Rat) / f

/-- is `t` an instant at which a clock (trigger `trig`, frequency `f`, on a clock signal that starts high iff `srcRising`) activates:
    `t` is the `j`-th edge (`j ≥ 1`, at `j/(2f)`) of the signal and the clock triggers on that edge -/
def specIsActivation (srcRising : Bool) (trig : Trigger) (f t : Rat) : Bool :=
  let x := t * (2 * f)
  x.den == 1 && decide (0 < x.num) &&
    trig.activates (if x.num.toNat % 2 = 1 then !srcRising else srcRising)

/-- the resume events of two suspensions: the one that suspended first (smaller insertion id) is taken out of the queue first
    whenever both are due at the same (time, phase, micro tick) -/
def specResumesBefore (id₁ id₂ : Nat) : Prop := id₁ < id₂

end Gatery.C19
