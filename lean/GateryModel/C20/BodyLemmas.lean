import GateryModel.C20.ParseLemmas
/-! Simulation between the reader's fold over the value-change section and the specification. -/
namespace Gatery.C20

/-- the specification as a fold: value of signal `i` at the last commit stamped `≤ T` -/
def specGo (i T : Nat) : Nat → Option RVec → List Ev → Option RVec
  | _, cur, [] => cur
  | _, cur, .tick n d :: r => specGo i T (tickPs n d) cur r
  | t, cur, .commit vals :: r => specGo i T t (if t ≤ T then some (vals.getD i []) else cur) r
  | t, cur, .clock _ _ :: r => specGo i T t cur r
  | t, cur, .reset _ _ :: r => specGo i T t cur r

def optCanon (w : Nat) : Option RVec → List B4
  | none => List.replicate w .x
  | some v => canon v

theorem specGo_eq (i T : Nat) : ∀ (evs : List Ev) (t : Nat) (cur : Option RVec),
    specGo i T t cur evs =
      match ((stamped t evs).filter (fun p => p.1 ≤ T)).getLast? with
      | some p => some (p.2.getD i [])
      | none => cur := by
  intro evs
  induction evs with
  | nil => intro t cur; simp [specGo, stamped]
  | cons e evs ih =>
    intro t cur
    cases e with
    | tick n d => simp only [specGo, stamped]; exact ih _ _
    | clock j b => simp only [specGo, stamped]; exact ih _ _
    | reset j b => simp only [specGo, stamped]; exact ih _ _
    | commit vals =>
      simp only [specGo, stamped]
      rw [ih]
      by_cases ht : t ≤ T
      · simp only [ht, if_true, List.filter_cons, decide_true]
        rw [List.getLast?_cons]
        cases h : (List.filter (fun p => decide (p.1 ≤ T)) (stamped t evs)).getLast? <;> simp
      · simp only [ht, if_false, List.filter_cons, decide_false]
        simp

theorem specValue_eq (c : Cfg) (evs : List Ev) (i T : Nat) :
    specValue c evs i T = optCanon (c.sigs.getD i default).width (specGo i T 0 none evs) := by
  unfold specValue
  rw [specGo_eq]
  cases h : ((stamped 0 evs).filter (fun p => decide (p.1 ≤ T))).getLast? <;> simp [optCanon]

/-! reader fold -/

def Inert (code : Str) : BodyItem → Prop
  | .skip => True
  | .change c _ => c ≠ code
  | .time _ => False

theorem decodeGo_inert (code : Str) (T : Nat) : ∀ (pre rest : List BodyItem) (t : Nat) (cur : Option (List B4)),
    (∀ it ∈ pre, Inert code it) → decodeGo code T t cur (pre ++ rest) = decodeGo code T t cur rest := by
  intro pre
  induction pre with
  | nil => intros; rfl
  | cons it pre ih =>
    intro rest t cur h
    have hit := h it (by simp)
    have ih' := ih rest t cur (fun x hx => h x (by simp [hx]))
    cases it with
    | skip => simpa [decodeGo] using ih'
    | time t' => exact absurd hit (by simp [Inert])
    | change c v =>
      have : c ≠ code := hit
      simp only [List.cons_append, decodeGo, this, false_and, if_false]
      exact ih'

theorem decodeGo_append_inert (code : Str) (T : Nat) (a b : List BodyItem) (t : Nat) (cur : Option (List B4))
    (h : ∀ it ∈ b, Inert code it) : decodeGo code T t cur (a ++ b) = decodeGo code T t cur a := by
  induction a generalizing t cur with
  | nil => simpa [decodeGo] using decodeGo_inert code T b [] t cur h
  | cons it a ih => cases it <;> simp only [List.cons_append, decodeGo] <;> exact ih _ _

/-- value carried by the change line of a signal -/
def lineVal (s : Sig) (v : RVec) : List B4 :=
  if s.width = 1 ∧ s.isBVec = false then [(v.head?.map RBit.canon).getD .x] else canon v

theorem parseBody_changeLine (s : Sig) (k : Nat) (v : RVec) :
    parseBody (changeLine s (ident k) v) = .change (ident k) (lineVal s v) := by
  unfold changeLine lineVal
  split
  · exact parseBody_scalarLine _ _
  · exact parseBody_vectorLine _ _ (ident_noSpace k)

theorem lineVal_eq (s : Sig) (v : RVec) (h : v.length = s.width) : lineVal s v = canon v := by
  unfold lineVal
  split
  · rename_i hs
    have h1 : v.length = 1 := by omega
    match v, h1 with
    | [b], _ => simp [canon]
  · rfl

/-- the change of signal `i` written by the commit loop started at signal `k` (if any) -/
def commitLineFor (i : Nat) : Nat → List Sig → List RVec → List RVec → Option (List B4)
  | k, s :: ss, tr :: trs, nv :: nvs =>
    if k = i then (if nv.length ≠ 0 ∧ nv ≠ tr then some (lineVal s nv) else none)
    else commitLineFor i (k + 1) ss trs nvs
  | _, _, _, _ => none

theorem commit_inert (i : Nat) : ∀ (ss : List Sig) (k : Nat) (trs nvs : List RVec), i < k →
    ∀ it ∈ (commitGo k ss trs nvs).2.map parseBody, Inert (ident i) it := by
  intro ss
  induction ss with
  | nil => intro k trs nvs _ it hit; simp [commitGo] at hit
  | cons s ss ih =>
    intro k trs nvs hk it hit
    match trs, nvs with
    | [], _ => simp [commitGo] at hit
    | _ :: _, [] => simp [commitGo] at hit
    | tr :: trs, nv :: nvs =>
      simp only [commitGo] at hit
      split at hit
      · simp only [List.map_cons, List.mem_cons] at hit
        rcases hit with rfl | hit
        · rw [parseBody_changeLine]
          intro e; have := ident_injective' e; omega
        · exact ih (k + 1) trs nvs (by omega) it hit
      · exact ih (k + 1) trs nvs (by omega) it hit

theorem decodeGo_commit (i T : Nat) : ∀ (ss : List Sig) (k : Nat) (trs nvs : List RVec) (rest : List BodyItem) (t : Nat)
    (cur : Option (List B4)),
    decodeGo (ident i) T t cur ((commitGo k ss trs nvs).2.map parseBody ++ rest)
      = decodeGo (ident i) T t
          (match commitLineFor i k ss trs nvs with
            | some v => if t ≤ T then some v else cur
            | none => cur) rest := by
  intro ss
  induction ss with
  | nil => intro k trs nvs rest t cur; simp [commitGo, commitLineFor]
  | cons s ss ih =>
    intro k trs nvs rest t cur
    match trs, nvs with
    | [], _ => simp [commitGo, commitLineFor]
    | _ :: _, [] => simp [commitGo, commitLineFor]
    | tr :: trs, nv :: nvs =>
      simp only [commitGo, commitLineFor]
      by_cases hk : k = i
      · subst hk
        simp only [if_true]
        by_cases hch : nv.length ≠ 0 ∧ nv ≠ tr
        · rw [if_pos hch, if_pos hch]
          simp only [List.map_cons, List.cons_append, parseBody_changeLine, decodeGo, true_and]
          exact decodeGo_inert _ _ _ _ _ _ (commit_inert k ss (k + 1) trs nvs (by omega))
        · rw [if_neg hch, if_neg hch]
          exact decodeGo_inert _ _ _ _ _ _ (commit_inert k ss (k + 1) trs nvs (by omega))
      · simp only [hk, if_false]
        by_cases hch : nv.length ≠ 0 ∧ nv ≠ tr
        · rw [if_pos hch]
          simp only [List.map_cons, List.cons_append, parseBody_changeLine, decodeGo]
          have : ident k ≠ ident i := fun e => hk (ident_injective' e)
          simp only [this, false_and, if_false]
          exact ih (k + 1) trs nvs rest t cur
        · rw [if_neg hch]
          exact ih (k + 1) trs nvs rest t cur

theorem commitLineFor_eq (i : Nat) : ∀ (ss : List Sig) (k : Nat) (trs nvs : List RVec),
    trs.map List.length = ss.map Sig.width → nvs.map List.length = ss.map Sig.width → k ≤ i → i < k + ss.length →
    commitLineFor i k ss trs nvs =
      if nvs.getD (i - k) [] ≠ trs.getD (i - k) [] then some (canon (nvs.getD (i - k) [])) else none := by
  intro ss
  induction ss with
  | nil => intro k trs nvs _ _ h1 h2; simp at h2; omega
  | cons s ss ih =>
    intro k trs nvs ht hn h1 h2
    match trs, nvs with
    | [], _ => simp at ht
    | _ :: _, [] => simp at hn
    | tr :: trs, nv :: nvs =>
      simp only [List.map_cons, List.cons.injEq] at ht hn
      simp only [commitLineFor]
      by_cases hk : k = i
      · subst hk
        simp only [if_true, Nat.sub_self, List.getD_cons_zero]
        by_cases hne : nv = tr
        · simp [hne]
        · have hlen : nv.length ≠ 0 := by
            intro h0
            have : tr.length = 0 := by omega
            exact hne (by rw [List.length_eq_zero_iff.1 h0, List.length_eq_zero_iff.1 this])
          simp only [hlen, hne, ne_eq, not_false_eq_true, and_self, if_true]
          rw [lineVal_eq _ _ hn.1]
      · simp only [hk, if_false]
        have hs : i - k = (i - (k + 1)) + 1 := by omega
        rw [ih (k + 1) trs nvs ht.2 hn.2 (by omega) (by simp at h2; omega), hs]
        simp

theorem commitGo_fst : ∀ (ss : List Sig) (k : Nat) (trs nvs : List RVec),
    trs.map List.length = ss.map Sig.width → nvs.map List.length = ss.map Sig.width →
    (commitGo k ss trs nvs).1 = nvs := by
  intro ss
  induction ss with
  | nil =>
    intro k trs nvs ht hn
    simp at ht hn; subst ht; subst hn; simp [commitGo]
  | cons s ss ih =>
    intro k trs nvs ht hn
    match trs, nvs with
    | [], _ => simp at ht
    | _ :: _, [] => simp at hn
    | tr :: trs, nv :: nvs =>
      simp only [List.map_cons, List.cons.injEq] at ht hn
      simp only [commitGo]
      split
      · simp [ih (k + 1) trs nvs ht.2 hn.2]
      · rename_i hch
        have : nv = tr := by
          by_cases hne : nv = tr
          · exact hne
          · exfalso; apply hch; refine ⟨?_, hne⟩
            intro h0
            have : tr.length = 0 := by omega
            exact hne (by rw [List.length_eq_zero_iff.1 h0, List.length_eq_zero_iff.1 this])
        simp [ih (k + 1) trs nvs ht.2 hn.2, this]

theorem map_getD_eq {α β γ : Type} (f : α → γ) (g : β → γ) (d1 : α) (d2 : β) : ∀ (l1 : List α) (l2 : List β),
    l1.map f = l2.map g → ∀ i, i < l2.length → f (l1.getD i d1) = g (l2.getD i d2) := by
  intro l1
  induction l1 with
  | nil => intro l2 h i hi; cases l2 <;> simp at h hi
  | cons a l1 ih =>
    intro l2 h i hi
    cases l2 with
    | nil => simp at h
    | cons b l2 =>
      simp only [List.map_cons, List.cons.injEq] at h
      cases i with
      | zero => simpa using h.1
      | succ i => simpa using ih l2 h.2 i (by simpa using hi)

theorem finish_canon (w : Nat) (v : RVec) (h : v.length = w) : finish w (some (canon v)) = canon v := by
  have : (List.map RBit.canon v).length = w := by simp [h]
  simp only [finish, extendTo, canon, this, ge_iff_le, Nat.le_refl, if_true]
  rw [← this, List.take_length]

/-- main simulation: reader fold over the written value changes = specification fold over the events -/
theorem body_sim (c : Cfg) (i T : Nat) (hi : i < c.sigs.length) :
    ∀ (evs : List Ev) (t : Nat) (tracked : List RVec) (dcur : Option (List B4)) (scur : Option RVec),
    TicksSorted t evs → CommitsOk c evs → tracked.map List.length = c.sigs.map Sig.width →
    (t ≤ T → finish (c.sigs.getD i default).width dcur = canon (tracked.getD i []) ∧
             optCanon (c.sigs.getD i default).width scur = canon (tracked.getD i [])) →
    (T < t → finish (c.sigs.getD i default).width dcur = optCanon (c.sigs.getD i default).width scur) →
    finish (c.sigs.getD i default).width (decodeGo (ident i) T t dcur ((encodeEvents c tracked evs).map parseBody))
      = optCanon (c.sigs.getD i default).width (specGo i T t scur evs) := by
  intro evs
  induction evs with
  | nil =>
    intro t tracked dcur scur _ _ _ h1 h2
    simp only [encodeEvents, List.map_nil, decodeGo, specGo]
    by_cases ht : t ≤ T
    · rw [(h1 ht).1, (h1 ht).2]
    · exact h2 (by omega)
  | cons e evs ih =>
    intro t tracked dcur scur hs hc hl h1 h2
    cases e with
    | tick n d =>
      simp only [encodeEvents, encodeStep, List.map_cons, List.map_nil, List.map_append, List.cons_append, List.nil_append, parseBody_timeLine, decodeGo, specGo]
      simp only [TicksSorted] at hs
      simp only [CommitsOk] at hc
      apply ih _ _ _ _ hs.2 hc hl
      · intro ht'; exact h1 (by omega)
      · intro ht'
        by_cases ht : t ≤ T
        · rw [(h1 ht).1, (h1 ht).2]
        · exact h2 (by omega)
    | clock j b =>
      simp only [encodeEvents, encodeStep, specGo, List.map_append]
      simp only [TicksSorted] at hs
      simp only [CommitsOk] at hc
      rw [decodeGo_inert]
      · exact ih _ _ _ _ hs hc hl h1 h2
      · intro it hit
        split at hit
        · simp only [List.map_cons, List.map_nil, List.mem_singleton] at hit
          subst hit
          rw [parseBody_scalarLine]
          intro e
          have := ident_injective' e
          simp [Cfg.nsigs] at this; omega
        · simp at hit
    | reset j b =>
      simp only [encodeEvents, encodeStep, specGo, List.map_append]
      simp only [TicksSorted] at hs
      simp only [CommitsOk] at hc
      rw [decodeGo_inert]
      · exact ih _ _ _ _ hs hc hl h1 h2
      · intro it hit
        split at hit
        · simp only [List.map_cons, List.map_nil, List.mem_singleton] at hit
          subst hit
          rw [parseBody_scalarLine]
          intro e
          have := ident_injective' e
          simp [Cfg.nsigs] at this; omega
        · simp at hit
    | commit vals =>
      simp only [encodeEvents, encodeStep, specGo, List.map_append]
      simp only [TicksSorted] at hs
      simp only [CommitsOk] at hc
      rw [decodeGo_commit, commitGo_fst _ _ _ _ hl hc.1,
        commitLineFor_eq i _ 0 _ _ hl hc.1 (by omega) (by omega)]
      simp only [Nat.sub_zero]
      have hw : (vals.getD i []).length = (c.sigs.getD i default).width :=
        map_getD_eq List.length Sig.width [] default vals c.sigs hc.1 i hi
      apply ih _ _ _ _ hs hc.2 hc.1
      · intro ht
        simp only [ht, if_true]
        refine ⟨?_, by simp [optCanon]⟩
        by_cases hne : vals.getD i [] ≠ tracked.getD i []
        · rw [if_pos hne]
          exact finish_canon _ _ hw
        · rw [if_neg hne]
          have : vals.getD i [] = tracked.getD i [] := by simpa using hne
          rw [this]; exact (h1 ht).1
      · intro ht
        have : ¬ t ≤ T := by omega
        simp only [this, if_false]
        split <;> exact h2 ht

end Gatery.C20
