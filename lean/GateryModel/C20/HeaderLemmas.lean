import GateryModel.C20.ParseLemmas
/-! The declaration section: every signal is declared exactly under its identifier, nothing else uses that identifier. -/
namespace Gatery.C20

theorem mem_insertKey {x k : Nat × Str} : ∀ {l : List (Nat × Str)}, x ∈ insertKey k l → x = k ∨ x ∈ l := by
  intro l
  induction l with
  | nil => intro h; simp [insertKey] at h; exact Or.inl h
  | cons h t ih =>
    intro hx
    unfold insertKey at hx
    split at hx
    · rcases List.mem_cons.1 hx with rfl | hx
      · exact Or.inl rfl
      · exact Or.inr hx
    · split at hx
      · exact Or.inr hx
      · rcases List.mem_cons.1 hx with rfl | hx
        · exact Or.inr (by simp)
        · rcases ih hx with rfl | hx
          · exact Or.inl rfl
          · exact Or.inr (by simp [hx])

theorem insertKey_has (k : Nat × Str) : ∀ (l : List (Nat × Str)), ∃ x ∈ insertKey k l, x.1 = k.1 := by
  intro l
  induction l with
  | nil => exact ⟨k, by simp [insertKey], rfl⟩
  | cons h t ih =>
    unfold insertKey
    split
    · exact ⟨k, by simp, rfl⟩
    · split
      · rename_i heq; exact ⟨h, by simp, heq.symm⟩
      · obtain ⟨x, hx, hx1⟩ := ih
        exact ⟨x, by simp [hx], hx1⟩

theorem insertKey_keeps (k : Nat × Str) (a : Nat) : ∀ (l : List (Nat × Str)), (∃ x ∈ l, x.1 = a) → ∃ x ∈ insertKey k l, x.1 = a := by
  intro l
  induction l with
  | nil => intro ⟨x, hx, _⟩; simp at hx
  | cons h t ih =>
    intro ⟨x, hx, hxa⟩
    unfold insertKey
    split
    · exact ⟨x, by simp [List.mem_cons.1 hx], hxa⟩
    · split
      · exact ⟨x, hx, hxa⟩
      · rcases List.mem_cons.1 hx with rfl | hx
        · exact ⟨x, by simp, hxa⟩
        · obtain ⟨y, hy, hya⟩ := ih ⟨x, hx, hxa⟩
          exact ⟨y, by simp [hy], hya⟩

section keys
variable {α : Type} (sel : α → Option (Nat × Str))

theorem mem_foldKeys : ∀ (items : List α) (acc : List (Nat × Str)) (x : Nat × Str),
    x ∈ items.foldl (fun acc it => match sel it with | none => acc | some k => insertKey k acc) acc →
    x ∈ acc ∨ ∃ it ∈ items, sel it = some x := by
  intro items
  induction items with
  | nil => intro acc x h; exact Or.inl h
  | cons it items ih =>
    intro acc x h
    simp only [List.foldl_cons] at h
    rcases ih _ x h with h | ⟨it', hit', hs⟩
    · cases hsel : sel it with
      | none => rw [hsel] at h; exact Or.inl h
      | some k =>
        rw [hsel] at h
        rcases mem_insertKey h with rfl | h
        · exact Or.inr ⟨it, by simp, hsel⟩
        · exact Or.inl h
    · exact Or.inr ⟨it', by simp [hit'], hs⟩

theorem foldKeys_keeps : ∀ (items : List α) (acc : List (Nat × Str)) (a : Nat), (∃ x ∈ acc, x.1 = a) →
    ∃ x ∈ items.foldl (fun acc it => match sel it with | none => acc | some k => insertKey k acc) acc, x.1 = a := by
  intro items
  induction items with
  | nil => intro acc a h; exact h
  | cons it items ih =>
    intro acc a h
    simp only [List.foldl_cons]
    apply ih
    cases hsel : sel it with
    | none => exact h
    | some k => exact insertKey_keeps k a acc h

theorem foldKeys_has : ∀ (items : List α) (acc : List (Nat × Str)) (it : α) (k : Nat × Str), it ∈ items → sel it = some k →
    ∃ x ∈ items.foldl (fun acc it => match sel it with | none => acc | some k => insertKey k acc) acc, x.1 = k.1 := by
  intro items
  induction items with
  | nil => intro acc it k h; simp at h
  | cons it0 items ih =>
    intro acc it k hit hsel
    simp only [List.foldl_cons]
    rcases List.mem_cons.1 hit with rfl | hit
    · apply foldKeys_keeps
      rw [hsel]
      exact insertKey_has k acc
    · exact ih _ it k hit hsel

end keys

def pathHead (it : Item) : Option (Nat × Str) := it.path.head?
def memSel (it : Item) : Option (Nat × Str) := it.sig.mem

theorem headKeys_eq (items : List Item) :
    headKeys items = items.foldl (fun acc it => match pathHead it with | none => acc | some k => insertKey k acc) [] := by
  unfold headKeys
  congr 1
  funext acc it
  unfold pathHead
  cases it.path <;> rfl

theorem memKeys_eq (items : List Item) :
    memKeys items = items.foldl (fun acc it => match memSel it with | none => acc | some k => insertKey k acc) [] := rfl

/-- an item stands for signal `idx` of the configuration and carries line-break free names -/
def Good (c : Cfg) (it : Item) : Prop :=
  it.idx < c.sigs.length ∧ c.sigs.getD it.idx default = it.sig ∧ (∀ k ∈ it.path, noNL k.2) ∧ noNL it.sig.name ∧
    (∀ k, it.sig.mem = some k → noNL k.2)

theorem good_descend {c : Cfg} {it it' : Item} {k : Nat} (h : Good c it) (hd : it.descend k = some it') : Good c it' := by
  unfold Item.descend at hd
  cases hp : it.path with
  | nil => rw [hp] at hd; simp at hd
  | cons k' r =>
    rw [hp] at hd
    simp only at hd
    split at hd
    · simp only [Option.some.injEq] at hd
      subst hd
      obtain ⟨h1, h2, h3, h4, h5⟩ := h
      exact ⟨h1, h2, fun x hx => h3 x (by rw [hp]; simp [hx]), h4, h5⟩
    · simp at hd

/-- the kinds of lines of the module tree -/
def TreeLine (c : Cfg) (l : Str) : Prop :=
  l = upscopeLine ∨ (∃ name, noNL name ∧ l = scopeLine name) ∨
  (∃ j, j < c.sigs.length ∧ noNL (c.sigs.getD j default).name ∧
      l = varLine (c.sigs.getD j default).width (ident j) (c.sigs.getD j default).name)

theorem good_var {c : Cfg} {it : Item} (h : Good c it) : TreeLine c it.var := by
  obtain ⟨h1, h2, _, h4, _⟩ := h
  refine Or.inr (Or.inr ⟨it.idx, h1, ?_, ?_⟩)
  · rw [h2]; exact h4
  · rw [h2]; rfl

theorem noNL_append {a b : Str} (ha : noNL a) (hb : noNL b) : noNL (a ++ b) := by
  unfold noNL at *; simp [ha, hb]

theorem writeModules_lines (c : Cfg) : ∀ (fuel : Nat) (items : List Item), (∀ it ∈ items, Good c it) →
    ∀ l ∈ writeModules fuel items, TreeLine c l := by
  intro fuel
  induction fuel with
  | zero => intro items _ l hl; simp [writeModules] at hl
  | succ fuel ih =>
    intro items hg l hl
    simp only [writeModules, List.mem_append, List.mem_flatMap, List.mem_cons, List.mem_map, List.mem_filter,
      List.not_mem_nil, or_false] at hl
    rcases hl with ⟨k, hk, hl⟩ | hl | hl | hl
    · rcases hl with rfl | hl | rfl
      · refine Or.inr (Or.inl ⟨k.2, ?_, rfl⟩)
        rw [headKeys_eq] at hk
        rcases mem_foldKeys pathHead items [] k hk with h | ⟨it, hit, hs⟩
        · simp at h
        · have := (hg it hit).2.2.1
          unfold pathHead at hs
          exact this k (List.mem_of_mem_head? hs)
      · apply ih _ _ l hl
        intro it' hit'
        simp only [List.mem_filterMap] at hit'
        obtain ⟨it, hit, hd⟩ := hit'
        exact good_descend (hg it hit) hd
      · exact Or.inl rfl
    · obtain ⟨it, ⟨⟨⟨hit, _⟩, _⟩, _⟩, rfl⟩ := hl
      exact good_var (hg it hit)
    · obtain ⟨k, hk, hl⟩ := hl
      rcases hl with rfl | ⟨it, ⟨⟨hit, _⟩, _⟩, rfl⟩ | rfl
      · refine Or.inr (Or.inl ⟨memoryPrefix ++ k.2, ?_, rfl⟩)
        rw [memKeys_eq] at hk
        rcases mem_foldKeys memSel _ [] k hk with h | ⟨it, hit, hs⟩
        · simp at h
        · simp only [List.mem_filter] at hit
          exact noNL_append (by unfold noNL memoryPrefix; decide) ((hg it hit.1).2.2.2.2 k hs)
      · exact good_var (hg it hit)
      · exact Or.inl rfl
    · rcases hl with rfl | ⟨it, ⟨⟨⟨hit, _⟩, _⟩, _⟩, rfl⟩ | rfl
      · exact Or.inr (Or.inl ⟨hiddenName, by unfold noNL hiddenName; decide, rfl⟩)
      · exact good_var (hg it hit)
      · exact Or.inl rfl

theorem writeModules_has : ∀ (fuel : Nat) (items : List Item) (it : Item), it ∈ items → it.path.length < fuel →
    it.var ∈ writeModules fuel items := by
  intro fuel
  induction fuel with
  | zero => intro items it _ h; omega
  | succ fuel ih =>
    intro items it hit hlen
    simp only [writeModules, List.mem_append, List.mem_flatMap, List.mem_cons, List.mem_map, List.mem_filter,
      List.not_mem_nil, or_false]
    cases hp : it.path with
    | cons k r =>
      left
      have hsel : pathHead it = some k := by simp [pathHead, hp]
      obtain ⟨x, hx, hx1⟩ := foldKeys_has pathHead items [] it k hit hsel
      rw [← headKeys_eq] at hx
      refine ⟨x, hx, Or.inr (Or.inl ?_)⟩
      have hd : it.descend x.1 = some { it with path := r } := by simp [Item.descend, hp, hx1]
      have := ih (items.filterMap (Item.descend x.1)) { it with path := r }
        (List.mem_filterMap.2 ⟨it, hit, hd⟩) (by rw [hp] at hlen; simpa using hlen)
      exact this
    | nil =>
      right
      have hhere : it ∈ items ∧ it.path.isEmpty = true := ⟨hit, by simp [hp]⟩
      cases hm : it.sig.mem with
      | none =>
        cases hh : it.sig.hidden with
        | false => left; exact ⟨it, ⟨⟨hhere, by simp [hm]⟩, by simp [hh]⟩, rfl⟩
        | true => right; right; right; left; exact ⟨it, ⟨⟨hhere, by simp [hm]⟩, by simp [hh]⟩, rfl⟩
      | some k =>
        right; left
        have hit' : it ∈ items.filter (fun it => it.path.isEmpty) := List.mem_filter.2 hhere
        obtain ⟨x, hx, hx1⟩ := foldKeys_has memSel _ [] it k hit' hm
        rw [← memKeys_eq] at hx
        exact ⟨x, hx, Or.inr (Or.inl ⟨it, ⟨hhere, by simp [hm, hx1]⟩, rfl⟩)⟩

theorem mkItems_good (c : Cfg) (hn : c.NamesOk) : ∀ (ss : List Sig) (k : Nat), (∀ j, j < ss.length → c.sigs.getD (k + j) default = ss.getD j default) →
    k + ss.length ≤ c.sigs.length → (∀ s ∈ ss, s ∈ c.sigs) → ∀ it ∈ mkItems k ss, Good c it := by
  intro ss
  induction ss with
  | nil => intro k _ _ _ it h; simp [mkItems] at h
  | cons s ss ih =>
    intro k hget hlen hmem it hit
    simp only [mkItems, List.mem_cons] at hit
    rcases hit with rfl | hit
    · have hs := hn.sigs s (hmem s (by simp))
      refine ⟨by simp at hlen ⊢; omega, ?_, hs.2.1, hs.1, hs.2.2⟩
      simpa using hget 0 (by simp)
    · apply ih (k + 1) _ (by simp at hlen; omega) (fun x hx => hmem x (by simp [hx])) it hit
      intro j hj
      have := hget (j + 1) (by simp; omega)
      simpa [Nat.add_assoc, Nat.add_comm 1 j] using this

theorem mkItems_mem : ∀ (ss : List Sig) (k j : Nat), j < ss.length →
    ∃ it ∈ mkItems k ss, it.idx = k + j ∧ it.sig = ss.getD j default ∧ it.path = (ss.getD j default).path := by
  intro ss
  induction ss with
  | nil => intro k j h; simp at h
  | cons s ss ih =>
    intro k j hj
    cases j with
    | zero => exact ⟨{ path := s.path, idx := k, sig := s }, by simp [mkItems], rfl, by simp, by simp⟩
    | succ j =>
      obtain ⟨it, hit, h1, h2, h3⟩ := ih (k + 1) j (by simpa using hj)
      exact ⟨it, by simp [mkItems, hit], by omega, by simpa using h2, by simpa using h3⟩

theorem le_maxPath : ∀ (ss : List Sig) (j : Nat), j < ss.length → (ss.getD j default).path.length ≤ maxPath ss := by
  intro ss
  induction ss with
  | nil => intro j h; simp at h
  | cons s ss ih =>
    intro j hj
    cases j with
    | zero => simp [maxPath]; exact Nat.le_max_left _ _
    | succ j =>
      have := ih j (by simpa using hj)
      simp only [List.getD_cons_succ, maxPath]
      exact Nat.le_trans this (Nat.le_max_right _ _)

end Gatery.C20
