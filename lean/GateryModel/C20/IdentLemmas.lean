import GateryModel.C20.VCD
/-! Lemmas about the identifier generator and decimal numbers. -/
namespace Gatery.C20

/-- bijective base-94 value of a digit string (index 0 least significant) -/
def identVal : List Nat → Nat
  | [] => 0
  | d :: ds => (d + 1) + identBase * identVal ds

theorem identNext_val (ds : List Nat) (h : ∀ d ∈ ds, d < identBase) : identVal (identNext ds) = identVal ds + 1 := by
  induction ds with
  | nil => simp [identNext, identVal]
  | cons d ds ih =>
    have hd : d < identBase := h d (by simp)
    have ih' := ih (fun x hx => h x (by simp [hx]))
    unfold identNext
    by_cases hc : d + 1 ≥ identBase
    · have : d + 1 = identBase := by omega
      simp only [hc, if_true, identVal, ih']
      rw [Nat.mul_add]; omega
    · simp only [hc, if_false, identVal]; omega

theorem identNext_lt (ds : List Nat) (h : ∀ d ∈ ds, d < identBase) : ∀ d ∈ identNext ds, d < identBase := by
  induction ds with
  | nil => intro d hd; simp [identNext] at hd; subst hd; decide
  | cons d ds ih =>
    unfold identNext
    by_cases hc : d + 1 ≥ identBase
    · simp only [hc, if_true]
      intro x hx
      rcases List.mem_cons.1 hx with rfl | hx
      · decide
      · exact ih (fun y hy => h y (by simp [hy])) x hx
    · simp only [hc, if_false]
      intro x hx
      rcases List.mem_cons.1 hx with rfl | hx
      · omega
      · exact h x (by simp [hx])

theorem identDigits_lt (n : Nat) : ∀ d ∈ identDigits n, d < identBase := by
  induction n with
  | zero => intro d hd; simp [identDigits] at hd; subst hd; decide
  | succ n ih => exact identNext_lt _ ih

theorem identDigits_val (n : Nat) : identVal (identDigits n) = n + 1 := by
  induction n with
  | zero => simp [identDigits, identVal]
  | succ n ih => simp only [identDigits]; rw [identNext_val _ (identDigits_lt n), ih]

theorem identDigits_injective {a b : Nat} (h : identDigits a = identDigits b) : a = b := by
  have := congrArg identVal h
  rw [identDigits_val, identDigits_val] at this
  omega

theorem identChar_toNat : ∀ d, d < 94 → (identChar d).toNat = 33 + d := by decide

theorem identChar_injective {a b : Nat} (ha : a < identBase) (hb : b < identBase) (h : identChar a = identChar b) : a = b := by
  have := congrArg Char.toNat h
  rw [identChar_toNat a ha, identChar_toNat b hb] at this
  omega

theorem map_identChar_injective : ∀ {l1 l2 : List Nat}, (∀ d ∈ l1, d < identBase) → (∀ d ∈ l2, d < identBase) →
    l1.map identChar = l2.map identChar → l1 = l2
  | [], [], _, _, _ => rfl
  | [], _ :: _, _, _, h => by simp at h
  | _ :: _, [], _, _, h => by simp at h
  | a :: l1, b :: l2, h1, h2, h => by
    simp only [List.map_cons, List.cons.injEq] at h
    have hab := identChar_injective (h1 a (by simp)) (h2 b (by simp)) h.1
    have := map_identChar_injective (fun d hd => h1 d (by simp [hd])) (fun d hd => h2 d (by simp [hd])) h.2
    rw [hab, this]

/-- the identifier generator never repeats -/
theorem ident_injective' {a b : Nat} (h : ident a = ident b) : a = b :=
  identDigits_injective (map_identChar_injective (identDigits_lt a) (identDigits_lt b) h)

theorem identChar_ne : ∀ d, d < 94 → identChar d ≠ ' ' ∧ identChar d ≠ '\n' := by decide

theorem ident_chars (n : Nat) : ∀ ch ∈ ident n, ch ≠ ' ' ∧ ch ≠ '\n' := by
  intro ch hch
  simp only [ident, List.mem_map] at hch
  obtain ⟨d, hd, rfl⟩ := hch
  exact identChar_ne d (identDigits_lt n d hd)

theorem ident_noSpace (n : Nat) : ' ' ∉ ident n := fun h => (ident_chars n _ h).1 rfl
theorem ident_noNL (n : Nat) : '\n' ∉ ident n := fun h => (ident_chars n _ h).2 rfl

/-! decimal -/

theorem digitVal_digitChar : ∀ d, d < 10 → digitVal (digitChar d) = d := by decide

theorem digitChar_ne : ∀ d, d < 10 → digitChar d ≠ ' ' ∧ digitChar d ≠ '\n' := by decide

theorem decFold_natToDecAux (fuel : Nat) : ∀ (n : Nat) (acc : Str), n < fuel →
    (natToDecAux fuel n acc).foldl (fun a c => a * 10 + digitVal c) 0 = acc.foldl (fun a c => a * 10 + digitVal c) n := by
  induction fuel with
  | zero => intro n acc h; omega
  | succ fuel ih =>
    intro n acc h
    unfold natToDecAux
    by_cases hz : n / 10 = 0
    · simp only [hz, if_true, List.foldl_cons]
      have : n % 10 = n := by omega
      rw [digitVal_digitChar _ (Nat.mod_lt _ (by decide)), this]; simp
    · simp only [hz, if_false]
      rw [ih (n / 10) _ (by omega)]
      simp only [List.foldl_cons]
      rw [digitVal_digitChar _ (Nat.mod_lt _ (by decide))]
      congr 1; omega

theorem decToNat_natToDec (n : Nat) : decToNat (natToDec n) = n := by
  unfold decToNat natToDec
  rw [decFold_natToDecAux (n + 1) n [] (by omega)]; rfl

theorem natToDecAux_chars (fuel : Nat) : ∀ (n : Nat) (acc : Str), (∀ ch ∈ acc, ch ≠ ' ' ∧ ch ≠ '\n') →
    ∀ ch ∈ natToDecAux fuel n acc, ch ≠ ' ' ∧ ch ≠ '\n' := by
  induction fuel with
  | zero => intro n acc h; simpa [natToDecAux] using h
  | succ fuel ih =>
    intro n acc h
    have h' : ∀ ch ∈ digitChar (n % 10) :: acc, ch ≠ ' ' ∧ ch ≠ '\n' := by
      intro ch hch
      rcases List.mem_cons.1 hch with rfl | hch
      · exact digitChar_ne _ (Nat.mod_lt _ (by decide))
      · exact h ch hch
    unfold natToDecAux
    by_cases hz : n / 10 = 0
    · simpa only [hz, if_true] using h'
    · simp only [hz, if_false]; exact ih _ _ h'

theorem natToDec_chars (n : Nat) : ∀ ch ∈ natToDec n, ch ≠ ' ' ∧ ch ≠ '\n' :=
  natToDecAux_chars _ _ _ (by simp)

theorem natToDec_noSpace (n : Nat) : ' ' ∉ natToDec n := fun h => (natToDec_chars n _ h).1 rfl
theorem natToDec_noNL (n : Nat) : '\n' ∉ natToDec n := fun h => (natToDec_chars n _ h).2 rfl

end Gatery.C20
