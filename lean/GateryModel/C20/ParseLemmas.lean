import GateryModel.C20.IdentLemmas
/-! Lemmas: the reader's line functions invert the writer's line functions. -/
namespace Gatery.C20

theorem splitOn_cons_sep (sep : Char) (rest : Str) : splitOn sep (sep :: rest) = [] :: splitOn sep rest := by
  simp [splitOn]

theorem splitOn_ne_nil (sep : Char) (s : Str) : splitOn sep s ≠ [] := by
  cases s with
  | nil => simp [splitOn]
  | cons c s =>
    simp only [splitOn, List.foldr_cons]
    split
    · simp
    · split <;> simp

theorem splitOn_cons_ne (sep c : Char) (rest : Str) (h : c ≠ sep) :
    splitOn sep (c :: rest) = (c :: (splitOn sep rest).head!) :: (splitOn sep rest).tail := by
  have hne := splitOn_ne_nil sep rest
  simp only [splitOn, List.foldr_cons, h, if_false] at hne ⊢
  split
  · rename_i heq; exact absurd heq hne
  · rename_i hd tl heq; rw [heq]; rfl

theorem splitOn_append_sep (sep : Char) (a rest : Str) (h : sep ∉ a) :
    splitOn sep (a ++ sep :: rest) = a :: splitOn sep rest := by
  induction a with
  | nil => simp [splitOn_cons_sep]
  | cons c a ih =>
    have hc : c ≠ sep := fun e => h (by simp [e])
    have ha : sep ∉ a := fun e => h (by simp [e])
    rw [List.cons_append, splitOn_cons_ne _ _ _ hc, ih ha]; rfl

theorem splitOn_nosep (sep : Char) (a : Str) (h : sep ∉ a) : splitOn sep a = [a] := by
  induction a with
  | nil => simp [splitOn]
  | cons c a ih =>
    have hc : c ≠ sep := fun e => h (by simp [e])
    have ha : sep ∉ a := fun e => h (by simp [e])
    rw [splitOn_cons_ne _ _ _ hc, ih ha]; rfl

theorem splitOn_joinLines (ls : List Str) (h : ∀ l ∈ ls, '\n' ∉ l) : splitOn '\n' (joinLines ls) = ls ++ [[]] := by
  induction ls with
  | nil => simp [joinLines, splitOn]
  | cons l ls ih =>
    have : joinLines (l :: ls) = l ++ '\n' :: joinLines ls := by simp [joinLines]
    rw [this, splitOn_append_sep _ _ _ (h l (by simp)), ih (fun x hx => h x (by simp [hx]))]; rfl

theorem stripPrefix_append (p l : Str) : stripPrefix p (p ++ l) = some l := by
  induction p with
  | nil => simp [stripPrefix]
  | cons c p ih => simp [stripPrefix, ih]

theorem parseVar_varLine (w : Nat) (code label : Str) (hc : ' ' ∉ code) :
    parseVar (varLine w code label) = some (w, code) := by
  unfold parseVar varLine
  rw [stripPrefix_append]
  simp only
  rw [splitOn_append_sep _ _ _ (natToDec_noSpace w), splitOn_append_sep _ _ _ hc]
  simp [decToNat_natToDec]

theorem parseBody_timeLine (t : Nat) : parseBody (timeLine t) = .time t := by
  simp [parseBody, timeLine, decToNat_natToDec]

theorem parseB4_b4Char (b : B4) : parseB4 (b4Char b) = some b := by cases b <;> decide

theorem parseB4D_b4Char (b : B4) : parseB4D (b4Char b) = b := by simp [parseB4D, parseB4_b4Char]

theorem b4Char_ne (b : B4) : b4Char b ≠ '#' ∧ b4Char b ≠ 'b' ∧ b4Char b ≠ 'B' ∧ b4Char b ≠ ' ' ∧ b4Char b ≠ '\n' := by
  cases b <;> decide

theorem parseBody_scalarLine (b : B4) (code : Str) : parseBody (scalarLine b code) = .change code [b] := by
  have h := b4Char_ne b
  simp [parseBody, scalarLine, h.1, h.2.1, h.2.2.1, parseB4_b4Char]

theorem map_parseB4D_b4Char (bits : List B4) : (bits.map b4Char).map parseB4D = bits := by
  induction bits with
  | nil => rfl
  | cons b bits ih => simp only [List.map_cons, parseB4D_b4Char, ih]

theorem parseBody_vectorLine (bits : List B4) (code : Str) (hc : ' ' ∉ code) :
    parseBody (vectorLine bits code) = .change code bits := by
  have hns : ' ' ∉ bits.reverse.map b4Char := by
    intro h
    simp only [List.mem_map] at h
    obtain ⟨b, _, hb⟩ := h
    exact (b4Char_ne b).2.2.2.1 hb
  simp only [parseBody, vectorLine]
  rw [splitOn_append_sep _ _ _ hns, splitOn_nosep _ _ hc]
  simp only [map_parseB4D_b4Char, List.reverse_reverse]
  simp

theorem parseBody_nil : parseBody [] = .skip := rfl

theorem parseBody_dollar (r : Str) : parseBody ('$' :: r) = .skip := by
  simp [parseBody, parseB4]

end Gatery.C20
