import GateryModel.C20.BodyLemmas
import GateryModel.C20.HeaderLemmas
/-! Assembly of the round-trip theorem. -/
namespace Gatery.C20

theorem noNL_cons {ch : Char} {a : Str} (h : ch ≠ '\n') (ha : noNL a) : noNL (ch :: a) := by
  unfold noNL at *; simp [ha, Ne.symm h]

theorem noNL_ident (n : Nat) : noNL (ident n) := ident_noNL n
theorem noNL_natToDec (n : Nat) : noNL (natToDec n) := natToDec_noNL n

theorem noNL_varLine (w : Nat) (code label : Str) (hc : noNL code) (hl : noNL label) : noNL (varLine w code label) := by
  unfold varLine
  refine noNL_append (by unfold noNL varPrefix; decide) (noNL_append (noNL_natToDec w) (noNL_cons (by decide)
    (noNL_append hc (noNL_cons (by decide) (noNL_append hl (by unfold noNL endSuffix; decide))))))

theorem noNL_stringVarLine (code label : Str) (hc : noNL code) (hl : noNL label) : noNL (stringVarLine code label) := by
  unfold stringVarLine
  refine noNL_append (by unfold noNL; decide) (noNL_append hc (noNL_cons (by decide) (noNL_append hl (by unfold noNL endSuffix; decide))))

theorem noNL_scopeLine (name : Str) (h : noNL name) : noNL (scopeLine name) := by
  unfold scopeLine
  exact noNL_append (by unfold noNL; decide) (noNL_append h (by unfold noNL endSuffix; decide))

theorem noNL_scalarLine (b : B4) (code : Str) (h : noNL code) : noNL (scalarLine b code) :=
  noNL_cons (b4Char_ne b).2.2.2.2 h

theorem noNL_vectorLine (bits : List B4) (code : Str) (h : noNL code) : noNL (vectorLine bits code) := by
  unfold vectorLine
  refine noNL_cons (by decide) (noNL_append ?_ (noNL_cons (by decide) h))
  intro hm
  simp only [List.mem_map] at hm
  obtain ⟨b, _, hb⟩ := hm
  exact (b4Char_ne b).2.2.2.2 hb

theorem noNL_timeLine (t : Nat) : noNL (timeLine t) := noNL_cons (by decide) (noNL_natToDec t)

/-- the kinds of lines of the declaration section -/
def DeclKind (c : Cfg) (l : Str) : Prop :=
  l ∈ preamble c.date ∨ TreeLine c l ∨ (∃ k name, noNL name ∧ l = varLine 1 (ident (c.sigs.length + k)) name) ∨
  (∃ k label, noNL label ∧ l = stringVarLine (ident k) label)

theorem clockVars_lines (names : List (Nat × Str)) : ∀ (k : Nat) (cs : List (Nat × Str)), (∀ x ∈ cs, x ∈ names) →
    ∀ l ∈ clockVars k cs, ∃ j name, (∃ x ∈ names, x.2 = name) ∧ l = varLine 1 (ident (k + j)) name := by
  intro k cs
  induction cs generalizing k with
  | nil => intro _ l hl; simp [clockVars] at hl
  | cons c0 cs ih =>
    intro hm l hl
    simp only [clockVars, List.mem_cons] at hl
    rcases hl with rfl | hl
    · exact ⟨0, c0.2, ⟨c0, hm c0 (by simp), rfl⟩, rfl⟩
    · obtain ⟨j, name, hn, rfl⟩ := ih (k + 1) (fun x hx => hm x (by simp [hx])) l hl
      exact ⟨j + 1, name, hn, by rw [Nat.add_assoc, Nat.add_comm 1 j]⟩

theorem declLines_kind (c : Cfg) (hn : c.NamesOk) : ∀ l ∈ declLines c, DeclKind c l := by
  intro l hl
  simp only [declLines, List.mem_append, List.mem_cons] at hl
  rcases hl with hl | hl | hl | hl
  · exact Or.inl hl
  · refine Or.inr (Or.inl (writeModules_lines c _ _ ?_ l hl))
    exact mkItems_good c hn c.sigs 0 (fun j _ => by simp) (by simp) (fun s hs => hs)
  · rcases hl with rfl | hl | hl | hl
    · exact Or.inr (Or.inl (Or.inr (Or.inl ⟨_, by unfold noNL; decide, rfl⟩)))
    · obtain ⟨j, name, ⟨x, hx, rfl⟩, rfl⟩ := clockVars_lines c.clocks _ _ (fun x hx => hx) l hl
      exact Or.inr (Or.inr (Or.inl ⟨j, x.2, hn.clocks x hx, rfl⟩))
    · obtain ⟨j, name, ⟨x, hx, rfl⟩, rfl⟩ := clockVars_lines c.resets _ _ (fun x hx => hx) l hl
      refine Or.inr (Or.inr (Or.inl ⟨c.clocks.length + j, x.2, hn.resets x hx, ?_⟩))
      simp [Cfg.nsigs, Nat.add_assoc]
    · simp at hl; subst hl; exact Or.inr (Or.inl (Or.inl rfl))
  · unfold syntheticLines at hl
    simp only at hl
    split at hl
    · simp only [List.mem_cons, List.mem_append] at hl
      rcases hl with rfl | ((hl | hl) | hl) | hl
      · exact Or.inr (Or.inl (Or.inr (Or.inl ⟨_, by unfold noNL; decide, rfl⟩)))
      · split at hl
        · simp at hl; subst hl; exact Or.inr (Or.inr (Or.inr ⟨_, _, by unfold noNL; decide, rfl⟩))
        · simp at hl
      · split at hl
        · simp at hl; subst hl; exact Or.inr (Or.inr (Or.inr ⟨_, _, by unfold noNL; decide, rfl⟩))
        · simp at hl
      · split at hl
        · simp at hl; subst hl; exact Or.inr (Or.inr (Or.inr ⟨_, _, by unfold noNL; decide, rfl⟩))
        · simp at hl
      · simp at hl; subst hl; exact Or.inr (Or.inl (Or.inl rfl))
    · simp at hl

theorem parseVar_date (d : Str) (h : d.head? ≠ some '$') : parseVar d = none := by
  cases d with
  | nil => rfl
  | cons ch d =>
    have : ¬ ('$' = ch) := fun e => h (by rw [← e]; rfl)
    simp [parseVar, varPrefix, stripPrefix, this]

theorem declKind_ne_endDefs (c : Cfg) (hn : c.NamesOk) (l : Str) (h : DeclKind c l) : l ≠ endDefsLine := by
  rcases h with h | h | ⟨k, name, _, rfl⟩ | ⟨k, label, _, rfl⟩
  · simp only [preamble, List.mem_cons, List.not_mem_nil, or_false] at h
    rcases h with rfl | rfl | rfl | rfl | rfl | rfl | rfl | rfl | rfl
    all_goals first
      | decide
      | (intro e; exact hn.date.2 (by rw [e]; rfl))
  · rcases h with rfl | ⟨name, _, rfl⟩ | ⟨j, _, _, rfl⟩
    · decide
    · simp [scopeLine, endDefsLine]
    · simp [varLine, varPrefix, endDefsLine]
  · simp [varLine, varPrefix, endDefsLine]
  · simp [stringVarLine, endDefsLine]

theorem declKind_noNL (c : Cfg) (hn : c.NamesOk) (l : Str) (h : DeclKind c l) : noNL l := by
  rcases h with h | h | ⟨k, name, hname, rfl⟩ | ⟨k, label, hl, rfl⟩
  · simp only [preamble, List.mem_cons, List.not_mem_nil, or_false] at h
    rcases h with rfl | rfl | rfl | rfl | rfl | rfl | rfl | rfl | rfl
    all_goals first
      | (unfold noNL; decide)
      | exact hn.date.1
  · rcases h with rfl | ⟨name, hname, rfl⟩ | ⟨j, _, hname, rfl⟩
    · unfold noNL; decide
    · exact noNL_scopeLine _ hname
    · exact noNL_varLine _ _ _ (noNL_ident _) hname
  · exact noNL_varLine _ _ _ (noNL_ident _) hname
  · exact noNL_stringVarLine _ _ (noNL_ident _) hl

theorem declKind_parseVar (c : Cfg) (hn : c.NamesOk) (i : Nat) (hi : i < c.sigs.length) (l : Str) (h : DeclKind c l)
    (w : Nat) (code : Str) (hp : parseVar l = some (w, code)) (hc : code = ident i) : w = (c.sigs.getD i default).width := by
  rcases h with h | h | ⟨k, name, _, rfl⟩ | ⟨k, label, _, rfl⟩
  · exfalso
    simp only [preamble, List.mem_cons, List.not_mem_nil, or_false] at h
    rcases h with rfl | rfl | rfl | rfl | rfl | rfl | rfl | rfl | rfl
    all_goals first
      | (rw [parseVar_date _ hn.date.2] at hp; simp at hp)
      | (simp [parseVar, varPrefix, stripPrefix, endLine] at hp)
  · rcases h with rfl | ⟨name, _, rfl⟩ | ⟨j, hj, _, rfl⟩
    · exfalso; simp [parseVar, varPrefix, stripPrefix, upscopeLine] at hp
    · exfalso; simp [parseVar, scopeLine, varPrefix, stripPrefix] at hp
    · rw [parseVar_varLine _ _ _ (ident_noSpace j)] at hp
      simp only [Option.some.injEq, Prod.mk.injEq] at hp
      have : j = i := ident_injective' (hp.2.trans hc)
      subst this; exact hp.1.symm
  · exfalso
    rw [parseVar_varLine _ _ _ (ident_noSpace _)] at hp
    simp only [Option.some.injEq, Prod.mk.injEq] at hp
    have := ident_injective' (hp.2.trans hc)
    omega
  · exfalso; simp [parseVar, stringVarLine, varPrefix, stripPrefix] at hp

theorem findSome_unique {α β : Type} (f : α → Option β) (b : β) : ∀ (l : List α), (∃ a ∈ l, f a = some b) →
    (∀ a ∈ l, ∀ b', f a = some b' → b' = b) → l.findSome? f = some b := by
  intro l
  induction l with
  | nil => intro ⟨a, ha, _⟩; simp at ha
  | cons x l ih =>
    intro ⟨a, ha, hfa⟩ hu
    simp only [List.findSome?_cons]
    cases hx : f x with
    | some b' => simp [hu x (by simp) b' hx]
    | none =>
      simp only
      rcases List.mem_cons.1 ha with rfl | ha
      · rw [hfa] at hx; simp at hx
      · exact ih ⟨a, ha, hfa⟩ (fun a' ha' => hu a' (by simp [ha']))

theorem declaredWidth_decl (c : Cfg) (hn : c.NamesOk) (i : Nat) (hi : i < c.sigs.length) :
    declaredWidth (declLines c) (ident i) = (c.sigs.getD i default).width := by
  unfold declaredWidth
  rw [findSome_unique _ (c.sigs.getD i default).width]
  · rfl
  · obtain ⟨it, hit, h1, h2, h3⟩ := mkItems_mem c.sigs 0 i hi
    refine ⟨it.var, ?_, ?_⟩
    · simp only [declLines, List.mem_append]
      right; left
      apply writeModules_has _ _ it hit
      rw [h3]
      exact Nat.lt_succ_of_le (le_maxPath c.sigs i hi)
    · have hidx : it.idx = i := by omega
      simp only [Item.var, parseVar_varLine _ _ _ (ident_noSpace _), hidx, if_true, h2]
  · intro l hl w hw
    have hk := declLines_kind c hn l hl
    cases hp : parseVar l with
    | none => rw [hp] at hw; simp at hw
    | some p =>
      obtain ⟨w', code⟩ := p
      rw [hp] at hw
      simp only at hw
      split at hw
      · rename_i hcode
        simp only [Option.some.injEq] at hw
        subst hw
        exact declKind_parseVar c hn i hi l hk w' code hp hcode
      · simp at hw

/-! dump section -/

theorem mem_insertById {α : Type} {x y : Nat × α} : ∀ {l : List (Nat × α)}, y ∈ insertById x l → y = x ∨ y ∈ l := by
  intro l
  induction l with
  | nil => intro h; simp [insertById] at h; exact Or.inl h
  | cons h t ih =>
    intro hy
    unfold insertById at hy
    split at hy
    · rcases List.mem_cons.1 hy with rfl | hy
      · exact Or.inl rfl
      · exact Or.inr hy
    · rcases List.mem_cons.1 hy with rfl | hy
      · exact Or.inr (by simp)
      · rcases ih hy with rfl | hy
        · exact Or.inl rfl
        · exact Or.inr (by simp [hy])

theorem mem_sortById_aux {α : Type} : ∀ (l acc : List (Nat × α)) (y : Nat × α),
    y ∈ l.foldl (fun acc x => insertById x acc) acc → y ∈ acc ∨ y ∈ l := by
  intro l
  induction l with
  | nil => intro acc y h; exact Or.inl h
  | cons x l ih =>
    intro acc y h
    simp only [List.foldl_cons] at h
    rcases ih _ y h with h | h
    · rcases mem_insertById h with rfl | h
      · exact Or.inr (by simp)
      · exact Or.inl h
    · exact Or.inr (by simp [h])

theorem mem_sortById {α : Type} (l : List (Nat × α)) (y : Nat × α) (h : y ∈ sortById l) : y ∈ l := by
  rcases mem_sortById_aux l [] y h with h | h
  · simp at h
  · exact h

theorem initEntries_code : ∀ (cs : List (Nat × Str)) (vs : List (Option Bool)) (k : Nat),
    ∀ e ∈ initEntries k cs vs, ∃ j, e.2.1 = ident (k + j) := by
  intro cs
  induction cs with
  | nil => intro vs k e h; simp [initEntries] at h
  | cons c0 cs ih =>
    intro vs k e h
    cases vs with
    | nil => simp [initEntries] at h
    | cons v vs =>
      simp only [initEntries, List.mem_cons] at h
      rcases h with rfl | h
      · exact ⟨0, rfl⟩
      · obtain ⟨j, hj⟩ := ih vs (k + 1) e h
        exact ⟨j + 1, by rw [hj, Nat.add_assoc, Nat.add_comm 1 j]⟩

theorem dumpLines_inert (i k : Nat) (hik : i < k) (cs : List (Nat × Str)) (vs : List (Option Bool)) :
    ∀ it ∈ (dumpLines (initEntries k cs vs)).map parseBody, Inert (ident i) it := by
  intro it hit
  simp only [dumpLines, List.mem_map, List.mem_filterMap] at hit
  obtain ⟨l, ⟨e, he, hl⟩, rfl⟩ := hit
  obtain ⟨j, hj⟩ := initEntries_code cs vs k e (mem_sortById _ _ he)
  cases hv : e.2.2 with
  | none => rw [hv] at hl; simp at hl
  | some b =>
    rw [hv] at hl
    simp only [Option.some.injEq] at hl
    subst hl
    rw [parseBody_scalarLine, hj]
    intro e'
    have := ident_injective' e'
    omega

theorem dumpLines_noNL (k : Nat) (cs : List (Nat × Str)) (vs : List (Option Bool)) :
    ∀ l ∈ dumpLines (initEntries k cs vs), noNL l := by
  intro l hl
  simp only [dumpLines, List.mem_filterMap] at hl
  obtain ⟨e, he, hl⟩ := hl
  obtain ⟨j, hj⟩ := initEntries_code cs vs k e (mem_sortById _ _ he)
  cases hv : e.2.2 with
  | none => rw [hv] at hl; simp at hl
  | some b =>
    rw [hv] at hl
    simp only [Option.some.injEq] at hl
    subst hl
    rw [hj]
    exact noNL_scalarLine _ _ (noNL_ident _)

/-! body lines have no line breaks -/

theorem changeLine_noNL (s : Sig) (k : Nat) (v : RVec) : noNL (changeLine s (ident k) v) := by
  unfold changeLine
  split
  · exact noNL_scalarLine _ _ (noNL_ident _)
  · exact noNL_vectorLine _ _ (noNL_ident _)

theorem commitGo_noNL : ∀ (ss : List Sig) (k : Nat) (trs nvs : List RVec), ∀ l ∈ (commitGo k ss trs nvs).2, noNL l := by
  intro ss
  induction ss with
  | nil => intro k trs nvs l hl; simp [commitGo] at hl
  | cons s ss ih =>
    intro k trs nvs l hl
    match trs, nvs with
    | [], _ => simp [commitGo] at hl
    | _ :: _, [] => simp [commitGo] at hl
    | tr :: trs, nv :: nvs =>
      simp only [commitGo] at hl
      split at hl
      · rcases List.mem_cons.1 hl with rfl | hl
        · exact changeLine_noNL _ _ _
        · exact ih _ _ _ l hl
      · exact ih _ _ _ l hl

theorem encodeEvents_noNL (c : Cfg) : ∀ (evs : List Ev) (tr : List RVec), ∀ l ∈ encodeEvents c tr evs, noNL l := by
  intro evs
  induction evs with
  | nil => intro tr l hl; simp [encodeEvents] at hl
  | cons e evs ih =>
    intro tr l hl
    cases e with
    | tick n d =>
      simp only [encodeEvents, encodeStep, List.mem_append, List.mem_cons, List.not_mem_nil, or_false] at hl
      rcases hl with rfl | hl
      · exact noNL_timeLine _
      · exact ih _ l hl
    | commit vals =>
      simp only [encodeEvents, encodeStep, List.mem_append] at hl
      rcases hl with hl | hl
      · exact commitGo_noNL _ _ _ _ l hl
      · exact ih _ l hl
    | clock j b =>
      simp only [encodeEvents, encodeStep, List.mem_append] at hl
      rcases hl with hl | hl
      · split at hl
        · simp at hl; subst hl; exact noNL_scalarLine _ _ (noNL_ident _)
        · simp at hl
      · exact ih _ l hl
    | reset j b =>
      simp only [encodeEvents, encodeStep, List.mem_append] at hl
      rcases hl with hl | hl
      · split at hl
        · simp at hl; subst hl; exact noNL_scalarLine _ _ (noNL_ident _)
        · simp at hl
      · exact ih _ l hl

theorem takeWhile_prefix {α : Type} (p : α → Bool) (a : List α) (b : α) (r : List α) (ha : ∀ x ∈ a, p x = true) (hb : p b = false) :
    (a ++ b :: r).takeWhile p = a ∧ (a ++ b :: r).dropWhile p = b :: r := by
  induction a with
  | nil => simp [hb]
  | cons x a ih =>
    have := ih (fun y hy => ha y (by simp [hy]))
    simp [ha x (by simp), this.1, this.2]

theorem initTracked_len (c : Cfg) : (initTracked c).map List.length = c.sigs.map Sig.width := by
  simp [initTracked]

theorem initTracked_getD (c : Cfg) (i : Nat) (hi : i < c.sigs.length) :
    canon ((initTracked c).getD i []) = List.replicate (c.sigs.getD i default).width .x := by
  unfold initTracked
  rw [List.getD_eq_getElem?_getD, List.getD_eq_getElem?_getD]
  simp [hi, canon, RBit.canon]

/-- `decode (encode trace)` = value at the last commit `≤ T` -/
theorem round_trip (c : Cfg) (init : Init) (evs : List Ev) (hn : c.NamesOk) (hs : TicksSorted 0 evs) (hc : CommitsOk c evs)
    (i : Nat) (hi : i < c.sigs.length) (T : Nat) :
    decode (encode c init evs) (ident i) T = specValue c evs i T := by
  have hlines : ∀ l ∈ encodeLines c init evs, '\n' ∉ l := by
    intro l hl
    simp only [encodeLines, headerLines, dumpSection, List.mem_append, List.mem_cons] at hl
    rcases hl with (hl | hl) | hl
    · exact declKind_noNL c hn l (declLines_kind c hn l hl)
    · rcases hl with rfl | rfl | hl | hl | hl
      · decide
      · decide
      · exact dumpLines_noNL _ _ _ l hl
      · exact dumpLines_noNL _ _ _ l hl
      · simp at hl; subst hl; decide
    · exact encodeEvents_noNL c _ _ l hl
  unfold decode encode
  rw [splitOn_joinLines _ hlines]
  have hshape : encodeLines c init evs ++ [[]] =
      declLines c ++ endDefsLine :: (dumpvarsLine :: (dumpLines (initEntries c.nsigs c.clocks init.clocks) ++
        (dumpLines (initEntries (c.nsigs + c.clocks.length) c.resets init.resets) ++ [endLine]))
        ++ (encodeEvents c (initTracked c) evs ++ [[]])) := by
    simp [encodeLines, headerLines, dumpSection, List.append_assoc]
  rw [hshape]
  unfold decodeLines
  have htw := takeWhile_prefix (fun l => decide (l ≠ endDefsLine)) (declLines c) endDefsLine
    (dumpvarsLine :: (dumpLines (initEntries c.nsigs c.clocks init.clocks) ++
        (dumpLines (initEntries (c.nsigs + c.clocks.length) c.resets init.resets) ++ [endLine]))
        ++ (encodeEvents c (initTracked c) evs ++ [[]]))
    (fun x hx => by simpa using declKind_ne_endDefs c hn x (declLines_kind c hn x hx)) (by simp)
  simp only [htw.1, htw.2]
  rw [declaredWidth_decl c hn i hi, specValue_eq]
  simp only [List.map_cons, List.map_append, List.cons_append]
  have e1 : parseBody endDefsLine = .skip := by decide
  have e2 : parseBody dumpvarsLine = .skip := by decide
  have e3 : parseBody endLine = .skip := by decide
  rw [e1, e2]
  simp only [decodeGo, List.append_assoc]
  rw [decodeGo_inert _ _ _ _ _ _ (dumpLines_inert i c.nsigs hi c.clocks init.clocks),
    decodeGo_inert _ _ _ _ _ _ (dumpLines_inert i (c.nsigs + c.clocks.length) (by simp [Cfg.nsigs]; omega) c.resets init.resets)]
  simp only [List.map_nil, List.cons_append, List.nil_append, e3, decodeGo, parseBody_nil]
  rw [decodeGo_append_inert _ _ _ _ _ _ (by intro it hit; simp at hit; subst hit; trivial)]
  apply body_sim c i T hi evs 0 (initTracked c) none none hs hc (initTracked_len c)
  · intro _
    rw [initTracked_getD c i hi]
    exact ⟨rfl, rfl⟩
  · intro h; omega

end Gatery.C20
