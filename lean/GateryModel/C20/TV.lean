import GateryModel.C20.VCD
/-!
# C20 — model of `vhdl::FileBasedTestbenchRecorder` (test-vector stream)

Anchors (`/repo/source/gatery/export/vhdl`):
* `FileBasedTestbenchRecorder.cpp:350-357` `onPowerOn` (times := 0, one empty phase pushed)
* `:371-378` `onNewPhase`: at `WaitClock::AFTER` flush up to the current time, then the overrides postponed from the DURING
  phase become the first phase of the next interval and an empty phase is pushed
* `:380-383` `onAfterMicroTick`: push an empty phase
* `:392-399` `advanceTimeTo`: `ADV ⌊(t - written)·10¹²⌋`, `written += that many ps` (the remainder is carried)
* `:401-426` `flush`: `interval = (end - start) / (2 + #phases)`, non-empty phase `i` is written at `start + interval·(1+i)`:
  its CHECKs, then its SETs (a `std::map`: by name), then its RSTs
* `:444-456` `onReset`, `:458-475` `onSimProcOutputOverridden` (DURING phase: postponed), `:477-535` `onSimProcOutputRead`
  (CHECK only if the bit / any bit is defined; vector CHECKs print `-` for undefined bits)
* `:52-55` destructor: final flush; `BaseTestbenchRecorder.h:69-76` `Phase`
Ghost data carried by the model and not written to the file: the tag (index of the recorded callback) of every statement, the
exact target time of every `ADV`, the interval / phase number of every group.
-/
namespace Gatery.C20.TV
open Gatery.C20

/-- a recorded statement: tag = index of the callback that produced it -/
structure Tagged where
  tag : Nat
  name : Str
  val : Str
  deriving Repr, DecidableEq, Inhabited

/-- `BaseTestbenchRecorder::Phase` -/
structure Phase where
  asserts : List Tagged := []     -- `assertStatements` (a stream: in order)
  sets : List Tagged := []        -- `signalOverrides` (`std::map<string,string>`: sorted by name, one entry per name)
  rsts : List Tagged := []        -- `resetOverrides`
  deriving Repr, Inhabited

def Phase.isEmpty (p : Phase) : Bool := p.asserts.isEmpty && p.sets.isEmpty && p.rsts.isEmpty

/-- `std::string::operator<` -/
def strLt : Str → Str → Bool
  | [], [] => false
  | [], _ :: _ => true
  | _ :: _, [] => false
  | a :: as, b :: bs => if a.toNat < b.toNat then true else if b.toNat < a.toNat then false else strLt as bs

/-- `map[name] = value` -/
def mapSet (x : Tagged) : List Tagged → List Tagged
  | [] => [x]
  | h :: t => if strLt x.name h.name then x :: h :: t else if x.name = h.name then x :: t else h :: mapSet x t

/-- what one non-empty phase becomes in the file -/
structure Group where
  adv : Nat
  /-- ghost: the exact time the group was scheduled at -/
  target : Rat
  /-- ghost: the flush interval `(start, stop)` the group was scheduled in -/
  start : Rat
  stop : Rat
  /-- ghost: number of flushes completed before the one that wrote the group -/
  interval : Nat
  /-- index of the phase in `m_phases` -/
  phase : Nat
  checks : List Tagged
  sets : List Tagged
  rsts : List Tagged
  deriving Repr, Inhabited

structure St where
  phases : List Phase := []
  post : Phase := {}
  written : Rat := 0
  flushStart : Rat := 0
  /-- ghost -/
  flushes : Nat := 0
  deriving Repr, Inhabited

def psPerSec : Rat := 1000000000000

/-- `advanceTimeTo`: the number after `ADV` -/
def advAmount (written target : Rat) : Nat := ((target - written) * psPerSec).floor.toNat

/-- loop of `flush` from phase index `k` on; returns the groups and the new written time -/
def flushGo (start stop interval : Rat) (fl : Nat) : Nat → Rat → List Phase → List Group × Rat
  | _, w, [] => ([], w)
  | k, w, p :: ps =>
    if p.isEmpty then flushGo start stop interval fl (k + 1) w ps
    else
      let target := start + interval * ((1 + k : Nat) : Rat)
      let n := advAmount w target
      let r := flushGo start stop interval fl (k + 1) (w + (n : Rat) / psPerSec) ps
      ({ adv := n, target := target, start := start, stop := stop, interval := fl, phase := k,
         checks := p.asserts, sets := p.sets, rsts := p.rsts } :: r.1, r.2)

def flush (st : St) (stop : Rat) : List Group × St :=
  let interval := (stop - st.flushStart) / ((2 + st.phases.length : Nat) : Rat)
  let r := flushGo st.flushStart stop interval st.flushes 0 st.written st.phases
  (r.1, { st with phases := [{}], written := r.2, flushStart := stop, flushes := st.flushes + 1 })

def modifyLast (f : Phase → Phase) : List Phase → List Phase
  | [] => []
  | [p] => [f p]
  | p :: ps => p :: modifyLast f ps

inductive TEv where
  | powerOn
  /-- `onNewPhase(phase)`; `after` = (phase == AFTER); `now` = `getCurrentSimulationTime()` -/
  | newPhase (after : Bool) (now : Rat)
  | microTick
  /-- `onSimProcOutputOverridden` of a non simulation-only pin; `during` = (`getCurrentPhase()` == DURING); bits LSB first -/
  | set (during : Bool) (name : Str) (bits : List B4)
  /-- `onReset` of a reset of interest -/
  | rst (during : Bool) (name : Str) (asserted : Bool)
  /-- `onSimProcOutputRead` resolved to a recorded pin name -/
  | read (name : Str) (isBool : Bool) (bits : List B4)
  /-- destructor -/
  | finish (now : Rat)
  deriving Repr, Inhabited

/-- `stream << state` -/
def renderState (bits : List B4) : Str := bits.reverse.map b4Char

def checkChar : B4 → Char
  | .f => '0' | .t => '1' | .x => '-'

/-- the value line of a CHECK, `none` if nothing is defined -/
def renderCheck (isBool : Bool) (bits : List B4) : Option Str :=
  if isBool then (if bits.head? = some .x ∨ bits.head? = none then none else some (renderState bits))
  else if bits.any (fun b => b ≠ .x) then some (bits.reverse.map checkChar) else none

def step (j : Nat) (st : St) : TEv → List Group × St
  | .powerOn => ([], { st with written := 0, flushStart := 0, phases := st.phases ++ [{}] })
  | .newPhase after now =>
    if after then
      let r := flush st now
      (r.1, { r.2 with phases := [st.post, {}], post := {} })
    else ([], st)
  | .microTick => ([], { st with phases := st.phases ++ [{}] })
  | .set during name bits =>
    let x : Tagged := ⟨j, name, renderState bits⟩
    if during then ([], { st with post := { st.post with sets := mapSet x st.post.sets } })
    else ([], { st with phases := modifyLast (fun p => { p with sets := mapSet x p.sets }) st.phases })
  | .rst during name v =>
    let x : Tagged := ⟨j, name, [if v then '1' else '0']⟩
    if during then ([], { st with post := { st.post with rsts := mapSet x st.post.rsts } })
    else ([], { st with phases := modifyLast (fun p => { p with rsts := mapSet x p.rsts }) st.phases })
  | .read name isBool bits =>
    match renderCheck isBool bits with
    | some v => ([], { st with phases := modifyLast (fun p => { p with asserts := p.asserts ++ [⟨j, name, v⟩] }) st.phases })
    | none => ([], st)
  | .finish now => flush st now

/-- all groups written while the callbacks `evs` arrive, the first one having index `j` -/
def run : Nat → St → List TEv → List Group
  | _, _, [] => []
  | j, st, e :: es => let r := step j st e; r.1 ++ run (j + 1) r.2 es

def kw (s : Str) (x : Tagged) : List Str := [s, x.name, x.val]

def Group.lines (g : Group) : List Str :=
  [['A','D','V'], natToDec g.adv]
    ++ g.checks.flatMap (kw ['C','H','E','C','K']) ++ g.sets.flatMap (kw ['S','E','T']) ++ g.rsts.flatMap (kw ['R','S','T'])

/-- the body of the `.testvectors` file -/
def render (gs : List Group) : Str := joinLines (gs.flatMap Group.lines)

/-! ## specification side: which (interval, phase) a recorded callback belongs to -/

/-- `fl` = number of AFTER-phase notifications (flushes) so far, `len` = number of phases currently open.
    A callback outside the DURING phase belongs to the last open phase of the current interval; an override made in the DURING
    phase belongs to phase 0 of the next interval. -/
def slots : Nat → Nat → List TEv → List (Option (Nat × Nat))
  | _, _, [] => []
  | fl, len, .powerOn :: r => none :: slots fl (len + 1) r
  | fl, len, .microTick :: r => none :: slots fl (len + 1) r
  | fl, len, .newPhase after _ :: r => none :: (if after then slots (fl + 1) 2 r else slots fl len r)
  | fl, _, .finish _ :: r => none :: slots (fl + 1) 1 r
  | fl, len, .set during _ _ :: r => some (if during then (fl + 1, 0) else (fl, len - 1)) :: slots fl len r
  | fl, len, .rst during _ _ :: r => some (if during then (fl + 1, 0) else (fl, len - 1)) :: slots fl len r
  | fl, len, .read _ _ _ :: r => some (fl, len - 1) :: slots fl len r

/-- times of the flushes, in order -/
def flushTimes : List TEv → List Rat
  | [] => []
  | .newPhase true now :: r => now :: flushTimes r
  | .finish now :: r => now :: flushTimes r
  | _ :: r => flushTimes r

end Gatery.C20.TV
