import GateryModel.C20.VCD
/-!
# C20 — model of `vhdl::FileBasedTestbenchRecorder` (test-vector stream)

Anchors (`/repo/source/gatery/export/vhdl`):
* `FileBasedTestbenchRecorder.cpp:350-357` `onPowerOn` (times := 0, one empty phase pushed)
* `onNewPhase`: at `WaitClock::BEFORE` of a time step that is entered again (same time as the last flush) note whether records are
  pending (`m_pendingAfterEdge`: they were made after the clock edges of this time); at `WaitClock::AFTER` flush up to the current
  time — unless such records are pending, then everything is kept for the next interval —, then the overrides postponed from the
  DURING phase become the next phase and an empty phase is pushed
* `:380-383` `onAfterMicroTick`: push an empty phase
* `:392-399` `advanceTimeTo`: `ADV ⌊(t - written)·10¹²⌋`, `written += that many ps` (the remainder is carried)
* `:401-426` `flush`: `interval = (end - start) / (2 + #phases)`, non-empty phase `i` is written at `start + interval·(1+i)`:
  its CHECKs, then its SETs (a `std::map`: by name), then its RSTs
* `:444-456` `onReset`, `:458-481` `onSimProcOutputOverridden` (DURING phase: postponed; `Z` for high impedance), `:483-541` `onSimProcOutputRead`
  (CHECK only if the bit / any bit is defined; vector CHECKs print `-` for undefined bits)
* destructor: final flush; if the run ends at the time of the last flush the end is moved `2 + #phases` ps behind it (one
  picosecond per pending phase); `BaseTestbenchRecorder.h:69-76` `Phase`
Ghost data carried by the model and not written to the file: the tag (index of the recorded callback) of every statement, the
exact target time of every `ADV`, the interval / phase number of every group.
-/
namespace Gatery.C20.TV
open Gatery.C20

/-- a recorded statement: tag = index of the callback that produced it -/
structure Tagged where
  tag : Nat
  name : Str
  val : Str
  deriving Repr, DecidableEq, Inhabited

/-- `BaseTestbenchRecorder::Phase` -/
structure Phase where
  asserts : List Tagged := []     -- `assertStatements` (a stream: in order)
  sets : List Tagged := []        -- `signalOverrides` (`std::map<string,string>`: sorted by name, one entry per name)
  rsts : List Tagged := []        -- `resetOverrides`
  deriving Repr, Inhabited

def Phase.isEmpty (p : Phase) : Bool := p.asserts.isEmpty && p.sets.isEmpty && p.rsts.isEmpty

/-- `std::string::operator<` -/
def strLt : Str → Str → Bool
  | [], [] => false
  | [], _ :: _ => true
  | _ :: _, [] => false
  | a :: as, b :: bs => if a.toNat < b.toNat then true else if b.toNat < a.toNat then false else strLt as bs

/-- `map[name] = value` -/
def mapSet (x : Tagged) : List Tagged → List Tagged
  | [] => [x]
  | h :: t => if strLt x.name h.name then x :: h :: t else if x.name = h.name then x :: t else h :: mapSet x t

/-- what one non-empty phase becomes in the file -/
structure Group where
  adv : Nat
  /-- ghost: the exact time the group was scheduled at -/
  target : Rat
  /-- ghost: the flush interval `(start, stop)` the group was scheduled in -/
  start : Rat
  stop : Rat
  /-- ghost: number of flushes completed before the one that wrote the group -/
  interval : Nat
  /-- index of the phase in `m_phases` -/
  phase : Nat
  checks : List Tagged
  sets : List Tagged
  rsts : List Tagged
  deriving Repr, Inhabited

structure St where
  phases : List Phase := []
  post : Phase := {}
  written : Rat := 0
  flushStart : Rat := 0
  /-- `m_pendingAfterEdge` -/
  pending : Bool := false
  /-- ghost -/
  flushes : Nat := 0
  deriving Repr, Inhabited

def psPerSec : Rat := 1000000000000

/-- `advanceTimeTo`: the number after `ADV` -/
def advAmount (written target : Rat) : Nat := ((target - written) * psPerSec).floor.toNat

/-- loop of `flush` from phase index `k` on; returns the groups and the new written time -/
def flushGo (start stop interval : Rat) (fl : Nat) : Nat → Rat → List Phase → List Group × Rat
  | _, w, [] => ([], w)
  | k, w, p :: ps =>
    if p.isEmpty then flushGo start stop interval fl (k + 1) w ps
    else
      let target := start + interval * ((1 + k : Nat) : Rat)
      let n := advAmount w target
      let r := flushGo start stop interval fl (k + 1) (w + (n : Rat) / psPerSec) ps
      ({ adv := n, target := target, start := start, stop := stop, interval := fl, phase := k,
         checks := p.asserts, sets := p.sets, rsts := p.rsts } :: r.1, r.2)

def flush (st : St) (stop : Rat) : List Group × St :=
  let interval := (stop - st.flushStart) / ((2 + st.phases.length : Nat) : Rat)
  let r := flushGo st.flushStart stop interval st.flushes 0 st.written st.phases
  (r.1, { st with phases := [{}], written := r.2, flushStart := stop, flushes := st.flushes + 1 })

def modifyLast (f : Phase → Phase) : List Phase → List Phase
  | [] => []
  | [p] => [f p]
  | p :: ps => p :: modifyLast f ps

/-- one bit of an `ExtendedBitVectorState` as far as the recorder looks at it -/
inductive XBit where
  | f | t | x | z
  deriving Repr, DecidableEq, Inhabited

def XBit.char : XBit → Char
  | .f => '0' | .t => '1' | .x => 'X' | .z => 'Z'

/-- `WaitClock::TimingPhase` -/
inductive Ph where
  | before | during | after
  deriving Repr, DecidableEq, Inhabited

inductive TEv where
  | powerOn
  /-- `onNewPhase(phase)`; `now` = `getCurrentSimulationTime()` -/
  | newPhase (ph : Ph) (now : Rat)
  | microTick
  /-- `onSimProcOutputOverridden` of a non simulation-only pin; `during` = (`getCurrentPhase()` == DURING); bits LSB first -/
  | set (during : Bool) (name : Str) (bits : List XBit)
  /-- `onReset` of a reset of interest -/
  | rst (during : Bool) (name : Str) (asserted : Bool)
  /-- `onSimProcOutputRead` resolved to a recorded pin name -/
  | read (name : Str) (isBool : Bool) (bits : List B4)
  /-- destructor -/
  | finish (now : Rat)
  deriving Repr, Inhabited

/-- `stream << state` -/
def renderState (bits : List B4) : Str := bits.reverse.map b4Char

/-- value line of a SET (`onSimProcOutputOverridden`): high impedance `Z`, undefined `X`, else the value; MSB first -/
def renderSet (bits : List XBit) : Str := bits.reverse.map XBit.char

def checkChar : B4 → Char
  | .f => '0' | .t => '1' | .x => '-'

/-- the value line of a CHECK, `none` if nothing is defined -/
def renderCheck (isBool : Bool) (bits : List B4) : Option Str :=
  if isBool then (if bits.head? = some .x ∨ bits.head? = none then none else some (renderState bits))
  else if bits.any (fun b => b ≠ .x) then some (bits.reverse.map checkChar) else none

/-- `onNewPhase(BEFORE)`: the time step is entered again and records made since its flush are pending -/
def pendingNow (st : St) (now : Rat) : Bool :=
  decide (now = st.flushStart) && (!st.post.isEmpty || st.phases.any (fun p => !p.isEmpty))

/-- end of the final flush (destructor) -/
def finishStop (st : St) (now : Rat) : Rat :=
  if now = st.flushStart then now + ((2 + st.phases.length : Nat) : Rat) / psPerSec else now

def step (j : Nat) (st : St) : TEv → List Group × St
  | .powerOn => ([], { st with written := 0, flushStart := 0, pending := false, phases := st.phases ++ [{}] })
  | .newPhase .before now => ([], { st with pending := pendingNow st now })
  | .newPhase .during _ => ([], st)
  | .newPhase .after now =>
    if st.pending then ([], { st with phases := st.phases ++ [st.post, {}], post := {} })
    else
      let r := flush st now
      (r.1, { r.2 with phases := [st.post, {}], post := {} })
  | .microTick => ([], { st with phases := st.phases ++ [{}] })
  | .set during name bits =>
    let x : Tagged := ⟨j, name, renderSet bits⟩
    if during then ([], { st with post := { st.post with sets := mapSet x st.post.sets } })
    else ([], { st with phases := modifyLast (fun p => { p with sets := mapSet x p.sets }) st.phases })
  | .rst during name v =>
    let x : Tagged := ⟨j, name, [if v then '1' else '0']⟩
    if during then ([], { st with post := { st.post with rsts := mapSet x st.post.rsts } })
    else ([], { st with phases := modifyLast (fun p => { p with rsts := mapSet x p.rsts }) st.phases })
  | .read name isBool bits =>
    match renderCheck isBool bits with
    | some v => ([], { st with phases := modifyLast (fun p => { p with asserts := p.asserts ++ [⟨j, name, v⟩] }) st.phases })
    | none => ([], st)
  | .finish now => flush st (finishStop st now)

/-- all groups written while the callbacks `evs` arrive, the first one having index `j` -/
def run : Nat → St → List TEv → List Group
  | _, _, [] => []
  | j, st, e :: es => let r := step j st e; r.1 ++ run (j + 1) r.2 es

def kw (s : Str) (x : Tagged) : List Str := [s, x.name, x.val]

def Group.lines (g : Group) : List Str :=
  [['A','D','V'], natToDec g.adv]
    ++ g.checks.flatMap (kw ['C','H','E','C','K']) ++ g.sets.flatMap (kw ['S','E','T']) ++ g.rsts.flatMap (kw ['R','S','T'])

/-- the body of the `.testvectors` file -/
def render (gs : List Group) : Str := joinLines (gs.flatMap Group.lines)

/-! ## specification side: which (interval, phase) a recorded callback belongs to -/

/-- where the overrides postponed from the DURING phase go at the AFTER notification: phase 0 of the next interval, or — when the
    records of this interval are kept (`pending`) — the next phase of this interval -/
def postSlot (st : St) : Nat × Nat := if st.pending then (st.flushes, st.phases.length) else (st.flushes + 1, 0)

/-- `postSlot` at the next AFTER notification -/
def afterSlot : Nat → St → List TEv → Option (Nat × Nat)
  | _, _, [] => none
  | _, st, .newPhase .after _ :: _ => some (postSlot st)
  | j, st, e :: r => afterSlot (j + 1) (step j st e).2 r

/-- interval = number of flushes so far, phase = index of the last open phase.
    A callback outside the DURING phase belongs to the last open phase of the current interval; an override made in the DURING
    phase belongs to the phase opened by the coming AFTER notification. -/
def slots : Nat → St → List TEv → List (Option (Nat × Nat))
  | _, _, [] => []
  | j, st, e :: r =>
    (match e with
      | .set during _ _ => if during then afterSlot j st (e :: r) else some (st.flushes, st.phases.length - 1)
      | .rst during _ _ => if during then afterSlot j st (e :: r) else some (st.flushes, st.phases.length - 1)
      | .read _ _ _ => some (st.flushes, st.phases.length - 1)
      | _ => none) :: slots (j + 1) (step j st e).2 r

def inDuring : Option (Ph × Rat) → Bool
  | some (.during, _) => true
  | _ => false

def inBefore : Option (Ph × Rat) → Bool
  | some (.before, _) => true
  | _ => false

/-- what the simulator guarantees about the order of the callbacks: phase notifications come in passes BEFORE → DURING → AFTER of one
    simulation time, overrides are flagged DURING exactly inside a DURING phase, power-on does not happen inside one
    (`cur` = last phase notification) -/
def passes : Option (Ph × Rat) → List TEv → Bool
  | _, [] => true
  | cur, .newPhase .before t :: r => !inDuring cur && !inBefore cur && passes (some (.before, t)) r
  | cur, .newPhase .during t :: r => decide (cur = some (.before, t)) && passes (some (.during, t)) r
  | cur, .newPhase .after t :: r => decide (cur = some (.during, t)) && passes (some (.after, t)) r
  | cur, .set during _ _ :: r => (during == inDuring cur) && passes cur r
  | cur, .rst during _ _ :: r => (during == inDuring cur) && passes cur r
  | cur, .powerOn :: r => !inDuring cur && !inBefore cur && passes none r
  | cur, .microTick :: r => passes cur r
  | cur, .read _ _ _ :: r => passes cur r
  | cur, .finish _ :: r => passes cur r

/-- the last phase notification before every callback (`none` after power-on) -/
def phaseTrack : Option (Ph × Rat) → List TEv → List (Option (Ph × Rat))
  | _, [] => []
  | cur, e :: r => cur :: phaseTrack (match e with | .newPhase ph t => some (ph, t) | .powerOn => none | _ => cur) r

/-- end times of the flushes, in order -/
def flushTimes : Nat → St → List TEv → List Rat
  | _, _, [] => []
  | j, st, e :: r =>
    (match e with
      | .newPhase .after now => if st.pending then [] else [now]
      | .finish now => [finishStop st now]
      | _ => []) ++ flushTimes (j + 1) (step j st e).2 r

end Gatery.C20.TV
