import GateryModel.C20.TVObserve
/-! Nothing that was recorded after the clock edges of a time is written at that time: a group scheduled in an empty flush interval
    only holds what the BEFORE and DURING phases of the flushing pass recorded. -/
namespace Gatery.C20.TV
open Gatery.C20

def preEdge (cur : Option (Ph × Rat)) (t : Rat) : Prop := cur = some (.before, t) ∨ cur = some (.during, t)

def nextCur (cur : Option (Ph × Rat)) : TEv → Option (Ph × Rat)
  | .newPhase ph t => some (ph, t)
  | .powerOn => none
  | _ => cur

theorem phaseTrack_cons (cur : Option (Ph × Rat)) (e : TEv) (r : List TEv) :
    phaseTrack cur (e :: r) = cur :: phaseTrack (nextCur cur e) r := by
  cases e <;> rfl

theorem finishStop_ne (st : St) (now : Rat) : finishStop st now ≠ st.flushStart := by
  unfold finishStop
  split
  · rename_i h
    have : (0 : Rat) < ((2 + st.phases.length : Nat) : Rat) := Rat.natCast_pos.2 (by omega)
    rw [h]; unfold psPerSec; grind
  · assumption

theorem items_of_isEmpty {p : Phase} (h : p.isEmpty = true) : p.items = [] := by
  simp only [Phase.isEmpty, Bool.and_eq_true, List.isEmpty_iff] at h
  simp [Phase.items, h.1.1, h.1.2, h.2]

section
variable (R : Rat → Tagged → Prop)

/-- what is recorded in the BEFORE / DURING phase of a pass at time `t` satisfies `R t` -/
def CompatT (j : Nat) (cur : Option (Ph × Rat)) (evs : List TEv) : Prop :=
  ∀ i e x t, evs[i]? = some e → produced (j + i) e = some x → (∃ c, (phaseTrack cur evs)[i]? = some c ∧ preEdge c t) → R t x

theorem compatT_tail {j : Nat} {cur : Option (Ph × Rat)} {e : TEv} {r : List TEv} (h : CompatT R j cur (e :: r)) :
    CompatT R (j + 1) (nextCur cur e) r := by
  intro i e' x t he hp hc
  apply h (i + 1) e' x t
  · simpa using he
  · rwa [show j + (i + 1) = j + 1 + i by omega]
  · rw [phaseTrack_cons]; simpa using hc

/-- while a pass that found nothing pending at the time of the last flush is before its AFTER notification, every open record is `R` -/
def Clean (cur : Option (Ph × Rat)) (st : St) : Prop :=
  ∀ t, preEdge cur t → st.flushStart = t → st.pending = false → ∀ p ∈ st.phases, ∀ x ∈ p.items, R t x

theorem clean_of_not_pre {cur : Option (Ph × Rat)} {st : St} (h : ∀ t, ¬ preEdge cur t) : Clean R cur st :=
  fun t ht => absurd ht (h t)

theorem mem_modifyLast {f : Phase → Phase} : ∀ {ps : List Phase} {q : Phase}, q ∈ modifyLast f ps → q ∈ ps ∨ ∃ p ∈ ps, q = f p := by
  intro ps
  induction ps with
  | nil => intro q h; simp [modifyLast] at h
  | cons p ps ih =>
    intro q h
    cases ps with
    | nil => simp [modifyLast] at h; exact Or.inr ⟨p, by simp, h⟩
    | cons p2 ps =>
      simp only [modifyLast, List.mem_cons] at h
      rcases h with rfl | h
      · exact Or.inl (by simp)
      · rcases ih (by simpa [modifyLast] using h) with h | ⟨p', hp', rfl⟩
        · exact Or.inl (by simp [List.mem_cons.1 h])
        · exact Or.inr ⟨p', by simp [List.mem_cons.1 hp'], rfl⟩

theorem run_edge : ∀ (evs : List TEv) (j : Nat) (st : St) (cur : Option (Ph × Rat)), passes cur evs = true →
    CompatT R j cur evs → Clean R cur st →
    ∀ g ∈ run j st evs, g.start = g.stop → ∀ x ∈ g.items, R g.stop x := by
  intro evs
  induction evs with
  | nil => intro j st cur _ _ _ g hg; simp [run] at hg
  | cons e evs ih =>
    intro j st cur hpass hc hcl g hg hse x hx
    simp only [run, List.mem_append] at hg
    have hct := compatT_tail R hc
    -- a record made now, outside the DURING-override path, is `R t` whenever the pass is before its edges
    have hrec : ∀ y t, produced j e = some y → preEdge cur t → R t y := by
      intro y t hp hpre
      exact hc 0 e y t (by simp) (by simpa using hp) ⟨cur, by simp [phaseTrack_cons], hpre⟩
    -- a step that keeps the phase, the flush start, `pending`, writes nothing and only adds `y` to the last phase
    have hadd : ∀ (f : Phase → Phase) (y : Tagged), produced j e = some y → nextCur cur e = cur → passes cur evs = true →
        (∀ p, ∀ z ∈ (f p).items, z = y ∨ z ∈ p.items) → (step j st e).1 = [] →
        (step j st e).2 = { st with phases := modifyLast f st.phases } → R g.stop x := by
      intro f y hp hn hpt hf h1 h2
      rcases hg with hg | hg
      · rw [h1] at hg; simp at hg
      · refine ih (j + 1) _ cur hpt (by rw [← hn]; exact hct) ?_ g hg hse x hx
        · rw [h2]
          intro t hpre hs hpnd q hq z hz
          rcases mem_modifyLast hq with hq | ⟨p', hp', rfl⟩
          · exact hcl t hpre hs hpnd q hq z hz
          · rcases hf p' z hz with rfl | hz
            · exact hrec _ t hp hpre
            · exact hcl t hpre hs hpnd p' hp' z hz
    -- a step that changes neither the phases' contents nor the flush start nor `pending`, and writes nothing
    have hsame : nextCur cur e = cur → (step j st e).1 = [] → passes cur evs = true →
        (∀ q ∈ (step j st e).2.phases, q ∈ st.phases ∨ q.items = []) → (step j st e).2.flushStart = st.flushStart →
        (step j st e).2.pending = st.pending → R g.stop x := by
      intro hn h1 hp' hph hfs hpd
      rcases hg with hg | hg
      · rw [h1] at hg; simp at hg
      · refine ih (j + 1) _ cur hp' (by rw [← hn]; exact hct) ?_ g hg hse x hx
        intro t hpre hs hpnd q hq z hz
        rcases hph q hq with hq | hq
        · exact hcl t hpre (by rw [← hs, hfs]) (by rw [← hpnd, hpd]) q hq z hz
        · rw [hq] at hz; simp at hz
    cases e with
    | powerOn =>
      simp only [passes, Bool.and_eq_true, Bool.not_eq_true'] at hpass
      rcases hg with hg | hg
      · simp [step] at hg
      · exact ih (j + 1) _ none hpass.2 hct (clean_of_not_pre R (by intro t h; rcases h with h | h <;> simp at h)) g hg hse x hx
    | microTick =>
      refine hsame rfl (by simp [step]) (by simpa [passes] using hpass) ?_ (by simp [step]) (by simp [step])
      intro q hq; simp only [step, List.mem_append, List.mem_singleton] at hq
      rcases hq with hq | rfl
      · exact Or.inl hq
      · exact Or.inr (by simp [Phase.items])
    | finish now =>
      rcases hg with hg | hg
      · simp only [step] at hg
        obtain ⟨_, _, h3, h4, _⟩ := flush_groups st _ g hg
        exact absurd (by rw [← h3, ← h4, hse]) (finishStop_ne st now).symm
      · refine ih (j + 1) _ cur (by simpa [passes] using hpass) hct ?_ g hg hse x hx
        intro t _ _ _ q hq z hz
        simp [step, flush] at hq; subst hq; simp [Phase.items] at hz
    | set during name bits =>
      cases during with
      | true =>
        refine hsame rfl (by simp [step]) (by simp [passes] at hpass; exact hpass.2) ?_ (by simp [step]) (by simp [step])
        intro q hq; exact Or.inl (by simpa [step] using hq)
      | false =>
        exact hadd (fun p => { p with sets := mapSet ⟨j, name, renderSet bits⟩ p.sets }) ⟨j, name, renderSet bits⟩ (by simp [produced]) rfl (by simp [passes] at hpass; exact hpass.2)
          (by
            intro p z hz
            simp only [Phase.items, List.mem_append] at hz ⊢
            rcases hz with (hz | hz) | hz
            · exact Or.inr (Or.inl (Or.inl hz))
            · rcases mem_mapSet hz with rfl | hz
              · exact Or.inl rfl
              · exact Or.inr (Or.inl (Or.inr hz))
            · exact Or.inr (Or.inr hz))
          (by simp [step]) (by simp [step])
    | rst during name v =>
      cases during with
      | true =>
        refine hsame rfl (by simp [step]) (by simp [passes] at hpass; exact hpass.2) ?_ (by simp [step]) (by simp [step])
        intro q hq; exact Or.inl (by simpa [step] using hq)
      | false =>
        exact hadd (fun p => { p with rsts := mapSet ⟨j, name, [if v then '1' else '0']⟩ p.rsts }) ⟨j, name, [if v then '1' else '0']⟩ (by simp [produced]) rfl (by simp [passes] at hpass; exact hpass.2)
          (by
            intro p z hz
            simp only [Phase.items, List.mem_append] at hz ⊢
            rcases hz with (hz | hz) | hz
            · exact Or.inr (Or.inl (Or.inl hz))
            · exact Or.inr (Or.inl (Or.inr hz))
            · rcases mem_mapSet hz with rfl | hz
              · exact Or.inl rfl
              · exact Or.inr (Or.inr hz))
          (by simp [step]) (by simp [step])
    | read name isBool bits =>
      cases hr : renderCheck isBool bits with
      | none =>
        refine hsame rfl (by simp [step, hr]) (by simpa [passes] using hpass) ?_ (by simp [step, hr]) (by simp [step, hr])
        intro q hq; exact Or.inl (by simpa [step, hr] using hq)
      | some v =>
        exact hadd (fun p => { p with asserts := p.asserts ++ [⟨j, name, v⟩] }) ⟨j, name, v⟩ (by simp [produced, hr]) rfl (by simpa [passes] using hpass)
          (by
            intro p z hz
            simp only [Phase.items, List.mem_append, List.mem_singleton] at hz ⊢
            rcases hz with ((hz | hz) | hz) | hz
            · exact Or.inr (Or.inl (Or.inl hz))
            · exact Or.inl hz
            · exact Or.inr (Or.inl (Or.inr hz))
            · exact Or.inr (Or.inr hz))
          (by simp [step, hr]) (by simp [step, hr])
    | newPhase ph now =>
      cases ph with
      | before =>
        simp only [passes, Bool.and_eq_true, Bool.not_eq_true'] at hpass
        rcases hg with hg | hg
        · simp [step] at hg
        · refine ih (j + 1) _ (some (.before, now)) hpass.2 hct ?_ g hg hse x hx
          intro t hpre hs hpnd q hq z hz
          -- nothing was pending at the time of the last flush: every phase is empty
          have ht : t = now := by rcases hpre with h | h <;> simp at h <;> exact h.symm
          subst ht
          simp only [step, pendingNow] at hs hpnd hq
          simp only [hs, decide_true, Bool.true_and, Bool.or_eq_false_iff, List.any_eq_false] at hpnd
          have he : q.isEmpty = true := by
            have := hpnd.2 q hq
            cases hq' : q.isEmpty with
            | true => rfl
            | false => simp [hq'] at this
          rw [items_of_isEmpty he] at hz; simp at hz
      | during =>
        simp only [passes, Bool.and_eq_true, decide_eq_true_eq] at hpass
        rcases hg with hg | hg
        · simp [step] at hg
        · refine ih (j + 1) _ (some (.during, now)) hpass.2 hct ?_ g hg hse x hx
          intro t hpre hs hpnd q hq z hz
          have ht : t = now := by rcases hpre with h | h <;> simp at h <;> exact h.symm
          subst ht
          exact hcl t (Or.inl hpass.1) (by simpa [step] using hs) (by simpa [step] using hpnd) q (by simpa [step] using hq) z hz
      | after =>
        simp only [passes, Bool.and_eq_true, decide_eq_true_eq] at hpass
        have hnot : ∀ t, ¬ preEdge (some (Ph.after, now)) t := by intro t h; rcases h with h | h <;> simp at h
        by_cases hp : st.pending = true
        · rcases hg with hg | hg
          · simp [step, hp] at hg
          · exact ih (j + 1) _ (some (.after, now)) hpass.2 hct (clean_of_not_pre R hnot) g hg hse x hx
        · have hp' : st.pending = false := by simpa using hp
          rcases hg with hg | hg
          · simp only [step, hp'] at hg
            obtain ⟨_, _, h3, h4, _, p, hpq, hc1, hc2, hc3⟩ := flush_groups st now g hg
            have hst : st.flushStart = now := by rw [← h3, ← h4, hse]
            have hx' : x ∈ p.items := by simpa [Group.items, Phase.items, hc1, hc2, hc3] using hx
            rw [h4]
            exact hcl now (Or.inr hpass.1) hst hp' p (List.mem_of_getElem? hpq) x hx'
          · exact ih (j + 1) _ (some (.after, now)) hpass.2 hct (clean_of_not_pre R hnot) g hg hse x hx
end

/-- callback `x.tag` arrived in the BEFORE or DURING phase of a pass at time `t` -/
def RecordedPreEdge (evs : List TEv) (t : Rat) (x : Tagged) : Prop :=
  ∃ c, (phaseTrack none evs)[x.tag]? = some c ∧ preEdge c t

theorem run_edge_recorded (evs : List TEv) (hp : passes none evs = true) :
    ∀ g ∈ run 0 {} evs, g.start = g.stop → ∀ x ∈ g.items, RecordedPreEdge evs g.stop x := by
  apply run_edge (RecordedPreEdge evs) evs 0 {} none hp
  · intro i e x t he hpr hc
    have ht := produced_tag hpr
    simp only [Nat.zero_add] at ht
    unfold RecordedPreEdge; rw [ht]; exact hc
  · exact clean_of_not_pre _ (by intro t h; rcases h with h | h <;> simp at h)

end Gatery.C20.TV
