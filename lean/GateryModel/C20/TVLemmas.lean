import GateryModel.C20.TV
/-! Lemmas about the test-vector recorder model: time keeping. -/
namespace Gatery.C20.TV
open Gatery.C20

def advSum : List Group → Nat
  | [] => 0
  | g :: gs => g.adv + advSum gs

theorem advSum_append (a b : List Group) : advSum (a ++ b) = advSum a + advSum b := by
  induction a with
  | nil => simp [advSum]
  | cons g a ih => simp [advSum, ih, Nat.add_assoc]

/-- written time (in ps, `W` = everything written before) is within one picosecond below the exact target, for every group -/
def DriftOk : Nat → List Group → Prop
  | _, [] => True
  | W, g :: gs =>
    (((W + g.adv : Nat) : Rat) / psPerSec ≤ g.target ∧ g.target < ((W + g.adv : Nat) : Rat) / psPerSec + 1 / psPerSec)
      ∧ DriftOk (W + g.adv) gs

theorem driftOk_append (a b : List Group) (W : Nat) : DriftOk W (a ++ b) ↔ DriftOk W a ∧ DriftOk (W + advSum a) b := by
  induction a generalizing W with
  | nil => simp [DriftOk, advSum]
  | cons g a ih => simp [DriftOk, advSum, ih, Nat.add_assoc, and_assoc]

theorem natCast_toNat_floor (x : Rat) (hx : 0 ≤ x) : ((x.floor.toNat : Nat) : Rat) = ((x.floor : Int) : Rat) := by
  have h0 : (0 : Int) ≤ x.floor := Rat.le_floor_iff.2 (by simpa using hx)
  rw [← Rat.intCast_natCast, Int.toNat_of_nonneg h0]

/-- one `advanceTimeTo`: the remainder below one picosecond is carried, never lost -/
theorem adv_step (w target : Rat) (h : w ≤ target) :
    w + (advAmount w target : Rat) / psPerSec ≤ target ∧ target < w + (advAmount w target : Rat) / psPerSec + 1 / psPerSec := by
  unfold advAmount
  have hx : 0 ≤ (target - w) * psPerSec := by unfold psPerSec; grind
  rw [natCast_toNat_floor _ hx]
  have h1 := Rat.floor_le ((target - w) * psPerSec)
  have h2 := Rat.lt_floor_add_one ((target - w) * psPerSec)
  rw [Rat.intCast_add, Rat.intCast_one] at h2
  generalize (((target - w) * psPerSec).floor : Rat) = z at h1 h2
  unfold psPerSec at *
  constructor <;> grind

theorem natCast_mono {a b : Nat} (h : a ≤ b) : (a : Rat) ≤ (b : Rat) := Rat.natCast_le_natCast.2 h

theorem flushGo_drift (start stop interval : Rat) (fl : Nat) (hd : 0 ≤ interval) :
    ∀ (phases : List Phase) (k W : Nat) (w : Rat), w = (W : Rat) / psPerSec → w ≤ start + interval * ((1 + k : Nat) : Rat) →
      DriftOk W (flushGo start stop interval fl k w phases).1 ∧
      (flushGo start stop interval fl k w phases).2 = ((W + advSum (flushGo start stop interval fl k w phases).1 : Nat) : Rat) / psPerSec ∧
      (∀ B, w ≤ B → start + interval * ((k + phases.length : Nat) : Rat) ≤ B → (flushGo start stop interval fl k w phases).2 ≤ B) := by
  intro phases
  induction phases with
  | nil =>
    intro k W w hw _
    refine ⟨by simp [flushGo, DriftOk], by simp [flushGo, advSum, hw], ?_⟩
    intro B hB _; simpa [flushGo] using hB
  | cons p ps ih =>
    intro k W w hw hle
    have hstep : start + interval * ((1 + k : Nat) : Rat) ≤ start + interval * ((1 + (k + 1) : Nat) : Rat) := by
      have := Rat.mul_le_mul_of_nonneg_left (natCast_mono (show 1 + k ≤ 1 + (k + 1) by omega)) hd
      grind
    unfold flushGo
    by_cases he : p.isEmpty
    · simp only [he, if_true]
      obtain ⟨h1, h2, h3⟩ := ih (k + 1) W w hw (Rat.le_trans hle hstep)
      refine ⟨h1, h2, fun B hB1 hB2 => h3 B hB1 ?_⟩
      have : k + 1 + ps.length = k + (p :: ps).length := by simp; omega
      rw [this]; exact hB2
    · simp only [he]
      have hs := adv_step w (start + interval * ((1 + k : Nat) : Rat)) hle
      have hw' : w + (advAmount w (start + interval * ((1 + k : Nat) : Rat)) : Rat) / psPerSec
          = ((W + advAmount w (start + interval * ((1 + k : Nat) : Rat)) : Nat) : Rat) / psPerSec := by
        rw [hw, Rat.natCast_add]; unfold psPerSec; grind
      obtain ⟨h1, h2, h3⟩ := ih (k + 1) (W + advAmount w (start + interval * ((1 + k : Nat) : Rat))) _ hw'
        (Rat.le_trans hs.1 hstep)
      refine ⟨⟨?_, h1⟩, ?_, ?_⟩
      · rw [← hw']; exact hs
      · rw [h2]; simp [advSum, Nat.add_assoc]
      · intro B hB1 hB2
        apply h3 B
        · have hk : start + interval * ((1 + k : Nat) : Rat) ≤ start + interval * ((k + (p :: ps).length : Nat) : Rat) := by
            have := Rat.mul_le_mul_of_nonneg_left (natCast_mono (show 1 + k ≤ k + (p :: ps).length by simp; omega)) hd
            grind
          exact Rat.le_trans hs.1 (Rat.le_trans hk hB2)
        · have : k + 1 + ps.length = k + (p :: ps).length := by simp; omega
          rw [this]; exact hB2

theorem interval_nonneg (D : Rat) (c : Nat) (h : 0 ≤ D) : 0 ≤ D / ((2 + c : Nat) : Rat) := by
  have hc : (0 : Rat) < ((2 + c : Nat) : Rat) := Rat.natCast_pos.2 (by omega)
  apply Rat.le_of_mul_le_mul_right (c := ((2 + c : Nat) : Rat)) _ hc
  rw [Rat.div_mul_cancel (Rat.ne_of_gt hc)]
  simpa using h

theorem interval_mul (D : Rat) (c : Nat) : D / ((2 + c : Nat) : Rat) * ((2 + c : Nat) : Rat) = D := by
  have hc : (0 : Rat) < ((2 + c : Nat) : Rat) := Rat.natCast_pos.2 (by omega)
  exact Rat.div_mul_cancel (Rat.ne_of_gt hc)

/-- time invariant of the recorder state: `W` ps have been written so far -/
structure TimeInv (st : St) (W : Nat) (lo : Rat) : Prop where
  written : st.written = (W : Rat) / psPerSec
  le_start : st.written ≤ st.flushStart
  start_le : st.flushStart ≤ lo

theorem flush_drift (st : St) (W : Nat) (lo stop : Rat) (hinv : TimeInv st W lo) (hstop : lo ≤ stop) :
    DriftOk W (flush st stop).1 ∧ TimeInv (flush st stop).2 (W + advSum (flush st stop).1) stop := by
  have hD : 0 ≤ stop - st.flushStart := by have := hinv.start_le; grind
  have hd := interval_nonneg _ st.phases.length hD
  have hmul := interval_mul (stop - st.flushStart) st.phases.length
  have hle : st.written ≤ st.flushStart + (stop - st.flushStart) / ((2 + st.phases.length : Nat) : Rat) * ((1 + 0 : Nat) : Rat) := by
    have := Rat.mul_nonneg hd (show (0 : Rat) ≤ ((1 + 0 : Nat) : Rat) from Rat.natCast_nonneg)
    have := hinv.le_start
    grind
  obtain ⟨h1, h2, h3⟩ := flushGo_drift st.flushStart stop _ st.flushes hd st.phases 0 W st.written hinv.written hle
  refine ⟨h1, ⟨h2, ?_, Rat.le_refl⟩⟩
  apply h3 stop
  · have := hinv.le_start; have := hinv.start_le; grind
  · have hk := Rat.mul_le_mul_of_nonneg_left (natCast_mono (show 0 + st.phases.length ≤ 2 + st.phases.length by omega)) hd
    grind

/-- simulation times never decrease, there is no second power-on and nothing after the destructor -/
def Mono : Rat → List TEv → Prop
  | _, [] => True
  | lo, .newPhase _ now :: r => lo ≤ now ∧ Mono now r
  | lo, .finish now :: r => lo ≤ now ∧ r = []
  | _, .powerOn :: _ => False
  | lo, _ :: r => Mono lo r

theorem le_finishStop (st : St) (now : Rat) : now ≤ finishStop st now := by
  unfold finishStop
  split
  · have : (0 : Rat) ≤ ((2 + st.phases.length : Nat) : Rat) := Rat.natCast_nonneg
    unfold psPerSec; grind
  · exact Rat.le_refl

theorem run_drift : ∀ (evs : List TEv) (j : Nat) (st : St) (W : Nat) (lo : Rat), TimeInv st W lo → Mono lo evs →
    DriftOk W (run j st evs) := by
  intro evs
  induction evs with
  | nil => intros; simp [run, DriftOk]
  | cons e evs ih =>
    intro j st W lo hinv hm
    simp only [run]
    rw [driftOk_append]
    cases e with
    | powerOn => exact absurd hm (by simp [Mono])
    | microTick =>
      simp only [step, DriftOk, advSum, Nat.add_zero, true_and]
      exact ih _ _ W lo ⟨hinv.written, hinv.le_start, hinv.start_le⟩ hm
    | set during name bits =>
      simp only [Mono] at hm
      simp only [step]
      split <;> (simp only [DriftOk, advSum, Nat.add_zero, true_and]; exact ih _ _ W lo ⟨hinv.written, hinv.le_start, hinv.start_le⟩ hm)
    | rst during name v =>
      simp only [Mono] at hm
      simp only [step]
      split <;> (simp only [DriftOk, advSum, Nat.add_zero, true_and]; exact ih _ _ W lo ⟨hinv.written, hinv.le_start, hinv.start_le⟩ hm)
    | read name isBool bits =>
      simp only [Mono] at hm
      simp only [step]
      split <;> (simp only [DriftOk, advSum, Nat.add_zero, true_and]; exact ih _ _ W lo ⟨hinv.written, hinv.le_start, hinv.start_le⟩ hm)
    | finish now =>
      simp only [Mono] at hm
      simp only [step]
      obtain ⟨h1, h2⟩ := flush_drift st W lo (finishStop st now) hinv (Rat.le_trans hm.1 (le_finishStop st now))
      obtain ⟨_, rfl⟩ := hm
      exact ⟨h1, by simp [run, DriftOk]⟩
    | newPhase ph now =>
      simp only [Mono] at hm
      cases ph with
      | before =>
        simp only [step, DriftOk, advSum, Nat.add_zero, true_and]
        exact ih _ _ W now ⟨hinv.written, hinv.le_start, Rat.le_trans hinv.start_le hm.1⟩ hm.2
      | during =>
        simp only [step, DriftOk, advSum, Nat.add_zero, true_and]
        exact ih _ _ W now ⟨hinv.written, hinv.le_start, Rat.le_trans hinv.start_le hm.1⟩ hm.2
      | after =>
        simp only [step]
        by_cases hp : st.pending = true
        · simp only [hp, if_true, DriftOk, advSum, Nat.add_zero, true_and]
          exact ih _ _ W now ⟨hinv.written, hinv.le_start, Rat.le_trans hinv.start_le hm.1⟩ hm.2
        · simp only [hp, if_false]
          obtain ⟨h1, h2⟩ := flush_drift st W lo now hinv hm.1
          refine ⟨h1, ih _ _ _ now ⟨h2.written, h2.le_start, h2.start_le⟩ hm.2⟩

theorem driftOk_split : ∀ (pre : List Group) (g : Group) (post : List Group) (W : Nat), DriftOk W (pre ++ g :: post) →
    ((W + advSum pre + g.adv : Nat) : Rat) / psPerSec ≤ g.target ∧
    g.target < ((W + advSum pre + g.adv : Nat) : Rat) / psPerSec + 1 / psPerSec := by
  intro pre g post W h
  rw [driftOk_append] at h
  exact h.2.1

end Gatery.C20.TV
