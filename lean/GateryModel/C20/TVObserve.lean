import GateryModel.C20.TVTimes
/-! Recording order versus (interval, phase): a statement recorded after a micro tick (or a clock edge) that follows an earlier
    override belongs to a strictly later group than that override. -/
namespace Gatery.C20.TV
open Gatery.C20

/-- overrides made in the DURING phase (they are postponed until after the edge) -/
def TEv.during : TEv → Bool
  | .set d _ _ => d
  | .rst d _ _ => d
  | _ => false

/-- a boundary between two phases: the end of a micro tick, or the AFTER-phase notification of a time step -/
def TEv.boundary : TEv → Bool
  | .microTick => true
  | .newPhase .after _ => true
  | _ => false

/-- (interval, index of the last open phase) -/
def St.key (st : St) : Nat × Nat := (st.flushes, st.phases.length - 1)

/-- how the counters move in one step -/
theorem step_counters (j : Nat) (st : St) (e : TEv) :
    ((step j st e).2.flushes = st.flushes ∧ st.phases.length ≤ (step j st e).2.phases.length ∧
      (e.boundary = true → st.phases.length < (step j st e).2.phases.length)) ∨
    ((step j st e).2.flushes = st.flushes + 1 ∧ 1 ≤ (step j st e).2.phases.length) := by
  cases e with
  | powerOn => left; simp [step, TEv.boundary]
  | microTick => left; simp [step]
  | finish now => right; simp [step, flush]
  | set d n bits => left; simp only [step]; split <;> simp [modifyLast_length, TEv.boundary]
  | rst d n v => left; simp only [step]; split <;> simp [modifyLast_length, TEv.boundary]
  | read n ib bits => left; simp only [step]; split <;> simp [modifyLast_length, TEv.boundary]
  | newPhase ph now =>
    cases ph with
    | before => left; simp [step, TEv.boundary]
    | during => left; simp [step, TEv.boundary]
    | after =>
      by_cases hp : st.pending = true
      · left; simp [step, hp]
      · right; simp [step, hp, flush]

theorem step_key_le (j : Nat) (st : St) (e : TEv) : ¬ keyLt (step j st e).2.key st.key := by
  rcases step_counters j st e with h | h <;> (unfold keyLt St.key; simp; omega)

theorem step_key_lt (j : Nat) (st : St) (e : TEv) (hb : e.boundary = true) (hl : 1 ≤ st.phases.length) :
    keyLt st.key (step j st e).2.key := by
  rcases step_counters j st e with h | h
  · have := h.2.2 hb; unfold keyLt St.key; simp; omega
  · unfold keyLt St.key; simp; omega

theorem step_len_pos (j : Nat) (st : St) (e : TEv) (hl : 1 ≤ st.phases.length) : 1 ≤ (step j st e).2.phases.length := by
  rcases step_counters j st e with h | h <;> omega

theorem keyLt_of_lt_of_le {a b c : Nat × Nat} (h1 : keyLt a b) (h2 : ¬ keyLt c b) : keyLt a c := by
  unfold keyLt at *; omega

theorem not_keyLt_trans {a b c : Nat × Nat} (h1 : ¬ keyLt b a) (h2 : ¬ keyLt c b) : ¬ keyLt c a := by
  unfold keyLt at *; omega

theorem slot_nonDuring (j : Nat) (st : St) (e : TEv) (r : List TEv) (b : Nat × Nat)
    (hs : (slots j st (e :: r))[0]? = some (some b)) (hd : e.during = false) : b = st.key := by
  cases e <;> simp [slots, TEv.during] at hs hd
  · subst hd; simp at hs; exact hs.symm
  · subst hd; simp at hs; exact hs.symm
  · exact hs.symm

/-- a recorded (non-postponed) statement never lies before the phase that was open when an earlier callback arrived -/
theorem slots_ge : ∀ (evs : List TEv) (j : Nat) (st : St) (i : Nat) (b : Nat × Nat) (e : TEv),
    (slots j st evs)[i]? = some (some b) → evs[i]? = some e → e.during = false → ¬ keyLt b st.key := by
  intro evs
  induction evs with
  | nil => intro j st i b e h; simp [slots] at h
  | cons e0 evs ih =>
    intro j st i b e hs he hd
    cases i with
    | zero =>
      simp only [List.getElem?_cons_zero, Option.some.injEq] at he
      subst he
      rw [slot_nonDuring j st e0 evs b hs hd]; exact keyLt_irrefl _
    | succ i =>
      have := ih (j + 1) (step j st e0).2 i b e (by simpa [slots] using hs) (by simpa using he) hd
      exact not_keyLt_trans (step_key_le j st e0) this

/-- after a phase boundary every recorded (non-postponed) statement lies strictly behind the phase that was open before it -/
theorem slots_gt_after_boundary : ∀ (evs : List TEv) (j : Nat) (st : St) (m k : Nat) (b : Nat × Nat) (em e : TEv),
    1 ≤ st.phases.length → m < k → evs[m]? = some em → em.boundary = true →
    (slots j st evs)[k]? = some (some b) → evs[k]? = some e → e.during = false → keyLt st.key b := by
  intro evs
  induction evs with
  | nil => intro j st m k b em e _ _ h; simp at h
  | cons e0 evs ih =>
    intro j st m k b em e hl hmk hem hb hs he hd
    cases k with
    | zero => omega
    | succ k =>
      have hs' : (slots (j + 1) (step j st e0).2 evs)[k]? = some (some b) := by simpa [slots] using hs
      have he' : evs[k]? = some e := by simpa using he
      cases m with
      | zero =>
        simp only [List.getElem?_cons_zero, Option.some.injEq] at hem
        subst hem
        exact keyLt_of_lt_of_le (step_key_lt j st e0 hb hl) (slots_ge evs _ _ k b e hs' he' hd)
      | succ m =>
        have := ih (j + 1) (step j st e0).2 m k b em e (step_len_pos j st e0 hl) (by omega) (by simpa using hem) hb hs' he' hd
        unfold keyLt at *; have := step_key_le j st e0; unfold keyLt at this; omega

/-- after the AFTER notification every recorded statement lies strictly behind the phase that receives the postponed overrides -/
theorem afterSlot_lt : ∀ (evs : List TEv) (j : Nat) (st : St) (m k : Nat) (a b : Nat × Nat) (now : Rat) (e : TEv),
    afterSlot j st evs = some a → m < k → evs[m]? = some (.newPhase .after now) →
    (slots j st evs)[k]? = some (some b) → evs[k]? = some e → e.during = false → keyLt a b := by
  intro evs
  induction evs with
  | nil => intro j st m k a b now e _ _ h; simp at h
  | cons e0 evs ih =>
    intro j st m k a b now e ha hmk hem hs he hd
    cases k with
    | zero => omega
    | succ k =>
      have hs' : (slots (j + 1) (step j st e0).2 evs)[k]? = some (some b) := by simpa [slots] using hs
      have he' : evs[k]? = some e := by simpa using he
      have hge := slots_ge evs _ _ k b e hs' he' hd
      by_cases h0 : ∃ t, e0 = .newPhase .after t
      · obtain ⟨t, rfl⟩ := h0
        simp only [afterSlot, Option.some.injEq] at ha
        subst ha
        by_cases hp : st.pending = true
        · simp only [St.key, step, hp, if_true] at hge
          unfold keyLt postSlot at *; simp [hp] at *; omega
        · have hp' : st.pending = false := by simpa using hp
          simp only [St.key, step, hp', flush] at hge
          unfold keyLt postSlot at *; simp [hp'] at *; omega
      · have ha' : afterSlot (j + 1) (step j st e0).2 evs = some a := by
          cases e0 with
          | newPhase ph t =>
            cases ph with
            | after => exact absurd ⟨t, rfl⟩ h0
            | before => simpa [afterSlot] using ha
            | during => simpa [afterSlot] using ha
          | _ => simpa [afterSlot] using ha
        cases m with
        | zero =>
          simp only [List.getElem?_cons_zero, Option.some.injEq] at hem
          exact absurd ⟨now, hem⟩ h0
        | succ m => exact ih (j + 1) _ m k a b now e ha' (by omega) (by simpa using hem) hs' he' hd

/-- recording order ⇒ group order -/
theorem slots_order : ∀ (evs : List TEv) (j : Nat) (st : St) (i m k : Nat) (a b : Nat × Nat) (ei em ek : TEv),
    1 ≤ st.phases.length → i < m → m < k →
    (slots j st evs)[i]? = some (some a) → evs[i]? = some ei →
    evs[m]? = some em → (if ei.during then ∃ now, em = .newPhase .after now else em.boundary = true) →
    (slots j st evs)[k]? = some (some b) → evs[k]? = some ek → ek.during = false →
    keyLt a b := by
  intro evs
  induction evs with
  | nil => intro j st i m k a b ei em ek _ _ _ h; simp [slots] at h
  | cons e0 evs ih =>
    intro j st i m k a b ei em ek hl him hmk hsa hei hem hcond hsb hek hd
    cases m with
    | zero => omega
    | succ m =>
      cases k with
      | zero => omega
      | succ k =>
        have hsb' : (slots (j + 1) (step j st e0).2 evs)[k]? = some (some b) := by simpa [slots] using hsb
        have hek' : evs[k]? = some ek := by simpa using hek
        have hem' : evs[m]? = some em := by simpa using hem
        cases i with
        | zero =>
          simp only [List.getElem?_cons_zero, Option.some.injEq] at hei
          subst hei
          by_cases hdu : e0.during = true
          · simp only [hdu, if_true] at hcond
            obtain ⟨now, rfl⟩ := hcond
            -- the slot of a postponed override is `afterSlot`
            have ha : afterSlot j st (e0 :: evs) = some a := by
              cases e0 <;> simp [TEv.during] at hdu
              · subst hdu; simpa [slots] using hsa
              · subst hdu; simpa [slots] using hsa
            exact afterSlot_lt (e0 :: evs) j st (m + 1) (k + 1) a b now ek ha (by omega) hem hsb hek hd
          · have hdu' : e0.during = false := by simpa using hdu
            simp only [hdu', Bool.false_eq_true, if_false] at hcond
            rw [slot_nonDuring j st e0 evs a hsa hdu']
            have := slots_gt_after_boundary evs (j + 1) (step j st e0).2 m k b em ek (step_len_pos j st e0 hl) (by omega) hem' hcond hsb' hek' hd
            have h2 := step_key_le j st e0
            unfold keyLt at *; omega
        | succ i =>
          exact ih (j + 1) (step j st e0).2 i m k a b ei em ek (step_len_pos j st e0 hl) (by omega) (by omega)
            (by simpa [slots] using hsa) (by simpa using hei) hem' hcond hsb' hek' hd

end Gatery.C20.TV
