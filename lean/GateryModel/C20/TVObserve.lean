import GateryModel.C20.TVTimes
/-! Recording order versus (interval, phase): a statement recorded after a micro tick (or a clock edge) that follows an earlier
    override belongs to a strictly later group than that override. -/
namespace Gatery.C20.TV
open Gatery.C20

/-- overrides made in the DURING phase (they are postponed until after the edge) -/
def TEv.during : TEv → Bool
  | .set d _ _ => d
  | .rst d _ _ => d
  | _ => false

/-- a boundary between two phases: the end of a micro tick, or the AFTER-phase notification of a time step -/
def TEv.boundary : TEv → Bool
  | .microTick => true
  | .newPhase true _ => true
  | _ => false

theorem slots_ge : ∀ (evs : List TEv) (fl len i : Nat) (b : Nat × Nat) (e : TEv),
    (slots fl len evs)[i]? = some (some b) → evs[i]? = some e → e.during = false → ¬ keyLt b (fl, len - 1) := by
  intro evs
  induction evs with
  | nil => intro fl len i b e h; simp [slots] at h
  | cons e0 evs ih =>
    intro fl len i b e hs he hd
    cases i with
    | zero =>
      simp only [List.getElem?_cons_zero, Option.some.injEq] at he
      subst he
      cases e0 <;> simp [slots, TEv.during] at hs hd
      · subst hd; simp at hs; subst hs; exact keyLt_irrefl _
      · subst hd; simp at hs; subst hs; exact keyLt_irrefl _
      · subst hs; exact keyLt_irrefl _
    | succ i =>
      simp only [List.getElem?_cons_succ] at he
      cases e0 with
      | powerOn =>
        have := ih fl (len + 1) i b e (by simpa [slots] using hs) he hd
        unfold keyLt at *; simp at *; omega
      | microTick =>
        have := ih fl (len + 1) i b e (by simpa [slots] using hs) he hd
        unfold keyLt at *; simp at *; omega
      | finish now =>
        have := ih (fl + 1) 1 i b e (by simpa [slots] using hs) he hd
        unfold keyLt at *; simp at *; omega
      | newPhase after now =>
        cases after with
        | true =>
          have := ih (fl + 1) 2 i b e (by simpa [slots] using hs) he hd
          unfold keyLt at *; simp at *; omega
        | false => exact ih fl len i b e (by simpa [slots] using hs) he hd
      | set d n bits => exact ih fl len i b e (by simpa [slots] using hs) he hd
      | rst d n v => exact ih fl len i b e (by simpa [slots] using hs) he hd
      | read n ib bits => exact ih fl len i b e (by simpa [slots] using hs) he hd

/-- after a phase boundary every recorded (non-postponed) statement lies strictly behind the phase that was open before it -/
theorem slots_gt_after_boundary : ∀ (evs : List TEv) (fl len m j : Nat) (b : Nat × Nat) (em e : TEv), 1 ≤ len → m < j →
    evs[m]? = some em → em.boundary = true → (slots fl len evs)[j]? = some (some b) → evs[j]? = some e → e.during = false →
    keyLt (fl, len - 1) b := by
  intro evs
  induction evs with
  | nil => intro fl len m j b em e _ _ h; simp at h
  | cons e0 evs ih =>
    intro fl len m j b em e hl hmj hem hb hs he hd
    cases j with
    | zero => omega
    | succ j =>
      simp only [List.getElem?_cons_succ] at he
      cases m with
      | zero =>
        simp only [List.getElem?_cons_zero, Option.some.injEq] at hem
        subst hem
        cases e0 with
        | microTick =>
          have := slots_ge evs fl (len + 1) j b e (by simpa [slots] using hs) he hd
          unfold keyLt at *; simp at *; omega
        | newPhase after now =>
          cases after with
          | true =>
            have := slots_ge evs (fl + 1) 2 j b e (by simpa [slots] using hs) he hd
            unfold keyLt at *; simp at *; omega
          | false => simp [TEv.boundary] at hb
        | powerOn => simp [TEv.boundary] at hb
        | finish t => simp [TEv.boundary] at hb
        | set d n bits => simp [TEv.boundary] at hb
        | rst d n v => simp [TEv.boundary] at hb
        | read n ib bits => simp [TEv.boundary] at hb
      | succ m =>
        simp only [List.getElem?_cons_succ] at hem
        cases e0 with
        | powerOn =>
          have := ih fl (len + 1) m j b em e (by omega) (by omega) hem hb (by simpa [slots] using hs) he hd
          unfold keyLt at *; simp at *; omega
        | microTick =>
          have := ih fl (len + 1) m j b em e (by omega) (by omega) hem hb (by simpa [slots] using hs) he hd
          unfold keyLt at *; simp at *; omega
        | finish now =>
          have := ih (fl + 1) 1 m j b em e (by omega) (by omega) hem hb (by simpa [slots] using hs) he hd
          unfold keyLt at *; simp at *; omega
        | newPhase after now =>
          cases after with
          | true =>
            have := ih (fl + 1) 2 m j b em e (by omega) (by omega) hem hb (by simpa [slots] using hs) he hd
            unfold keyLt at *; simp at *; omega
          | false => exact ih fl len m j b em e hl (by omega) hem hb (by simpa [slots] using hs) he hd
        | set d n bits => exact ih fl len m j b em e hl (by omega) hem hb (by simpa [slots] using hs) he hd
        | rst d n v => exact ih fl len m j b em e hl (by omega) hem hb (by simpa [slots] using hs) he hd
        | read n ib bits => exact ih fl len m j b em e hl (by omega) hem hb (by simpa [slots] using hs) he hd

/-- after the AFTER-phase notification of a time step every recorded statement lies behind phase 0 of the next interval,
    which is where the overrides postponed from the DURING phase go -/
theorem slots_gt_after_edge : ∀ (evs : List TEv) (fl len m j : Nat) (b : Nat × Nat) (now : Rat) (e : TEv), m < j →
    evs[m]? = some (.newPhase true now) → (slots fl len evs)[j]? = some (some b) → evs[j]? = some e → e.during = false →
    keyLt (fl + 1, 0) b := by
  intro evs
  induction evs with
  | nil => intro fl len m j b now e _ h; simp at h
  | cons e0 evs ih =>
    intro fl len m j b now e hmj hem hs he hd
    cases j with
    | zero => omega
    | succ j =>
      simp only [List.getElem?_cons_succ] at he
      cases m with
      | zero =>
        simp only [List.getElem?_cons_zero, Option.some.injEq] at hem
        subst hem
        have := slots_ge evs (fl + 1) 2 j b e (by simpa [slots] using hs) he hd
        unfold keyLt at *; simp at *; omega
      | succ m =>
        simp only [List.getElem?_cons_succ] at hem
        cases e0 with
        | powerOn => exact ih fl (len + 1) m j b now e (by omega) hem (by simpa [slots] using hs) he hd
        | microTick => exact ih fl (len + 1) m j b now e (by omega) hem (by simpa [slots] using hs) he hd
        | finish t =>
          have := ih (fl + 1) 1 m j b now e (by omega) hem (by simpa [slots] using hs) he hd
          unfold keyLt at *; simp at *; omega
        | newPhase after t =>
          cases after with
          | true =>
            have := ih (fl + 1) 2 m j b now e (by omega) hem (by simpa [slots] using hs) he hd
            unfold keyLt at *; simp at *; omega
          | false => exact ih fl len m j b now e (by omega) hem (by simpa [slots] using hs) he hd
        | set d n bits => exact ih fl len m j b now e (by omega) hem (by simpa [slots] using hs) he hd
        | rst d n v => exact ih fl len m j b now e (by omega) hem (by simpa [slots] using hs) he hd
        | read n ib bits => exact ih fl len m j b now e (by omega) hem (by simpa [slots] using hs) he hd

/-- recording order ⇒ group order, generic in the counters -/
theorem slots_order : ∀ (evs : List TEv) (fl len i m j : Nat) (a b : Nat × Nat) (ei em ej : TEv), 1 ≤ len → i < m → m < j →
    (slots fl len evs)[i]? = some (some a) → evs[i]? = some ei →
    evs[m]? = some em → (if ei.during then ∃ now, em = .newPhase true now else em.boundary = true) →
    (slots fl len evs)[j]? = some (some b) → evs[j]? = some ej → ej.during = false →
    keyLt a b := by
  intro evs
  induction evs with
  | nil => intro fl len i m j a b ei em ej _ _ _ h; simp [slots] at h
  | cons e0 evs ih =>
    intro fl len i m j a b ei em ej hl him hmj hsa hei hem hcond hsb hej hd
    cases m with
    | zero => omega
    | succ m =>
      cases j with
      | zero => omega
      | succ j =>
        simp only [List.getElem?_cons_succ] at hem hej
        cases i with
        | zero =>
          simp only [List.getElem?_cons_zero, Option.some.injEq] at hei
          subst hei
          cases e0 with
          | powerOn => simp [slots] at hsa
          | microTick => simp [slots] at hsa
          | finish t => simp [slots] at hsa
          | newPhase after t => simp [slots] at hsa
          | read n ib bits =>
            simp only [slots, List.getElem?_cons_zero, Option.some.injEq] at hsa
            simp only [TEv.during, Bool.false_eq_true, if_false] at hcond
            subst hsa
            exact slots_gt_after_boundary evs fl len m j b em ej hl (by omega) hem hcond (by simpa [slots] using hsb) hej hd
          | set d n bits =>
            simp only [slots, List.getElem?_cons_zero, Option.some.injEq] at hsa
            cases d with
            | false =>
              simp only [TEv.during, Bool.false_eq_true, if_false] at hcond hsa
              subst hsa
              exact slots_gt_after_boundary evs fl len m j b em ej hl (by omega) hem hcond (by simpa [slots] using hsb) hej hd
            | true =>
              simp only [TEv.during, if_true] at hcond hsa
              obtain ⟨now, rfl⟩ := hcond
              subst hsa
              exact slots_gt_after_edge evs fl len m j b now ej (by omega) hem (by simpa [slots] using hsb) hej hd
          | rst d n v =>
            simp only [slots, List.getElem?_cons_zero, Option.some.injEq] at hsa
            cases d with
            | false =>
              simp only [TEv.during, Bool.false_eq_true, if_false] at hcond hsa
              subst hsa
              exact slots_gt_after_boundary evs fl len m j b em ej hl (by omega) hem hcond (by simpa [slots] using hsb) hej hd
            | true =>
              simp only [TEv.during, if_true] at hcond hsa
              obtain ⟨now, rfl⟩ := hcond
              subst hsa
              exact slots_gt_after_edge evs fl len m j b now ej (by omega) hem (by simpa [slots] using hsb) hej hd
        | succ i =>
          simp only [List.getElem?_cons_succ] at hei
          cases e0 with
          | powerOn => exact ih fl (len + 1) i m j a b ei em ej (by omega) (by omega) (by omega) (by simpa [slots] using hsa) hei hem hcond (by simpa [slots] using hsb) hej hd
          | microTick => exact ih fl (len + 1) i m j a b ei em ej (by omega) (by omega) (by omega) (by simpa [slots] using hsa) hei hem hcond (by simpa [slots] using hsb) hej hd
          | finish t => exact ih (fl + 1) 1 i m j a b ei em ej (by omega) (by omega) (by omega) (by simpa [slots] using hsa) hei hem hcond (by simpa [slots] using hsb) hej hd
          | newPhase after t =>
            cases after with
            | true => exact ih (fl + 1) 2 i m j a b ei em ej (by omega) (by omega) (by omega) (by simpa [slots] using hsa) hei hem hcond (by simpa [slots] using hsb) hej hd
            | false => exact ih fl len i m j a b ei em ej hl (by omega) (by omega) (by simpa [slots] using hsa) hei hem hcond (by simpa [slots] using hsb) hej hd
          | set d n bits => exact ih fl len i m j a b ei em ej hl (by omega) (by omega) (by simpa [slots] using hsa) hei hem hcond (by simpa [slots] using hsb) hej hd
          | rst d n v => exact ih fl len i m j a b ei em ej hl (by omega) (by omega) (by simpa [slots] using hsa) hei hem hcond (by simpa [slots] using hsb) hej hd
          | read n ib bits => exact ih fl len i m j a b ei em ej hl (by omega) (by omega) (by simpa [slots] using hsa) hei hem hcond (by simpa [slots] using hsb) hej hd

end Gatery.C20.TV
