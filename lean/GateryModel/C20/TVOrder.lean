import GateryModel.C20.TVLemmas
/-! Lemmas about the test-vector recorder model: grouping and order. -/
namespace Gatery.C20.TV
open Gatery.C20

def Group.key (g : Group) : Nat × Nat := (g.interval, g.phase)

/-- lexicographic order on (interval, phase) -/
def keyLt (a b : Nat × Nat) : Prop := a.1 < b.1 ∨ (a.1 = b.1 ∧ a.2 < b.2)

instance (a b : Nat × Nat) : Decidable (keyLt a b) := by unfold keyLt; infer_instance

def Group.items (g : Group) : List Tagged := g.checks ++ g.sets ++ g.rsts
def Phase.items (p : Phase) : List Tagged := p.asserts ++ p.sets ++ p.rsts

/-! ### what `flushGo` produces -/

theorem flushGo_groups (start stop interval : Rat) (fl : Nat) : ∀ (phases : List Phase) (k : Nat) (w : Rat),
    ∀ g ∈ (flushGo start stop interval fl k w phases).1,
      g.interval = fl ∧ k ≤ g.phase ∧ g.phase < k + phases.length ∧ g.start = start ∧ g.stop = stop ∧
      g.target = start + interval * ((1 + g.phase : Nat) : Rat) ∧
      (∃ p, phases[g.phase - k]? = some p ∧ g.checks = p.asserts ∧ g.sets = p.sets ∧ g.rsts = p.rsts) := by
  intro phases
  induction phases with
  | nil => intro k w g hg; simp [flushGo] at hg
  | cons p ps ih =>
    intro k w g hg
    unfold flushGo at hg
    split at hg
    · obtain ⟨h1, h2, h3, h4, h5, h6, q, hq, h7⟩ := ih (k + 1) w g hg
      refine ⟨h1, by omega, by simp; omega, h4, h5, h6, q, ?_, h7⟩
      have : g.phase - k = (g.phase - (k + 1)) + 1 := by omega
      rw [this]; simpa using hq
    · simp only [List.mem_cons] at hg
      rcases hg with rfl | hg
      · exact ⟨rfl, Nat.le_refl _, by simp, rfl, rfl, rfl, p, by simp, rfl, rfl, rfl⟩
      · obtain ⟨h1, h2, h3, h4, h5, h6, q, hq, h7⟩ := ih (k + 1) _ g hg
        refine ⟨h1, by omega, by simp; omega, h4, h5, h6, q, ?_, h7⟩
        have : g.phase - k = (g.phase - (k + 1)) + 1 := by omega
        rw [this]; simpa using hq

theorem flushGo_sorted (start stop interval : Rat) (fl : Nat) : ∀ (phases : List Phase) (k : Nat) (w : Rat),
    (flushGo start stop interval fl k w phases).1.Pairwise (fun a b => keyLt a.key b.key) := by
  intro phases
  induction phases with
  | nil => intro k w; simp [flushGo]
  | cons p ps ih =>
    intro k w
    unfold flushGo
    split
    · exact ih (k + 1) w
    · simp only [List.pairwise_cons]
      refine ⟨?_, ih (k + 1) _⟩
      intro g hg
      obtain ⟨h1, h2, _⟩ := flushGo_groups start stop interval fl ps (k + 1) _ g hg
      exact Or.inr ⟨h1.symm, by simp [Group.key]; omega⟩

/-! ### order of the groups of a run -/

theorem flush_groups (st : St) (stop : Rat) : ∀ g ∈ (flush st stop).1,
    g.interval = st.flushes ∧ g.phase < st.phases.length ∧ g.start = st.flushStart ∧ g.stop = stop ∧
    g.target = st.flushStart + (stop - st.flushStart) / ((2 + st.phases.length : Nat) : Rat) * ((1 + g.phase : Nat) : Rat) ∧
    (∃ p, st.phases[g.phase]? = some p ∧ g.checks = p.asserts ∧ g.sets = p.sets ∧ g.rsts = p.rsts) := by
  intro g hg
  obtain ⟨h1, _, h3, h4, h5, h6, h7⟩ := flushGo_groups _ _ _ _ st.phases 0 st.written g hg
  exact ⟨h1, by omega, h4, h5, h6, by simpa using h7⟩

theorem step_flushes (j : Nat) (st : St) (e : TEv) : st.flushes ≤ (step j st e).2.flushes ∧
    (∀ g ∈ (step j st e).1, g.interval = st.flushes ∧ (step j st e).2.flushes = st.flushes + 1) := by
  cases e with
  | powerOn => simp [step]
  | microTick => simp [step]
  | set during name bits => simp only [step]; split <;> simp
  | rst during name v => simp only [step]; split <;> simp
  | read name isBool bits => simp only [step]; split <;> simp
  | finish now =>
    simp only [step]
    exact ⟨by simp [flush], fun g hg => ⟨(flush_groups st _ g hg).1, by simp [flush]⟩⟩
  | newPhase ph now =>
    cases ph with
    | before => simp [step]
    | during => simp [step]
    | after =>
      simp only [step]
      by_cases hp : st.pending = true
      · simp [hp]
      · simp only [hp]; exact ⟨by simp [flush], fun g hg => ⟨(flush_groups st now g hg).1, by simp [flush]⟩⟩

theorem run_interval_ge : ∀ (evs : List TEv) (j : Nat) (st : St), ∀ g ∈ run j st evs, st.flushes ≤ g.interval := by
  intro evs
  induction evs with
  | nil => intro j st g hg; simp [run] at hg
  | cons e evs ih =>
    intro j st g hg
    simp only [run, List.mem_append] at hg
    have hs := step_flushes j st e
    rcases hg with hg | hg
    · exact Nat.le_of_eq (hs.2 g hg).1.symm
    · exact Nat.le_trans hs.1 (ih _ _ g hg)

theorem step_sorted (j : Nat) (st : St) (e : TEv) : (step j st e).1.Pairwise (fun a b => keyLt a.key b.key) := by
  cases e with
  | powerOn => simp [step]
  | microTick => simp [step]
  | set during name bits => simp only [step]; split <;> simp
  | rst during name v => simp only [step]; split <;> simp
  | read name isBool bits => simp only [step]; split <;> simp
  | finish now => simp only [step]; exact flushGo_sorted _ _ _ _ _ _ _
  | newPhase ph now =>
    cases ph with
    | before => simp [step]
    | during => simp [step]
    | after =>
      simp only [step]
      by_cases hp : st.pending = true
      · simp [hp]
      · simp only [hp]; exact flushGo_sorted _ _ _ _ _ _ _

/-- the groups are written in strictly increasing (interval, phase) order -/
theorem run_sorted : ∀ (evs : List TEv) (j : Nat) (st : St), (run j st evs).Pairwise (fun a b => keyLt a.key b.key) := by
  intro evs
  induction evs with
  | nil => intro j st; simp [run]
  | cons e evs ih =>
    intro j st
    simp only [run]
    rw [List.pairwise_append]
    refine ⟨step_sorted j st e, ih _ _, ?_⟩
    intro a ha b hb
    have hs := step_flushes j st e
    have h1 := hs.2 a ha
    have h2 := run_interval_ge evs (j + 1) _ b hb
    exact Or.inl (by simp only [Group.key]; omega)

theorem sorted_sublist {α : Type} (r : α → α → Prop) (hirr : ∀ a, ¬ r a a) (hasym : ∀ a b, r a b → ¬ r b a) :
    ∀ (l : List α), l.Pairwise r → ∀ a b, a ∈ l → b ∈ l → r a b → [a, b].Sublist l := by
  intro l
  induction l with
  | nil => intro _ a b ha; simp at ha
  | cons x l ih =>
    intro hp a b ha hb hab
    simp only [List.pairwise_cons] at hp
    rcases List.mem_cons.1 ha with hax | ha
    · rcases List.mem_cons.1 hb with hbx | hb
      · rw [hax, hbx] at hab; exact absurd hab (hirr _)
      · rw [hax]; exact List.Sublist.cons_cons _ (List.singleton_sublist.2 hb)
    · rcases List.mem_cons.1 hb with hbx | hb
      · rw [hbx] at hab; exact absurd (hp.1 a ha) (hasym _ _ hab)
      · exact List.Sublist.cons _ (ih hp.2 a b ha hb hab)

theorem keyLt_irrefl (a : Nat × Nat) : ¬ keyLt a a := by unfold keyLt; omega
theorem keyLt_asymm (a b : Nat × Nat) (h : keyLt a b) : ¬ keyLt b a := by unfold keyLt at *; omega

/-! ### where in its flush interval a group is scheduled -/

theorem target_bracket (start stop : Rat) (len phase : Nat) (hp : phase < len) (h : start ≤ stop) :
    start ≤ start + (stop - start) / ((2 + len : Nat) : Rat) * ((1 + phase : Nat) : Rat) ∧
    start + (stop - start) / ((2 + len : Nat) : Rat) * ((1 + phase : Nat) : Rat) ≤ stop ∧
    (start < stop → start < start + (stop - start) / ((2 + len : Nat) : Rat) * ((1 + phase : Nat) : Rat) ∧
       start + (stop - start) / ((2 + len : Nat) : Rat) * ((1 + phase : Nat) : Rat) < stop) := by
  have hD : 0 ≤ stop - start := by grind
  have hd := interval_nonneg (stop - start) len hD
  have hmul := interval_mul (stop - start) len
  generalize (stop - start) / ((2 + len : Nat) : Rat) = d at hd hmul
  have hc1 : (0 : Rat) < ((1 + phase : Nat) : Rat) := Rat.natCast_pos.2 (by omega)
  have hlt : ((1 + phase : Nat) : Rat) < ((2 + len : Nat) : Rat) := by
    have : ((1 + phase : Nat) : Int) < ((2 + len : Nat) : Int) := by omega
    have := Rat.intCast_lt_intCast.2 this
    simpa [Rat.intCast_natCast] using this
  have h0 : 0 ≤ d * ((1 + phase : Nat) : Rat) := Rat.mul_nonneg hd (Rat.le_of_lt hc1)
  have h1 : d * ((1 + phase : Nat) : Rat) ≤ d * ((2 + len : Nat) : Rat) := Rat.mul_le_mul_of_nonneg_left (Rat.le_of_lt hlt) hd
  refine ⟨by grind, by grind, ?_⟩
  intro hs
  have hdpos : 0 < d := by
    by_cases h : d = 0
    · exfalso; rw [h] at hmul; simp at hmul; grind
    · grind
  have h2 : 0 < d * ((1 + phase : Nat) : Rat) := Rat.mul_pos hdpos hc1
  have h3 : d * ((1 + phase : Nat) : Rat) < d * ((2 + len : Nat) : Rat) := Rat.mul_lt_mul_of_pos_left hlt hdpos
  exact ⟨by grind, by grind⟩

/-- every group lies in the flush interval that wrote it; strictly inside if the interval is not empty -/
theorem run_bracket : ∀ (evs : List TEv) (j : Nat) (st : St) (W : Nat) (lo : Rat), TimeInv st W lo → Mono lo evs →
    ∀ g ∈ run j st evs, g.start ≤ g.target ∧ g.target ≤ g.stop ∧ (g.start < g.stop → g.start < g.target ∧ g.target < g.stop) := by
  intro evs
  induction evs with
  | nil => intro j st W lo _ _ g hg; simp [run] at hg
  | cons e evs ih =>
    intro j st W lo hinv hm g hg
    simp only [run, List.mem_append] at hg
    have hflush : ∀ now, lo ≤ now → ∀ g ∈ (flush st now).1,
        g.start ≤ g.target ∧ g.target ≤ g.stop ∧ (g.start < g.stop → g.start < g.target ∧ g.target < g.stop) := by
      intro now hnow g hg
      obtain ⟨_, h2, h3, h4, h5, _⟩ := flush_groups st now g hg
      rw [h3, h4, h5]
      exact target_bracket _ _ _ _ h2 (Rat.le_trans hinv.start_le hnow)
    cases e with
    | powerOn => exact absurd hm (by simp [Mono])
    | microTick =>
      rcases hg with hg | hg
      · simp [step] at hg
      · (refine ih _ _ W lo ?_ hm g hg; exact ⟨hinv.written, hinv.le_start, hinv.start_le⟩)
    | set during name bits =>
      simp only [Mono] at hm
      rcases hg with hg | hg
      · simp only [step] at hg; split at hg <;> simp at hg
      · simp only [step] at hg
        split at hg <;> (refine ih _ _ W lo ?_ hm g hg; exact ⟨hinv.written, hinv.le_start, hinv.start_le⟩)
    | rst during name v =>
      simp only [Mono] at hm
      rcases hg with hg | hg
      · simp only [step] at hg; split at hg <;> simp at hg
      · simp only [step] at hg
        split at hg <;> (refine ih _ _ W lo ?_ hm g hg; exact ⟨hinv.written, hinv.le_start, hinv.start_le⟩)
    | read name isBool bits =>
      simp only [Mono] at hm
      rcases hg with hg | hg
      · simp only [step] at hg; split at hg <;> simp at hg
      · simp only [step] at hg
        split at hg <;> (refine ih _ _ W lo ?_ hm g hg; exact ⟨hinv.written, hinv.le_start, hinv.start_le⟩)
    | finish now =>
      simp only [Mono] at hm
      simp only [step] at hg
      obtain ⟨hlo, rfl⟩ := hm
      rcases hg with hg | hg
      · exact hflush _ (Rat.le_trans hlo (le_finishStop st now)) g hg
      · simp [run] at hg
    | newPhase ph now =>
      simp only [Mono] at hm
      cases ph with
      | before =>
        rcases hg with hg | hg
        · simp [step] at hg
        · (refine ih _ _ W now ?_ hm.2 g hg; exact ⟨hinv.written, hinv.le_start, Rat.le_trans hinv.start_le hm.1⟩)
      | during =>
        rcases hg with hg | hg
        · simp [step] at hg
        · (refine ih _ _ W now ?_ hm.2 g hg; exact ⟨hinv.written, hinv.le_start, Rat.le_trans hinv.start_le hm.1⟩)
      | after =>
        simp only [step] at hg
        by_cases hp : st.pending = true
        · simp only [hp, if_true] at hg
          rcases hg with hg | hg
          · simp at hg
          · (refine ih _ _ W now ?_ hm.2 g hg; exact ⟨hinv.written, hinv.le_start, Rat.le_trans hinv.start_le hm.1⟩)
        · simp only [hp] at hg
          rcases hg with hg | hg
          · exact hflush now hm.1 g hg
          · have h2 := (flush_drift st W lo now hinv hm.1).2
            (refine ih _ _ (W + advSum (flush st now).1) now ?_ hm.2 g hg; exact ⟨h2.written, h2.le_start, h2.start_le⟩)

end Gatery.C20.TV
