import GateryModel.C20.TVOrder
/-! Lemmas about the test-vector recorder model: every written statement sits in the group of the (interval, phase) its
    callback belongs to, and is the statement that callback produces. -/
namespace Gatery.C20.TV
open Gatery.C20

/-- the statement a callback with index `j` produces (if any) -/
def produced (j : Nat) : TEv → Option Tagged
  | .set _ name bits => some ⟨j, name, renderSet bits⟩
  | .rst _ name v => some ⟨j, name, [if v then '1' else '0']⟩
  | .read name isBool bits => (renderCheck isBool bits).map fun v => ⟨j, name, v⟩
  | _ => none

/-- nothing is recorded after the final flush of the destructor -/
def FinishLast : List TEv → Prop
  | [] => True
  | .finish _ :: r => r = []
  | _ :: r => FinishLast r

theorem mem_mapSet {x y : Tagged} : ∀ {l : List Tagged}, y ∈ mapSet x l → y = x ∨ y ∈ l := by
  intro l
  induction l with
  | nil => intro h; simp [mapSet] at h; exact Or.inl h
  | cons h t ih =>
    intro hy
    unfold mapSet at hy
    split at hy
    · rcases List.mem_cons.1 hy with rfl | hy
      · exact Or.inl rfl
      · exact Or.inr hy
    · split at hy
      · rcases List.mem_cons.1 hy with rfl | hy
        · exact Or.inl rfl
        · exact Or.inr (by simp [hy])
      · rcases List.mem_cons.1 hy with rfl | hy
        · exact Or.inr (by simp)
        · rcases ih hy with rfl | hy
          · exact Or.inl rfl
          · exact Or.inr (by simp [hy])

section
variable (P : Nat × Nat → Tagged → Prop)

def PhasesOk (fl : Nat) : Nat → List Phase → Prop
  | _, [] => True
  | k, p :: ps => (∀ x ∈ p.items, P (fl, k) x) ∧ PhasesOk fl (k + 1) ps

theorem phasesOk_append_empty (fl : Nat) : ∀ (ps : List Phase) (k : Nat), PhasesOk P fl k ps → PhasesOk P fl k (ps ++ [({} : Phase)]) := by
  intro ps
  induction ps with
  | nil => intro k _; simp [PhasesOk, Phase.items]
  | cons p ps ih => intro k h; exact ⟨h.1, ih (k + 1) h.2⟩

theorem modifyLast_length (f : Phase → Phase) : ∀ (ps : List Phase), (modifyLast f ps).length = ps.length := by
  intro ps
  induction ps with
  | nil => rfl
  | cons p ps ih => cases ps <;> simp_all [modifyLast]

theorem phasesOk_get (fl : Nat) : ∀ (ps : List Phase) (k i : Nat) (p : Phase), PhasesOk P fl k ps → ps[i]? = some p →
    ∀ x ∈ p.items, P (fl, k + i) x := by
  intro ps
  induction ps with
  | nil => intro k i p _ h; simp at h
  | cons q ps ih =>
    intro k i p h hp
    cases i with
    | zero => simp at hp; subst hp; simpa using h.1
    | succ i =>
      have := ih (k + 1) i p h.2 (by simpa using hp)
      intro x hx
      have := this x hx
      rwa [show k + 1 + i = k + (i + 1) by omega] at this

theorem phasesOk_modifyLast (fl : Nat) (f : Phase → Phase) (x : Tagged) (hf : ∀ p, ∀ y ∈ (f p).items, y = x ∨ y ∈ p.items) :
    ∀ (ps : List Phase) (k : Nat), PhasesOk P fl k ps → P (fl, k + ps.length - 1) x → PhasesOk P fl k (modifyLast f ps) := by
  intro ps
  induction ps with
  | nil => intro k _ _; simp [modifyLast, PhasesOk]
  | cons p ps ih =>
    intro k h hx
    cases ps with
    | nil =>
      simp only [modifyLast, PhasesOk, and_true]
      intro y hy
      rcases hf p y hy with rfl | hy
      · simpa using hx
      · exact h.1 y hy
    | cons q ps =>
      simp only [modifyLast]
      refine ⟨h.1, ih (k + 1) h.2 ?_⟩
      have : k + 1 + (q :: ps).length - 1 = k + (p :: q :: ps).length - 1 := by simp; omega
      rw [this]; exact hx

/-- whatever a callback of the remaining list produces satisfies `P` at its slot -/
def Compat (j : Nat) (st : St) (evs : List TEv) : Prop :=
  ∀ i e x slot, evs[i]? = some e → produced (j + i) e = some x → (slots j st evs)[i]? = some (some slot) → P slot x

theorem compat_tail {j : Nat} {st : St} {e : TEv} {r : List TEv} (h : Compat P j st (e :: r)) :
    Compat P (j + 1) (step j st e).2 r := by
  intro i e' x slot he hp hsl
  apply h (i + 1) e' x slot
  · simpa using he
  · rwa [show j + (i + 1) = j + 1 + i by omega]
  · simpa [slots] using hsl

/-- the overrides waiting in `m_postDuringPhase` satisfy `P` at the slot they will get -/
def PostOk (j : Nat) (st : St) (evs : List TEv) : Prop :=
  ∀ x ∈ st.post.items, ∀ slot, afterSlot j st evs = some slot → P slot x

theorem run_items : ∀ (evs : List TEv) (j : Nat) (st : St), FinishLast evs →
    PhasesOk P st.flushes 0 st.phases → PostOk P j st evs → Compat P j st evs →
    ∀ g ∈ run j st evs, ∀ x ∈ g.items, P (g.interval, g.phase) x := by
  intro evs
  induction evs with
  | nil => intro j st _ _ _ _ g hg; simp [run] at hg
  | cons e evs ih =>
    intro j st hfin hph hpost hc g hg
    simp only [run, List.mem_append] at hg
    have hct := compat_tail P hc
    have hflush : ∀ now, ∀ g ∈ (flush st now).1, ∀ x ∈ g.items, P (g.interval, g.phase) x := by
      intro now g hg x hx
      obtain ⟨h1, _, _, _, _, p, hp, hc1, hc2, hc3⟩ := flush_groups st now g hg
      have := phasesOk_get P st.flushes st.phases 0 g.phase p hph hp x (by simpa [Group.items, Phase.items, hc1, hc2, hc3] using hx)
      rw [h1]; simpa using this
    cases e with
    | powerOn =>
      rcases hg with hg | hg
      · simp [step] at hg
      · refine ih (j + 1) (step j st .powerOn).2 (by simpa [FinishLast] using hfin) ?_ ?_ hct g hg
        · exact phasesOk_append_empty P _ _ _ hph
        · intro x hx slot hs; exact hpost x (by simpa [step] using hx) slot (by simpa [afterSlot] using hs)
    | microTick =>
      rcases hg with hg | hg
      · simp [step] at hg
      · refine ih (j + 1) (step j st .microTick).2 (by simpa [FinishLast] using hfin) ?_ ?_ hct g hg
        · exact phasesOk_append_empty P _ _ _ hph
        · intro x hx slot hs; exact hpost x (by simpa [step] using hx) slot (by simpa [afterSlot] using hs)
    | finish now =>
      simp only [FinishLast] at hfin
      subst hfin
      rcases hg with hg | hg
      · exact hflush _ g hg
      · simp [run] at hg
    | newPhase ph now =>
      cases ph with
      | before =>
        rcases hg with hg | hg
        · simp [step] at hg
        · refine ih (j + 1) (step j st (.newPhase .before now)).2 (by simpa [FinishLast] using hfin) ?_ ?_ hct g hg
          · simpa [step] using hph
          · intro x hx slot hs; exact hpost x (by simpa [step] using hx) slot (by simpa [afterSlot] using hs)
      | during =>
        rcases hg with hg | hg
        · simp [step] at hg
        · refine ih (j + 1) (step j st (.newPhase .during now)).2 (by simpa [FinishLast] using hfin) ?_ ?_ hct g hg
          · simpa [step] using hph
          · intro x hx slot hs; exact hpost x (by simpa [step] using hx) slot (by simpa [afterSlot] using hs)
      | after =>
        have hp0 : ∀ x ∈ st.post.items, P (postSlot st) x := fun x hx => hpost x hx _ (by simp [afterSlot])
        by_cases hp : st.pending = true
        · rcases hg with hg | hg
          · simp [step, hp] at hg
          · refine ih (j + 1) (step j st (.newPhase .after now)).2 (by simpa [FinishLast] using hfin) ?_ ?_ hct g hg
            · simp only [step, hp, if_true]
              have h1 := phasesOk_append_empty P st.flushes st.phases 0 hph
              -- phases ++ [post, {}] : the postponed overrides take the slot of the phase pushed by the (skipped) flush
              have : ∀ (ps : List Phase) (k : Nat), PhasesOk P st.flushes k ps →
                  (∀ x ∈ st.post.items, P (st.flushes, k + ps.length) x) → PhasesOk P st.flushes k (ps ++ [st.post, {}]) := by
                intro ps
                induction ps with
                | nil => intro k _ h; simpa [PhasesOk, Phase.items] using h
                | cons q ps ih2 =>
                  intro k h hx
                  refine ⟨h.1, ih2 (k + 1) h.2 ?_⟩
                  intro x hx'; have := hx x hx'
                  rwa [show k + 1 + ps.length = k + (q :: ps).length by simp; omega]
              apply this _ _ hph
              intro x hx; have := hp0 x hx
              simpa [postSlot, hp] using this
            · intro x hx; simp [step, hp, Phase.items] at hx
        · rcases hg with hg | hg
          · exact hflush now g (by simpa [step, hp] using hg)
          · refine ih (j + 1) (step j st (.newPhase .after now)).2 (by simpa [FinishLast] using hfin) ?_ ?_ hct g hg
            · have hp' : st.pending = false := by simpa using hp
              simp only [step, hp', flush]
              refine ⟨fun x hx => ?_, by simp [PhasesOk, Phase.items]⟩
              have := hp0 x hx
              simpa [postSlot, hp'] using this
            · intro x hx; simp [step, hp, Phase.items] at hx
    | set during name bits =>
      have hx0 : ∀ slot, (slots j st (TEv.set during name bits :: evs))[0]? = some (some slot) →
          P slot ⟨j, name, renderSet bits⟩ := fun slot hs => hc 0 (TEv.set during name bits) ⟨j, name, renderSet bits⟩ slot (by simp) (by simp [produced]) hs
      rcases hg with hg | hg
      · simp only [step] at hg; split at hg <;> simp at hg
      · cases during with
        | true =>
          refine ih (j + 1) (step j st (.set true name bits)).2 (by simpa [FinishLast] using hfin) ?_ ?_ hct g hg
          · simpa [step] using hph
          · intro x hx slot hs
            have hs' : afterSlot j st (TEv.set true name bits :: evs) = some slot := by simpa [afterSlot] using hs
            simp only [step, if_true, Phase.items, List.mem_append] at hx
            rcases hx with (hx | hx) | hx
            · exact hpost x (by simp [Phase.items, hx]) slot hs'
            · rcases mem_mapSet hx with rfl | hx
              · exact hx0 slot (by simp [slots, hs'])
              · exact hpost x (by simp [Phase.items, hx]) slot hs'
            · exact hpost x (by simp [Phase.items, hx]) slot hs'
        | false =>
          refine ih (j + 1) (step j st (.set false name bits)).2 (by simpa [FinishLast] using hfin) ?_ ?_ hct g hg
          · simp only [step, Bool.false_eq_true, if_false]
            apply phasesOk_modifyLast P _ _ ⟨j, name, renderSet bits⟩ _ _ _ hph
            · have := hx0 (st.flushes, st.phases.length - 1) (by simp [slots])
              simpa using this
            · intro p y hy
              simp only [Phase.items, List.mem_append] at hy ⊢
              rcases hy with (hy | hy) | hy
              · exact Or.inr (Or.inl (Or.inl hy))
              · rcases mem_mapSet hy with rfl | hy
                · exact Or.inl rfl
                · exact Or.inr (Or.inl (Or.inr hy))
              · exact Or.inr (Or.inr hy)
          · intro x hx slot hs; exact hpost x (by simpa [step] using hx) slot (by simpa [afterSlot] using hs)
    | rst during name v =>
      have hx0 : ∀ slot, (slots j st (TEv.rst during name v :: evs))[0]? = some (some slot) →
          P slot ⟨j, name, [if v then '1' else '0']⟩ := fun slot hs => hc 0 (TEv.rst during name v) ⟨j, name, [if v then '1' else '0']⟩ slot (by simp) (by simp [produced]) hs
      rcases hg with hg | hg
      · simp only [step] at hg; split at hg <;> simp at hg
      · cases during with
        | true =>
          refine ih (j + 1) (step j st (.rst true name v)).2 (by simpa [FinishLast] using hfin) ?_ ?_ hct g hg
          · simpa [step] using hph
          · intro x hx slot hs
            have hs' : afterSlot j st (TEv.rst true name v :: evs) = some slot := by simpa [afterSlot] using hs
            simp only [step, if_true, Phase.items, List.mem_append] at hx
            rcases hx with (hx | hx) | hx
            · exact hpost x (by simp [Phase.items, hx]) slot hs'
            · exact hpost x (by simp [Phase.items, hx]) slot hs'
            · rcases mem_mapSet hx with rfl | hx
              · exact hx0 slot (by simp [slots, hs'])
              · exact hpost x (by simp [Phase.items, hx]) slot hs'
        | false =>
          refine ih (j + 1) (step j st (.rst false name v)).2 (by simpa [FinishLast] using hfin) ?_ ?_ hct g hg
          · simp only [step, Bool.false_eq_true, if_false]
            apply phasesOk_modifyLast P _ _ ⟨j, name, [if v then '1' else '0']⟩ _ _ _ hph
            · have := hx0 (st.flushes, st.phases.length - 1) (by simp [slots])
              simpa using this
            · intro p y hy
              simp only [Phase.items, List.mem_append] at hy ⊢
              rcases hy with (hy | hy) | hy
              · exact Or.inr (Or.inl (Or.inl hy))
              · exact Or.inr (Or.inl (Or.inr hy))
              · rcases mem_mapSet hy with rfl | hy
                · exact Or.inl rfl
                · exact Or.inr (Or.inr hy)
          · intro x hx slot hs; exact hpost x (by simpa [step] using hx) slot (by simpa [afterSlot] using hs)
    | read name isBool bits =>
      rcases hg with hg | hg
      · simp only [step] at hg; split at hg <;> simp at hg
      · cases hr : renderCheck isBool bits with
        | none =>
          refine ih (j + 1) (step j st (.read name isBool bits)).2 (by simpa [FinishLast] using hfin) ?_ ?_ hct g hg
          · simpa [step, hr] using hph
          · intro x hx slot hs; exact hpost x (by simpa [step, hr] using hx) slot (by simpa [afterSlot] using hs)
        | some v =>
          have hx0 : P (st.flushes, st.phases.length - 1) ⟨j, name, v⟩ :=
            hc 0 (TEv.read name isBool bits) ⟨j, name, v⟩ _ (by simp) (by simp [produced, hr]) (by simp [slots])
          refine ih (j + 1) (step j st (.read name isBool bits)).2 (by simpa [FinishLast] using hfin) ?_ ?_ hct g hg
          · simp only [step, hr]
            apply phasesOk_modifyLast P _ _ ⟨j, name, v⟩ _ _ _ hph
            · simpa using hx0
            · intro p y hy
              simp only [Phase.items, List.mem_append, List.mem_singleton] at hy ⊢
              rcases hy with ((hy | hy) | hy) | hy
              · exact Or.inr (Or.inl (Or.inl hy))
              · exact Or.inl hy
              · exact Or.inr (Or.inl (Or.inr hy))
              · exact Or.inr (Or.inr hy)
          · intro x hx slot hs; exact hpost x (by simpa [step, hr] using hx) slot (by simpa [afterSlot] using hs)
end

/-- statement `x` was produced by callback number `x.tag` of `evs`, and that callback belongs to `slot` -/
def Recorded (evs : List TEv) (slot : Nat × Nat) (x : Tagged) : Prop :=
  (slots 0 {} evs)[x.tag]? = some (some slot) ∧ (evs[x.tag]?).bind (produced x.tag) = some x

theorem produced_tag {j : Nat} {e : TEv} {x : Tagged} (h : produced j e = some x) : x.tag = j := by
  cases e <;> simp [produced] at h
  · rw [← h]
  · rw [← h]
  · obtain ⟨v, _, rfl⟩ := h; rfl

theorem run_recorded (evs : List TEv) (hfin : FinishLast evs) :
    ∀ g ∈ run 0 {} evs, ∀ x ∈ g.items, Recorded evs (g.interval, g.phase) x := by
  apply run_items (Recorded evs) evs 0 {} hfin
  · simp [PhasesOk]
  · intro x hx; simp [Phase.items] at hx
  · intro i e x slot he hp hs
    have ht := produced_tag hp
    simp only [Nat.zero_add] at ht hp
    refine ⟨by rw [ht]; exact hs, ?_⟩
    rw [ht, he]; exact hp

end Gatery.C20.TV
