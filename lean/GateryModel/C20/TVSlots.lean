import GateryModel.C20.TVOrder
/-! Lemmas about the test-vector recorder model: every written statement sits in the group of the (interval, phase) its
    callback belongs to, and is the statement that callback produces. -/
namespace Gatery.C20.TV
open Gatery.C20

/-- the statement a callback with index `j` produces (if any) -/
def produced (j : Nat) : TEv → Option Tagged
  | .set _ name bits => some ⟨j, name, renderState bits⟩
  | .rst _ name v => some ⟨j, name, [if v then '1' else '0']⟩
  | .read name isBool bits => (renderCheck isBool bits).map fun v => ⟨j, name, v⟩
  | _ => none

/-- nothing is recorded after the final flush of the destructor -/
def FinishLast : List TEv → Prop
  | [] => True
  | .finish _ :: r => r = []
  | _ :: r => FinishLast r

theorem mem_mapSet {x y : Tagged} : ∀ {l : List Tagged}, y ∈ mapSet x l → y = x ∨ y ∈ l := by
  intro l
  induction l with
  | nil => intro h; simp [mapSet] at h; exact Or.inl h
  | cons h t ih =>
    intro hy
    unfold mapSet at hy
    split at hy
    · rcases List.mem_cons.1 hy with rfl | hy
      · exact Or.inl rfl
      · exact Or.inr hy
    · split at hy
      · rcases List.mem_cons.1 hy with rfl | hy
        · exact Or.inl rfl
        · exact Or.inr (by simp [hy])
      · rcases List.mem_cons.1 hy with rfl | hy
        · exact Or.inr (by simp)
        · rcases ih hy with rfl | hy
          · exact Or.inl rfl
          · exact Or.inr (by simp [hy])

section
variable (P : Nat × Nat → Tagged → Prop)

def PhasesOk (fl : Nat) : Nat → List Phase → Prop
  | _, [] => True
  | k, p :: ps => (∀ x ∈ p.items, P (fl, k) x) ∧ PhasesOk fl (k + 1) ps

theorem phasesOk_append_empty (fl : Nat) : ∀ (ps : List Phase) (k : Nat), PhasesOk P fl k ps → PhasesOk P fl k (ps ++ [({} : Phase)]) := by
  intro ps
  induction ps with
  | nil => intro k _; simp [PhasesOk, Phase.items]
  | cons p ps ih => intro k h; exact ⟨h.1, ih (k + 1) h.2⟩

theorem modifyLast_length (f : Phase → Phase) : ∀ (ps : List Phase), (modifyLast f ps).length = ps.length := by
  intro ps
  induction ps with
  | nil => rfl
  | cons p ps ih => cases ps <;> simp_all [modifyLast]

theorem phasesOk_get (fl : Nat) : ∀ (ps : List Phase) (k i : Nat) (p : Phase), PhasesOk P fl k ps → ps[i]? = some p →
    ∀ x ∈ p.items, P (fl, k + i) x := by
  intro ps
  induction ps with
  | nil => intro k i p _ h; simp at h
  | cons q ps ih =>
    intro k i p h hp
    cases i with
    | zero => simp at hp; subst hp; simpa using h.1
    | succ i =>
      have := ih (k + 1) i p h.2 (by simpa using hp)
      intro x hx
      have := this x hx
      rwa [show k + 1 + i = k + (i + 1) by omega] at this

theorem phasesOk_modifyLast (fl : Nat) (f : Phase → Phase) (x : Tagged) (hf : ∀ p, ∀ y ∈ (f p).items, y = x ∨ y ∈ p.items) :
    ∀ (ps : List Phase) (k : Nat), PhasesOk P fl k ps → P (fl, k + ps.length - 1) x → PhasesOk P fl k (modifyLast f ps) := by
  intro ps
  induction ps with
  | nil => intro k _ _; simp [modifyLast, PhasesOk]
  | cons p ps ih =>
    intro k h hx
    cases ps with
    | nil =>
      simp only [modifyLast, PhasesOk, and_true]
      intro y hy
      rcases hf p y hy with rfl | hy
      · simpa using hx
      · exact h.1 y hy
    | cons q ps =>
      simp only [modifyLast]
      refine ⟨h.1, ih (k + 1) h.2 ?_⟩
      have : k + 1 + (q :: ps).length - 1 = k + (p :: q :: ps).length - 1 := by simp; omega
      rw [this]; exact hx

/-- whatever a callback of the remaining list produces satisfies `P` at its slot -/
def Compat (j fl len : Nat) (evs : List TEv) : Prop :=
  ∀ i e x slot, evs[i]? = some e → produced (j + i) e = some x → (slots fl len evs)[i]? = some (some slot) → P slot x

theorem compat_tail {j fl len : Nat} {e : TEv} {r : List TEv} {fl' len' : Nat} {o : Option (Nat × Nat)}
    (hs : slots fl len (e :: r) = o :: slots fl' len' r) (h : Compat P j fl len (e :: r)) : Compat P (j + 1) fl' len' r := by
  intro i e' x slot he hp hsl
  apply h (i + 1) e' x slot
  · simpa using he
  · rwa [show j + (i + 1) = j + 1 + i by omega]
  · rw [hs]; simpa using hsl

theorem run_items : ∀ (evs : List TEv) (j : Nat) (st : St), FinishLast evs →
    PhasesOk P st.flushes 0 st.phases → (∀ x ∈ st.post.items, P (st.flushes + 1, 0) x) →
    Compat P j st.flushes st.phases.length evs →
    ∀ g ∈ run j st evs, ∀ x ∈ g.items, P (g.interval, g.phase) x := by
  intro evs
  induction evs with
  | nil => intro j st _ _ _ _ g hg; simp [run] at hg
  | cons e evs ih =>
    intro j st hfin hph hpost hc g hg
    simp only [run, List.mem_append] at hg
    have hflush : ∀ now, ∀ g ∈ (flush st now).1, ∀ x ∈ g.items, P (g.interval, g.phase) x := by
      intro now g hg x hx
      obtain ⟨h1, _, _, _, _, p, hp, hc1, hc2, hc3⟩ := flush_groups st now g hg
      have := phasesOk_get P st.flushes st.phases 0 g.phase p hph hp x (by simpa [Group.items, Phase.items, hc1, hc2, hc3] using hx)
      rw [h1]; simpa using this
    cases e with
    | powerOn =>
      rcases hg with hg | hg
      · simp [step] at hg
      · refine ih (j + 1) (step j st .powerOn).2 (by simpa [FinishLast] using hfin) ?_ ?_ ?_ g hg
        · exact phasesOk_append_empty P _ _ _ hph
        · exact hpost
        · have := compat_tail P (e := .powerOn) (r := evs) (fl' := st.flushes) (len' := st.phases.length + 1) (o := none) (by simp [slots]) hc
          simpa [step] using this
    | microTick =>
      rcases hg with hg | hg
      · simp [step] at hg
      · refine ih (j + 1) (step j st .microTick).2 (by simpa [FinishLast] using hfin) ?_ ?_ ?_ g hg
        · exact phasesOk_append_empty P _ _ _ hph
        · exact hpost
        · have := compat_tail P (e := .microTick) (r := evs) (fl' := st.flushes) (len' := st.phases.length + 1) (o := none) (by simp [slots]) hc
          simpa [step] using this
    | finish now =>
      simp only [FinishLast] at hfin
      subst hfin
      rcases hg with hg | hg
      · exact hflush now g hg
      · simp [run] at hg
    | newPhase after now =>
      cases after with
      | false =>
        rcases hg with hg | hg
        · simp [step] at hg
        · refine ih (j + 1) (step j st (.newPhase false now)).2 (by simpa [FinishLast] using hfin) ?_ ?_ ?_ g hg
          · simpa [step] using hph
          · simpa [step] using hpost
          · have := compat_tail P (e := .newPhase false now) (r := evs) (fl' := st.flushes) (len' := st.phases.length) (o := none) (by simp [slots]) hc
            simpa [step] using this
      | true =>
        rcases hg with hg | hg
        · exact hflush now g (by simpa [step] using hg)
        · refine ih (j + 1) (step j st (.newPhase true now)).2 (by simpa [FinishLast] using hfin) ?_ ?_ ?_ g hg
          · simp only [step, if_true, flush, PhasesOk, and_true]
            exact ⟨fun x hx => hpost x hx, by simp [Phase.items]⟩
          · simp [step, Phase.items]
          · have := compat_tail P (e := .newPhase true now) (r := evs) (fl' := st.flushes + 1) (len' := 2) (o := none) (by simp [slots]) hc
            simpa [step, flush] using this
    | set during name bits =>
      have hx0 : ∀ slot, (slots st.flushes st.phases.length (TEv.set during name bits :: evs))[0]? = some (some slot) →
          P slot ⟨j, name, renderState bits⟩ := fun slot hs => hc 0 (TEv.set during name bits) ⟨j, name, renderState bits⟩ slot (by simp) (by simp [produced]) hs
      have hct := compat_tail P (e := .set during name bits) (r := evs) (fl' := st.flushes) (len' := st.phases.length)
        (o := some (if during then (st.flushes + 1, 0) else (st.flushes, st.phases.length - 1))) (by simp [slots]) hc
      rcases hg with hg | hg
      · simp only [step] at hg; split at hg <;> simp at hg
      · cases during with
        | true =>
          refine ih (j + 1) (step j st (.set true name bits)).2 (by simpa [FinishLast] using hfin) ?_ ?_ ?_ g hg
          · simpa [step] using hph
          · intro x hx
            simp only [step, if_true, Phase.items, List.mem_append] at hx
            rcases hx with (hx | hx) | hx
            · exact hpost x (by simp [Phase.items, hx])
            · rcases mem_mapSet hx with rfl | hx
              · exact hx0 (st.flushes + 1, 0) (by simp [slots])
              · exact hpost x (by simp [Phase.items, hx])
            · exact hpost x (by simp [Phase.items, hx])
          · simpa [step] using hct
        | false =>
          refine ih (j + 1) (step j st (.set false name bits)).2 (by simpa [FinishLast] using hfin) ?_ ?_ ?_ g hg
          · simp only [step, Bool.false_eq_true, if_false]
            apply phasesOk_modifyLast P _ _ ⟨j, name, renderState bits⟩ _ _ _ hph
            · have := hx0 (st.flushes, st.phases.length - 1) (by simp [slots])
              simpa using this
            · intro p y hy
              simp only [Phase.items, List.mem_append] at hy ⊢
              rcases hy with (hy | hy) | hy
              · exact Or.inr (Or.inl (Or.inl hy))
              · rcases mem_mapSet hy with rfl | hy
                · exact Or.inl rfl
                · exact Or.inr (Or.inl (Or.inr hy))
              · exact Or.inr (Or.inr hy)
          · simpa [step] using hpost
          · simpa [step, modifyLast_length] using hct
    | rst during name v =>
      have hx0 : ∀ slot, (slots st.flushes st.phases.length (TEv.rst during name v :: evs))[0]? = some (some slot) →
          P slot ⟨j, name, [if v then '1' else '0']⟩ := fun slot hs => hc 0 (TEv.rst during name v) ⟨j, name, [if v then '1' else '0']⟩ slot (by simp) (by simp [produced]) hs
      have hct := compat_tail P (e := .rst during name v) (r := evs) (fl' := st.flushes) (len' := st.phases.length)
        (o := some (if during then (st.flushes + 1, 0) else (st.flushes, st.phases.length - 1))) (by simp [slots]) hc
      rcases hg with hg | hg
      · simp only [step] at hg; split at hg <;> simp at hg
      · cases during with
        | true =>
          refine ih (j + 1) (step j st (.rst true name v)).2 (by simpa [FinishLast] using hfin) ?_ ?_ ?_ g hg
          · simpa [step] using hph
          · intro x hx
            simp only [step, if_true, Phase.items, List.mem_append] at hx
            rcases hx with (hx | hx) | hx
            · exact hpost x (by simp [Phase.items, hx])
            · exact hpost x (by simp [Phase.items, hx])
            · rcases mem_mapSet hx with rfl | hx
              · exact hx0 (st.flushes + 1, 0) (by simp [slots])
              · exact hpost x (by simp [Phase.items, hx])
          · simpa [step] using hct
        | false =>
          refine ih (j + 1) (step j st (.rst false name v)).2 (by simpa [FinishLast] using hfin) ?_ ?_ ?_ g hg
          · simp only [step, Bool.false_eq_true, if_false]
            apply phasesOk_modifyLast P _ _ ⟨j, name, [if v then '1' else '0']⟩ _ _ _ hph
            · have := hx0 (st.flushes, st.phases.length - 1) (by simp [slots])
              simpa using this
            · intro p y hy
              simp only [Phase.items, List.mem_append] at hy ⊢
              rcases hy with (hy | hy) | hy
              · exact Or.inr (Or.inl (Or.inl hy))
              · exact Or.inr (Or.inl (Or.inr hy))
              · rcases mem_mapSet hy with rfl | hy
                · exact Or.inl rfl
                · exact Or.inr (Or.inr hy)
          · simpa [step] using hpost
          · simpa [step, modifyLast_length] using hct
    | read name isBool bits =>
      have hct := compat_tail P (e := .read name isBool bits) (r := evs) (fl' := st.flushes) (len' := st.phases.length)
        (o := some (st.flushes, st.phases.length - 1)) (by simp [slots]) hc
      rcases hg with hg | hg
      · simp only [step] at hg; split at hg <;> simp at hg
      · cases hr : renderCheck isBool bits with
        | none =>
          refine ih (j + 1) (step j st (.read name isBool bits)).2 (by simpa [FinishLast] using hfin) ?_ ?_ ?_ g hg
          · simpa [step, hr] using hph
          · simpa [step, hr] using hpost
          · simpa [step, hr] using hct
        | some v =>
          have hx0 : P (st.flushes, st.phases.length - 1) ⟨j, name, v⟩ :=
            hc 0 (TEv.read name isBool bits) ⟨j, name, v⟩ _ (by simp) (by simp [produced, hr]) (by simp [slots])
          refine ih (j + 1) (step j st (.read name isBool bits)).2 (by simpa [FinishLast] using hfin) ?_ ?_ ?_ g hg
          · simp only [step, hr]
            apply phasesOk_modifyLast P _ _ ⟨j, name, v⟩ _ _ _ hph
            · simpa using hx0
            · intro p y hy
              simp only [Phase.items, List.mem_append, List.mem_singleton] at hy ⊢
              rcases hy with ((hy | hy) | hy) | hy
              · exact Or.inr (Or.inl (Or.inl hy))
              · exact Or.inl hy
              · exact Or.inr (Or.inl (Or.inr hy))
              · exact Or.inr (Or.inr hy)
          · simpa [step, hr] using hpost
          · simpa [step, hr, modifyLast_length] using hct
end

/-- statement `x` was produced by callback number `x.tag` of `evs`, and that callback belongs to `slot` -/
def Recorded (evs : List TEv) (slot : Nat × Nat) (x : Tagged) : Prop :=
  (slots 0 0 evs)[x.tag]? = some (some slot) ∧ (evs[x.tag]?).bind (produced x.tag) = some x

theorem produced_tag {j : Nat} {e : TEv} {x : Tagged} (h : produced j e = some x) : x.tag = j := by
  cases e <;> simp [produced] at h
  · rw [← h]
  · rw [← h]
  · obtain ⟨v, _, rfl⟩ := h; rfl

theorem run_recorded (evs : List TEv) (hfin : FinishLast evs) :
    ∀ g ∈ run 0 {} evs, ∀ x ∈ g.items, Recorded evs (g.interval, g.phase) x := by
  apply run_items (Recorded evs) evs 0 {} hfin
  · simp [PhasesOk]
  · simp [Phase.items]
  · intro i e x slot he hp hs
    have ht := produced_tag hp
    simp only [Nat.zero_add] at ht hp
    refine ⟨by rw [ht]; exact hs, ?_⟩
    rw [ht, he]; exact hp

end Gatery.C20.TV
