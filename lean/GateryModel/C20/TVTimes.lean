import GateryModel.C20.TVSlots
/-! The flush interval of a group is delimited by consecutive AFTER-phase notifications of the simulator. -/
namespace Gatery.C20.TV
open Gatery.C20

/-- start of the `m`-th flush interval counted from a state whose current interval started at `s0` -/
def intervalStart (s0 : Rat) (times : List Rat) : Nat → Rat
  | 0 => s0
  | m + 1 => (times[m]?).getD 0

theorem run_flushTimes : ∀ (evs : List TEv) (j : Nat) (st : St) (lo : Rat), Mono lo evs → ∀ g ∈ run j st evs,
    ∃ m, g.interval = st.flushes + m ∧ (flushTimes evs)[m]? = some g.stop ∧ g.start = intervalStart st.flushStart (flushTimes evs) m := by
  intro evs
  induction evs with
  | nil => intro j st lo _ g hg; simp [run] at hg
  | cons e evs ih =>
    intro j st lo hm g hg
    simp only [run, List.mem_append] at hg
    have hflush : ∀ now, Mono now evs → flushTimes (e :: evs) = now :: flushTimes evs → ∀ st', st'.flushes = st.flushes + 1 → st'.flushStart = now →
        (g ∈ (flush st now).1 ∨ g ∈ run (j + 1) st' evs) →
        ∃ m, g.interval = st.flushes + m ∧ (flushTimes (e :: evs))[m]? = some g.stop ∧
          g.start = intervalStart st.flushStart (flushTimes (e :: evs)) m := by
      intro now hm' hft st' hf hs hg
      rcases hg with hg | hg
      · obtain ⟨h1, _, h3, h4, _⟩ := flush_groups st now g hg
        exact ⟨0, by simp [h1], by simp [hft, h4], by simp [intervalStart, h3]⟩
      · obtain ⟨m, h1, h2, h3⟩ := ih (j + 1) st' now hm' g hg
        refine ⟨m + 1, by omega, by simpa [hft] using h2, ?_⟩
        rw [h3, hft]
        cases m with
        | zero => simp [intervalStart, hs]
        | succ m => simp [intervalStart]
    have hkeep : ∀ lo', Mono lo' evs → flushTimes (e :: evs) = flushTimes evs → ∀ st', st'.flushes = st.flushes → st'.flushStart = st.flushStart →
        g ∈ run (j + 1) st' evs →
        ∃ m, g.interval = st.flushes + m ∧ (flushTimes (e :: evs))[m]? = some g.stop ∧
          g.start = intervalStart st.flushStart (flushTimes (e :: evs)) m := by
      intro lo' hm' hft st' hf hs hg
      obtain ⟨m, h1, h2, h3⟩ := ih (j + 1) st' lo' hm' g hg
      exact ⟨m, by omega, by simpa [hft] using h2, by rw [h3, hft, hs]⟩
    cases e with
    | powerOn => exact absurd hm (by simp [Mono])
    | microTick =>
      rcases hg with hg | hg
      · simp [step] at hg
      · exact hkeep lo (by simpa [Mono] using hm) (by simp [flushTimes]) (step j st .microTick).2 (by simp [step]) (by simp [step]) hg
    | set during name bits =>
      rcases hg with hg | hg
      · simp only [step] at hg; split at hg <;> simp at hg
      · refine hkeep lo (by simpa [Mono] using hm) (by simp [flushTimes]) (step j st (.set during name bits)).2 ?_ ?_ hg <;> (simp only [step]; split <;> rfl)
    | rst during name v =>
      rcases hg with hg | hg
      · simp only [step] at hg; split at hg <;> simp at hg
      · refine hkeep lo (by simpa [Mono] using hm) (by simp [flushTimes]) (step j st (.rst during name v)).2 ?_ ?_ hg <;> (simp only [step]; split <;> rfl)
    | read name isBool bits =>
      rcases hg with hg | hg
      · simp only [step] at hg; split at hg <;> simp at hg
      · refine hkeep lo (by simpa [Mono] using hm) (by simp [flushTimes]) (step j st (.read name isBool bits)).2 ?_ ?_ hg <;> (simp only [step]; split <;> rfl)
    | finish now =>
      simp only [Mono] at hm
      exact hflush now hm.2 (by simp [flushTimes]) (step j st (.finish now)).2 (by simp [step, flush]) (by simp [step, flush]) (by simpa [step] using hg)
    | newPhase after now =>
      simp only [Mono] at hm
      cases after with
      | true => exact hflush now hm.2 (by simp [flushTimes]) (step j st (.newPhase true now)).2 (by simp [step, flush]) (by simp [step, flush]) (by simpa [step] using hg)
      | false =>
        rcases hg with hg | hg
        · simp [step] at hg
        · exact hkeep now hm.2 (by simp [flushTimes]) (step j st (.newPhase false now)).2 (by simp [step]) (by simp [step]) hg

end Gatery.C20.TV
