import GateryModel.C20.TVSlots
/-! The flush interval of a group is delimited by consecutive flushes of the recorder. -/
namespace Gatery.C20.TV
open Gatery.C20

/-- start of the `m`-th flush interval counted from a state whose current interval started at `s0` -/
def intervalStart (s0 : Rat) (times : List Rat) : Nat → Rat
  | 0 => s0
  | m + 1 => (times[m]?).getD 0

theorem run_flushTimes : ∀ (evs : List TEv) (j : Nat) (st : St) (lo : Rat), Mono lo evs → ∀ g ∈ run j st evs,
    ∃ m, g.interval = st.flushes + m ∧ (flushTimes j st evs)[m]? = some g.stop ∧
      g.start = intervalStart st.flushStart (flushTimes j st evs) m := by
  intro evs
  induction evs with
  | nil => intro j st lo _ g hg; simp [run] at hg
  | cons e evs ih =>
    intro j st lo hm g hg
    simp only [run, List.mem_append] at hg
    -- a step that flushes up to `stop`
    have hflush : ∀ stop lo', Mono lo' evs → flushTimes j st (e :: evs) = stop :: flushTimes (j + 1) (step j st e).2 evs →
        (step j st e).2.flushes = st.flushes + 1 → (step j st e).2.flushStart = stop → (step j st e).1 = (flush st stop).1 →
        ∃ m, g.interval = st.flushes + m ∧ (flushTimes j st (e :: evs))[m]? = some g.stop ∧
          g.start = intervalStart st.flushStart (flushTimes j st (e :: evs)) m := by
      intro stop lo' hm' hft hf hs hgs
      rcases hg with hg | hg
      · rw [hgs] at hg
        obtain ⟨h1, _, h3, h4, _⟩ := flush_groups st stop g hg
        exact ⟨0, by simp [h1], by simp [hft, h4], by simp [intervalStart, h3]⟩
      · obtain ⟨m, h1, h2, h3⟩ := ih (j + 1) _ lo' hm' g hg
        refine ⟨m + 1, by omega, by simpa [hft] using h2, ?_⟩
        rw [h3, hft]
        cases m with
        | zero => simp [intervalStart, hs]
        | succ m => simp [intervalStart]
    -- a step that does not flush
    have hkeep : ∀ lo', Mono lo' evs → flushTimes j st (e :: evs) = flushTimes (j + 1) (step j st e).2 evs →
        (step j st e).2.flushes = st.flushes → (step j st e).2.flushStart = st.flushStart → (step j st e).1 = [] →
        ∃ m, g.interval = st.flushes + m ∧ (flushTimes j st (e :: evs))[m]? = some g.stop ∧
          g.start = intervalStart st.flushStart (flushTimes j st (e :: evs)) m := by
      intro lo' hm' hft hf hs hgs
      rcases hg with hg | hg
      · rw [hgs] at hg; simp at hg
      · obtain ⟨m, h1, h2, h3⟩ := ih (j + 1) _ lo' hm' g hg
        exact ⟨m, by omega, by simpa [hft] using h2, by rw [h3, hft, hs]⟩
    cases e with
    | powerOn => exact absurd hm (by simp [Mono])
    | microTick => exact hkeep lo (by simpa [Mono] using hm) (by simp [flushTimes]) (by simp [step]) (by simp [step]) (by simp [step])
    | set during name bits =>
      refine hkeep lo (by simpa [Mono] using hm) (by simp [flushTimes]) ?_ ?_ ?_ <;> (simp only [step]; split <;> rfl)
    | rst during name v =>
      refine hkeep lo (by simpa [Mono] using hm) (by simp [flushTimes]) ?_ ?_ ?_ <;> (simp only [step]; split <;> rfl)
    | read name isBool bits =>
      refine hkeep lo (by simpa [Mono] using hm) (by simp [flushTimes]) ?_ ?_ ?_ <;> (simp only [step]; split <;> rfl)
    | finish now =>
      simp only [Mono] at hm
      obtain ⟨_, rfl⟩ := hm
      exact hflush (finishStop st now) 0 (by simp [Mono]) (by simp [flushTimes]) (by simp [step, flush]) (by simp [step, flush]) (by simp [step])
    | newPhase ph now =>
      simp only [Mono] at hm
      cases ph with
      | before => exact hkeep now hm.2 (by simp [flushTimes]) (by simp [step]) (by simp [step]) (by simp [step])
      | during => exact hkeep now hm.2 (by simp [flushTimes]) (by simp [step]) (by simp [step]) (by simp [step])
      | after =>
        by_cases hp : st.pending = true
        · exact hkeep now hm.2 (by simp [flushTimes, hp]) (by simp [step, hp]) (by simp [step, hp]) (by simp [step, hp])
        · have hp' : st.pending = false := by simpa using hp
          exact hflush now now hm.2 (by simp [flushTimes, hp']) (by simp [step, hp', flush]) (by simp [step, hp', flush]) (by simp [step, hp'])

end Gatery.C20.TV
