/-!
# C20 — model of the VCD waveform recorder (`encode`) and of a VCD reader (`decode`)

Anchors (all under `/repo/source/gatery/simulation`):
* `WaveformRecorder.cpp:167-185`  `initializeStates`: tracked state starts with DEFINED = 0 and VALUE = 0 for every bit
* `WaveformRecorder.cpp:188-217`  `onCommitState`: per signal, in id order, compare *both planes* of the new state with the
  tracked state, on any difference copy and call `signalChanged(id)`; zero-sized states are skipped
* `WaveformRecorder.cpp:219-223`  `onNewTick`: `advanceTick` only once initialised (the `onNewTick(0)` of `powerOn` is not written)
* `waveformFormats/VCDSink.cpp:105-141` `VCDIdentifierGenerator` (printable characters 33..126, little-endian counter that
  grows by appending `IDENT_BEG`)
* `waveformFormats/VCDSink.cpp:143-260` `initialize`: module tree by node group, `$var` lines, clocks / resets / synthetic strings,
  `$dumpvars` with the defined clock and reset values
* `waveformFormats/VCDSink.cpp:262-293` `signalChanged`, `advanceTick` (tick index = ⌊time / 1 ps⌋), `onClock`, `onReset`
* `waveformFormats/VCDWriter.cpp:32-53,78-119,121-138,196-214` header, `beginModule`, `declareWire`, `declareString`,
  `beginDumpVars`, `writeState`, `writeBitState`, `writeTime`

Everything is over `List Char` (`Str`); the driver converts from/to `String` at the boundary.
A trace starts after `onAfterPowerOn` (callbacks before it find `m_initialized = false` / empty code maps and write nothing).
Not modelled: debug/warning/assert message strings (`writeString`), GTKWave / Surfer project files.
-/
namespace Gatery.C20

abbrev Str := List Char

/-- four-state bit as it appears in the file (`0`, `1`, `X`) -/
inductive B4 where
  | f | t | x
  deriving DecidableEq, Repr, Inhabited

/-- one bit of simulator state: DEFINED plane and raw VALUE plane -/
structure RBit where
  d : Bool
  v : Bool
  deriving DecidableEq, Repr, Inhabited

/-- raw signal state, index 0 = bit 0 (LSB) -/
abbrev RVec := List RBit

def RBit.canon (b : RBit) : B4 := if b.d then (if b.v then .t else .f) else .x

/-- observable four-state value, LSB first -/
def canon (v : RVec) : List B4 := v.map RBit.canon

/-! ## identifier generator (`VCDIdentifierGenerator`) -/

/-- `IDENT_END - IDENT_BEG` = 127 - 33 -/
def identBase : Nat := 94

/-- one call of `getIdentifer` on the stored next identifier (characters minus `IDENT_BEG`, index 0 first) -/
def identNext : List Nat → List Nat
  | [] => [0]
  | d :: ds => if d + 1 ≥ identBase then 0 :: identNext ds else (d + 1) :: ds

/-- the identifier returned by the `n`-th call (n = 0 first) -/
def identDigits : Nat → List Nat
  | 0 => [0]
  | n + 1 => identNext (identDigits n)

def identChar (d : Nat) : Char := Char.ofNat (33 + d)

def ident (n : Nat) : Str := (identDigits n).map identChar

/-! ## decimal numbers (`ostream << size_t`) -/

def digitChar : Nat → Char
  | 0 => '0' | 1 => '1' | 2 => '2' | 3 => '3' | 4 => '4' | 5 => '5' | 6 => '6' | 7 => '7' | 8 => '8' | _ => '9'

def natToDecAux : Nat → Nat → Str → Str
  | 0, _, acc => acc
  | fuel + 1, n, acc =>
    let acc' := digitChar (n % 10) :: acc
    if n / 10 = 0 then acc' else natToDecAux fuel (n / 10) acc'

def natToDec (n : Nat) : Str := natToDecAux (n + 1) n []

def digitVal (c : Char) : Nat := c.toNat - 48

def decToNat (s : Str) : Nat := s.foldl (fun a c => a * 10 + digitVal c) 0

/-! ## lines -/

def b4Char : B4 → Char
  | .f => '0' | .t => '1' | .x => 'X'

def ofBool (b : Bool) : B4 := if b then .t else .f

/-- `VCDWriter::writeBitState` -/
def scalarLine (b : B4) (code : Str) : Str := b4Char b :: code

/-- `VCDWriter::writeState` (bits MSB first) -/
def vectorLine (bits : List B4) (code : Str) : Str := 'b' :: ((bits.reverse.map b4Char) ++ ' ' :: code)

/-- `VCDWriter::writeTime` -/
def timeLine (t : Nat) : Str := '#' :: natToDec t

def varPrefix : Str := ['$', 'v', 'a', 'r', ' ', 'w', 'i', 'r', 'e', ' ']
def endSuffix : Str := [' ', '$', 'e', 'n', 'd']

/-- `VCDWriter::declareWire` -/
def varLine (w : Nat) (code label : Str) : Str := varPrefix ++ (natToDec w ++ ' ' :: (code ++ ' ' :: (label ++ endSuffix)))

/-- `VCDWriter::declareString` -/
def stringVarLine (code label : Str) : Str :=
  ['$', 'v', 'a', 'r', ' ', 's', 't', 'r', 'i', 'n', 'g', ' ', '0', ' '] ++ (code ++ ' ' :: (label ++ endSuffix))

/-- `VCDWriter::beginModule` -/
def scopeLine (name : Str) : Str := ['$', 's', 'c', 'o', 'p', 'e', ' ', 'm', 'o', 'd', 'u', 'l', 'e', ' '] ++ (name ++ endSuffix)
def upscopeLine : Str := ['$', 'u', 'p', 's', 'c', 'o', 'p', 'e', ' ', '$', 'e', 'n', 'd']
def endDefsLine : Str := ['$', 'e', 'n', 'd', 'd', 'e', 'f', 'i', 'n', 'i', 't', 'i', 'o', 'n', 's', ' ', '$', 'e', 'n', 'd']
def dumpvarsLine : Str := ['$', 'd', 'u', 'm', 'p', 'v', 'a', 'r', 's']
def endLine : Str := ['$', 'e', 'n', 'd']

/-! ## configuration -/

structure Sig where
  width : Nat
  isBVec : Bool
  hidden : Bool
  name : Str
  /-- node-group trace, root first: (group id, instance name) -/
  path : List (Nat × Str)
  /-- memory word: (memory node id, memory name) -/
  mem : Option (Nat × Str) := none
  deriving Repr, Inhabited

structure Cfg where
  date : Str
  sigs : List Sig
  /-- `m_clocks`: (clock id, name) in `extractClockPins` order -/
  clocks : List (Nat × Str)
  /-- `m_resets`: (clock id, reset name) -/
  resets : List (Nat × Str)
  incDebug : Bool := true
  incWarn : Bool := true
  incAssert : Bool := true
  deriving Repr, Inhabited

/-- values of clocks and resets read in `initialize` (`none` = not defined: nothing dumped) -/
structure Init where
  clocks : List (Option Bool)
  resets : List (Option Bool)
  deriving Repr, Inhabited

def Cfg.nsigs (c : Cfg) : Nat := c.sigs.length
def Cfg.clockCode (c : Cfg) (j : Nat) : Str := ident (c.nsigs + j)
def Cfg.resetCode (c : Cfg) (j : Nat) : Str := ident (c.nsigs + c.clocks.length + j)

/-! ## header -/

structure Item where
  path : List (Nat × Str)
  idx : Nat
  sig : Sig

/-- ordered insert without duplicates (a `StableMap` keyed by an id) -/
def insertKey (k : Nat × Str) : List (Nat × Str) → List (Nat × Str)
  | [] => [k]
  | h :: t => if k.1 < h.1 then k :: h :: t else if k.1 = h.1 then h :: t else h :: insertKey k t

def headKeys (items : List Item) : List (Nat × Str) :=
  items.foldl (fun acc it => match it.path with | [] => acc | k :: _ => insertKey k acc) []

def memKeys (items : List Item) : List (Nat × Str) :=
  items.foldl (fun acc it => match it.sig.mem with | none => acc | some k => insertKey k acc) []

def Item.var (it : Item) : Str := varLine it.sig.width (ident it.idx) it.sig.name

def Item.descend (k : Nat) (it : Item) : Option Item :=
  match it.path with
  | [] => none
  | k' :: r => if k'.1 = k then some { it with path := r } else none

def memoryPrefix : Str := ['m', 'e', 'm', 'o', 'r', 'y', '_']
def hiddenName : Str := ['_', '_', 'h', 'i', 'd', 'd', 'e', 'n']

/-- `reccurWriteModules` of `VCDSink::initialize`, on the list of signals below a module instead of the `Module` tree built from it -/
def writeModules : Nat → List Item → List Str
  | 0, _ => []
  | fuel + 1, items =>
    let here := items.filter (fun it => it.path.isEmpty)
    let sigsHere := here.filter (fun it => it.sig.mem.isNone)
    (headKeys items).flatMap (fun k => scopeLine k.2 :: (writeModules fuel (items.filterMap (Item.descend k.1)) ++ [upscopeLine]))
    ++ ((sigsHere.filter (fun it => !it.sig.hidden)).map Item.var
    ++ ((memKeys here).flatMap (fun k =>
          scopeLine (memoryPrefix ++ k.2)
            :: ((here.filter (fun it => match it.sig.mem with | some k' => k'.1 = k.1 | none => false)).map Item.var ++ [upscopeLine]))
    ++ (scopeLine hiddenName :: ((sigsHere.filter (fun it => it.sig.hidden)).map Item.var ++ [upscopeLine]))))

def mkItems : Nat → List Sig → List Item
  | _, [] => []
  | k, s :: ss => { path := s.path, idx := k, sig := s } :: mkItems (k + 1) ss

def maxPath : List Sig → Nat
  | [] => 0
  | s :: ss => max s.path.length (maxPath ss)

def clockVars : Nat → List (Nat × Str) → List Str
  | _, [] => []
  | k, c :: cs => varLine 1 (ident k) c.2 :: clockVars (k + 1) cs

/-- insertion sort by key (iteration order of a `StableMap<Clock*, …>`) -/
def insertById {α : Type} (x : Nat × α) : List (Nat × α) → List (Nat × α)
  | [] => [x]
  | h :: t => if x.1 < h.1 then x :: h :: t else h :: insertById x t

def sortById {α : Type} (l : List (Nat × α)) : List (Nat × α) := l.foldl (fun acc x => insertById x acc) []

/-- (clock id, (code, value)) -/
def initEntries : Nat → List (Nat × Str) → List (Option Bool) → List (Nat × (Str × Option Bool))
  | k, c :: cs, v :: vs => (c.1, (ident k, v)) :: initEntries (k + 1) cs vs
  | _, _, _ => []

def dumpLines (es : List (Nat × (Str × Option Bool))) : List Str :=
  (sortById es).filterMap (fun e => match e.2.2 with | some b => some (scalarLine (ofBool b) e.2.1) | none => none)

def syntheticLines (c : Cfg) : List Str :=
  let base := c.nsigs + c.clocks.length + c.resets.length
  if c.incDebug || c.incWarn || c.incAssert then
    let l1 := if c.incDebug then [stringVarLine (ident base) ['D','e','b','u','g','_','M','e','s','s','a','g','e','s']] else []
    let b1 := if c.incDebug then base + 1 else base
    let l2 := if c.incWarn then [stringVarLine (ident b1) ['W','a','r','n','i','n','g','s']] else []
    let b2 := if c.incWarn then b1 + 1 else b1
    let l3 := if c.incAssert then [stringVarLine (ident b2) ['A','s','s','e','r','t','s']] else []
    scopeLine ['s','y','n','t','h','e','t','i','c'] :: (l1 ++ l2 ++ l3 ++ [upscopeLine])
  else []

def preamble (date : Str) : List Str :=
  [['$','d','a','t','e'], date, endLine,
   ['$','v','e','r','s','i','o','n'], ['G','a','t','e','r','y',' ','s','i','m','u','l','a','t','i','o','n',' ','o','u','t','p','u','t'], endLine,
   ['$','t','i','m','e','s','c','a','l','e'], ['1','p','s'], endLine]

/-- lines written before `$enddefinitions` -/
def declLines (c : Cfg) : List Str :=
  preamble c.date
  ++ (writeModules (maxPath c.sigs + 1) (mkItems 0 c.sigs)
  ++ (scopeLine ['c','l','o','c','k','s'] :: (clockVars c.nsigs c.clocks ++ (clockVars (c.nsigs + c.clocks.length) c.resets ++ [upscopeLine]))
  ++ syntheticLines c))

/-- `$enddefinitions` … `$end` of `$dumpvars` -/
def dumpSection (c : Cfg) (i : Init) : List Str :=
  endDefsLine :: dumpvarsLine ::
    (dumpLines (initEntries c.nsigs c.clocks i.clocks) ++ (dumpLines (initEntries (c.nsigs + c.clocks.length) c.resets i.resets) ++ [endLine]))

def headerLines (c : Cfg) (i : Init) : List Str := declLines c ++ dumpSection c i

/-! ## events -/

inductive Ev where
  /-- `onNewTick(simulationTime)`, time = `num / den` seconds -/
  | tick (num den : Nat)
  /-- `onCommitState` with what `getValueOfOutput` / `getValueOfInternalState` return for every signal -/
  | commit (vals : List RVec)
  /-- `onClock`, index into `m_clocks` (≥ length: not in `m_clock2code`) -/
  | clock (idx : Nat) (rising : Bool)
  /-- `onReset` -/
  | reset (idx : Nat) (inReset : Bool)
  deriving Repr, Inhabited

def psPerSecond : Nat := 1000000000000

/-- `VCDSink::advanceTick`: ⌊time / 1 ps⌋ -/
def tickPs (num den : Nat) : Nat := num * psPerSecond / den

/-- `VCDSink::signalChanged` -/
def changeLine (s : Sig) (code : Str) (v : RVec) : Str :=
  if s.width = 1 ∧ s.isBVec = false then scalarLine ((v.head?.map RBit.canon).getD .x) code else vectorLine (canon v) code

/-- the loop of `WaveformRecorder::onCommitState` from signal `k` on: new tracked states and the lines written -/
def commitGo : Nat → List Sig → List RVec → List RVec → List RVec × List Str
  | k, s :: ss, tr :: trs, nv :: nvs =>
    let r := commitGo (k + 1) ss trs nvs
    if nv.length ≠ 0 ∧ nv ≠ tr then (nv :: r.1, changeLine s (ident k) nv :: r.2) else (tr :: r.1, r.2)
  | _, _, trs, _ => (trs, [])

def initTracked (c : Cfg) : List RVec := c.sigs.map (fun s => List.replicate s.width ⟨false, false⟩)

/-- one callback: new tracked states and the lines written -/
def encodeStep (c : Cfg) (tr : List RVec) : Ev → List RVec × List Str
  | .tick n d => (tr, [timeLine (tickPs n d)])
  | .commit vals => commitGo 0 c.sigs tr vals
  | .clock j b => (tr, if j < c.clocks.length then [scalarLine (ofBool b) (c.clockCode j)] else [])
  | .reset j b => (tr, if j < c.resets.length then [scalarLine (ofBool b) (c.resetCode j)] else [])

def encodeEvents (c : Cfg) : List RVec → List Ev → List Str
  | _, [] => []
  | tr, e :: r => (encodeStep c tr e).2 ++ encodeEvents c (encodeStep c tr e).1 r

def encodeLines (c : Cfg) (i : Init) (evs : List Ev) : List Str := headerLines c i ++ encodeEvents c (initTracked c) evs

def joinLines (ls : List Str) : Str := ls.flatMap (fun l => l ++ ['\n'])

/-- the file body written for a run -/
def encode (c : Cfg) (i : Init) (evs : List Ev) : Str := joinLines (encodeLines c i evs)

/-! ## reader -/

def splitOn (sep : Char) (s : Str) : List Str :=
  s.foldr (fun ch acc => if ch = sep then [] :: acc else match acc with | [] => [[ch]] | h :: t => (ch :: h) :: t) [[]]

def stripPrefix : Str → Str → Option Str
  | [], l => some l
  | _ :: _, [] => none
  | p :: ps, c :: cs => if p = c then stripPrefix ps cs else none

/-- `$var wire <width> <code> …` ↦ (width, code) -/
def parseVar (l : Str) : Option (Nat × Str) :=
  match stripPrefix varPrefix l with
  | none => none
  | some rest =>
    match splitOn ' ' rest with
    | w :: c :: _ => some (decToNat w, c)
    | _ => none

def declaredWidth (hdr : List Str) (code : Str) : Nat :=
  (hdr.findSome? (fun l => match parseVar l with | some (w, c) => if c = code then some w else none | none => none)).getD 0

inductive BodyItem where
  | time (t : Nat)
  | change (code : Str) (bits : List B4)     -- LSB first
  | skip
  deriving Repr, DecidableEq

def parseB4 (c : Char) : Option B4 :=
  if c = '0' then some .f else if c = '1' then some .t
  else if c = 'x' ∨ c = 'X' ∨ c = 'z' ∨ c = 'Z' then some .x else none

def parseB4D (c : Char) : B4 := (parseB4 c).getD .x

def parseBody (l : Str) : BodyItem :=
  match l with
  | [] => .skip
  | c :: r =>
    if c = '#' then .time (decToNat r)
    else if c = 'b' ∨ c = 'B' then
      match splitOn ' ' r with
      | bits :: code :: _ => .change code (bits.map parseB4D).reverse
      | _ => .skip
    else match parseB4 c with
      | some b => .change r [b]
      | none => .skip

/-- value of `code` after all changes stamped `≤ T`; `t` = current time stamp -/
def decodeGo (code : Str) (T : Nat) : Nat → Option (List B4) → List BodyItem → Option (List B4)
  | _, cur, [] => cur
  | _, cur, .time t' :: r => decodeGo code T t' cur r
  | t, cur, .change c v :: r => decodeGo code T t (if c = code ∧ t ≤ T then some v else cur) r
  | t, cur, .skip :: r => decodeGo code T t cur r

/-- left-extension of a short vector value as the VCD format prescribes (`X` extends with `X`, otherwise `0`) -/
def extendTo (w : Nat) (v : List B4) : List B4 :=
  if v.length ≥ w then v.take w
  else v ++ List.replicate (w - v.length) (if v.getLast? = some .x then .x else .f)

def finish (w : Nat) : Option (List B4) → List B4
  | none => List.replicate w .x
  | some v => extendTo w v

def decodeLines (lines : List Str) (code : Str) (T : Nat) : List B4 :=
  let hdr := lines.takeWhile (fun l => l ≠ endDefsLine)
  let body := lines.dropWhile (fun l => l ≠ endDefsLine)
  finish (declaredWidth hdr code) (decodeGo code T 0 none (body.map parseBody))

/-- value (LSB first) of the variable with identifier `code` at time `T` ps -/
def decode (file : Str) (code : Str) (T : Nat) : List B4 := decodeLines (splitOn '\n' file) code T

/-! ## specification -/

/-- commits with the time stamp (ps) of the tick they belong to; `t` = stamp of the current tick -/
def stamped : Nat → List Ev → List (Nat × List RVec)
  | _, [] => []
  | _, .tick n d :: r => stamped (tickPs n d) r
  | t, .commit vals :: r => (t, vals) :: stamped t r
  | t, _ :: r => stamped t r

/-- the value signal `i` held at the last commit of a time step `≤ T` ps (nothing recorded yet: all `X`) -/
def specValue (c : Cfg) (evs : List Ev) (i : Nat) (T : Nat) : List B4 :=
  match ((stamped 0 evs).filter (fun p => p.1 ≤ T)).getLast? with
  | none => List.replicate (c.sigs.getD i default).width .x
  | some p => canon (p.2.getD i [])

/-- tick stamps never decrease from `t` on -/
def TicksSorted : Nat → List Ev → Prop
  | _, [] => True
  | t, .tick n d :: r => t ≤ tickPs n d ∧ TicksSorted (tickPs n d) r
  | t, _ :: r => TicksSorted t r

/-- every commit reports one state of the declared width per signal -/
def CommitsOk (c : Cfg) : List Ev → Prop
  | [] => True
  | .commit vals :: r => vals.map List.length = c.sigs.map Sig.width ∧ CommitsOk c r
  | _ :: r => CommitsOk c r

def noNL (s : Str) : Prop := '\n' ∉ s

instance (s : Str) : Decidable (noNL s) := by unfold noNL; infer_instance

/-- names do not contain line breaks, the date line does not look like a keyword -/
structure Cfg.NamesOk (c : Cfg) : Prop where
  date : noNL c.date ∧ c.date.head? ≠ some '$'
  sigs : ∀ s ∈ c.sigs, noNL s.name ∧ (∀ k ∈ s.path, noNL k.2) ∧ (∀ k, s.mem = some k → noNL k.2)
  clocks : ∀ k ∈ c.clocks, noNL k.2
  resets : ∀ k ∈ c.resets, noNL k.2

end Gatery.C20
