/-!
# Four-state bits and bit vectors (DESIGN.md §4.1)

A signal value of gatery's reference simulator is a range of a `DefaultBitVectorState`
(`source/gatery/simulation/BitVectorState.h`): two planes `VALUE` / `DEFINED`.  The VALUE bit
under a cleared DEFINED bit is unobservable (`getValueOfOutput` callers mask it), so the abstract
view of one bit is `B4 = 0 | 1 | x` and of a signal a list of `B4`, LSB first.

The container operations used by the nodes (`extract`, `insert`, `copyRange`, `setRange`,
`extractBigInt`, `insertBigInt`) are used here through their bit-array meaning; their word-level
implementation is the subject of C18.

Core Lean only (the drivers link against this file).
-/
namespace Gatery.Nodes

/-- one bit of a `DefaultBitVectorState` range: `f` = defined 0, `t` = defined 1, `x` = DEFINED cleared -/
inductive B4 where
  | f | t | x
  deriving DecidableEq, Repr, Inhabited

/-- LSB first; width = length -/
abbrev BV4 := List B4

namespace B4

def ofBool (b : Bool) : B4 := if b then t else f

/-- the DEFINED plane -/
def isDef : B4 → Bool
  | x => false
  | _ => true

/-- the VALUE plane, canonicalised to 0 under a cleared DEFINED bit -/
def val : B4 → Bool
  | t => true
  | _ => false

/-- rebuild a bit from (VALUE, DEFINED) -/
def mk (v d : Bool) : B4 := if d then ofBool v else x

/-- refinement order: `x ⊑ b`, `b ⊑ b` ("`b` is at least as defined as `a` and agrees with it") -/
def le (a b : B4) : Prop := a = x ∨ a = b

instance : DecidableRel le := fun a b => inferInstanceAs (Decidable (a = x ∨ a = b))

/-- two bits that do not contradict each other (have a common refinement) -/
def compat (a b : B4) : Prop := a = x ∨ b = x ∨ a = b

instance : DecidableRel compat := fun a b => inferInstanceAs (Decidable (a = x ∨ b = x ∨ a = b))

def toChar : B4 → Char
  | f => '0' | t => '1' | x => 'x'

def ofChar (c : Char) : B4 := if c = '1' then t else if c = '0' then f else x

end B4

namespace BV4

/-- bit `i`, undefined outside the vector -/
def bit (v : BV4) (i : Nat) : B4 := v.getD i B4.x

def undef (w : Nat) : BV4 := List.replicate w B4.x

/-- `allDefined(state, offset, width)` -/
def allDef (v : BV4) : Bool := v.all B4.isDef

/-- a vector given by its bits -/
def tab (w : Nat) (f : Nat → B4) : BV4 := (List.range w).map f

/-- VALUE plane read as an unsigned number (`extractNonStraddling` / `extractBigInt`), undefined bits read as 0 -/
def toNat : BV4 → Nat
  | [] => 0
  | b :: bs => (if b = B4.t then 1 else 0) + 2 * toNat bs

/-- the largest number an only partially defined vector can stand for: undefined bits read as 1
    (`(value & defined) | (~defined & mask)`) -/
def maxNat : BV4 → Nat
  | [] => 0
  | b :: bs => (if b = B4.f then 0 else 1) + 2 * maxNat bs

/-- `w` fully defined bits holding `n mod 2^w` (`insertNonStraddling` / `insert` of a word, DEFINED set) -/
def ofNat : Nat → Nat → BV4
  | 0, _ => []
  | w+1, n => B4.ofBool (n % 2 == 1) :: ofNat w (n / 2)

/-- two's-complement bits of an integer (`insertBigInt`: negative values go through `bitwiseNegation + 1`) -/
def ofInt (w : Nat) (z : Int) : BV4 := ofNat w (z % (2:Int)^w).toNat

/-- two's-complement reading of a fully defined vector -/
def toInt (v : BV4) : Int :=
  if v.bit (v.length - 1) = B4.t then (toNat v : Int) - (2:Int)^v.length else toNat v

/-- refinement, pointwise -/
def le (u v : BV4) : Prop := u.length = v.length ∧ ∀ i, B4.le (u.bit i) (v.bit i)

/-- no contradicting defined bits -/
def compat (u v : BV4) : Prop := u.length = v.length ∧ ∀ i, B4.compat (u.bit i) (v.bit i)

def leB (u v : BV4) : Bool := u.length == v.length && (List.zipWith (fun a b => decide (B4.le a b)) u v).all id
def compatB (u v : BV4) : Bool := u.length == v.length && (List.zipWith (fun a b => decide (B4.compat a b)) u v).all id

/-- MSB-first `01x` string as printed by the harness (`-` = zero width) -/
def toString (v : BV4) : String := if v.isEmpty then "-" else String.ofList (v.reverse.map B4.toChar)
def ofString (s : String) : BV4 := if s == "-" then [] else (s.toList.reverse.map B4.ofChar)

end BV4

@[inherit_doc] scoped infix:50 " ⊑ " => BV4.le

end Gatery.Nodes
