import GateryModel.Nodes.Nodes
/-!
# Combinational netlists (DESIGN.md §4.4, the part without time)

A netlist is a list of nodes in evaluation order; node `i` may only use the outputs of nodes `< i`
(`ReferenceSimulator` evaluates `simulateEvaluate` in a topological order; a reference to a node that
has not been evaluated reads as "no state").  Signal nodes do not own state: they forward the offset of
their non-forwarding driver (`Program::allocateSignals`, `ReferenceSimulator.cpp:408-442`), so their value
is their input's value and an undriven signal has no state (`none`).

Core Lean only.
-/
namespace Gatery.Nodes
open BV4

inductive NetKind
  /-- an input pin: value `env[k]` set by `simProcSetInputPin` -/
  | input (k : Nat)
  /-- `Node_Signal`: forwards -/
  | signal
  | node (k : NodeKind) (ty : CType)
  /-- a tristate pin: `ins = [data, outputEnable]`, the external pad value is `env[k]` -/
  | tristate (k : Nat)
  deriving Repr, Inhabited

structure NetNode where
  kind : NetKind
  w : Nat
  ins : List (Option Nat)
  deriving Repr, Inhabited

abbrev Env := List BV4
/-- value (state) of every node evaluated so far -/
abbrev Vals := List (Option BV4)

def gather (vals : Vals) (ins : List (Option Nat)) : Ins :=
  ins.map fun o => match o with
    | none => none
    | some j => vals.getD j none

def evalNetNode (env : Env) (vals : Vals) (n : NetNode) : Option BV4 :=
  match n.kind with
  | .input k => some (env.getD k (undef n.w))
  | .signal => (gather vals n.ins).getD 0 none
  | .node k _ => some (evalNode k n.w (gather vals n.ins))
  | .tristate k =>
    let g := gather vals n.ins
    some (evalTristate n.w [g.getD 0 none, g.getD 1 none, some (env.getD k (undef n.w))])

/-- evaluate the nodes in order, appending each value -/
def evalNetFrom (env : Env) : List NetNode → Vals → Vals
  | [], vals => vals
  | n :: ns, vals => evalNetFrom env ns (vals ++ [evalNetNode env vals n])

def evalNet (env : Env) (net : List NetNode) : Vals := evalNetFrom env net []

end Gatery.Nodes
