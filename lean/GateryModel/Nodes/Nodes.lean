import GateryModel.Nodes.Bits
/-!
# Node semantics (DESIGN.md §4.3)

`evalNode k w ins` follows `simulateEvaluate` of the core nodes in
`/repo/source/gatery/hlim/coreNodes/*.cpp` case by case.  `w` is the node's output width
(`getOutputConnectionType(0).width`, node state set when inputs are connected); `ins` are the values
at the input ports, `none` for an input without allocated state (`inputOffsets[i] == ~0ull`:
unconnected, or driven by a chain of signal nodes that ends nowhere).

`nodeOk k w widths` collects the conditions under which the real code neither throws
(`HCL_ASSERT` / `HCL_DESIGNCHECK`) nor reads outside its inputs; it depends on widths only.

Core Lean only.
-/
namespace Gatery.Nodes
open BV4

inductive LogicOp | AND | NAND | OR | NOR | XOR | EQ | NOT
  deriving DecidableEq, Repr
inductive ArithOp | ADD | SUB | MUL | DIV | REM
  deriving DecidableEq, Repr
inductive CmpOp | EQ | NEQ | LT | GT | LEQ | GEQ
  deriving DecidableEq, Repr
inductive Dir | left | right
  deriving DecidableEq, Repr
inductive Fill | zero | one | last | rotate
  deriving DecidableEq, Repr
/-- `ConnectionType::Type` -/
inductive CType | bool | bitvec
  deriving DecidableEq, Repr

/-- `Node_Rewire::OutputRange::Source` (+ `inputIdx`, `inputOffset` for `INPUT`) -/
inductive RangeSrc
  | input (idx off : Nat)
  | zero | one | undef
  deriving DecidableEq, Repr

/-- `Node_Rewire::OutputRange` -/
structure Range where
  subwidth : Nat
  src : RangeSrc
  deriving DecidableEq, Repr

inductive NodeKind
  | logic (op : LogicOp)
  | arith (op : ArithOp)
  | compare (op : CmpOp) (ty : CType)
  | shift (dir : Dir) (fill : Fill)
  | rewire (ranges : List Range)
  | mux
  | prio
  | const (v : BV4)
  deriving Repr

abbrev Ins := List (Option BV4)

/-- bit `i` of input port `k`; an input without state reads as undefined -/
def inBit (ins : Ins) (k i : Nat) : B4 :=
  match ins.getD k none with
  | none => .x
  | some v => v.bit i

/-- `state.copyRange(out, state, in, w)` of a connected input; undefined when there is nothing to copy from -/
def copyIn (w : Nat) : Option BV4 → BV4
  | none => undef w
  | some v => tab w v.bit

/-! ## Node_Logic (`Node_Logic.cpp:44-111`) -/

/-- one bit of the chunk formulas, on (VALUE, DEFINED) pairs exactly as written -/
def logicBit (op : LogicOp) (l r : B4) : B4 :=
  let left := l.val; let leftDefined := l.isDef
  let right := r.val; let rightDefined := r.isDef
  match op with
  | .AND  => B4.mk (left && right)    ((leftDefined && !left) || (rightDefined && !right) || (leftDefined && rightDefined))
  | .NAND => B4.mk (!(left && right)) ((leftDefined && !left) || (rightDefined && !right) || (leftDefined && rightDefined))
  | .OR   => B4.mk (left || right)    ((leftDefined && left) || (rightDefined && right) || (leftDefined && rightDefined))
  | .NOR  => B4.mk (!(left || right)) ((leftDefined && left) || (rightDefined && right) || (leftDefined && rightDefined))
  | .XOR  => B4.mk (left ^^ right)    (leftDefined && rightDefined)
  | .EQ   => B4.mk (!(left ^^ right)) (leftDefined && rightDefined)
  | .NOT  => B4.mk (!left)            leftDefined

/-- the right operand of `NOT` is `rightDefined = 0, right = 0` (`Node_Logic.cpp:77-79`) -/
def evalLogic (op : LogicOp) (w : Nat) (ins : Ins) : BV4 :=
  tab w fun i => logicBit op (inBit ins 0 i) (if op = .NOT then .x else inBit ins 1 i)

/-! ## Node_Arithmetic (`Node_Arithmetic.cpp:74-185`) -/

/-- `w ≤ 64`: `std::uint64_t result` accumulates with wrap-around; division by zero clears DEFINED and leaves `result` -/
def arithStep64 (op : ArithOp) (acc : Nat × Bool) (value : Nat) : Nat × Bool :=
  let (result, d) := acc
  match op with
  | .ADD => ((result + value) % 2^64, d)
  | .SUB => ((result + (2^64 - value % 2^64)) % 2^64, d)
  | .MUL => ((result * value) % 2^64, d)
  | .DIV => if value ≠ 0 then (result / value, d) else (result, false)
  | .REM => if value ≠ 0 then (result % value, d) else (result, false)

/-- `w > 64`: `sim::BigInt` (boost `cpp_int`, sign-magnitude, truncating division) -/
def arithStepBig (op : ArithOp) (acc : Int × Bool) (value : Nat) : Int × Bool :=
  let (result, d) := acc
  match op with
  | .ADD => (result + value, d)
  | .SUB => (result - value, d)
  | .MUL => (result * value, d)
  | .DIV => if value ≠ 0 then (Int.tdiv result value, d) else (result, false)
  | .REM => if value ≠ 0 then (Int.tmod result value, d) else (result, false)

/-- an input port is usable: has state and is fully defined (`Node_Arithmetic.cpp:77-89`) -/
def inDefined : Option BV4 → Bool
  | none => false
  | some v => v.allDef

def inNat : Option BV4 → Nat
  | none => 0
  | some v => v.toNat

def evalArith (op : ArithOp) (w : Nat) (ins : Ins) : BV4 :=
  if ins.all inDefined then
    match ins.map inNat with
    | [] => ofNat w 0
    | v0 :: vs =>
      if w ≤ 64 then
        let r := vs.foldl (arithStep64 op) (v0, true)
        if r.2 then ofNat w r.1 else undef w
      else
        let r := vs.foldl (arithStepBig op) ((v0 : Int), true)
        if r.2 then ofInt w r.1 else undef w
  else undef w

/-! ## Node_Compare (`Node_Compare.cpp:52-178`) -/

/-- the zero-width table (`Node_Compare.cpp:67-93`) -/
def cmpZeroWidth : CmpOp → Bool
  | .EQ => true | .NEQ => false | .LT => false | .GT => false | .LEQ => true | .GEQ => true

def cmpNat (op : CmpOp) (l r : Nat) : Bool :=
  match op with
  | .EQ => l == r | .NEQ => l != r | .LT => decide (l < r) | .GT => decide (l > r)
  | .LEQ => decide (l ≤ r) | .GEQ => decide (l ≥ r)

/-- output is always one bit wide (constructor, `Node_Compare.cpp:28-34`); the 64-bit and the BigInt path
    both compare the zero-extended VALUE planes -/
def evalCompare (op : CmpOp) (ins : Ins) : BV4 :=
  match ins with
  | [some a, some b] =>
    if a.length = 0 ∧ b.length = 0 then [B4.ofBool (cmpZeroWidth op)]
    else if a.allDef && b.allDef then [B4.ofBool (cmpNat op a.toNat b.toNat)]
    else [.x]
  | _ => [.x]

/-! ## Node_Shift (`Node_Shift.cpp:46-130`); inputs `[operand, amount]` -/

/-- `fillVal/fillDef` (`Node_Shift.cpp:69-95`): for `last` the LSB (left) or MSB (right) of the operand -/
def shiftFill (dir : Dir) (fill : Fill) (w : Nat) (ins : Ins) : B4 :=
  match fill with
  | .one => .t
  | .last => if w = 0 then .f else match dir with
      | .left => inBit ins 0 0
      | .right => inBit ins 0 (w - 1)
  | _ => .f

def evalShift (dir : Dir) (fill : Fill) (w : Nat) (ins : Ins) : BV4 :=
  match ins.getD 1 none with
  | none => undef w
  | some amount =>
    if !amount.allDef then undef w else
    let fb := shiftFill dir fill w ins
    let amountVal := amount.toNat
    if amountVal ≥ w ∧ fill ≠ .rotate then List.replicate w fb else
    let a := amountVal % w
    match dir with
    | .left => tab w fun i =>
        if i < a then (if fill = .rotate then inBit ins 0 (w - a + i) else fb) else inBit ins 0 (i - a)
    | .right => tab w fun i =>
        if i < w - a then inBit ins 0 (i + a) else (if fill = .rotate then inBit ins 0 (i - (w - a)) else fb)

/-! ## Node_Rewire (`Node_Rewire.cpp:183-270`); fast path (`w ≤ 64`) and range-copy path have the same meaning -/

def evalRange (ins : Ins) (r : Range) : BV4 :=
  match r.src with
  | .input idx off => tab r.subwidth fun i => inBit ins idx (off + i)
  | .zero => List.replicate r.subwidth .f
  | .one => List.replicate r.subwidth .t
  | .undef => List.replicate r.subwidth .x

def evalRewire (ranges : List Range) (ins : Ins) : BV4 :=
  ranges.flatMap (evalRange ins)

/-! ## Node_Multiplexer (`Node_Multiplexer.cpp:37-137`); inputs `[selector, in0, in1, …]`

A selector with *any* undefined bit takes the early branch (`:49-99`): if the largest value the selector may stand for
(undefined bits read as 1) addresses no input, the whole output is undefined (`:51-60`) — exactly as a defined selector
beyond the inputs does; otherwise **all** data inputs are merged bit by bit.  The later "partially defined selector" loop over
`allPossibleUndefinedValues` with `mergeUndefinedSelection` (`:116-133`) is guarded by the same predicate and therefore
unreachable. -/

/-- bit `b` of a data input; an input without state reads `value = false, defined = false` (`:70-71,77-78`) -/
def optBit (o : Option BV4) (b : Nat) : B4 :=
  match o with
  | none => .x
  | some v => v.bit b

/-- bit `b` of the merge over all data inputs (`:69-85`): starts from input 1, stays defined only while every
    other input is defined and equal -/
def mergeBit (data : Ins) (b : Nat) : B4 :=
  match data with
  | [] => .x
  | d0 :: rest =>
    let first := optBit d0 b
    if first.isDef && rest.all (fun o => (optBit o b).isDef && (optBit o b).val == first.val) then first else .x

def evalMux (w : Nat) (ins : Ins) : BV4 :=
  match ins with
  | [] => undef w
  | none :: _ => undef w
  | some sel :: data =>
    if !sel.allDef then
      -- `largestPossibleSelector >= getNumInputPorts()-1`
      if sel.maxNat ≥ data.length then undef w else tab w (mergeBit data)
    else
      let selector := sel.toNat
      if selector ≥ data.length then undef w
      else copyIn w (data.getD selector none)

/-! ## Node_PriorityConditional (`Node_PriorityConditional.cpp:59-83`); inputs `[default, c0, v0, c1, v1, …]` -/

def prioGo (w : Nat) (dflt : Option BV4) : Ins → BV4
  | c :: v :: rest =>
    match c with
    | none => undef w
    | some cb =>
      match cb.bit 0 with
      | .x => undef w
      | .t => copyIn w v
      | .f => prioGo w dflt rest
  | _ => copyIn w dflt

def evalPrio (w : Nat) (ins : Ins) : BV4 :=
  match ins with
  | [] => undef w
  | dflt :: choices => prioGo w dflt choices

/-! ## all core nodes -/

def evalNode (k : NodeKind) (w : Nat) (ins : Ins) : BV4 :=
  match k with
  | .logic op => evalLogic op w ins
  | .arith op => evalArith op w ins
  | .compare op _ => evalCompare op ins
  | .shift d fl => evalShift d fl w ins
  | .rewire rs => evalRewire rs ins
  | .mux => evalMux w ins
  | .prio => evalPrio w ins
  | .const v => v

/-! ## Node_Pin, tristate (`Node_Pin.cpp:52-83`); inputs `[data, outputEnable, external]`

Not a `NodeKind` (its third operand is not a node input but the pin's internal state; `Netlist.lean` has `NetKind.tristate`).
`external` is what the test bench drives onto the pad (`simProcSetInputPin`, kept in the pin's internal state).  An output
enable without state (no enable connected) counts as enabled.  An **undefined** enable makes the read-back undefined — the DEFINED
plane of the enable is consulted before its VALUE plane; enabled: the driven data overrides the pad; disabled: the external value. -/

def evalTristate (w : Nat) (ins : Ins) : BV4 :=
  match ins.getD 1 none with
  | none => copyIn w (ins.getD 0 none)
  | some en =>
    match en.bit 0 with
    | .x => undef w
    | .t => copyIn w (ins.getD 0 none)
    | .f => copyIn w (ins.getD 2 none)

/-! ## guards: when does the real node neither throw nor read outside its inputs (widths only) -/

def rangeOk (widths : List (Option Nat)) (r : Range) : Bool :=
  match r.src with
  | .input idx off =>
    match widths.getD idx none with
    | none => idx < widths.length
    | some wi => r.subwidth == 0 || decide (off + r.subwidth ≤ wi)
  | _ => true

/-- `widths[i]` = width of the value at input `i` (`none` = no state) -/
def nodeOk (k : NodeKind) (w : Nat) (ty : CType) (widths : List (Option Nat)) : Bool :=
  match k with
  | .logic op =>
    -- `updateConnectionType` asserts equal connection types of both operands (`Node_Logic.cpp:252-268`)
    (if op = .NOT then widths.length == 1 else widths.length == 2) && widths.all (fun o => o == none || o == some w)
  | .arith _ =>
    -- output width = max operand width; BOOL outputs assert (`Node_Arithmetic.cpp:103-105`)
    widths.length ≥ 1 && (ty == .bitvec || widths.length ≤ 1) &&
    widths.all (fun o => match o with | none => true | some wi => decide (wi ≤ w))
  | .compare op cty =>
    widths.length == 2 && w == 1 &&
    (cty == .bitvec || op == .EQ || op == .NEQ ||
      -- BOOL operands only support EQ/NEQ in the 64-bit path (`Node_Compare.cpp:107-118`); with undefined or missing inputs the switch is not reached
      widths.any (· == none))
  | .shift _ fill =>
    -- operand must have state (`inputOffsets[0]` is used unchecked), amount < 64 bit (`1ull << amountWidth`),
    -- rotate of a zero-width operand divides by zero (`amountVal %= width`)
    (match widths with
     | [some wo, amt] => wo == w && (match amt with | none => true | some wa => decide (wa < 64) && !(fill == .rotate && w == 0))
     | _ => false)
  | .rewire rs => rs.all (rangeOk widths) && w == (rs.map (·.subwidth)).sum
  | .mux =>
    (match widths with
     | sel :: data =>
       data.length ≥ 1 && data.all (fun o => o == none || o == some w) &&
       (match sel with | none => true | some ws => decide (ws ≤ 64))
     | [] => false)
  | .prio =>
    (match widths with
     | dflt :: choices => dflt == some w && choices.length % 2 == 0
     | [] => false)
  | .const v => v.length == w && widths.isEmpty

end Gatery.Nodes
