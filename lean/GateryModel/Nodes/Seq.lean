import GateryModel.Nodes.Netlist
/-!
# Clocked netlists: registers and time (single clock)

`Node_Register` (`hlim/coreNodes/Node_Register.cpp:68-102`): `simulateEvaluate` latches the data input (an unconnected or
stateless driver reads as undefined) and the enable input (unconnected = enabled); `simulateAdvance` at the clock edge:
in (synchronous) reset and with a connected reset value the output becomes the reset value; otherwise an undefined enable
makes the whole output undefined, enable = 1 loads the latched data, enable = 0 keeps the output.

A clocked netlist is a combinational netlist (`Netlist.lean`) whose register outputs are `.input k` sources reading the
register state from the environment `pins ++ state`, plus one `RegDecl` per register naming the nodes that drive its
data, reset value and enable ports.  Core Lean only.
-/
namespace Gatery.Nodes
open BV4

/-- the clock edge outside reset -/
def regNext (w : Nat) (d en : Option BV4) (old : BV4) : BV4 :=
  match en with
  | none => copyIn w d
  | some e =>
    match e.bit 0 with
    | .x => undef w
    | .t => copyIn w d
    | .f => old

/-- the clock edge; `inReset`: the clock's reset is asserted at the edge -/
def regEdge (w : Nat) (d rst en : Option BV4) (inReset : Bool) (old : BV4) : BV4 :=
  match inReset, rst with
  | true, some r => copyIn w (some r)
  | _, _ => regNext w d en old

structure RegDecl where
  w : Nat
  d : Option Nat
  rst : Option Nat
  en : Option Nat
  deriving Repr, Inhabited

/-- the value seen at one input port (`gather` for a single port) -/
def look (vals : Vals) (o : Option Nat) : Option BV4 :=
  match o with
  | none => none
  | some j => vals.getD j none

def nextState (regs : List RegDecl) (vals : Vals) (inReset : Bool) (st : List BV4) : List BV4 :=
  List.zipWith (fun r old => regEdge r.w (look vals r.d) (look vals r.rst) (look vals r.en) inReset old) regs st

structure SeqNet where
  nodes : List NetNode
  regs : List RegDecl

/-- one sample point: pin values and whether the reset is asserted at the following edge -/
abbrev Cycle := Env × Bool

/-- all node values at every sample point, for a stimulus of any length -/
def seqRun (c : SeqNet) : List Cycle → List BV4 → List Vals
  | [], _ => []
  | (pins, rs) :: rest, st =>
    let vals := evalNet (pins ++ st) c.nodes
    vals :: seqRun c rest (nextState c.regs vals rs st)

/-- the register state after a stimulus -/
def seqState (c : SeqNet) : List Cycle → List BV4 → List BV4
  | [], st => st
  | (pins, rs) :: rest, st => seqState c rest (nextState c.regs (evalNet (pins ++ st) c.nodes) rs st)

end Gatery.Nodes
