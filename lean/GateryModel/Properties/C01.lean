import GateryModel.C01.Spec
import GateryModel.C01.Rules2
import GateryModel.C01.SeqLift
import GateryModel.C01.Masking
import GateryModel.C01.MuxChain
import GateryModel.C01.MuxChainU
import GateryModel.C01.RewireRules
import GateryModel.C01.Unused
import GateryModel.C01.Unconnected
import GateryModel.C01.RewireOptProof
/-!
# C01 — property theorems

*For every design and every input sequence, the post-processed circuit shows at its I/O pins the same values as the circuit as
constructed: no bit that both simulations define may differ, and whenever the unprocessed run is free of undefined values the
processed run is bit-identical and fully defined.*

Three layers (DESIGN.md §5/C01, as built):
* `F` (C01/Spec.lean) — the executable trace relation evaluated by the driver on the implementation's pin traces of generated designs,
  before post-processing, after every pass (hook) and at the end, for both post-processors. The first theorems pin down what `F` says.
* Congruence (C01/Congr.lean) — for every netlist of modelled nodes (`Gatery.Nodes`, tied to the simulator by C03/C08's correspondence)
  and every environment: a locally sound replacement of one node preserves `F` on *all* node values; any finite sequence of such
  replacements preserves identity on defined runs and compatibility whenever some concretisation of the stimulus is defined.
* Rules (C01/Rules*.lean) — value-level soundness, for all four-state values and widths, of the rewrites performed by
  `cullMuxConditionNegations`, `mergeMuxes` (given the C14 verdict), `removeConstSelectMuxes`, `removeNoOps` (identity rewire),
  `removeIrrelevantComparisons`, `propagateConstants`; `cullMuxConditionNegations` is lifted to a netlist rewrite in context.
* Time (C01/SeqLift.lean over Nodes/Seq.lean) — clocked netlists (single clock; registers with enable and synchronous reset as in
  `Node_Register::simulateAdvance`, tied to the simulator by the driver's register-transition recheck): the congruence results hold at
  every cycle of a stimulus of any length, by induction over the stimulus, for node rewrites combined with register re-declarations
  that agree on defined evaluations; `foldRegisterMuxEnableLoops` (all four variants) is proved as such a re-declaration at value level.
* Masking (C01/Masking.lean) — `removeIrrelevantMuxes`: rewiring a consumer past `mux(c; a, b)` to `a` leaves every node outside the
  tainted cone unchanged, for netlists of any size, provided every way out of the cone enters a later mux that does not select the tainted
  data input when the taint is real (equal condition / same port, negated condition / other port; a tainted *selector* masks nothing: the
  defect repaired by ef1e091 violates exactly this premise). All four variants of the pass.
* `mergeBinaryMuxChain` (C01/MuxChain.lean): a chain of muxes comparing one selector with constants equals the one big mux over the table
  the pass builds, for every chain length and width, when the selector is defined.
* `mergeRewires`, `Node_Rewire::optimize` (C01/RewireRules.lean): fetching through a slicing rewire = fetching from its input with shifted
  offsets; dropping zero-width ranges; merging adjacent ranges — exact for all four-state values. `Node_Rewire::optimize` is in addition
  modelled as a function (C01/RewireOpt.lean), proved value preserving (C01/RewireOptProof.lean) and replayed against the real function.
* `insertConstUndefinedNodes`, `disconnectZeroBitConnections` (C01/Unconnected.lean): driving an input without state by an all-undefined
  constant of any width (zero included) refines the value of every core node — equal except where the real code tests for a missing input
  first and yields all-undefined; as a netlist rewrite it is locally sound, hence composes with all other rules.
Passes without a rule theorem (retiming, memory detection, tech mapping, export
preparation), multi-clock designs and memories are covered by the trace check only.
-/
namespace Gatery.C01.Props
open Gatery.C01 Gatery.Nodes

/-! ### the trace relation -/

theorem bitCompat_iff (a b : Char) : bitCompat a b = true ↔ (a = 'x' ∨ b = 'x' ∨ a = b) := by
  simp [bitCompat, or_assoc]

/-- `F` with a fully defined reference run forces bit-identical traces. -/
theorem F_defined_identical (a b : Trace) (h : F a b true = true) : b = a := by
  simp only [F, Bool.not_true, Bool.false_or, Bool.and_eq_true, beq_iff_eq] at h
  exact h.2.symm

/-- `F` always implies that no bit defined on both sides differs. -/
theorem F_compat (a b : Trace) (adef : Bool) (h : F a b adef = true) : traceCompat a b = true := by
  simp only [F, Bool.and_eq_true] at h
  exact h.1

example : F [[['1','x'], ['0']], [['0','0'], ['x']]] [[['1','0'], ['0']], [['0','0'], ['1']]] false = true := by decide
example : F [[['1','0']]] [[['1','1']]] false = false := by decide
example : F [[['1','0']]] [[['1','x']]] true = false := by decide

/-! ### congruence: from one node to the whole netlist, from one rewrite to any number -/

/-- One locally sound node replacement anywhere in any netlist preserves the property on every node value, for every stimulus. -/
theorem one_rewrite_preserves {ok : Env → Prop} (pre post : List NetNode) (n n' : NetNode) (h : LocalSound ok pre n n') (env : Env) (hok : ok env) :
    ValsCompat (evalNet env (pre ++ n :: post)) (evalNet env (pre ++ n' :: post)) ∧
    (ValsDef (evalNet env (pre ++ n :: post)) → evalNet env (pre ++ n' :: post) = evalNet env (pre ++ n :: post)) :=
  replace_sound pre post n n' h env hok

/-- Any number of rewrites: a run free of undefined values stays bit-identical. -/
theorem passes_preserve_defined {ok : Env → Prop} (a b : List NetNode) (h : Rewrites ok a b) (env : Env) (hok : ok env)
    (hd : ValsDef (evalNet env a)) : evalNet env b = evalNet env a := rewrites_defined a b h env hok hd

/-- Any number of rewrites, partially undefined stimulus: no defined bit ever contradicts the original, provided the design has
    a defined run for some concretisation of that stimulus (no intrinsic undefinedness such as division by zero). -/
theorem passes_preserve_compat {ok : Env → Prop} (a b : List NetNode) (h : Rewrites ok a b) (env env' : Env) (he : EnvCompat env env')
    (hok' : ok env') (hd : ValsDef (evalNet env' a)) : ValsCompat (evalNet env a) (evalNet env b) := rewrites_compat a b h env env' he hok' hd

/-! ### rules -/

/-- `cullMuxConditionNegations`: mux(¬c; a, b) ≡ mux(c; b, a), also for an undefined condition and unconnected data inputs. -/
theorem cullMuxConditionNegations_rule (w : Nat) (b : B4) (A B : Option BV4) :
    RuleSound (evalMux w [some (notVal (some [b])), A, B]) (evalMux w [some [b], B, A]) := negMux_sound w b A B

/-- the same as a netlist rewrite, in every context -/
theorem cullMuxConditionNegations_netlist {ok : Env → Prop} (pre : List NetNode) (j c a b w : Nat) (ty tyn : CType)
    (hj : pre[j]? = some ⟨.node (.logic .NOT) tyn, 1, [some c]⟩) (hc : c < j)
    (hbool : ∀ env, ok env → ∃ bit, (evalNet env pre).getD c none = some [bit]) :
    LocalSound ok pre ⟨.node .mux ty, w, [some j, some a, some b]⟩ ⟨.node .mux ty, w, [some c, some b, some a]⟩ :=
  negMux_localSound pre j c a b w ty tyn hj hc hbool

/-- `mergeMuxes`, inner mux in the selected-by-1 branch: mux(c; X, mux(c'; P, Q)) → mux(c; X, Q) for conditions that never contradict
    (what C14's `isEqualTo` + C08 give): never a contradicting bit; exact when both conditions are defined. -/
theorem mergeMuxes_rule_1 (w : Nat) (c c' : B4) (hc : B4.compat c c') (X P Q : BV4) (hP : P.length = w) (hQ : Q.length = w) :
    BV4.compat (evalMux w [some [c], some X, some (evalMux w [some [c'], some P, some Q])]) (evalMux w [some [c], some X, some Q]) ∧
    (c.isDef = true → c'.isDef = true →
      evalMux w [some [c], some X, some Q] = evalMux w [some [c], some X, some (evalMux w [some [c'], some P, some Q])]) :=
  mergeMux_sound_1 w c c' hc X P Q hP hQ

/-- `mergeMuxes`, inner mux in the selected-by-0 branch. -/
theorem mergeMuxes_rule_0 (w : Nat) (c c' : B4) (hc : B4.compat c c') (Y P Q : BV4) (hP : P.length = w) (hQ : Q.length = w) :
    BV4.compat (evalMux w [some [c], some (evalMux w [some [c'], some P, some Q]), some Y]) (evalMux w [some [c], some P, some Y]) ∧
    (c.isDef = true → c'.isDef = true →
      evalMux w [some [c], some P, some Y] = evalMux w [some [c], some (evalMux w [some [c'], some P, some Q]), some Y]) :=
  mergeMux_sound_0 w c c' hc Y P Q hP hQ

/-- `removeConstSelectMuxes`: a defined in-range constant selector makes the mux its selected input (any number of inputs, any width). -/
theorem removeConstSelectMuxes_rule (w : Nat) (sel : BV4) (data : Ins) (hd : sel.allDef = true) (hr : sel.toNat < data.length) :
    evalMux w (some sel :: data) = copyIn w (data.getD sel.toNat none) := constSelectMux_sound w sel data hd hr

/-- `removeNoOps` / `Node_Rewire::isNoOp`: ranges tiling input 0 from offset 0 over its whole width are the identity. -/
theorem removeNoOps_rewire_rule (rs : List Range) (v : BV4) (h : tiles rs 0 = true) (hw : (rs.map (·.subwidth)).sum = v.length) :
    evalRewire rs [some v] = v := noopRewire_sound rs v h hw

/-- `removeIrrelevantComparisons`: a BOOL compared with a defined constant on either side is the signal or its inverse. -/
theorem removeIrrelevantComparisons_rule (op : CmpOp) (hop : op = .EQ ∨ op = .NEQ) (a : B4) (k : Bool) :
    evalCompare op [some [a], some [B4.ofBool k]] = [if (k != (op == .EQ)) then notBit a else a] ∧
    evalCompare op [some [B4.ofBool k], some [a]] = [if (k != (op == .EQ)) then notBit a else a] ∧
    evalLogic .NOT 1 [some [a]] = [notBit a] :=
  ⟨compare_const_right op hop a k, compare_const_left op hop a k, not_is_notBit a⟩

/-- `propagateConstants`: folding a node whose output is fully defined with all non-constant inputs undefined. -/
theorem propagateConstants_rule (k : NodeKind) (w : Nat) (insU ins : Ins) (h : InsCompat insU ins)
    (hd : (evalNode k w insU).allDef = true) : RuleSound (evalNode k w ins) (evalNode k w insU) := constFold_sound k w insU ins h hd

/-! ### removeIrrelevantMuxes: masked rewiring -/

/-- `removeIrrelevantMuxes`, all four variants: `m = mux(c; d0, d1)`, a consumer `K` of `m` is rewired to data input `p` of the mux.
    `S` = the tainted set (`K` and whatever is computed from it). Structure (`MaskedRewire`): every node outside `S` either reads no tainted
    node or is a two-input mux with an untainted selector. Environment (`MaskEnv`): `c` is a defined bit `cb`, the bypassed input has the
    mux's width, and when the taint is real (`cb ≠ p`) every later mux that reads taint has a defined selector that selects an untainted data
    input — as is the case when its condition equals `c` and the taint sits at data input `p`, or its condition is `¬c` and the taint sits at
    the other data input (what the pass establishes with C14's `isEqualTo` / `isNegationOf`). Then every node outside `S` — in particular
    every output pin — keeps its value. Any netlist size, any shape of the tainted cone. A tainted *selector* is not admitted
    (`S c' = false`): the defect repaired by ef1e091. -/
theorem removeIrrelevantMuxes_netlist {old new : List NetNode} {S : Nat → Bool} {k m c d0 d1 w : Nat} {ty : CType} {K : NetNode} {port : Nat}
    {p cb : Bool} (h : MaskedRewire old new S k m c d0 d1 w ty K port p) (env : Env) (he : MaskEnv env old S k c d0 d1 w p cb) :
    ∀ j, S j = false → (evalNet env new).getD j none = (evalNet env old).getD j none := masked_rewire_defined h env he

/-- in0 = c ; in1 = a ; in2 = b ; 3: m = mux(c; a, b) ; 4: K = NOT m ; 5: mux(c; K, b) -/
def mOld : List NetNode :=
  [⟨.input 0, 1, []⟩, ⟨.input 1, 4, []⟩, ⟨.input 2, 4, []⟩, ⟨.node .mux .bitvec, 4, [some 0, some 1, some 2]⟩,
   ⟨.node (.logic .NOT) .bitvec, 4, [some 3]⟩, ⟨.node .mux .bitvec, 4, [some 0, some 4, some 2]⟩]
def mNew : List NetNode :=
  [⟨.input 0, 1, []⟩, ⟨.input 1, 4, []⟩, ⟨.input 2, 4, []⟩, ⟨.node .mux .bitvec, 4, [some 0, some 1, some 2]⟩,
   ⟨.node (.logic .NOT) .bitvec, 4, [some 1]⟩, ⟨.node .mux .bitvec, 4, [some 0, some 4, some 2]⟩]
def mS (j : Nat) : Bool := j == 4

theorem mTopo : Topo mOld := by
  intro j n hj i hi
  match j, hj with
  | 0, hj => cases hj; simp at hi
  | 1, hj => cases hj; simp at hi
  | 2, hj => cases hj; simp at hi
  | 3, hj => cases hj; simp at hi; omega
  | 4, hj => cases hj; simp at hi; omega
  | 5, hj => cases hj; simp at hi; omega
  | j+6, hj => simp [mOld] at hj

theorem mInstance : MaskedRewire mOld mNew mS 4 3 0 1 2 4 .bitvec ⟨.node (.logic .NOT) .bitvec, 4, [some 3]⟩ 0 false where
  len := rfl
  topo := mTopo
  same := by
    intro j hj
    match j with
    | 0 | 1 | 2 | 3 | 5 => rfl
    | 4 => exact absurd rfl hj
    | j+6 => simp [mOld, mNew]
  hK := rfl
  hK' := rfl
  hport := rfl
  hm := rfl
  hmk := by omega
  sk := rfl
  sbefore := by intro j hj; simp [mS]; omega
  after := by
    intro j n hj hn hs
    match j, hn with
    | 5, hn =>
      cases hn
      exact Or.inr ⟨.bitvec, 4, 0, some 4, some 2, rfl, rfl⟩
    | j+6, hn => simp [mOld] at hn
    | 0, _ | 1, _ | 2, _ | 3, _ | 4, _ => omega

/-- the premises are satisfiable: the concrete rewiring above in an environment where the taint is real (`c = 1`, `a ≠ b`) -/
theorem mEnv : MaskEnv [[B4.t], BV4.ofNat 4 5, BV4.ofNat 4 9] mOld mS 4 0 1 2 4 false true where
  cval := rfl
  awidth := ⟨BV4.ofNat 4 5, rfl, rfl⟩
  conds := by
    intro _ j ty' w' c' e0 e1 hj hn _ _
    match j, hn with
    | 5, hn =>
      cases hn
      refine ⟨true, rfl, ?_⟩
      intro i hi
      simp only [pick, if_true, Option.some.injEq] at hi
      subst hi; rfl
    | j+6, hn => simp [mOld] at hn
    | 0, _ | 1, _ | 2, _ | 3, _ | 4, _ => omega

/-- … and the conclusion on it: the output mux (node 5) has the same value although node 4 differs -/
example : (evalNet [[B4.t], BV4.ofNat 4 5, BV4.ofNat 4 9] mNew).getD 5 none = (evalNet [[B4.t], BV4.ofNat 4 5, BV4.ofNat 4 9] mOld).getD 5 none ∧
    (evalNet [[B4.t], BV4.ofNat 4 5, BV4.ofNat 4 9] mNew).getD 4 none ≠ (evalNet [[B4.t], BV4.ofNat 4 5, BV4.ofNat 4 9] mOld).getD 4 none :=
  ⟨removeIrrelevantMuxes_netlist mInstance _ mEnv 5 rfl, by decide⟩

/-! ### cullUnusedNodes / cullOrphanedSignalNodes -/

/-- Nodes that no kept node reads can be removed (modelled: replaced by anything, indices stay): every kept node keeps its value, for every
    environment, undefined bits included. Any netlist, any set of removed nodes. Together with C11's `all_decorations_transparent`
    (every input re-routed past its chain of signal nodes) this covers the signal-culling passes. -/
theorem cullUnusedNodes_rule (env : Env) (old new : List NetNode) (hlen : new.length = old.length) (S : Nat → Bool) (htopo : Topo old)
    (hsame : ∀ j, S j = false → new[j]? = old[j]?)
    (hunread : ∀ j n, old[j]? = some n → S j = false → ∀ i, some i ∈ n.ins → S i = false) :
    ∀ j, S j = false → (evalNet env new).getD j none = (evalNet env old).getD j none :=
  unread_set_irrelevant env old new hlen S htopo hsame hunread

/-- non-vacuity: node 4 of `mNew` (the rewired NOT) is read by node 5, node 3 (the bypassed mux) by nobody any more: replacing it changes nothing else -/
example : ∀ j, j ≠ 3 → (evalNet [[B4.t], BV4.ofNat 4 5, BV4.ofNat 4 9] (mNew.set 3 ⟨.node (.const (BV4.ofNat 4 0)) .bitvec, 4, []⟩)).getD j none =
    (evalNet [[B4.t], BV4.ofNat 4 5, BV4.ofNat 4 9] mNew).getD j none := by
  intro j hj
  match j with
  | 0 | 1 | 2 | 4 | 5 => decide
  | 3 => exact absurd rfl hj
  | j+6 => simp [mNew, evalNet, evalNetFrom, List.getD_eq_getElem?_getD]

/-! ### mergeRewires / optimizeRewireNodes -/

/-- `mergeRewires`: input `k` of a rewire is driven by a single-range rewire — the slice `[pOff, pOff + pw)` of `X` (unconnected `X`
    included); connecting input `k` to `X` and adding `pOff` to the offsets of the ranges that read input `k` changes nothing, for all
    four-state values, whenever those ranges lie inside the slice. -/
theorem mergeRewires_rule (ranges : List Range) (ins : Ins) (k pw pOff : Nat) (X : Option BV4)
    (hk : ins[k]? = some (some (BV4.tab pw fun i => optBit X (pOff + i))))
    (hwf : ∀ r ∈ ranges, ∀ off, r.src = .input k off → off + r.subwidth ≤ pw) :
    evalRewire (ranges.map (shiftRange k pOff)) (ins.set k X) = evalRewire ranges ins := mergeRewires_sound ranges ins k pw pOff X hk hwf

/-- `optimizeRewireNodes`: zero-width ranges are dropped and adjacent ranges reading consecutive bits of one input are merged. -/
theorem optimizeRewire_rules (pre post : List Range) (ins : Ins) :
    (∀ r : Range, r.subwidth = 0 → evalRewire (pre ++ r :: post) ins = evalRewire (pre ++ post) ins) ∧
    (∀ idx off a b, evalRewire (pre ++ ⟨a, .input idx off⟩ :: ⟨b, .input idx (off + a)⟩ :: post) ins =
                    evalRewire (pre ++ ⟨a + b, .input idx off⟩ :: post) ins) :=
  ⟨fun r h => rewire_drop_empty pre post r ins h, fun idx off a b => rewire_merge_adjacent pre post idx off a b ins⟩

example : evalRewire ([⟨2, .input 0 1⟩].map (shiftRange 0 3)) ([some (BV4.tab 4 fun i => optBit (some (BV4.ofNat 8 0xA5)) (3 + i))].set 0 (some (BV4.ofNat 8 0xA5))) =
          evalRewire [⟨2, .input 0 1⟩] [some (BV4.tab 4 fun i => optBit (some (BV4.ofNat 8 0xA5)) (3 + i))] := by decide

/-- `optimizeRewireNodes`, the function itself: `rewireOptimize` (C01/RewireOpt.lean) models `Node_Rewire::optimize()` statement by
    statement — zero-width ranges erased, ranges reading fully defined all-zero / all-one constants turned into constant ranges, one
    merging sweep, inputs renumbered by driver with sharing — and is replayed against the real function on generated operations on
    every run (driver: `what=rewire-optimize`). For every operation, wiring and four-state driver values the optimised operation on
    the new inputs evaluates to the value of the original one. -/
theorem optimizeRewireNodes_function (cks : List CK) (drv : List (Option Nat)) (rs : List Range) (val : Option Nat → Option BV4)
    (hval : val none = none) (hc : ConstOK cks (drv.map val) rs) :
    evalRewire (rewireOptimize cks drv rs).1 ((rewireOptimize cks drv rs).2.map val) = evalRewire rs (drv.map val) :=
  rewireOptimize_sound cks drv rs val hval hc

/-- the premise `ConstOK` holds when the inputs classified constant are fully defined all-zero / all-one vectors at least as wide as
    the ranges reading them (what `allDefined` / `allZero` / `allOne` of the constant's value establish) -/
theorem optimizeRewireNodes_premise (cks : List CK) (ins : Ins) (rs : List Range)
    (h : ∀ r ∈ rs, ∀ idx off, r.src = .input idx off →
      (cks.getD idx .other = .zero → ∃ w, ins.getD idx none = some (List.replicate w .f) ∧ off + r.subwidth ≤ w) ∧
      (cks.getD idx .other = .one → ∃ w, ins.getD idx none = some (List.replicate w .t) ∧ off + r.subwidth ≤ w)) :
    ConstOK cks ins rs := constOK_of_const cks ins rs h

/-- `removeNoOps` for rewire nodes, the test itself: `rewireIsNoOp` models `Node_Rewire::isNoOp()` (replayed against the real function in
    the same stream, `what=rewire-isNoOp`); whenever it answers true the node computes exactly the value at its input 0, whatever
    else is connected — so `bypassOutputToInput(0, 0)` changes no value. -/
theorem removeNoOps_rewire_function (nin w : Nat) (sameKind : Bool) (rs : List Range) (v : BV4) (rest : Ins) (hv : v.length = w)
    (h : rewireIsNoOp nin (some w) sameKind rs = true) : evalRewire rs (some v :: rest) = v :=
  rewireIsNoOp_sound nin w sameKind rs v rest hv h

example : rewireIsNoOp 2 (some 5) true [⟨2, .input 0 0⟩, ⟨0, .input 0 2⟩, ⟨3, .input 0 2⟩] = true ∧
          rewireIsNoOp 2 (some 5) true [⟨2, .input 0 0⟩, ⟨3, .input 0 3⟩] = false := by decide

-- inputs 0 and 2 share driver 7, input 1 is an all-zero constant: the constant folds and merges with the zero range, one input remains
-- (the two ranges that now continue each other on the shared input are not merged: the sweep runs before the inputs are renumbered)
example : rewireOptimize [.other, .zero, .other] [some 7, some 3, some 7] [⟨2, .input 0 0⟩, ⟨0, .one⟩, ⟨3, .input 2 2⟩, ⟨2, .input 1 1⟩, ⟨1, .zero⟩]
    = ([⟨2, .input 0 0⟩, ⟨3, .input 0 2⟩, ⟨3, .zero⟩], [some 7]) := by decide

/-- `removeConstSelectMuxes`, the decision itself: `constSelectBypass` models which data input the pass bypasses a multiplexer with a
    constant selector to (zero-width constant: input 0; otherwise only a fully defined value that addresses an input), replayed against
    the real pass on generated multiplexers (`what=removeConstSelectMuxes`); whenever it bypasses, the mux computes exactly the value at
    that input. -/
theorem removeConstSelectMuxes_function (w : Nat) (sel : BV4) (data : Ins) (k : Nat) (hne : data ≠ [])
    (h : constSelectBypass sel data.length = some k) : evalMux w (some sel :: data) = copyIn w (data.getD k none) :=
  constSelectBypass_sound w sel data k hne h

example : constSelectBypass (BV4.ofNat 2 2) 3 = some 2 ∧ constSelectBypass (BV4.ofNat 2 3) 3 = none ∧ constSelectBypass [] 3 = some 0 ∧
          constSelectBypass [B4.t, B4.x] 3 = none := by decide

/-! ### insertConstUndefinedNodes / disconnectZeroBitConnections -/

/-- `insertConstUndefinedNodes` (undriven signals and signal loops get an all-undefined `Node_Constant` of the signal's width) and
    `disconnectZeroBitConnections` (`wi = 0`: the zero-width constant), seen from a consumer: input port `i` changes from "no state"
    to an all-undefined vector. For every node kind, output width, port, the other inputs in any state: the new value refines the old
    one, so no defined bit changes, and a fully defined old value is unchanged. -/
theorem insertConstUndefinedNodes_rule (k : NodeKind) (w : Nat) (ins : Ins) (i wi : Nat) :
    evalNode k w (ins.set i none) ⊑ evalNode k w (ins.set i (some (BV4.undef wi))) ∧
    ((evalNode k w (ins.set i none)).allDef = true → evalNode k w (ins.set i (some (BV4.undef wi))) = evalNode k w (ins.set i none)) :=
  ⟨evalNode_insU k w (insU_set ins i wi), fun hd => (BV4.eq_of_le_of_allDef (evalNode_insU k w (insU_set ins i wi)) hd).symm⟩

/-- the same for any number of ports at once (`InsU`: port by port equal, or no state ↦ all-undefined) -/
theorem insertConstUndefinedNodes_rule_all (k : NodeKind) (w : Nat) {a b : Ins} (h : InsU a b) : evalNode k w a ⊑ evalNode k w b :=
  evalNode_insU k w h

/-- a connected zero-width driver: its value is the value of the zero-width constant, whatever node computed it -/
theorem disconnectZeroBitConnections_rule (ins : Ins) (i : Nat) (v : BV4) (hv : v.length = 0) :
    ins.set i (some v) = ins.set i (some (BV4.undef 0)) := by
  rw [List.length_eq_zero_iff.mp hv]; rfl

/-- as a rewrite of a netlist of any size: re-wiring the unconnected port `i` of a node to an earlier all-undefined constant `c` is
    locally sound (`passes_preserve_defined` / `passes_preserve_compat` then apply to any sequence of such steps mixed with the others) -/
theorem insertConstUndefinedNodes_netlist {ok : Env → Prop} (pre : List NetNode) (k : NodeKind) (ty : CType) (w : Nat)
    (ins : List (Option Nat)) (i c wi : Nat) (hi : ins.getD i none = none)
    (hc : ∀ env, ok env → (evalNet env pre).getD c none = some (BV4.undef wi)) :
    LocalSound ok pre ⟨.node k ty, w, ins⟩ ⟨.node k ty, w, ins.set i (some c)⟩ :=
  insertConstUndef_localSound pre k ty w ins i c wi hi hc

-- the one place where the value really changes: a multiplexer whose selector had no state (all-undefined) now merges its equal inputs
example : evalNode .mux 2 ([some [B4.t], some (BV4.ofNat 2 3), some (BV4.ofNat 2 3)].set 0 none) = BV4.undef 2 ∧
          evalNode .mux 2 ([some [B4.t], some (BV4.ofNat 2 3), some (BV4.ofNat 2 3)].set 0 (some (BV4.undef 1))) = BV4.ofNat 2 3 := by decide
-- premises of the netlist form on a concrete netlist: node 1 is the undefined constant, node 2 an AND with its second port open
example : LocalSound (fun _ => True) [⟨.input 0, 2, []⟩, ⟨.node (.const (BV4.undef 2)) .bitvec, 2, []⟩]
    ⟨.node (.logic .AND) .bitvec, 2, [some 0, none]⟩ ⟨.node (.logic .AND) .bitvec, 2, [some 0, some 1]⟩ :=
  insertConstUndefinedNodes_netlist _ _ _ _ [some 0, none] 1 1 2 rfl (fun _ _ => rfl)

/-! ### mergeBinaryMuxChain -/

/-- `mergeBinaryMuxChain`: `out₀ = base`, `outᵢ₊₁ = mux(sel == kᵢ ; outᵢ, vᵢ)` (`chainEval`) is replaced by the mux with selector `sel`
    over the table whose entry `j` is the last `vᵢ` with `kᵢ = j`, `base` where no constant matches (`chainTable`). For every
    non-empty chain of any length, every selector width and output width, all data values (also undefined or unconnected ones) and
    every defined selector value both compute the same value. (_defined: for an undefined selector the comparison nodes yield `x` and
    both forms merge their inputs; that case is covered by the trace check and by C08's monotonicity, not by this theorem.) -/
theorem mergeBinaryMuxChain_rule_defined (w : Nat) (sel : BV4) (hs : sel.allDef = true) (base : Option BV4) (chain : List (BV4 × Option BV4))
    (hne : chain ≠ []) (hk : ∀ kv ∈ chain, kv.1.allDef = true) :
    chainEval w sel base chain = some (evalMux w (some sel :: (List.range (2 ^ sel.length)).map (chainTable base chain))) :=
  muxChain_sound w sel hs base chain hne hk

/-- `mergeBinaryMuxChain`, selector with at least one undefined bit: every comparison is undefined, every mux of the chain merges its
    inputs; the big mux merges the table entries, which are a selection of `base` and the chain values — it **refines** the chain
    (no defined bit changes; bits may become defined). Every non-empty chain of any length, all widths, all data values. -/
theorem mergeBinaryMuxChain_rule_undefined (w : Nat) (sel : BV4) (hs : sel.allDef = false) (base : Option BV4) (chain : List (BV4 × Option BV4))
    (hne : chain ≠ []) :
    ∃ v, chainEval w sel base chain = some v ∧
      v ⊑ evalMux w (some sel :: (List.range (2 ^ sel.length)).map (chainTable base chain)) :=
  muxChain_undef w sel hs base chain hne

/-- `mergeBinaryMuxChain`, the whole rule: for **every** four-state selector value the big mux refines the chain, and equals it when the
    selector is defined. -/
theorem mergeBinaryMuxChain_rule (w : Nat) (sel : BV4) (base : Option BV4) (chain : List (BV4 × Option BV4))
    (hne : chain ≠ []) (hk : ∀ kv ∈ chain, kv.1.allDef = true) :
    ∃ v, chainEval w sel base chain = some v ∧
      v ⊑ evalMux w (some sel :: (List.range (2 ^ sel.length)).map (chainTable base chain)) := by
  cases hs : sel.allDef with
  | false => exact muxChain_undef w sel hs base chain hne
  | true => exact ⟨_, muxChain_sound w sel hs base chain hne hk, BV4.le_refl _⟩

-- undefined selector: base = 0001 spoils bit 3 of the chain, but every selector value is matched, so the table does not contain base
example : chainEval 4 [B4.x] (some (BV4.ofNat 4 1)) [([B4.f], some (BV4.ofNat 4 9)), ([B4.t], some (BV4.ofNat 4 9))] = some [B4.t, B4.f, B4.f, B4.x] ∧
          evalMux 4 (some [B4.x] :: (List.range 2).map (chainTable (some (BV4.ofNat 4 1)) [([B4.f], some (BV4.ofNat 4 9)), ([B4.t], some (BV4.ofNat 4 9))])) = BV4.ofNat 4 9 := by decide

example : chainEval 4 (BV4.ofNat 2 2) (some (BV4.ofNat 4 1)) [(BV4.ofNat 2 0, some (BV4.ofNat 4 7)), (BV4.ofNat 2 2, some (BV4.ofNat 4 9)), (BV4.ofNat 2 2, some (BV4.ofNat 4 12))]
    = some (BV4.ofNat 4 12) := by decide

/-! ### clocked circuits: every cycle of a stimulus of any length -/

/-- Any number of rewrites of the combinational nodes together with a re-declaration of the registers that computes the same next
    state on defined evaluations: a run free of undefined values is reproduced exactly — every node value at every cycle and the
    register state after the stimulus — for stimuli of any length. -/
theorem clocked_passes_preserve_defined {ok : Env → Prop} (a b : SeqNet) (hn : Rewrites ok a.nodes b.nodes) (hr : RegsAgree ok a b.regs)
    (stim : List Cycle) (st : List BV4) (hd : RunDef ok a stim st) :
    seqRun b stim st = seqRun a stim st ∧ seqState b stim st = seqState a stim st := seq_rewrites_defined a b hn hr stim st hd

/-- Partially undefined stimulus and initial state with a defined concretisation: at no cycle and no node does a defined bit of the
    rewritten circuit contradict the original circuit. -/
theorem clocked_passes_preserve_compat {ok : Env → Prop} (a b : SeqNet) (hn : Rewrites ok a.nodes b.nodes) (hr : RegsAgree ok a b.regs)
    (stim stim' : List Cycle) (hs : StimCompat stim stim') (st st' : List BV4) (hst : EnvCompat st st')
    (hwa : StateWF a.regs st) (hwb : StateWF b.regs st) (hd : RunDef ok a stim' st') :
    Forall2 ValsCompat (seqRun a stim st) (seqRun b stim st) :=
  seq_rewrites_compat a b hn hr stim stim' hs st st st' hst hst hwa hwb hd

/-- `foldRegisterMuxEnableLoops`: reg(d = mux(c; q, X)) → reg(d = X, en = c); reg(d = mux(c; X, q)) → reg(d = X, en = ¬c); with a previous
    enable `e` the new enable is `e ∧ c` / `e ∧ ¬c`. The next register value never contradicts the original one and is identical when
    the conditions are defined (with an undefined `e` and `c = 0` the new register keeps its value where the old one became undefined). -/
theorem foldRegisterMuxEnableLoops_rule (w : Nat) (e c : B4) (q : BV4) (X : Option BV4) (hq : q.length = w) :
    FoldSound c.isDef (regNext w (some (evalMux w [some [c], some q, X])) none q) (regNext w X (some [c]) q) ∧
    FoldSound c.isDef (regNext w (some (evalMux w [some [c], X, some q])) none q) (regNext w X (some (notVal (some [c]))) q) ∧
    FoldSound (e.isDef && c.isDef) (regNext w (some (evalMux w [some [c], some q, X])) (some [e]) q)
      (regNext w X (some (andVal (some [e]) (some [c]))) q) ∧
    FoldSound (e.isDef && c.isDef) (regNext w (some (evalMux w [some [c], X, some q])) (some [e]) q)
      (regNext w X (some (andVal (some [e]) (some (notVal (some [c]))))) q) :=
  ⟨foldEnable_sound_0 w c q X hq, foldEnable_sound_1 w c q X hq, foldEnable_sound_0_en w e c q X hq, foldEnable_sound_1_en w e c q X hq⟩

/-- a toggle flip-flop: q' = q xor pin -/
def exToggle : SeqNet :=
  { nodes := [⟨.input 0, 1, []⟩, ⟨.input 1, 1, []⟩, ⟨.node (.logic .XOR) .bool, 1, [some 0, some 1]⟩],
    regs := [{ w := 1, d := some 2, rst := none, en := none }] }

-- the premises are satisfiable: a defined two-cycle run of a concrete clocked netlist
open BV4 in
example : RunDef (fun _ => True) exToggle [([[B4.t]], false), ([[B4.f]], false)] [[B4.f]] ∧ StateWF exToggle.regs [[B4.f]] := by
  refine ⟨?_, .cons rfl .nil⟩
  simp [RunDef, exToggle, ValsDef, evalNet, evalNetFrom, evalNetNode, gather, evalNode, evalLogic, tab, inBit, logicBit, B4.mk, B4.val,
    B4.isDef, B4.ofBool, BV4.bit, nextState, regEdge, regNext, look, copyIn, BV4.allDef]

/-! ### non-vacuity: a concrete netlist, a concrete rewrite sequence -/

/-- in0, in1, in2 ; 3: NOT in0 ; 4: mux(3; in1, in2) -/
def exNet : List NetNode :=
  [⟨.input 0, 1, []⟩, ⟨.input 1, 4, []⟩, ⟨.input 2, 4, []⟩, ⟨.node (.logic .NOT) .bool, 1, [some 0]⟩, ⟨.node .mux .bitvec, 4, [some 3, some 1, some 2]⟩]

/-- admissible stimulus for `exNet`: pin 0 carries one bit -/
def exOk (env : Env) : Prop := ∃ b, env.getD 0 (BV4.undef 1) = [b]

example : Rewrites exOk exNet
    [⟨.input 0, 1, []⟩, ⟨.input 1, 4, []⟩, ⟨.input 2, 4, []⟩, ⟨.node (.logic .NOT) .bool, 1, [some 0]⟩, ⟨.node .mux .bitvec, 4, [some 0, some 2, some 1]⟩] := by
  have h := negMux_localSound (ok := exOk)
    [⟨.input 0, 1, []⟩, ⟨.input 1, 4, []⟩, ⟨.input 2, 4, []⟩, ⟨.node (.logic .NOT) .bool, 1, [some 0]⟩] 3 0 1 2 4 .bitvec .bool rfl (by omega)
    (fun env ⟨b, hb⟩ => ⟨b, by simp only [evalNet, evalNetFrom, evalNetNode, List.nil_append, List.getD_cons_zero, List.cons_append]; rw [hb]⟩)
  exact Rewrites.step (post := []) (Rewrites.refl exNet) h

/-- the admissibility predicate is satisfiable (also by a partially undefined stimulus) -/
example : exOk [[B4.x], BV4.ofNat 4 5, BV4.ofNat 4 9] := ⟨B4.x, rfl⟩

end Gatery.C01.Props
