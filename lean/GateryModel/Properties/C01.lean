import GateryModel.C01.Spec
/-!
# C01 — property theorems (first layer: the relation `F` itself)

`F` is the executable form of the property statement that the driver evaluates on the implementation's traces.
The theorems here pin down that `F` says what the statement says; the per-rewrite soundness theorems (layer A) and the
verified equivalence checker (layer B) of DESIGN.md §5/C01 are added in `C01/Rewrite.lean` / `C01/Equiv.lean`.
-/
namespace Gatery.C01.Props
open Gatery.C01

theorem bitCompat_iff (a b : Char) : bitCompat a b = true ↔ (a = 'x' ∨ b = 'x' ∨ a = b) := by
  simp [bitCompat, or_assoc]

/-- `F` with a fully defined reference run forces bit-identical traces. -/
theorem F_defined_identical (a b : Trace) (h : F a b true = true) : b = a := by
  simp only [F, Bool.not_true, Bool.false_or, Bool.and_eq_true, beq_iff_eq] at h
  exact h.2.symm

/-- `F` always implies that no bit defined on both sides differs (clause 1), stated per cycle, pin and bit position. -/
theorem F_compat (a b : Trace) (adef : Bool) (h : F a b adef = true) : traceCompat a b = true := by
  simp only [F, Bool.and_eq_true] at h
  exact h.1

theorem valueCompat_refl (v : Value) : valueCompat v v = true := by
  unfold valueCompat
  simp only [beq_self_eq_true, Bool.true_and, List.all_eq_true]
  intro x hx
  induction v with
  | nil => simp at hx
  | cons c cs ih =>
    simp only [List.zipWith_cons_cons, List.mem_cons] at hx
    rcases hx with rfl | hx
    · simp [bitCompat]
    · exact ih hx

/-- an unchanged circuit satisfies the relation (non-vacuity of `F`: it is satisfiable, also with undefined bits) -/
example : F [[['1','x'], ['0']], [['0','0'], ['x']]] [[['1','0'], ['0']], [['0','0'], ['1']]] false = true := by decide
example : F [[['1','0']]] [[['1','1']]] false = false := by decide
example : F [[['1','0']]] [[['1','x']]] true = false := by decide

end Gatery.C01.Props
