import GateryModel.C02.LemmasReg
import GateryModel.C02.LemmasMux
import GateryModel.C02.LemmasArith
import GateryModel.C02.LemmasSched
/-!
# C02 — exported VHDL behaves like the reference simulation: property theorems

The VHDL side of every statement is `Vhdl/Sem.lean` — this project's *model* of IEEE 1076 / std_logic_1164 / numeric_std
(trusted, not a second simulator).  The exporter side is `Export.lean`, the model of `Process.cpp` as written; the
correspondence harness compares its output with the parsed text of really exported files and interprets those files under
recorded test vectors.
-/
namespace Gatery.C02.Props
open Gatery.C02 Gatery.C02.Vhdl

/-- **(c) register_process_sound.**  One activation of the clocked process that `RegisterProcess::writeVHDL` emits
(`Process.cpp:1092-1243`, model `regProcessBody`) schedules exactly the signal assignments that register semantics demands
(`expectedWrites`/`regNext`): an active asynchronous reset dominates everything, otherwise nothing happens without the
triggering clock edge, on an edge an active synchronous reset dominates, then a register without enable or with enable = '1'
takes its data input (converted to the register's declared type) and a disabled register keeps its value.

Quantifies over: every reset kind (none / synchronous / asynchronous) × reset polarity × trigger (rising / falling / both edges),
every list of registers (with or without enable, any declared STD_LOGIC / STD_LOGIC_VECTOR / UNSIGNED types and widths, with
or without a type conversion between data input and output), every 9-valued clock / reset / enable / data value,
every process state without variables (`rv` is the value of the reset signal; it is not read when the configuration has no reset). -/
theorem register_process_sound (cfg : RegCfg) (regs : List RegNode) (rd : Rd) (st : PSt) (c l rv : SL)
    (hclk : rd.obj cfg.clock = some (.sl c)) (hlast : rd.last cfg.clock = some (.sl l))
    (hrst : cfg.kind ≠ .none → rd.obj cfg.reset = some (.sl rv))
    (hregs : ∀ r ∈ regs, RegOK rd r) (hvars : st.vars = []) :
    execStmts rd st (regProcessBody cfg regs) =
      .ok { st with writes := st.writes ++ expectedWrites cfg rd (rd.ev cfg.clock) c l rv regs } := by
  have hcc : evalExpr (rd.withVars st.vars) (clockCond cfg) = .ok (.bool (edgeNow cfg.trigger (rd.ev cfg.clock) c l)) := by
    rw [hvars, withVars_nil]; exact eval_clockCond rd cfg c l hclk hlast
  have hrc : cfg.kind ≠ .none → evalExpr (rd.withVars st.vars) (resetCond cfg) = .ok (.bool (resetActive cfg rv)) := by
    intro h; rw [hvars, withVars_nil]; exact eval_resetCond rd cfg rv (hrst h)
  cases hk : cfg.kind with
  | async =>
    have hrc := hrc (by simp [hk])
    simp only [regProcessBody, hk]
    rw [execStmts_single]
    cases hr : resetActive cfg rv with
    | true =>
      rw [hr] at hrc
      rw [execStmt_ite_true _ _ _ _ _ hrc, exec_resetAssigns rd regs hregs st hvars,
        expected_reset cfg rd _ c l rv regs (Or.inl ⟨hk, hr⟩)]
    | false =>
      rw [hr] at hrc
      rw [execStmt_ite_false _ _ _ _ _ hrc, execStmts_single]
      cases he : edgeNow cfg.trigger (rd.ev cfg.clock) c l with
      | true =>
        rw [he] at hcc
        rw [execStmt_ite_true _ _ _ _ _ hcc, exec_regAssigns rd regs hregs st hvars,
          expected_data cfg rd _ c l rv regs he (Or.inr hr)]
      | false =>
        rw [he] at hcc
        rw [execStmt_ite_false _ _ _ _ _ hcc, execStmts_nil,
          expected_none cfg rd _ c l rv regs he (fun _ => hr)]
        simp
  | sync =>
    have hrc := hrc (by simp [hk])
    simp only [regProcessBody, hk]
    rw [execStmts_single]
    cases he : edgeNow cfg.trigger (rd.ev cfg.clock) c l with
    | true =>
      rw [he] at hcc
      rw [execStmt_ite_true _ _ _ _ _ hcc, execStmts_single]
      cases hr : resetActive cfg rv with
      | true =>
        rw [hr] at hrc
        rw [execStmt_ite_true _ _ _ _ _ hrc, exec_resetAssigns rd regs hregs st hvars,
          expected_reset cfg rd _ c l rv regs (Or.inr ⟨hk, he, hr⟩)]
      | false =>
        rw [hr] at hrc
        rw [execStmt_ite_false _ _ _ _ _ hrc, exec_regAssigns rd regs hregs st hvars,
          expected_data cfg rd _ c l rv regs he (Or.inr hr)]
    | false =>
      rw [he] at hcc
      rw [execStmt_ite_false _ _ _ _ _ hcc, execStmts_nil,
        expected_none cfg rd _ c l rv regs he (fun h => by simp [hk] at h)]
      simp
  | none =>
    simp only [regProcessBody, hk]
    rw [execStmts_single]
    cases he : edgeNow cfg.trigger (rd.ev cfg.clock) c l with
    | true =>
      rw [he] at hcc
      rw [execStmt_ite_true _ _ _ _ _ hcc, exec_regAssigns rd regs hregs st hvars,
        expected_data cfg rd _ c l rv regs he (Or.inl hk)]
    | false =>
      rw [he] at hcc
      rw [execStmt_ite_false _ _ _ _ _ hcc, execStmts_nil,
        expected_none cfg rd _ c l rv regs he (fun h => by simp [hk] at h)]
      simp

/-- non-vacuity of (c): an asynchronously reset (active low), falling-edge process with two registers — an UNSIGNED(2) register with
enable fed from a STD_LOGIC_VECTOR(2) signal (type conversion) and a STD_LOGIC register — satisfies the premises, and on a falling
edge with the reset released and the enable high both registers take their data. -/
example :
    let cfg : RegCfg := { clock := "clk", reset := "rst_n", kind := .async, resetHigh := false, trigger := .falling }
    let regs : List RegNode := [
      { out := "q", outTy := .uns 2, data := some ("d", .slv 2), enable := some "en", resetValue := [.I, .O] },
      { out := "p", outTy := .stdLogic, data := some ("b", .stdLogic), enable := none, resetValue := [.O] }]
    let rd : Rd := {
      obj := fun n => if n = "clk" then some (.sl .O) else if n = "rst_n" then some (.sl .I) else if n = "en" then some (.sl .I)
        else if n = "d" then some (.slv [.I, .I]) else if n = "b" then some (.sl .I) else none
      ev := fun n => n = "clk", last := fun n => if n = "clk" then some (.sl .I) else none
      ty := fun n => if n = "q" then some (.uns 2) else if n = "p" then some .stdLogic else none }
    (∀ r ∈ regs, RegOK rd r) ∧
    execStmts rd {} (regProcessBody cfg regs) =
      .ok { writes := [{ sig := "q", idx := none, val := .uns [.I, .I] }, { sig := "p", idx := none, val := .sl .I }] } := by
  intro cfg regs rd
  refine ⟨?_, by rfl⟩
  intro r hr
  simp [regs] at hr
  rcases hr with rfl | rfl
  · exact ⟨rfl, trivial, rfl, ⟨.slv [.I, .I], rfl, rfl, rfl⟩, ⟨.I, rfl⟩⟩
  · exact ⟨rfl, trivial, rfl, ⟨.sl .I, rfl, trivial, trivial⟩, trivial⟩

/-! ## (a) export_expr_sound — per node kind, all widths, all fully defined operand values -/

/-- **Node_Logic, vector contexts** (`Process.cpp:428-451`): `(a op b)` for op ∈ and/or/xor/nand/nor/xnor evaluates to the
bitwise result, in context UNSIGNED (tag 2) or STD_LOGIC_VECTOR (tag 1); operands may be typed values or literals. -/
theorem export_expr_sound_logic (rd : Rd) (op : BinOp) (hop : op.isLogical = true) (tag : Nat) (htag : tag = 1 ∨ tag = 2)
    (ea eb : Expr) (a b : BV) (va vb : Val) (hlen : a.length = b.length)
    (ha : evalExpr rd ea = .ok va) (hb : evalExpr rd eb = .ok vb) (hva : VecIn tag a va) (hvb : VecIn tag b vb) :
    ∃ v, evalExpr rd (fmtLogic2 op ea eb) = .ok v ∧ VecIn tag (refLogic op a b) v :=
  logic_vec_sound rd op hop tag htag ea eb a b va vb hlen ha hb hva hvb

/-- Node_Logic in the scalar contexts STD_LOGIC and BOOLEAN, and NOT in all contexts. -/
theorem export_expr_sound_logic_scalar (rd : Rd) (op : BinOp) (hop : op.isLogical = true) (ea eb : Expr) (a b : Bool) :
    (evalExpr rd ea = .ok (.sl (SL.ofBool a)) → evalExpr rd eb = .ok (.sl (SL.ofBool b)) →
      evalExpr rd (fmtLogic2 op ea eb) = .ok (.sl (SL.ofBool (boolOp op a b)))) ∧
    (evalExpr rd ea = .ok (.bool a) → evalExpr rd eb = .ok (.bool b) →
      evalExpr rd (fmtLogic2 op ea eb) = .ok (.bool (boolOp op a b))) ∧
    (evalExpr rd ea = .ok (.sl (SL.ofBool a)) → evalExpr rd (fmtNot ea) = .ok (.sl (SL.ofBool (!a)))) ∧
    (evalExpr rd ea = .ok (.bool a) → evalExpr rd (fmtNot ea) = .ok (.bool (!a))) :=
  ⟨logic_sl_sound rd op hop ea eb a b, logic_bool_sound rd op hop ea eb a b, not_sl_sound rd ea a, not_bool_sound rd ea a⟩

theorem export_expr_sound_not (rd : Rd) (tag : Nat) (htag : tag = 1 ∨ tag = 2) (ea : Expr) (a : BV) (va : Val)
    (ha : evalExpr rd ea = .ok va) (hva : VecIn tag a va) :
    ∃ v, evalExpr rd (fmtNot ea) = .ok v ∧ VecIn tag (refNot a) v :=
  not_vec_sound rd tag htag ea a va ha hva

/-- **Node_Compare** (`Process.cpp:454-479`), bit-vector operands of equal non-zero width: `(a op b)` / `bool2stdlogic(a op b)`
is the order of the unsigned values for op ∈ = /= < > <= >= (numeric_std's MSB-first lexicographic comparison).
Zero-width operands are excluded: numeric_std returns FALSE for `=` on null arrays. -/
theorem export_expr_sound_compare (rd : Rd) (ctx : Ctx) (op : BinOp) (hop : op.isRelational = true)
    (ea eb : Expr) (a b : BV) (va vb : Val) (hlen : a.length = b.length) (hpos : 0 < a.length)
    (ha : evalExpr rd ea = .ok va) (hb : evalExpr rd eb = .ok vb) (hva : VecIn 2 a va) (hvb : VecIn 2 b vb)
    (hnl : ¬ (isLit va = true ∧ isLit vb = true)) :
    evalExpr rd (fmtCompare ctx op ea eb) =
      .ok (if ctx = .sl then .sl (SL.ofBool (refCompare op a b)) else .bool (refCompare op a b)) :=
  compare_vec_sound rd ctx op hop ea eb a b va vb hlen hpos ha hb hva hvb hnl

/-- Node_Compare on two bits (operands formatted in context STD_LOGIC). -/
theorem export_expr_sound_compare_bit (rd : Rd) (ctx : Ctx) (op : BinOp) (hop : op = .eq ∨ op = .ne) (ea eb : Expr) (a b : Bool)
    (ha : evalExpr rd ea = .ok (.sl (SL.ofBool a))) (hb : evalExpr rd eb = .ok (.sl (SL.ofBool b))) :
    evalExpr rd (fmtCompare ctx op ea eb) =
      .ok (if ctx = .sl then .sl (SL.ofBool (if op = .eq then a == b else a != b)) else .bool (if op = .eq then a == b else a != b)) :=
  compare_bit_sound rd ctx op hop ea eb a b ha hb

/-- **Multiplexer as IF/ELSE** (`Process.cpp:776-797`). -/
theorem export_expr_sound_mux_if (rd : Rd) (st : PSt) (isLocal : Bool) (t : String) (sel in0 in1 : Expr) (s : Bool) (ty : Ty) (v0 v1 : Val)
    (hty : rd.ty t = some ty)
    (hs : evalExpr (rd.withVars st.vars) sel = .ok (.bool s))
    (h0 : evalRhs (rd.withVars st.vars) ty in0 = .ok v0) (h1 : evalRhs (rd.withVars st.vars) ty in1 = .ok v1) :
    execStmt rd st (muxIfStmt isLocal t sel in0 in1) = .ok (assignTo isLocal st t (if s then v1 else v0)) :=
  mux_if_sound rd st isLocal t sel in0 in1 s ty v0 v1 hty hs h0 h1

/-- **Multiplexer as CASE** (`Process.cpp:798-838`) for every selector width `w`, every number of inputs ≤ 2^w and every fully
defined selector value: the selected input, or the `WHEN OTHERS` value `xE` (= `muxOthers`: all-'X'; the reference yields
"undefined") if the selector has no input. -/
theorem export_expr_sound_mux_case (rd : Rd) (st : PSt) (isLocal : Bool) (t : String) (ty : Ty) (selE : Expr) (w : Nat) (xE : Expr) (sel : BV)
    (ins : List (Expr × Val)) (vX : Val)
    (hw : sel.length = w) (hty : rd.ty t = some ty) (hfit : ins.length ≤ 2 ^ w)
    (hsel : evalExpr (rd.withVars st.vars) selE = .ok (.uns (ofBools sel)))
    (hvals : ∀ p ∈ ins, evalRhs (rd.withVars st.vars) ty p.1 = .ok p.2)
    (hX : evalRhs (rd.withVars st.vars) ty xE = .ok vX) :
    execStmt rd st (muxCaseStmt isLocal t selE w xE (ins.map (·.1))) =
      .ok (assignTo isLocal st t ((refMux sel (ins.map (·.2))).getD vX)) :=
  mux_case_sound rd st isLocal t ty selE w xE sel ins vX hw hty hfit hsel hvals hX

/-- **Priority conditional as IF/ELSIF/ELSE** (`Process.cpp:844-880`): first choice whose condition is true, else the default. -/
theorem export_expr_sound_prio (rd : Rd) (st : PSt) (isLocal : Bool) (t : String) (ty : Ty) (hty : rd.ty t = some ty)
    (dflt : Expr) (vd : Val) (hd : evalRhs (rd.withVars st.vars) ty dflt = .ok vd)
    (choices : List ((Expr × Bool) × (Expr × Val)))
    (hall : ∀ c ∈ choices, evalExpr (rd.withVars st.vars) c.1.1 = .ok (.bool c.1.2) ∧ evalRhs (rd.withVars st.vars) ty c.2.1 = .ok c.2.2) :
    execStmt rd st (prioStmt isLocal t dflt (choices.map fun c => (c.1.1, c.2.1))) =
      .ok (assignTo isLocal st t (((choices.find? fun c => c.1.2).map fun c => c.2.2).getD vd)) :=
  prio_sound rd st isLocal t ty hty dflt vd hd choices hall

/-- **Node_Rewire as concatenation** (`Process.cpp:536-622`), any number ≥ 2 of output ranges (whole drivers, slices, constant
ranges): the emitted `(rN & … & r1 & r0)` — ranges printed in reverse order — evaluates to the ranges joined least significant
first, as UNSIGNED / literal, or as STD_LOGIC_VECTOR under the cast. -/
theorem export_expr_sound_rewire (rd : Rd) (ctx : Ctx) (hctx : ctx = .uns ∨ ctx = .slv) (ps : List (RPart × Val)) (h2 : 2 ≤ ps.length)
    (hall : ∀ p ∈ ps, evalExpr rd (p.1.expr false) = .ok p.2 ∧ Catable p.2)
    (mustCast : Bool) (hmc : mustCast = ps.any (fun p => isUns p.2)) :
    evalExpr rd (fmtRewireCat ctx (ps.map (·.1)) mustCast) =
      .ok (if ctx = .slv ∧ mustCast = true then .slv (ps.flatMap fun p => bitsOfVal p.2)
           else catResult mustCast (ps.flatMap fun p => bitsOfVal p.2)) :=
  rewire_cat_sound rd ctx hctx ps h2 hall mustCast hmc

/-- Rewire special cases: slice of a declared UNSIGNED object, bit extraction in the four contexts, bool → 1-bit vector. -/
theorem export_expr_sound_rewire_slice (rd : Rd) (ctx : Ctx) (n : String) (idx hi lo : Nat) (a : BV) (ea : Expr) (x : Bool)
    (h : rd.obj n = some (.uns (ofBools a))) (hidx : idx < a.length) (hlo : lo ≤ hi) (hhi : hi < a.length) :
    evalExpr rd (.slice n hi lo) = .ok (.uns (((ofBools a).drop lo).take (hi + 1 - lo))) ∧
    evalExpr rd (fmtBitExtract ctx n idx) =
      .ok (match ctx with
        | .bool => .bool (a[idx]!)
        | .sl => .sl (SL.ofBool (a[idx]!))
        | .uns => .uns [SL.ofBool (a[idx]!)]
        | .slv => .slv [SL.ofBool (a[idx]!)]) ∧
    (evalExpr rd ea = .ok (.sl (SL.ofBool x)) → evalExpr rd (fmtBoolToVec ea) = .ok (.lit (ofBools [x]))) :=
  ⟨slice_sound rd n hi lo (ofBools a) h hlo (by simpa [ofBools_length] using hhi), bit_extract_sound rd ctx n idx a h hidx,
   bool_to_vec_sound rd ea x⟩

/-- **Constants and references** (`BaseGrouping.cpp:163-183`, `Process.cpp:275-301`). -/
theorem export_expr_sound_const (rd : Rd) (a : BV) (x : Bool) :
    evalExpr rd (fmtConst .uns (ofBools a)) = .ok (.lit (ofBools a)) ∧
    evalExpr rd (fmtConst .slv (ofBools a)) = .ok (.lit (ofBools a)) ∧
    evalExpr rd (fmtConst .sl [SL.ofBool x]) = .ok (.sl (SL.ofBool x)) ∧
    evalExpr rd (fmtConst .bool [SL.ofBool x]) = .ok (.bool x) :=
  ⟨const_vec_sound rd .uns (Or.inr rfl) a, const_vec_sound rd .slv (Or.inl rfl) a, const_sl_sound rd x, const_bool_sound rd x⟩

theorem export_expr_sound_ref (rd : Rd) (ctx : Ctx) (n : String) (dt : Ctx) (a : BV)
    (hctx : ctx = .slv ∨ ctx = .uns) (hdt : dt = .slv ∨ dt = .uns)
    (h : rd.obj n = some (mkVec (if dt = .slv then 1 else 2) (ofBools a))) :
    evalExpr rd (fmtRef ctx n dt true) = .ok (mkVec (if ctx = .slv then 1 else 2) (ofBools a)) :=
  ref_vec_sound rd ctx n dt a hctx hdt h

/-- **Node_Arithmetic** (`Process.cpp:372-425`): ADD / SUB at any operand width, MUL of any two non-empty operands truncated
(through `resize`) to any output width ≤ the sum of the operand widths — the ripple-carry adder, the two's-complement subtractor
and the shift-and-add multiplier of numeric_std compute the unsigned result modulo 2^width. -/
theorem export_expr_sound_arith (rd : Rd) (ctx : Ctx) (op : ArithOp) (ea eb : Expr) (a b : BV) (va vb : Val) (outW : Nat)
    (ha : evalExpr rd ea = .ok va) (hb : evalExpr rd eb = .ok vb) (hva : VecIn 2 a va) (hvb : VecIn 2 b vb)
    (hnl : ¬ (isLit va = true ∧ isLit vb = true))
    (hw : match op with
      | .mul => 0 < a.length ∧ 0 < b.length ∧ outW ≤ a.length + b.length
      | _ => a.length = b.length ∧ outW = a.length) :
    evalExpr rd (fmtArith ctx op ea eb a.length b.length outW) =
      .ok (if ctx = .slv then .slv (ofBools (refArith op a b outW)) else .uns (ofBools (refArith op a b outW))) :=
  arith_sound rd ctx op ea eb a b va vb outW ha hb hva hvb hnl hw

/-- non-vacuity of (a): `resize(a * b, 3)` of 3 (2 bits) and 3 (2 bits) in context STD_LOGIC_VECTOR is 9 mod 8 = "001";
`bool2stdlogic(a < b)` of 2 and 3 is '1'; `("10" & x(1 downto 1) & y)`. -/
example :
    let rd : Rd := { obj := fun n => if n = "a" then some (.uns [.I, .I]) else if n = "b" then some (.uns [.O, .I]) else if n = "y" then some (.sl .I) else none,
                     ev := fun _ => false, last := fun _ => none, ty := fun _ => none }
    evalExpr rd (fmtArith .slv .mul (.name "a") (.name "a") 2 2 3) = .ok (.slv [.I, .O, .O]) ∧
    evalExpr rd (fmtCompare .sl .lt (.name "b") (.name "a")) = .ok (.sl .I) ∧
    evalExpr rd (fmtRewireCat .uns [.whole (.name "y"), .slice "a" 1 1, .const .O 1, .const .I 1] true) = .ok (.uns [.I, .I, .O, .I]) := by
  intro rd
  exact ⟨by rfl, by rfl, by rfl⟩

/-- non-vacuity of the CASE multiplexer: three inputs on a 2-bit selector; selector "10" (= 2) picks the third input, selector "11"
has no input and yields the `WHEN OTHERS` value "XX". -/
example :
    let rd : Rd := { obj := fun n => if n = "s" then some (.uns [.O, .I]) else if n = "t" then some (.uns [.I, .I]) else none,
                     ev := fun _ => false, last := fun _ => none, ty := fun n => if n = "v" then some (.uns 2) else none }
    let stmt (sel : String) := muxCaseStmt true "v" (.name sel) 2 (muxOthers .uns 2) [.str [.O, .O], .str [.I, .O], .str [.O, .I]]
    (execStmt rd {} (stmt "s")).map (·.vars) = .ok [("v", .uns [.O, .I])] ∧
    (execStmt rd {} (stmt "t")).map (·.vars) = .ok [("v", .uns [.X, .X])] := by
  intro rd stmt
  exact ⟨by rfl, by rfl⟩

/-! ## (b) schedule_topological -/

/-- **(b) schedule_topological.**  If the readiness list scheduler of `CombinatoryProcess::writeVHDL` (`Process.cpp:990-1046`,
model `schedule`: repeatedly emit the ready statement with the smallest node id, swap-remove it, mark its outputs ready)
terminates without the "Cyclic dependency" assertion, then the emitted order (1) contains every statement exactly once and
(2) is topological: everything a statement reads is ready initially (process inputs, constants, input pins) or is produced by a
statement emitted earlier.  Quantifies over every statement list, every dependency structure and every tie-break index. -/
theorem schedule_topological {α : Type} [DecidableEq α] (stmts : List (SStmt α)) (init : List α) (out : List (SStmt α))
    (h : schedule stmts init = some out) :
    out.Perm stmts ∧ TopoFrom init out ∧
    ∀ (pre : List (SStmt α)) (s : SStmt α) (post : List (SStmt α)), out = pre ++ s :: post →
      ∀ x ∈ s.inputs, x ∈ init ∨ ∃ p ∈ pre, x ∈ p.outputs := by
  obtain ⟨tail, hout, htopo, hperm⟩ := scheduleLoop_spec stmts.length stmts init [] out h
  simp at hout
  subst hout
  exact ⟨hperm, htopo, topo_prefix out init htopo⟩

/-- non-vacuity of (b): three statements given in an order that is not topological (the consumer of `2` first, its producer
last, the smaller node id does not win because it is not ready) are emitted producer-first; a cyclic pair is rejected. -/
example :
    (schedule [({ inputs := [2], outputs := [3], weak := 1, tag := 0 } : SStmt Nat), { inputs := [0], outputs := [1], weak := 9, tag := 1 },
               { inputs := [1], outputs := [2], weak := 5, tag := 2 }] [0]).map (·.map (·.tag)) = some [1, 2, 0] ∧
    schedule [({ inputs := [1], outputs := [2], weak := 1 } : SStmt Nat), { inputs := [2], outputs := [1], weak := 2 }] [0] = none := by
  decide

end Gatery.C02.Props
