import GateryModel.C03.LemmasIf
/-!
# C03 — property theorems: operators compute their mathematical definition at every width

Two layers, both tied to the code by `harness/c03.cpp | gv_c03` on every run:
* **nodes** — `Nodes/Nodes.lean` follows `simulateEvaluate` of the core nodes (`hlim/coreNodes/*.cpp`), including the
  `uint64_t` path (`w ≤ 64`) and the `BigInt` path (`w > 64`) of `Node_Arithmetic`;
* **frontend** — `C03/Frontend.lean` follows the lowering of `Bit/UInt/SInt/BVec` operators to nodes
  (`NormalizedWidthOperands`, `expand`, static shifts as rewire, signed multiply / compare, slices, `cat`, `mux`, …).

All theorems quantify over **all widths** (`0`, `> 64`, `> 128` included — no bound appears) and **all fully defined
operand values**; `toNat` / `toInt` read a vector as an unsigned / two's-complement number.  Definitions compared
against: `C03/Spec.lean`.  Statements only; the work is in `C03/Lemmas*.lean`.

The defects the check found on the way (static shifts beyond the width, signed comparison overflow, mixed-width signed
multiplication) have been repaired in /repo; the theorems below are about the code as it is now, historical witnesses are
labelled as such.
-/
namespace Gatery.C03.Props
open Gatery.Nodes Gatery.C03 BV4

/-! ## Node_Arithmetic -/

/-- ADD / SUB / MUL node, **any number of operands of any widths** (3-operand `addC` included), both evaluation paths:
    fully defined, and equal to the exact integer result modulo `2^w`. -/
theorem arith_ring (op : ArithOp) (hop : op.isRing = true) (w : Nat) (v0 : BV4) (vs : List BV4)
    (hdef : ∀ v ∈ v0 :: vs, v.allDef = true) :
    ((toNat (evalNode (.arith op) w ((v0 :: vs).map some)) : Nat) : Int)
        = (vs.map toNat).foldl (exactStep op) (toNat v0) % (2:Int) ^ w
    ∧ (evalNode (.arith op) w ((v0 :: vs).map some)).allDef = true :=
  evalArith_ring op hop w v0 vs hdef

theorem add_eq (w : Nat) (a b : BV4) (ha : a.allDef = true) (hb : b.allDef = true) :
    (evalNode (.arith .ADD) w [some a, some b]).toNat = (a.toNat + b.toNat) % 2 ^ w := by
  show (evalArith .ADD w [some a, some b]).toNat = _
  rw [evalArith_eq_spec .ADD w a b ha hb]; exact toNat_ofNat _ _

theorem sub_eq (w : Nat) (a b : BV4) (ha : a.allDef = true) (hb : b.allDef = true) :
    ((evalNode (.arith .SUB) w [some a, some b]).toNat : Int) = ((a.toNat : Int) - b.toNat) % (2:Int) ^ w := by
  show ((evalArith .SUB w [some a, some b]).toNat : Int) = _
  rw [evalArith_eq_spec .SUB w a b ha hb]; exact toNat_ofInt _ _

theorem mul_eq (w : Nat) (a b : BV4) (ha : a.allDef = true) (hb : b.allDef = true) :
    (evalNode (.arith .MUL) w [some a, some b]).toNat = (a.toNat * b.toNat) % 2 ^ w := by
  show (evalArith .MUL w [some a, some b]).toNat = _
  rw [evalArith_eq_spec .MUL w a b ha hb]; exact toNat_ofNat _ _

/-- quotient and remainder for a non-zero divisor … -/
theorem div_eq (w : Nat) (a b : BV4) (ha : a.allDef = true) (hb : b.allDef = true) (hnz : b.toNat ≠ 0) :
    evalNode (.arith .DIV) w [some a, some b] = ofNat w (a.toNat / b.toNat) := by
  show evalArith .DIV w _ = _
  rw [evalArith_div w a b ha hb, if_neg hnz]

theorem rem_eq (w : Nat) (a b : BV4) (ha : a.allDef = true) (hb : b.allDef = true) (hnz : b.toNat ≠ 0) :
    evalNode (.arith .REM) w [some a, some b] = ofNat w (a.toNat % b.toNat) := by
  show evalArith .REM w _ = _
  rw [evalArith_rem w a b ha hb, if_neg hnz]

/-- … and an entirely undefined result for divisor 0 -/
theorem div_rem_by_zero (w : Nat) (a b : BV4) (ha : a.allDef = true) (hb : b.allDef = true) (hz : b.toNat = 0) :
    evalNode (.arith .DIV) w [some a, some b] = undef w ∧ evalNode (.arith .REM) w [some a, some b] = undef w := by
  constructor
  · show evalArith .DIV w _ = _; rw [evalArith_div w a b ha hb, if_pos hz]
  · show evalArith .REM w _ = _; rw [evalArith_rem w a b ha hb, if_pos hz]

/-! ## Node_Logic, Node_Compare -/

/-- and / nand / or / nor / xor / xnor: bit `i` of the result is the boolean function of bit `i` of the operands -/
theorem bitwise_eq (op : LogicOp) (hop : op ≠ .NOT) (a b : BV4) (hl : a.length = b.length)
    (ha : a.allDef = true) (hb : b.allDef = true) :
    evalNode (.logic op) a.length [some a, some b] = Spec.bitwise op a b :=
  evalLogic_defined op hop a b hl ha hb

theorem not_eq (a : BV4) (ha : a.allDef = true) : evalNode (.logic .NOT) a.length [some a] = Spec.bnot a :=
  evalLogic_not a ha

/-- EQ / NEQ / LT / GT / LEQ / GEQ of operands of any widths (zero width included) is the order on ℕ -/
theorem compare_eq (op : CmpOp) (ty : CType) (a b : BV4) (ha : a.allDef = true) (hb : b.allDef = true) :
    evalNode (.compare op ty) 1 [some a, some b] = [B4.ofBool (Spec.cmpInt op a.toNat b.toNat)] := by
  show evalCompare op [some a, some b] = _
  rw [evalCompare_defined op a b ha hb, cmpNat_eq_cmpInt]

/-! ## Node_Shift (dynamic amount) -/

/-- shift / rotate by a fully defined amount, every direction, **every fill mode** (zero, one, last, rotate), every amount
    (`≥ width` included), every width; the operand may even be partially undefined -/
theorem shift_eq (d : Dir) (f : Fill) (a amt : BV4) (hamt : amt.allDef = true) :
    evalNode (.shift d f) a.length [some a, some amt] = Spec.shift d f a amt.toNat :=
  evalShift_eq_spec d f a amt hamt

/-- zero-fill left shift as arithmetic: `a · 2^k mod 2^w` -/
theorem shl_toNat (a amt : BV4) (ha : a.allDef = true) (hamt : amt.allDef = true) :
    (evalNode (.shift .left .zero) a.length [some a, some amt]).toNat = (a.toNat * 2 ^ amt.toNat) % 2 ^ a.length := by
  rw [shift_eq _ _ _ _ hamt]
  show (Spec.shiftLeft .f a amt.toNat).toNat = _
  rw [shiftLeft_zero_eq_ofNat a _ ha, toNat_ofNat]

/-- zero-fill right shift as arithmetic: `⌊a / 2^k⌋` -/
theorem shr_toNat (a amt : BV4) (ha : a.allDef = true) (hamt : amt.allDef = true) :
    (evalNode (.shift .right .zero) a.length [some a, some amt]).toNat = a.toNat / 2 ^ amt.toNat := by
  rw [shift_eq _ _ _ _ hamt]
  show (Spec.shiftRight .f a amt.toNat).toNat = _
  rw [shiftRight_zero_eq_ofNat a _ ha, toNat_ofNat]
  exact Nat.mod_eq_of_lt (Nat.lt_of_le_of_lt (Nat.div_le_self _ _) (toNat_lt' a))

/-! ## Node_Multiplexer, Node_PriorityConditional -/

/-- `ins[sel]`; a selector value that addresses nothing gives an undefined result -/
theorem mux_eq (w : Nat) (sel : BV4) (data : List BV4) (hsel : sel.allDef = true) (hw : ∀ v ∈ data, v.length = w) :
    evalNode .mux w (some sel :: data.map some) = Spec.select w data sel.toNat :=
  evalMux_defined w sel data hsel hw

/-- the value of the first choice whose condition is 1, else the default -/
theorem prio_eq (dflt : BV4) (choices : List (BV4 × BV4))
    (hc : ∀ p ∈ choices, (p.1.bit 0).isDef = true ∧ p.2.length = dflt.length) :
    prioOp dflt choices = Spec.prio dflt choices :=
  prioOp_eq_spec dflt choices hc

/-! ## frontend: expansion of operands (`NormalizedWidthOperands`), arithmetic / logic / comparison of mixed widths -/

/-- `SignalReadPort::expand` realises zero / one / sign extension (`zext`, `oext`, `sext`) -/
theorem expand_correct (pol : Pol) (v r : BV4) (w : Nat) (h : Spec.extend pol v w = some r) : expand pol v w = .ok r :=
  expand_eq_extend pol v w r h

/-- zero extension preserves the value -/
theorem zext_toNat (v r : BV4) (w : Nat) (h : Spec.extend .zero v w = some r) : r.toNat = v.toNat := by
  rcases extend_cases h with ⟨_, rfl⟩ | ⟨_, fb, rfl, hfb⟩
  · rfl
  · rcases hfb with ⟨_, rfl⟩ | ⟨hp, _⟩ | ⟨hp, _⟩
    · rw [toNat_append, toNat_replicate_f]; omega
    · cases hp
    · cases hp

/-- `a ∘ b` through the frontend for operands of **different widths and any expansion policies**: operands are extended
    to the larger width, then the node computes the definition -/
theorem fe_arith (op : ArithOp) (pa pb : Pol) (a b a' b' : BV4) (w : Nat)
    (h : Spec.norm pa pb a b = some (a', b', w)) (ha : a.allDef = true) (hb : b.allDef = true) :
    arith op pa pb a b = .ok (Spec.arith op w a' b') :=
  arith_eq_spec op pa pb a b a' b' w h ha hb

theorem fe_logic (op : LogicOp) (hop : op ≠ .NOT) (pa pb : Pol) (a b a' b' : BV4) (w : Nat)
    (h : Spec.norm pa pb a b = some (a', b', w)) (ha : a.allDef = true) (hb : b.allDef = true) :
    logic op pa pb a b = .ok (Spec.bitwise op a' b') :=
  logic_eq_spec op hop pa pb a b a' b' w h ha hb

theorem fe_compare (op : CmpOp) (ty : CType) (pa pb : Pol) (a b a' b' : BV4) (w : Nat)
    (h : Spec.norm pa pb a b = some (a', b', w)) (ha : a.allDef = true) (hb : b.allDef = true) :
    compare op ty pa pb a b = .ok (Spec.ucmp op a' b') :=
  compare_eq_spec op ty pa pb a b a' b' w h ha hb

/-! ## frontend: static shifts and rotates lowered to a rewire node (`SignalBitshiftOp.cpp`) -/

/-- **every amount** (also `> width`), every direction, every fill mode (zero, one, last = arithmetic, rotate), every width:
    the rewire node built for a static shift / rotate is the list-of-bits definition — a shift by `≥ width` is all fill, a
    rotate is periodic in the width, the result keeps the operand's width (`hw`: widths are `size_t`). -/
theorem static_shift_correct (dir : Dir) (fill : Fill) (a : BV4) (amount : Nat) (hw : a.length < 2 ^ 64) :
    staticShift dir fill a amount = Spec.shift dir fill a amount :=
  staticShift_eq_spec dir fill a amount hw

/-- static left shift with zero fill as arithmetic, for every amount: `a · 2^k mod 2^w` -/
theorem static_shl_toNat (a : BV4) (amount : Nat) (ha : a.allDef = true) (hw : a.length < 2 ^ 64) :
    (staticShift .left .zero a amount).toNat = (a.toNat * 2 ^ amount) % 2 ^ a.length := by
  rw [static_shift_correct _ _ _ _ hw]
  show (Spec.shiftLeft .f a amount).toNat = _
  rw [shiftLeft_zero_eq_ofNat a _ ha, toNat_ofNat]

/-- historical witness (DESIGN.md §6 F4, repaired by `c4028c8`): without the normalisation of the amount the same rewire
    construction is `amount` bits wide for `amount > width`, for every width, direction and fill mode.  The check had
    re-discovered this as `op=shl|shr|rotl|rotr class=amount-gt-width` (findings/F12-C03-*.json). -/
theorem static_shift_defect_before_c4028c8 (dir : Dir) (fill : Fill) (a : BV4) (amount : Nat) (h : amount > a.length) :
    (staticShiftCore dir fill a amount).length = amount :=
  staticShiftCore_length_of_gt dir fill a amount h

/-! ## frontend: slices and concatenation -/

theorem slice_correct (a : BV4) (off w : Nat) (h : off + w ≤ a.length) : slice a off w = .ok (Spec.slice a off w) :=
  slice_eq_spec a off w h

/-- `pack(x₀, x₁, …)` is the concatenation with `x₀` lowest; `cat` is the same with the first argument highest -/
theorem pack_correct (xs : List BV4) : pack xs = Spec.concat xs := pack_eq_spec xs
theorem cat_correct (xs : List BV4) : cat xs = Spec.concat xs.reverse := cat_eq_spec xs
theorem cat2_toNat (hi lo : BV4) : (cat [hi, lo]).toNat = lo.toNat + 2 ^ lo.length * hi.toNat := toNat_cat2 hi lo

/-! ## frontend: multiplexer -/

theorem fe_mux (pol : Pol) (sel : BV4) (table : List BV4) (w : Nat) (hsel : sel.allDef = true)
    (hne : table ≠ []) (hfit : table.length ≤ 2 ^ sel.length) (hw : ∀ v ∈ table, v.length = w) :
    muxOp pol sel table = .ok (Spec.select w table sel.toNat) :=
  muxOp_eq_spec pol sel table w hsel hne hfit hw

/-! ## defects of the signed operators built from unsigned nodes (`SignalCompareOp.cpp:37-48`, `SignalArithmeticOp.cpp:49-77`) -/

/-- **signed order comparisons** `lt / gt / leq / geq` on `SInt` (`SignalCompareOp.cpp:40-54`: sign of the difference taken in
    one bit more than the wider operand, after repair `ff2206d`) are the order on the two's-complement readings, for all
    widths `≥ 1`, mixed widths included.  (Before the repair the same-width difference overflowed, `-2 < 1` on 2 bits
    evaluated to 0; the check had re-discovered that as `op=lt|gt|leq|geq class=signed-difference-overflows`.) -/
theorem signed_compare_correct (a b : BV4) (hla : 1 ≤ a.length) (hlb : 1 ≤ b.length) (ha : a.allDef = true) (hb : b.allDef = true) :
    slt a b = .ok (Spec.scmp .LT a b) ∧ sgt a b = .ok (Spec.scmp .GT a b) ∧
    sleq a b = .ok (Spec.scmp .LEQ a b) ∧ sgeq a b = .ok (Spec.scmp .GEQ a b) :=
  ⟨slt_eq_spec a b hla hlb ha hb, sgt_eq_spec a b hla hlb ha hb, sleq_eq_spec a b hla hlb ha hb, sgeq_eq_spec a b hla hlb ha hb⟩

/-- sign extension (`sext`, the default expansion of `SInt`) preserves the two's-complement value -/
theorem sext_toInt (a r : BV4) (w : Nat) (ha : a.allDef = true) (h : Spec.extend .sign a w = some r) : r.toInt = a.toInt := by
  rcases extend_cases h with ⟨_, rfl⟩ | ⟨hlt, fb, rfl, hfb⟩
  · rfl
  · rcases hfb with ⟨hp, _⟩ | ⟨hp, _⟩ | ⟨_, h0, rfl⟩
    · cases hp
    · cases hp
    · exact toInt_sext a _ (by omega) ha

/-- **signed multiplication `mul(SInt, SInt)`, every combination of widths and expansion policies**
    (`SignalArithmeticOp.cpp:49-77`: equal widths use the unsigned node, different widths multiply the magnitudes `abs(·)` —
    which carry *zero* expansion since `2477763` — and negate by the XOR of the signs): the product of the two's-complement
    readings modulo `2^max(widths)`.  With different widths both operands need a sign bit (`hz`; the frontend rejects an empty one).
    Before `2477763` `abs` kept the operand's sign policy and `sext(-2 : 2 bit) * (1 : 4 bit)` evaluated to `+2`
    (`x * SInt(-2) = 2x`); the check had re-discovered that as `op=mul class=mixed-widths/narrower-operand-policy-s`. -/
theorem signed_mul_correct (pa pb : Pol) (a b : BV4) (ha : a.allDef = true) (hb : b.allDef = true)
    (hz : a.length ≠ b.length → 1 ≤ a.length ∧ 1 ≤ b.length) :
    smul pa pb a b = .ok (Spec.smul (max a.length b.length) a b) :=
  smul_eq_spec pa pb a b ha hb hz

/-- `abs(SInt)`: the magnitude as an unsigned number of the same width -/
theorem signed_abs_correct (a : BV4) (hl : 1 ≤ a.length) (ha : a.allDef = true) :
    sabs a = .ok (ofNat a.length (mag a)) ∧ a.toInt = (if a.bit (a.length - 1) = .t then -((mag a : Nat) : Int) else (mag a : Nat)) :=
  ⟨sabs_eq a hl ha, toInt_eq_mag a hl ha⟩

/-! ## frontend: conditional assignment chains (`IF`, `ConditionalScope`) -/

/-- `x = d; IF (sel == k₁) x = a₁; IF (sel == k₂) x = a₂; …` (compare nodes feeding 2-input multiplexers) is the sequential
    program it spells: the **last** assignment whose `kⱼ` equals the selector wins — any chain length, repeated `k` included.
    (`hs`: the literals are `uint64_t` values that fit the selector, all assigned values have the width of `x`.) -/
theorem if_chain_correct (sel : BV4) (w : Nat) (steps : List (Nat × BV4)) (d : BV4) (hsel : sel.allDef = true) (hd : d.length = w)
    (hs : ∀ ka ∈ steps, ka.1 < 2 ^ 64 ∧ (uintLit ka.1).length ≤ sel.length ∧ ka.2.length = w) :
    ifChain .none sel d steps = .ok (Spec.ifChain sel d steps) :=
  ifChain_eq_spec sel w steps d hsel hd hs

/-- `x = d; IF (c₁) x = a₁; IF (c₂) x = a₂; …` with defined conditions: a later true condition overrides an earlier one -/
theorem if_prio_correct (w : Nat) (steps : List (BV4 × BV4)) (d : BV4) (hd : d.length = w)
    (hs : ∀ ca ∈ steps, (ca.1.bit 0).isDef = true ∧ ca.1.length = 1 ∧ ca.2.length = w) :
    ifPrio d steps = Spec.ifPrio d steps :=
  ifPrio_eq_spec w steps d hd hs

/-! ### non-vacuity: premises are satisfiable on non-trivial instances (a 65-bit and a 3-bit operand, sign policy) -/

example : Spec.norm .none .sign (ofNat 65 (2^64 + 5)) [.t, .f, .t] =
    some (ofNat 65 (2^64 + 5), [.t, .f, .t] ++ List.replicate 62 .t, 65) := by decide
example : (ofNat 65 (2^64 + 5)).allDef = true ∧ BV4.allDef [.t, .f, .t] = true := by decide
example : (Spec.shift .left .rotate [.t, .f, .f] 1) = [.f, .t, .f] := by decide
example : staticShift .right .last [.t, .f, .t] 7 = [.t, .t, .t] ∧ staticShift .left .rotate [.t, .f, .f] 4 = [.f, .t, .f] := ⟨rfl, rfl⟩
example : Spec.ifChain [.t, .f] [.f, .f] [(1, [.t, .f]), (2, [.f, .t]), (1, [.t, .t])] = [.t, .t] := by decide
example : smul .sign .none [.f, .t] [.t, .f, .f, .f] = .ok [.f, .t, .t, .t] ∧ toInt [.f, .t, .t, .t] = -2 := ⟨rfl, by decide⟩
example : slt [.f, .t] [.t, .f] = .ok [.t] ∧ toInt [.f, .t] = -2 ∧ toInt [.t, .f] = 1 := ⟨rfl, by decide, by decide⟩

end Gatery.C03.Props
