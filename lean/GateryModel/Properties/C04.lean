import GateryModel.C04.Tie
/-!
# C04 — property theorems

*A register changes only at the active edge of its own clock, taking the value its input had immediately before that edge if
enabled and not in reset, its reset value while reset is active (immediately for asynchronous reset, at the edge for synchronous
reset, honouring active level), and holding otherwise; all registers triggered at the same instant sample pre-edge values regardless
of clock domain. A clock of rational frequency f activates its registers exactly at the positive multiples of its period 1/f (of the
half period for dual-edge clocks), computed without rounding or drift, whatever other clocks exist.*

Model: `Sched/Sim.lean` (event queue, `advanceMicroTick` switch, phases, `powerOn`, `Node_Register` power-on/reset/evaluate/advance),
`Sched/Clock.lean` (derived clocks, pin sharing, reset pins), `Sched/Basic.lean` (`Event::operator<`). Time is `Rat`.
Specification: `C04/Spec.lean`. Proofs: `Sched/Order.lean`, `Sched/Step.lean`, `Sched/Frame.lean`, `C04/*.lean`.

Quantification: every program `P` (any number of clock pins with arbitrary positive rational frequencies, reset pins, clock domains
with any trigger/reset type/polarity, registers with or without reset value and enable, **arbitrary combinational functions**
`Net.dataIn/enIn` between them), every lawful process semantics `S` (C19 instantiates it; `ProcSem.none` for plain test benches),
every state reachable from power-on by steps of the event loop (`Steps`), which includes every intermediate state of every history of
test-bench API calls (`runOps_reachable`) — under *any* pop order of `std::priority_queue` among events of equal time.

Where `boost::rational<uint64_t>` would differ from `Rat`: `clockLess`/`clockMore` cross-multiply numerators and denominators in
`uint64_t` (ClockRational.h:30-37) and `operator+`/`operator/` of `boost::rational` multiply components after dividing by gcds; all
agree with `Rat` as long as every event time `j·q/(2·p)` (frequency `p/q`, edge number `j`) and every cross product
`num(t₁)·den(t₂)` of two queued event times stays below `2^64`. The theorems are stated over unbounded `Rat`; the generators of
`harness/c04.cpp` stay inside this range (p ≤ 1000000007, q ≤ 13, j ≤ a few thousand). Outside it nothing is claimed.
-/
namespace Gatery.C04.Props
open Gatery.Sched Gatery.C04
variable {π : Type}

/-! ### the event order -/

/-- `Event::operator<` is a strict weak order: irreflexive, transitive, and any two events are ordered unless they agree on
    (time, phase, micro tick, type, insertion id of resume events) -/
theorem event_order_strict (a b c : Event) :
    a.cppLt a = false ∧ (a.cppLt b = true → b.cppLt c = true → a.cppLt c = true) ∧
    (a.cppLt b = true ∨ b.cppLt a = true ∨ a.sameKey b) :=
  ⟨by simpa [Event.earlier] using earlier_irrefl a,
   fun h1 h2 => by simpa [Event.earlier] using earlier_trans (a := c) (b := b) (c := a) h2 h1,
   by rcases earlier_total a b with h | h | h
      · exact Or.inr (Or.inl h)
      · exact Or.inl h
      · exact Or.inr (Or.inr h)⟩

/-- on process-resume events with distinct insertion ids the order is total -/
theorem event_order_total_of_distinct_ids {a b : Event} (ha : a.type = .simProcResume) (hb : b.type = .simProcResume)
    (hne : a.insertionId ≠ b.insertionId) : a.cppLt b = true ∨ b.cppLt a = true := by
  rcases earlier_total_of_ids ha hb hne with h | h
  · exact Or.inr h
  · exact Or.inl h

/-- the executable model always handles an event that no queued event precedes -/
theorem pop_is_minimal {q : List Event} {m : Event} (h : minEvent q = some m) : m ∈ q ∧ ∀ e ∈ q, e.earlier m = false :=
  ⟨minEvent_mem h, minEvent_min h⟩

/-! ### reachability -/

/-- every state produced by power-on followed by any list of test-bench calls (`setPin`, `reevaluate`, `advanceEvent`, `advance d`)
    is reachable by steps of the event loop -/
theorem runOps_reachable (P : Prog) (S : ProcSem π) (hS : S.Lawful) (fuel : Nat) (pins0 : List Val) (ext : π) (ops : List ApiOp) :
    Steps P S (initState P pins0 ext) (runOps P S fuel pins0 ext ops) := runOps_steps P S hS fuel pins0 ext ops

/-! ### (a) registers -/

/-- INT_IN_RESET of every register is exactly "has a reset value ∧ its clock has a reset signal ∧ that signal is at the clock's
    active level" (active level honoured), and while that holds a register with asynchronous reset shows its reset value -/
theorem in_reset_iff_reset_active {P : Prog} {S : ProcSem π} (hwf : WF P) (hS : S.Lawful) (pins0 : List Val) (ext : π) {s : Sim π}
    (hr : Steps P S (initState P pins0 ext) s) (i : Nat) (hi : i < s.regs.length) :
    s.regs[i].inReset = specInReset (P.reg i) (P.regDom i) (level s (P.regDom i)) ∧
    (s.regs[i].inReset = true → (P.regDom i).rstType = .async → some s.regs[i].out = (P.reg i).rst) :=
  let inv := RegInv.reachable hwf hS pins0 ext hr
  ⟨inv.inReset i hi, inv.asyncHeld i hi⟩

/-- **reg_step**. In every reachable state, handling event `e` gives register `i` the output
    * `specEdge` (reset value if in reset, else latched D if enable = 1, unchanged if enable = 0, undefined if enable undefined)
      if `e` is a value change of the clock pin of `i`'s clock with an edge this clock triggers on,
    * its reset value if `e` drives the reset signal of `i`'s clock to the active level and the reset is asynchronous,
    * its old output otherwise. -/
theorem reg_step {P : Prog} {S : ProcSem π} (hwf : WF P) (hS : S.Lawful) (pins0 : List Val) (ext : π) {s : Sim π}
    (hr : Steps P S (initState P pins0 ext) s) (e : Event) (i : Nat) (hi : i < s.regs.length) :
    ∃ h' : i < (processEvent P S (s.dequeue e) e).regs.length,
    (processEvent P S (s.dequeue e) e).regs[i].out =
      if e.type = .clockValueChange ∧ (P.regDom i).pin = e.pin ∧ (P.regDom i).trig.activates e.flag = true then
        specEdge (P.reg i).rst (P.reg i).width (specInReset (P.reg i) (P.regDom i) (level s (P.regDom i)))
          s.regs[i].intEn s.regs[i].intData s.regs[i].out
      else if e.type = .resetValueChange ∧ (P.regDom i).rstPin = some e.pin ∧ (P.regDom i).rstType = .async ∧
          specInReset (P.reg i) (P.regDom i) e.flag = true then
        (P.reg i).rst.getD s.regs[i].out
      else s.regs[i].out :=
  Gatery.C04.reg_step hwf hS (RegInv.reachable hwf hS pins0 ext hr) e i hi

/-- the latched D/ENABLE are the values the inputs had when the network was last evaluated: after `reevaluate` every register holds
    `dataIn`/`enIn` of the current register outputs and pin values (unconnected D = undefined, unconnected ENABLE = 1) -/
theorem latched_after_reevaluate (P : Prog) (s : Sim π) : Latched P (reevaluate P s) := reevaluate_latched P s

/-- **a register changes at no other event**: a step of the event loop that changes the output of register `i` handled an event of
    the current simulation time that is an activating edge of `i`'s own clock or an asynchronous-reset assertion of `i`'s own reset. -/
theorem reg_changes_only_at_own_events {P : Prog} {S : ProcSem π} (hwf : WF P) (hS : S.Lawful) (pins0 : List Val) (ext : π)
    {s s' : Sim π} (hr : Steps P S (initState P pins0 ext) s) (st : MicroStep P S s s') (i : Nat) (hi : i < s.regs.length)
    (hch : s'.outs.getD i default ≠ s.outs.getD i default) :
    ∃ e ∈ s.queue, e.time = s.time ∧ s' = processEvent P S (s.dequeue e) e ∧
      ((e.type = .clockValueChange ∧ (P.regDom i).pin = e.pin ∧ (P.regDom i).trig.activates e.flag = true) ∨
       (e.type = .resetValueChange ∧ (P.regDom i).rstPin = some e.pin ∧ (P.regDom i).rstType = .async ∧
          specInReset (P.reg i) (P.regDom i) e.flag = true)) :=
  out_changes_only_at_own_events hwf hS (RegInv.reachable hwf hS pins0 ext hr) st i hi hch

/-! ### (b) two-phase update -/

/-- one call of `advanceMicroTick` is a sequence of handled events with no re-evaluation of the network in between -/
theorem micro_tick_is_events_only (P : Prog) (S : ProcSem π) (fuel : Nat) (s : Sim π) :
    ∃ evs, advanceMicroTick P S fuel s = runEvents P S s evs ∨
           advanceMicroTick P S fuel s = (runEvents P S s evs).fail "fuel:advanceMicroTick" :=
  advanceMicroTick_runEvents P S fuel s

/-- **pre-edge sampling across domains**: from a reachable state right after `reevaluate`, after the clock edges `evs` of one instant
    (distinct clock pins; any domains; any order) every register activated by one of them shows `specEdge` of its inputs evaluated on
    the register outputs and pins *from before all commits of the instant*; the others are unchanged. -/
theorem same_instant_sample_pre_edge {P : Prog} {S : ProcSem π} (hwf : WF P) (hS : S.Lawful) (pins0 : List Val) (ext : π)
    {s : Sim π} (hr : Steps P S (initState P pins0 ext) s) (hl : Latched P s)
    (evs : List Event) (hvc : ∀ e ∈ evs, e.type = .clockValueChange) (hnd : (evs.map (·.pin)).Nodup)
    (i : Nat) (hi : i < s.regs.length) :
    ∃ h' : i < (runEvents P S s evs).regs.length,
      (runEvents P S s evs).regs[i].out =
        if evs.any (hits P i) = true then
          specEdge (P.reg i).rst (P.reg i).width (specInReset (P.reg i) (P.regDom i) (level s (P.regDom i)))
            ((P.net.enIn s.outs s.pins i).getD .one) ((P.net.dataIn s.outs s.pins i).getD (.undef (P.reg i).width)) s.regs[i].out
        else s.regs[i].out :=
  Gatery.C04.same_instant_sample_pre_edge hwf hS (RegInv.reachable hwf hS pins0 ext hr) hl evs hvc hnd i hi

/-- **commit order irrelevance** (permutation theorem): the registers after the clock edges of one instant do not depend on the
    order in which the edges (hence the registers, hence the clock domains) are committed. Holds in every state. -/
theorem two_phase_order_irrelevant (P : Prog) (S : ProcSem π) (hS : S.Lawful) (evs evs' : List Event) (hp : evs.Perm evs')
    (hvc : ∀ e ∈ evs, e.type = .clockValueChange) (hnd : (evs.map (·.pin)).Nodup) (s : Sim π) :
    (runEvents P S s evs).regs = (runEvents P S s evs').regs :=
  commit_order_irrelevant P S hS evs evs' hp hvc hnd s

/-! ### (c) clocks -/

/-- **edges are exact**: in every reachable state the `onClock` observations of clock pin `p` (frequency `f`) are exactly the first
    `n` edges of an ideal clock: the `j`-th at time `j/(2f)`, levels alternating from the initial level — whatever else is in the
    queue, whatever order equal-time events are popped in. -/
theorem clock_edges_exact {P : Prog} {S : ProcSem π} (hwf : WF P) (hS : S.Lawful) (pins0 : List Val) (ext : π) {s : Sim π}
    (hr : Steps P S (initState P pins0 ext) s) (p : Nat) (hp : p < P.pins.length) :
    ∃ n, clockLog p s.log = (List.range n).map fun j => (edgeFlag P p (j+1), specEdgeTime (P.pinFreq p) (j+1)) := by
  obtain ⟨n, hl, _⟩ := (ClockInv.reachable hwf hS pins0 ext hr).pins p hp
  refine ⟨n, ?_⟩
  rw [hl]; unfold edgeList specEdgeTime
  apply List.map_congr_left
  intro j _
  rw [halfPeriod_mul]

/-- **clock_times_exact**: a clock with trigger `trig` on pin `p` whose edge is aligned with the pin (always the case for a clock
    that owns its pin, for dual-edge clocks, and for derived clocks triggering on the same edge as the pin source) has activated its
    registers exactly at the first `m` positive multiples of its period `1/f` (half period `1/(2f)` for dual edge). -/
theorem clock_times_exact {P : Prog} {S : ProcSem π} (hwf : WF P) (hS : S.Lawful) (pins0 : List Val) (ext : π) {s : Sim π}
    (hr : Steps P S (initState P pins0 ext) s) (p : Nat) (hp : p < P.pins.length) (trig : Trigger)
    (ha : edgeAligned (srcRising P p) trig = true) :
    ∃ m, activationTimes p trig s.log = (List.range m).map fun k => specActivationTime trig (P.pinFreq p) (k+1) := by
  obtain ⟨n, hl, _⟩ := (ClockInv.reachable hwf hS pins0 ext hr).pins p hp
  have e : activationTimes p trig s.log = actOf P p trig n := by unfold activationTimes actOf; rw [hl]
  by_cases hb : trig = .both
  · subst hb
    refine ⟨n, ?_⟩
    rw [e, actOf_both]
    apply List.map_congr_left
    intro k _
    simp only [specActivationTime, if_true]
    rw [halfPeriod_mul]
  · refine ⟨n / 2, ?_⟩
    rw [e, actOf_aligned ha hb]
    apply List.map_congr_left
    intro k _
    simp only [specActivationTime, if_neg hb]
    rw [halfPeriod_mul_even]

/-- the complementary case (a derived clock that shares the pin of its parent but triggers on the other edge): its activations are
    the *odd* multiples of the half period, `(k + 1/2)/f` — not the multiples of its period. The property statement's clause (c)
    fails literally for such clocks (reported by the check as `kind=activation-time … antialigned`). -/
theorem clock_times_antialigned {P : Prog} {S : ProcSem π} (hwf : WF P) (hS : S.Lawful) (pins0 : List Val) (ext : π) {s : Sim π}
    (hr : Steps P S (initState P pins0 ext) s) (p : Nat) (hp : p < P.pins.length) (trig : Trigger)
    (ha : edgeAligned (srcRising P p) trig = false) :
    ∃ m, activationTimes p trig s.log = (List.range m).map fun k => ((2 * k + 1 : Nat) : Rat) * halfPeriod P p := by
  obtain ⟨n, hl, _⟩ := (ClockInv.reachable hwf hS pins0 ext hr).pins p hp
  refine ⟨(n+1)/2, ?_⟩
  unfold activationTimes
  rw [hl]
  exact actOf_anti ha n

/-- derived clocks: sharing a clock pin never changes the frequency, so `P.pinFreq` of a clock's pin is the clock's own
    `absoluteFrequency` = parent × multiplier -/
theorem pin_frequency_is_clock_frequency (cs : ClockTree) (i : Nat) : cs.absFreq (cs.clockPinSource i) = cs.absFreq i :=
  pinSource_freq cs i

/-- derived clocks: what `deriveClock(cfg)` leaves unset is the parent's — in particular a derived clock without an explicit trigger
    event has the parent's active edge(s): it activates on exactly the edges of the shared or own pin on which the parent does;
    what the configuration sets is taken from the configuration. (The driver recomputes every derived clock of every generated tree
    with `deriveDecl` from the parent's reported attributes and the configuration the harness passed, `kind=derived-clock-attribute`.) -/
theorem derived_clock_inherits (pi : Nat) (parent : ClockDecl) (mul : Rat) (cfg : ClockCfg) :
    let d := deriveDecl pi parent mul cfg
    (cfg.trig = none → ∀ risingEdge, d.trig.activates risingEdge = parent.trig.activates risingEdge) ∧
    (∀ t, cfg.trig = some t → d.trig = t) ∧
    (cfg.rstType = none → d.rstType = parent.rstType) ∧ (∀ t, cfg.rstType = some t → d.rstType = t) ∧
    (cfg.activeHigh = none → d.activeHigh = parent.activeHigh) ∧ (∀ t, cfg.activeHigh = some t → d.activeHigh = t) ∧
    (cfg.name = none → d.name = parent.name) ∧ (cfg.resetName = none → d.resetName = parent.resetName) ∧
    (cfg.phaseSync = none → d.phaseSync = true) ∧ d.parent = some pi ∧ d.freqOrMul = mul := by
  refine ⟨fun h r => ?_, fun t h => ?_, fun h => ?_, fun t h => ?_, fun h => ?_, fun t h => ?_, fun h => ?_, fun h => ?_, fun h => ?_, rfl, rfl⟩ <;>
    simp [deriveDecl, h]

example : (deriveDecl 0 { parent := none, freqOrMul := 100, name := "clk", resetName := "rst", trig := .falling, phaseSync := false,
                          rstType := .sync, activeHigh := false, hasNodes := true } (1/2) { name := some "slow" }).trig = .falling := by decide

/-! ### non-vacuity -/

/-- a two-pin program: 3/2 Hz rising with synchronous active-high reset, 5/3 Hz dual-edge with asynchronous active-low reset;
    a feedback register in each domain sampling the other (`dataIn` swaps the two outputs) -/
def exProg : Prog :=
  { pins := [⟨3/2, true⟩, ⟨5/3, false⟩],
    rstPins := [⟨true, 2/3⟩, ⟨false, 3/5⟩],
    doms := [⟨0, some 0, .rising, .sync, true⟩, ⟨1, some 1, .both, .async, false⟩],
    net := { regs := [⟨0, 4, some ⟨4, 5, 15⟩⟩, ⟨1, 4, some ⟨4, 9, 15⟩⟩],
             dataIn := fun outs _ i => some (outs.getD (1 - i) default),
             enIn := fun _ pins i => if i = 0 then none else some (pins.getD 0 default).toTri } }

theorem exProg_wf : WF exProg := by
  refine ⟨?_, ?_, ?_, ?_⟩
  · intro p hp
    have : p = 0 ∨ p = 1 := by simp [exProg] at hp; omega
    rcases this with rfl | rfl <;> simp [exProg, Prog.pinFreq] <;> grind
  · rintro rp ⟨i, hi, hrp⟩
    have hi' : i = 0 ∨ i = 1 := by simp [exProg] at hi; omega
    rcases hi' with rfl | rfl <;> simp [exProg, Prog.regDom, Prog.reg, Prog.dom] at hrp <;> subst hrp <;>
      simp [exProg] <;> grind
  · intro di rp h
    rcases dom_cases exProg di with hm | hd
    · generalize exProg.dom di = d at hm h
      simp [exProg] at hm
      rcases hm with rfl | rfl <;> simp at h <;> subst h <;> decide
    · rw [hd] at h; cases h
  · intro di h
    rcases dom_cases exProg di with hm | hd
    · generalize exProg.dom di = d at hm h
      simp [exProg] at hm
      rcases hm with rfl | rfl <;> simp at h
    · rw [hd]; rfl

/-- the premises of the reachable-state theorems are satisfiable: the power-on state of `exProg` is reachable and two simultaneous
    clock edges on its two pins satisfy the premises of (b) -/
example : Steps exProg ProcSem.none (initState exProg [Val.undef 1] ()) (runOps exProg ProcSem.none 100 [Val.undef 1] () [.reevaluate, .advanceEvent]) :=
  runOps_reachable exProg ProcSem.none ProcSem.none_lawful 100 _ _ _

example : (∀ e ∈ [vcEv exProg 0 2, vcEv exProg 1 3], e.type = .clockValueChange) ∧
    (([vcEv exProg 0 2, vcEv exProg 1 3].map (·.pin)).Nodup) ∧ hits exProg 0 (vcEv exProg 0 2) = true := by
  refine ⟨?_, ?_, ?_⟩
  · intro e he; simp at he; rcases he with rfl | rfl <;> rfl
  · decide
  · simp [hits, vcEv, trigEv, exProg, Prog.regDom, Prog.dom, Prog.reg, edgeFlag, srcRising, Trigger.activates]

example : edgeAligned true .rising = true ∧ edgeAligned false .falling = true ∧ edgeAligned true .both = true ∧
    edgeAligned true .falling = false ∧ edgeAligned false .rising = false := by decide

end Gatery.C04.Props
