import GateryModel.C05.LemmasInit
import GateryModel.C05.Historical
/-!
# C05 — property theorems

"A design described with nested IF / ELSE / ELSEIF scopes, repeated assignments, partial (bit and slice, static and
dynamic index) assignments, defaults and signals read before their final assignment behaves like the same program
executed as sequential software on concrete values."

`build` (C05/Model.lean) follows the frontend code call by call (`ConditionalScope` constructor / destructor bookkeeping,
`Bit::assign` / `BaseBitVector::assign`, `BitVectorSlice` read-modify-write, `Node_Default`) and produces a netlist;
`run` is the sequential interpreter; `outputs ρ B` evaluates the final driver of every signal of the built design.
Statements only; the work is in `C05/Lemmas*.lean` (two inductions over programs: `build_dead`, `build_active`).

The class of programs is expressed by the success of the two functions: `build … = some B` (the frontend accepts the
program: types and widths fit, slices in bounds, every `ELSE…` has a preceding scope) and `run … = some env`
(every `ELSE` / `ELSEIF` / `ELSE IF` directly follows an `IF` / `ELSEIF` / `ELSE IF` at the same nesting level and every
*executed* dynamic index is in range).

History: until gatery commit ac19c14 the destructor `~ConditionalScope` compared node ports
(`m_lastConditionOnEntry != m_lastCondition`) and the full statement was false (`IF (a) … ELSE IF (a) … ELSE …`);
`C05_historical_portCompare_witness` keeps that fact for the old destructor (`buildOld`). The current code tests
`s_nextId != m_id + 1` and the full statement below holds without side condition.
-/
namespace Gatery.C05.Props
open Gatery.C05

/-- For all programs (any nesting depth, any chain length in either ELSEIF form, any selections), all input types and all typed
input valuations: if the frontend model accepts the program and the interpreter runs it, the built driver of *every* signal
evaluates to the interpreter's final value of that signal. -/
theorem C05_sequential (ins : List Ty) (p : Prog) (B : BState) (ρ env : List Val)
    (hb : build p (initState ins) = some B) (hρ : typedEnv ins ρ) (hr : run p ρ none = some env) :
    outputs ρ B = env :=
  outputs_eq_of_agree (build_top hb hρ hr).2

/-- Every read sees the value at its program point: after any program prefix `p`, an expression `e` evaluated through the
frontend (`buildExpr`) yields a node whose value is what the interpreter computes for `e` in its environment at that point,
with the static width. (Reads inside nested scopes are covered by the induction itself: `buildExpr_sound` is applied at every
statement of an executed block.) -/
theorem C05_reads_at_point (ins : List Ty) (p : Prog) (B : BState) (ρ env : List Val) (e : Expr)
    (ns : Nodes) (i : Nat) (t : Ty) (v : Val)
    (hb : build p (initState ins) = some B) (hρ : typedEnv ins ρ) (hr : run p ρ none = some env)
    (he : buildExpr B.sigs B.nodes e = some (ns, i, t)) (hv : evalE env e = some v) :
    valAt ρ ns i = v ∧ v.length = t.width :=
  let ⟨w, a⟩ := build_top hb hρ hr
  buildExpr_sound e _ _ _ _ v he a w.sigs hv

/-- A block whose enclosing full condition evaluates to false changes no signal declared outside it (frame property used for
every branch that is not taken; stated for arbitrary well-formed frontend states). -/
theorem C05_skipped_block_frame (ρ : List Val) (p : Prog) (B B' : BState) (top : Scope) (rest : List Scope)
    (hb : build p B = some B') (hw : WF B) (hs : B.scopes = top :: rest) (hd : valAt ρ B.nodes top.full = [false]) :
    Keeps ρ top.id B B' :=
  (build_dead p B B' top rest hb hw hs hd).2.2.1

/-! ### the former witness: `Bit x = '0'; IF (a) x = '1'; ELSE IF (a) x = '0'; ELSE x = '1';` -/

/-- input 0 = `a`; signal 1 = `x` -/
def witness : Prog :=
  .decl .bit (.const .bit [false])
    (.ifS (.read 0 []) (.assign 1 [] (.const .bit [true]) .done)
      (.elseIf2 (.read 0 []) (.assign 1 [] (.const .bit [false]) .done)
        (.elseS (.assign 1 [] (.const .bit [true]) .done) .done)))

/-- HISTORICAL (code before ac19c14, `buildOld` = port-comparing destructor): for `a = 0` the sequential program ends with
`x = 1` (the final ELSE runs) while the design built by the old frontend yields `x = 0`. -/
theorem C05_historical_portCompare_witness :
    (buildOld witness (initState [.bit])).map (outputsL [[false]]) = some [[false], [false]] ∧
    run witness [[false]] none = some [[false], [true]] := by decide

/-- the same program on the current code (instance of `C05_sequential`, evaluated) -/
example : (build witness (initState [.bit])).map (outputsL [[false]]) = run witness [[false]] none := by decide

/-! ### non-vacuity: the premises are satisfiable on non-trivial programs -/

-- inputs: a, b : Bit, v : UInt 4, i : UInt 2.
-- UInt y = v; Bit d = BitDefault('1');
-- IF (a) { y[i] = b; IF (b) { UInt t = y(1,2); y(0,2) = t; } ELSE { d = '0'; } } ELSEIF (b) { y.part(2,i(0,1))(0,1) = "1"; } ELSE IF (d) { y = y + v; } ELSE { y(i(0,1), 2) = "11"; }
def sample : Prog :=
  .decl (.uint 4) (.read 2 [])
  (.declDefault .bit [true]
  (.ifS (.read 0 [])
      (.assign 4 [.dynBit 3] (.read 1 [])
      (.ifS (.read 1 [])
          (.decl (.uint 2) (.read 4 [.slice 1 2]) (.assign 4 [.slice 0 2] (.read 6 []) .done))
      (.elseS (.assign 5 [] (.const .bit [false]) .done) .done)))
  (.elseifS (.read 1 [])
      (.decl (.uint 1) (.read 3 [.slice 0 1]) (.assign 4 [.dynPart 6 2, .slice 0 1] (.const (.uint 1) [true]) .done))
  (.elseIf2 (.read 5 [])
      (.assign 4 [] (.op2 .add (.read 4 []) (.read 2 [])) .done)
  (.elseS
      (.decl (.uint 1) (.read 3 [.slice 0 1]) (.assign 4 [.dynSlice 6 2] (.const (.uint 2) [true, true]) .done))
   .done)))))

def sampleIns : List Ty := [.bit, .bit, .uint 4, .uint 2]

example : (build sample (initState sampleIns)).isSome = true := by decide
example : typedEnv sampleIns [[true], [true], [false, true, true, false], [true, false]] := by decide
example : (run sample [[true], [true], [false, true, true, false], [true, false]] none).isSome = true := by decide
example : (run sample [[false], [false], [false, true, true, false], [true, true]] none).isSome = true := by decide
-- and the theorem's conclusion can be observed on it (through the kernel-evaluable twin of `outputs`)
example : (build sample (initState sampleIns)).map (outputsL [[false], [false], [false, true, true, false], [true, true]]) =
    run sample [[false], [false], [false, true, true, false], [true, true]] none := by decide
-- a two-scope ELSE IF on the same port as the preceding IF is accepted and runs
example : (build witness (initState [.bit])).isSome = true ∧ (run witness [[true]] none).isSome = true := by decide

end Gatery.C05.Props
