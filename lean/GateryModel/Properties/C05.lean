import GateryModel.C05.LemmasInit
/-!
# C05 — property theorems

"A design described with nested IF / ELSE / ELSEIF scopes, repeated assignments, partial (bit and slice, static and
dynamic index) assignments, defaults and signals read before their final assignment behaves like the same program
executed as sequential software on concrete values."

`build` (C05/Model.lean) follows the frontend code call by call (`ConditionalScope` constructor / destructor bookkeeping,
`Bit::assign` / `BaseBitVector::assign`, `BitVectorSlice` read-modify-write, `Node_Default`) and produces a netlist;
`run` is the sequential interpreter; `outputs ρ B` evaluates the final driver of every signal of the built design.
Statements only; the work is in `C05/Lemmas*.lean` (two inductions over programs: `build_dead`, `build_active`).

The class of programs is expressed by the success of the two functions: `build … = some B` (the frontend accepts the
program: types and widths fit, slices in bounds, every `ELSE…` has a preceding scope) and `run … = some env`
(every `ELSE` / `ELSEIF` / `ELSE IF` directly follows an `IF` / `ELSEIF` / `ELSE IF` at the same nesting level and every
*executed* dynamic index is in range).

**The full statement does not hold for the code as it exists**: `C05_sequential_fails` below. The destructor
`~ConditionalScope` (ConditionalScope.cpp:93-111) decides "a nested scope closed inside this ELSE" by comparing node ports
(`m_lastConditionOnEntry != m_lastCondition`); in the two-scope form `IF (a) … ELSE IF (a) … ELSE …` with the *same port* as
condition that test is false although the inner IF did close, and every later branch of the chain gets the wrong condition.
The model records exactly that event in the ghost flag `BState.clash`; the theorems marked `_partial` hold whenever the flag
stayed down, i.e. for every program in which no `ELSE IF (c)` is written with a condition that is the very node port of the
chain's previous condition — in particular (`C05_sequential_macro_form`) for all programs that use the `ELSEIF` macro.

/- full statement (false, see `C05_sequential_fails`):
theorem C05_sequential (ins : List Ty) (p : Prog) (B : BState) (ρ env : List Val)
    (hb : build p (initState ins) = some B) (hρ : typedEnv ins ρ) (hr : run p ρ none = some env) : outputs ρ B = env -/
-/
namespace Gatery.C05.Props
open Gatery.C05

/-- For all programs (any nesting depth, any chain length, any selections), all input types and all typed input valuations:
if the frontend model accepts the program without an `ELSE IF` port clash and the interpreter runs it, the built driver of
*every* signal evaluates to the interpreter's final value of that signal. -/
theorem C05_sequential_partial (ins : List Ty) (p : Prog) (B : BState) (ρ env : List Val)
    (hb : build p (initState ins) = some B) (hc : B.clash = false)
    (hρ : typedEnv ins ρ) (hr : run p ρ none = some env) :
    outputs ρ B = env :=
  outputs_eq_of_agree (build_top hb hc hρ hr).2

/-- Every read sees the value at its program point: after any program prefix `p`, an expression `e` evaluated through the
frontend (`buildExpr`) yields a node whose value is what the interpreter computes for `e` in its environment at that point,
with the static width. (Reads inside nested scopes are covered by the induction itself: `buildExpr_sound` is applied at every
statement of an executed block.) -/
theorem C05_reads_at_point_partial (ins : List Ty) (p : Prog) (B : BState) (ρ env : List Val) (e : Expr)
    (ns : Nodes) (i : Nat) (t : Ty) (v : Val)
    (hb : build p (initState ins) = some B) (hc : B.clash = false)
    (hρ : typedEnv ins ρ) (hr : run p ρ none = some env)
    (he : buildExpr B.sigs B.nodes e = some (ns, i, t)) (hv : evalE env e = some v) :
    valAt ρ ns i = v ∧ v.length = t.width :=
  let ⟨w, a⟩ := build_top hb hc hρ hr
  buildExpr_sound e _ _ _ _ v he a w.sigs hv

/-- The class "ELSEIF macro form only": no side condition on ports at all. -/
theorem C05_sequential_macro_form (ins : List Ty) (p : Prog) (B : BState) (ρ env : List Val)
    (hm : noElseIf2 p = true)
    (hb : build p (initState ins) = some B) (hρ : typedEnv ins ρ) (hr : run p ρ none = some env) :
    outputs ρ B = env :=
  C05_sequential_partial ins p B ρ env hb (by rw [build_noElseIf2_clash p _ _ hm hb]; rfl) hρ hr

/-- A block whose enclosing full condition evaluates to false changes no signal declared outside it (frame property used for
every branch that is not taken; stated for arbitrary reachable frontend states). -/
theorem C05_skipped_block_frame (ρ : List Val) (p : Prog) (B B' : BState) (top : Scope) (rest : List Scope)
    (hb : build p B = some B') (hw : WF B) (hs : B.scopes = top :: rest) (hd : valAt ρ B.nodes top.full = [false]) :
    Keeps ρ top.id B B' :=
  (build_dead p B B' top rest hb hw hs hd).2.2.1

/-! ### the witness: `Bit x = '0'; IF (a) x = '1'; ELSE IF (a) x = '0'; ELSE x = '1';` -/

/-- input 0 = `a`; signal 1 = `x` -/
def witness : Prog :=
  .decl .bit (.const .bit [false])
    (.ifS (.read 0 []) (.assign 1 [] (.const .bit [true]) .done)
      (.elseIf2 (.read 0 []) (.assign 1 [] (.const .bit [false]) .done)
        (.elseS (.assign 1 [] (.const .bit [true]) .done) .done)))

/-- for `a = 0` the sequential program ends with `x = 1` (the final ELSE runs); the built design yields `x = 0` -/
theorem C05_twoScopeElseIf_witness :
    (build witness (initState [.bit])).map (outputs [[false]]) = some [[false], [false]] ∧
    run witness [[false]] none = some [[false], [true]] ∧
    (build witness (initState [.bit])).map (·.clash) = some true := by
  refine ⟨?_, by decide, by decide⟩
  have h : (build witness (initState [.bit])).map (outputsL [[false]]) = some [[false], [false]] := by decide
  rw [← h]
  congr 1
  funext B
  exact outputs_eq_outputsL _ B

/-- the same program text with the `ELSEIF` macro behaves sequentially (and is covered by `C05_sequential_macro_form`) -/
def witnessMacro : Prog :=
  .decl .bit (.const .bit [false])
    (.ifS (.read 0 []) (.assign 1 [] (.const .bit [true]) .done)
      (.elseifS (.read 0 []) (.assign 1 [] (.const .bit [false]) .done)
        (.elseS (.assign 1 [] (.const .bit [true]) .done) .done)))

/-- The full statement (without the no-clash premise) is false for the code as it exists. -/
theorem C05_sequential_fails :
    ¬ ∀ (ins : List Ty) (p : Prog) (B : BState) (ρ env : List Val),
        build p (initState ins) = some B → typedEnv ins ρ → run p ρ none = some env → outputs ρ B = env := by
  intro h
  have hb : ∃ B, build witness (initState [.bit]) = some B ∧ outputs [[false]] B = [[false], [false]] := by
    cases hB : build witness (initState [.bit]) with
    | none => have := C05_twoScopeElseIf_witness.1; rw [hB] at this; cases this
    | some B => have := C05_twoScopeElseIf_witness.1; rw [hB] at this; exact ⟨B, rfl, by simpa using this⟩
  obtain ⟨B, h1, h2⟩ := hb
  have := h [.bit] witness B [[false]] [[false], [true]] h1 (by decide) C05_twoScopeElseIf_witness.2.1
  rw [h2] at this
  cases this

/-! ### non-vacuity: the premises are satisfiable on non-trivial programs -/

-- inputs: a, b : Bit, v : UInt 4, i : UInt 2.
-- UInt y = v; Bit d = BitDefault('1');
-- IF (a) { y[i] = b; IF (b) { UInt t = y(1,2); y(0,2) = t; } ELSE { d = '0'; } } ELSEIF (b) { y.part(2,i(0,1))(0,1) = "1"; } ELSE IF (d) { y = y + v; } ELSE { y(i(0,1), 2) = "11"; }
def sample : Prog :=
  .decl (.uint 4) (.read 2 [])
  (.declDefault .bit [true]
  (.ifS (.read 0 [])
      (.assign 4 [.dynBit 3] (.read 1 [])
      (.ifS (.read 1 [])
          (.decl (.uint 2) (.read 4 [.slice 1 2]) (.assign 4 [.slice 0 2] (.read 6 []) .done))
      (.elseS (.assign 5 [] (.const .bit [false]) .done) .done)))
  (.elseifS (.read 1 [])
      (.decl (.uint 1) (.read 3 [.slice 0 1]) (.assign 4 [.dynPart 6 2, .slice 0 1] (.const (.uint 1) [true]) .done))
  (.elseIf2 (.read 5 [])
      (.assign 4 [] (.op2 .add (.read 4 []) (.read 2 [])) .done)
  (.elseS
      (.decl (.uint 1) (.read 3 [.slice 0 1]) (.assign 4 [.dynSlice 6 2] (.const (.uint 2) [true, true]) .done))
   .done)))))

def sampleIns : List Ty := [.bit, .bit, .uint 4, .uint 2]

example : (build sample (initState sampleIns)).map (·.clash) = some false := by decide
example : typedEnv sampleIns [[true], [true], [false, true, true, false], [true, false]] := by decide
example : (run sample [[true], [true], [false, true, true, false], [true, false]] none).isSome = true := by decide
example : (run sample [[false], [false], [false, true, true, false], [true, true]] none).isSome = true := by decide
-- and the theorem's conclusion can be observed on it (through the kernel-evaluable twin of `outputs`)
example : (build sample (initState sampleIns)).map (outputsL [[false], [false], [false, true, true, false], [true, true]]) =
    run sample [[false], [false], [false, true, true, false], [true, true]] none := by decide
example : noElseIf2 witnessMacro = true ∧ (build witnessMacro (initState [.bit])).isSome = true ∧
    (run witnessMacro [[false]] none).isSome = true := by decide
-- a skipped block exists: premises of `C05_skipped_block_frame` (checked by evaluation on the sample inside `build_dead`'s use)
example : (build witness (initState [.bit])).isSome = true := by decide

end Gatery.C05.Props
