import GateryModel.C05.LemmasInit
import GateryModel.C05.Historical
import GateryModel.C05.LemmasX
import GateryModel.C05.LemmasSel
/-!
# C05 — property theorems

"A design described with nested IF / ELSE / ELSEIF scopes, repeated assignments, partial (bit and slice, static and
dynamic index) assignments, defaults and signals read before their final assignment behaves like the same program
executed as sequential software on concrete values."

`build` (C05/Model.lean) follows the frontend code call by call (`ConditionalScope` constructor / destructor bookkeeping,
`Bit::assign` / `BaseBitVector::assign`, `BitVectorSlice` read-modify-write, `Node_Default`) and produces a netlist;
`run` is the sequential interpreter; `outputs ρ B` evaluates the final driver of every signal of the built design.
Statements only; the work is in `C05/Lemmas*.lean` (two inductions over programs: `build_dead`, `build_active`).

The class of programs is expressed by the success of the two functions: `build … = some B` (the frontend accepts the
program: types and widths fit, slices in bounds, every `ELSE…` has a preceding scope) and `run … = some env`
(every `ELSE` / `ELSEIF` / `ELSE IF` directly follows an `IF` / `ELSEIF` / `ELSE IF` at the same nesting level and every
*executed* dynamic index is in range).

History: until gatery commit ac19c14 the destructor `~ConditionalScope` compared node ports
(`m_lastConditionOnEntry != m_lastCondition`) and the full statement was false (`IF (a) … ELSE IF (a) … ELSE …`);
`C05_historical_portCompare_witness` keeps that fact for the old destructor (`buildOld`). The current code tests
`s_nextId != m_id + 1` and the full statement below holds without side condition.
-/
namespace Gatery.C05.Props
open Gatery.C05

/-- For all programs (any nesting depth, any chain length in either ELSEIF form, any selections), all input types and all typed
input valuations: if the frontend model accepts the program and the interpreter runs it, the built driver of *every* signal
evaluates to the interpreter's final value of that signal. -/
theorem C05_sequential (ins : List Ty) (p : Prog) (B : BState) (ρ env : List Val)
    (hb : build p (initState ins) = some B) (hρ : typedEnv ins ρ) (hr : run p ρ none = some env) :
    outputs ρ B = env :=
  outputs_eq_of_agree (build_top hb hρ hr).2

/-- Every read sees the value at its program point: after any program prefix `p`, an expression `e` evaluated through the
frontend (`buildExpr`) yields a node whose value is what the interpreter computes for `e` in its environment at that point,
with the static width. (Reads inside nested scopes are covered by the induction itself: `buildExpr_sound` is applied at every
statement of an executed block.) -/
theorem C05_reads_at_point (ins : List Ty) (p : Prog) (B : BState) (ρ env : List Val) (e : Expr)
    (ns : Nodes) (i : Nat) (t : Ty) (v : Val)
    (hb : build p (initState ins) = some B) (hρ : typedEnv ins ρ) (hr : run p ρ none = some env)
    (he : buildExpr B.sigs B.nodes e = some (ns, i, t)) (hv : evalE env e = some v) :
    valAt ρ ns i = v ∧ v.length = t.width :=
  let ⟨w, a⟩ := build_top hb hρ hr
  buildExpr_sound e _ _ _ _ v he a w.sigs hv

/-- A block whose enclosing full condition evaluates to false changes no signal declared outside it (frame property used for
every branch that is not taken; stated for arbitrary well-formed frontend states). -/
theorem C05_skipped_block_frame (ρ : List Val) (p : Prog) (B B' : BState) (top : Scope) (rest : List Scope)
    (hb : build p B = some B') (hw : WF B) (hs : B.scopes = top :: rest) (hd : valAt ρ B.nodes top.full = [false]) :
    Keeps ρ top.id B B' :=
  (build_dead p B B' top rest hb hw hs hd).2.2.1

/-! ### `Selection` forms (`x(Selection::Range(2, -1)) = e`, negative starts / ends count from the top)

`Sel.sel` is part of the core AST: `C05_sequential` above covers reads and conditional assignments through every `Selection` form.
`Selection.resolve` follows `BitVectorSliceStatic`'s constructor as written; the theorems below say what the forms mean, that an accepted
selection lies inside its parent, and that an assignment through it changes exactly the selected bits. -/

/-- `Selection::Range(s, -n)`, `s ≥ 0`: offset `s`, width `W - n - s` (bits `s … W-n-1`), for every parent width. -/
theorem C05_selection_range_negative_end (s n W : Nat) (h0 : 0 < s + n) (h : s + n ≤ W) :
    (SelForm.range s (-(n : Int))).toSelection.resolve W = some (s, W - n - s) :=
  resolve_range_negEnd s n W h0 h

/-- `Selection::RangeIncl(s, -n)`, `s ≥ 0`, `s + n ≥ 2`: offset `s`, width `W + 1 - n - s` (bits `s … W-n`). -/
theorem C05_selection_rangeIncl_negative_end (s n W : Nat) (h0 : 2 ≤ s + n) (h : s + n ≤ W + 1) :
    (SelForm.rangeIncl s (-(n : Int))).toSelection.resolve W = some (s, W + 1 - n - s) :=
  resolve_rangeIncl_negEnd s n W h0 h

/-- `Selection::From(-k)`: the top `k` bits; `Selection::Range(-k, -n)`: bits `W-k … W-n-1`. -/
theorem C05_selection_negative_start (k n W : Nat) (h0 : n < k) (h : k ≤ W) :
    (SelForm.from (-(k : Int))).toSelection.resolve W = some (W - k, k) ∧
    (SelForm.range (-(k : Int)) (-(n : Int))).toSelection.resolve W = some (W - k, k - n) :=
  ⟨resolve_from_neg k W (by omega) h, resolve_range_negBoth k n W h0 h⟩

/-- A selection the frontend model accepts lies inside its parent (and is the resolved one). -/
theorem C05_selection_inside_parent (sigs : List Sig) (W : Nat) (f : SelForm) (g : SelG) (h : selGeom sigs W (.sel f) = some g) :
    ∃ off w, f.toSelection.resolve W = some (off, w) ∧ g = .stat off w (.uint w) ∧ off + w ≤ W ∧ off < W :=
  selGeom_sel_inside h

/-- `x(sel) = v` (sequential semantics, to which `C05_sequential` ties the built design): the result has the parent's width and
differs from the old value exactly in the selected bits, which become `v`. -/
theorem C05_selection_assign_exact (env : List Val) (cur v : Val) (f : SelForm) (off w : Nat)
    (hr : f.toSelection.resolve cur.length = some (off, w)) (hb : off + w ≤ cur.length) (hv : v.length = w) :
    ∃ r, writePath env cur [.sel f] v = some r ∧ r.length = cur.length ∧
      ∀ i, r[i]? = if off ≤ i ∧ i < off + w then v[i - off]? else cur[i]? :=
  writeSel_exact env cur v f off w hr hb hv

-- non-vacuity: UInt y = v (8 bit); IF (a) y(Selection::Range(2, -1)) = "b10101"; accepted, runs, only bits 2..6 change
def selSample : Prog :=
  .decl (.uint 8) (.read 1 []) (.ifS (.read 0 []) (.assign 2 [.sel (.range 2 (-1))] (.const (.uint 5) [true, false, true, false, true]) .done) .done)
example : (build selSample (initState [.bit, .uint 8])).isSome = true ∧
    run selSample [[true], [false, false, false, false, false, false, false, true]] none =
      some [[true], [false, false, false, false, false, false, false, true], [false, false, true, false, true, false, true, true]] := by decide

/-! ### width-less variables (integer literals, `zext` / `oext`): statement-level theorems

`C05_sequential` is about `build` / `run`, which do not accept the `IStmt` statements; programs with such statements are modelled by
`buildX` / `runX` (C05/ModelX.lean, sequential semantics on integers) and tied to the code by the correspondence check. The two
theorems below cover the part of `BaseBitVector::assign` that is specific to them.
/- not proved (correspondence only): the program-level statement
theorem C05_sequential_extended (hb : buildX p (initX ins) = some X) (hr : runX p ⟨ρ, [], []⟩ true none = some s) :
    outputs ρ X.core = s.env ∧ (outputsI ρ X).map (fun kv => ival kv.1 kv.2) = s.ienv.map (fun kv => ival kv.1 kv.2) ∧ outputsObs ρ X = s.obs -/
-/

/-- Padding a value at the MSB side with the variable's own expansion policy (zero / sign / one) - what the frontend does to the OLD
value when a wider one is assigned inside a scope, and to a narrower operand of an assignment or comparison - preserves the integer the
bits stand for; for every kind, target width and value (at least one bit for `SInt`). -/
theorem C05_int_padding_preserves_integer (k : IKind) (w : Nat) (v : Val) (hv : k = .s → v ≠ []) :
    ival k (padTo k.pol w v) = ival k v :=
  ival_padTo k w v hv

/-- One assignment to a width-less variable inside a conditional scope whose full condition evaluates to `c`, for all widths, kinds
and values: the variable's width becomes the maximum, its bits have that width, and they stand for the new integer if `c` and for the
old integer otherwise. -/
theorem C05_int_conditional_assign (ρ : List Val) (X X' : XState) (x inn wi : Nat) (pi : Pol) (s : ISig) (sc : Scope)
    (rest : List Scope) (c : Bool) (vold vnew : Val)
    (h : assignInt X x inn wi pi = some X') (hs : X.ivars[x]? = some s)
    (hsc : X.core.scopes = sc :: rest) (hgt : sc.id > s.initScope)
    (hfull : sc.full < X.core.nodes.size) (hc : valAt ρ X.core.nodes sc.full = [c])
    (hinn : inn < X.core.nodes.size) (hold : s.driver < X.core.nodes.size)
    (hvn : valAt ρ X.core.nodes inn = vnew) (hln : vnew.length = wi)
    (hvo : valAt ρ X.core.nodes s.driver = vold) (hlo : vold.length = s.width)
    (hw1 : 1 ≤ s.width) (hw2 : 1 ≤ wi) :
    ∃ s', X'.ivars[x]? = some s' ∧ s'.kind = s.kind ∧ s'.width = max wi s.width ∧
      (valAt ρ X'.core.nodes s'.driver).length = s'.width ∧
      ival s.kind (valAt ρ X'.core.nodes s'.driver) = if c then ival s.kind vnew else ival s.kind vold :=
  assignInt_conditional X X' x inn wi pi s sc rest c vold vnew h hs hsc hgt hfull hc hinn hold hvn hln hvo hlo hw1 hw2

-- non-vacuity: `SInt t{-3}; IF (a) t = 100;` is accepted, runs, and (a = 0) the padded old value still stands for -3
def intSample : Prog :=
  .istmt (.declLit .s (-3)) (.ifS (.read 0 []) (.istmt (.assignLit 0 100) .done) .done)
example : (buildX intSample (initX [.bit])).isSome = true ∧
    (runX intSample ⟨[[false]], [], []⟩ true none).map (fun r => r.ienv.map fun kv => ival kv.1 kv.2) = some [-3] := by decide
example : ival .s (padTo IKind.s.pol 8 [true, false, true]) = -3 := by decide

/-! ### enable scopes (`ENIF`, and the `EnableScope` every conditional scope carries): registers and memory writes

`reg()` and `mem[a] = d` take `EnableScope::get()->getFullEnableCondition()` as (write) enable. The model keeps the enable-scope stack
(`XState.ens`, `pushEn` = `EnableScope::setEnable`); sequential semantics: the update happens iff every enclosing condition holds. -/

/-- For any nesting depth `n ≥ 1` and any conditions: after constructing `n` enable scopes one inside the other (conditions `cs`,
outermost first; nodes may be created in between), the accumulated enable of the innermost scope - the enable of a register or memory
write port created there - evaluates to the conjunction of all `n` conditions. Induction over the scope stack (`pushEn_inv`). -/
theorem C05_enable_is_conjunction (ρ : List Val) (ns : Nodes) (cs : List Nat) (hv : ∀ c ∈ cs, c < ns.size) (hne : cs ≠ []) :
    ∃ e rest, (pushAll ns [] cs).2 = e :: rest ∧
      truthy (valAt ρ (pushAll ns [] cs).1 e.full) = cs.all (fun c => truthy (valAt ρ ns c)) :=
  enable_is_conjunction ns cs hv hne

/-- The induction step, usable in any reachable state: if every entry of the stack evaluates to the conjunction of the conditions
from itself downwards (`EnInv`), it still does after one more `EnableScope` is constructed, and existing nodes keep their values. -/
theorem C05_enable_push_step (ρ : List Val) (ns : Nodes) (ens : List EnS) (cond : Nat) (h : EnInv ρ ns ens) (hc : cond < ns.size) :
    Ext ns (pushEn ns ens cond).1 ∧ EnInv ρ (pushEn ns ens cond).1 (pushEn ns ens cond).2 :=
  pushEn_inv ns ens cond h hc

-- non-vacuity: ENIF (a) ENIF (b) IF (c) { reg(d) } - accepted, runs, and the update flag is a ∧ b ∧ c
def enSample : Prog :=
  .enif (.read 0 []) (.enif (.read 1 []) (.ifS (.read 2 []) (.istmt (.reg (.read 3 [])) .done) .done) .done) .done
example : (buildX enSample (initX [.bit, .bit, .bit, .uint 2])).isSome = true ∧
    (runX enSample ⟨[[true], [true], [true], [true, false]], [], []⟩ true none).map (·.obs) = some [true] ∧
    (runX enSample ⟨[[false], [true], [true], [true, false]], [], []⟩ true none).map (·.obs) = some [false] := by decide

/-! ### the former witness: `Bit x = '0'; IF (a) x = '1'; ELSE IF (a) x = '0'; ELSE x = '1';` -/

/-- input 0 = `a`; signal 1 = `x` -/
def witness : Prog :=
  .decl .bit (.const .bit [false])
    (.ifS (.read 0 []) (.assign 1 [] (.const .bit [true]) .done)
      (.elseIf2 (.read 0 []) (.assign 1 [] (.const .bit [false]) .done)
        (.elseS (.assign 1 [] (.const .bit [true]) .done) .done)))

/-- HISTORICAL (code before ac19c14, `buildOld` = port-comparing destructor): for `a = 0` the sequential program ends with
`x = 1` (the final ELSE runs) while the design built by the old frontend yields `x = 0`. -/
theorem C05_historical_portCompare_witness :
    (buildOld witness (initState [.bit])).map (outputsL [[false]]) = some [[false], [false]] ∧
    run witness [[false]] none = some [[false], [true]] := by decide

/-- the same program on the current code (instance of `C05_sequential`, evaluated) -/
example : (build witness (initState [.bit])).map (outputsL [[false]]) = run witness [[false]] none := by decide

/-! ### non-vacuity: the premises are satisfiable on non-trivial programs -/

-- inputs: a, b : Bit, v : UInt 4, i : UInt 2.
-- UInt y = v; Bit d = BitDefault('1');
-- IF (a) { y[i] = b; IF (b) { UInt t = y(1,2); y(0,2) = t; } ELSE { d = '0'; } } ELSEIF (b) { y.part(2,i(0,1))(0,1) = "1"; } ELSE IF (d) { y = y + v; } ELSE { y(i(0,1), 2) = "11"; }
def sample : Prog :=
  .decl (.uint 4) (.read 2 [])
  (.declDefault .bit [true]
  (.ifS (.read 0 [])
      (.assign 4 [.dynBit 3] (.read 1 [])
      (.ifS (.read 1 [])
          (.decl (.uint 2) (.read 4 [.slice 1 2]) (.assign 4 [.slice 0 2] (.read 6 []) .done))
      (.elseS (.assign 5 [] (.const .bit [false]) .done) .done)))
  (.elseifS (.read 1 [])
      (.decl (.uint 1) (.read 3 [.slice 0 1]) (.assign 4 [.dynPart 6 2, .slice 0 1] (.const (.uint 1) [true]) .done))
  (.elseIf2 (.read 5 [])
      (.assign 4 [] (.op2 .add (.read 4 []) (.read 2 [])) .done)
  (.elseS
      (.decl (.uint 1) (.read 3 [.slice 0 1]) (.assign 4 [.dynSlice 6 2] (.const (.uint 2) [true, true]) .done))
   .done)))))

def sampleIns : List Ty := [.bit, .bit, .uint 4, .uint 2]

example : (build sample (initState sampleIns)).isSome = true := by decide
example : typedEnv sampleIns [[true], [true], [false, true, true, false], [true, false]] := by decide
example : (run sample [[true], [true], [false, true, true, false], [true, false]] none).isSome = true := by decide
example : (run sample [[false], [false], [false, true, true, false], [true, true]] none).isSome = true := by decide
-- and the theorem's conclusion can be observed on it (through the kernel-evaluable twin of `outputs`)
example : (build sample (initState sampleIns)).map (outputsL [[false], [false], [false, true, true, false], [true, true]]) =
    run sample [[false], [false], [false, true, true, false], [true, true]] none := by decide
-- a two-scope ELSE IF on the same port as the preceding IF is accepted and runs
example : (build witness (initState [.bit])).isSome = true ∧ (run witness [[true]] none).isSome = true := by decide

end Gatery.C05.Props
