import GateryModel.C06.Lemmas
/-!
# C06 — property theorems

*After retiming, a design with pipeline hints behaves at every output like the same design without hints in which each input of
a balance group is delayed by N explicit registers carrying the group's reset value and stall condition, N being the stage count
the group reports and the same for all its inputs, so no operation ever combines values from different cycles: in every cycle
when the pipelined region is stateless or its state does not depend on the grouped inputs, and from the cycle the pipeline has
filled when the region contains feed-forward registers. Retiming registers that were explicitly marked movable (forward or
backward, including into memory read ports) and resolving negative registers changes no output in any cycle, including the cycles
directly after reset.*

Model: `C06/Model.lean`. Signals are streams (`Nat → α`, any value type: the theorems hold for four-state vectors as well),
`regS en r s` is `Node_Register`, `delayN` is the chain of registers a spawner / the reference twin puts on one group input,
`hold` is `buildHoldingCircuit`, `Ckt` is a register tree (unfolded DAG) with arbitrary combinational functions at the nodes,
`Mealy` a region with internal registers that advances only at enabled edges. What the *planner* selects
(`determineAreaToBeRetimedForward/Backward`) is not modelled: its result is validated per design by `checks/c06.py`
(post-processed design vs. reference twin, model `latency` of the dumped register graph vs. reported stage count).

All theorems: every value type, every combinational function, every enable (stall) stream, every input stream, every reset
value, every cycle `t`, every number of stages.
-/
namespace Gatery.C06.Props
open Gatery.C06

variable {α β γ ι σ ο : Type}

/-- (a) The step `retimeForwardToOutput` performs: registers (common enable `en`, reset values `r`) on all inputs of a
combinational region `f` are replaced by one register behind it whose reset value is `f r` ("new reset = f(old resets)").
The output stream is the same in every cycle. -/
theorem retime_forward (f : (ι → α) → β) (en : Stream Bool) (r : ι → α) (xs : ι → Stream α) (t : Nat) :
    regS en (f r) (fun u => f (fun i => xs i u)) t = f (fun i => regS en (r i) (xs i) t) :=
  retime_forward_vec f en r xs t

example : regS (fun t => t % 3 != 1) ((fun ρ : Bool → Nat => ρ true + 2 * ρ false) (fun _ => 7))
      (fun u => (fun ρ : Bool → Nat => ρ true + 2 * ρ false) (fun i => if i then u else u * u)) 5 = 3 + 2 * 9 := by decide

/-- (a') Enable-condition splitting: input registers whose own enable `e i` is stricter than the retiming enable `en`
(`e i → en`) are replaced by holding circuits; the new output register uses `en`. Same output in every cycle. -/
theorem retime_forward_split (f : (ι → α) → β) (en : Stream Bool) (e : ι → Stream Bool)
    (himp : ∀ i t, e i t = true → en t = true) (r : ι → α) (xs : ι → Stream α) (t : Nat) :
    regS en (f r) (fun u => f (fun i => hold (e i) (r i) (xs i) u)) t = f (fun i => regS (e i) (r i) (xs i) t) :=
  retime_forward_split_vec f en e himp r xs t

example : ∃ (en e : Stream Bool), (∀ t, e t = true → en t = true) ∧ (∃ t, en t = true ∧ e t = false) :=
  ⟨fun _ => true, fun t => t % 2 == 0, by intro t _; rfl, 1, by decide⟩

/-- (a'') With an arbitrary reset value on the new register (e.g. none at all) the streams agree once one enabled edge has passed. -/
theorem retime_forward_filled (f : (ι → α) → β) (en : Stream Bool) (r0 : β) (r : ι → α) (xs : ι → Stream α) (t : Nat)
    (h : 1 ≤ cnt en t) :
    regS en r0 (fun u => f (fun i => xs i u)) t = f (fun i => regS en (r i) (xs i) t) := by
  rw [← retime_forward_vec f en r xs t]
  exact regS_agree en 0 _ _ r0 (f r) (fun _ _ => rfl) t h

/-- (c) `retimeBackwardtoOutput`: the register behind `f` (reset value `r0`, enable `en`) is replaced by registers on all inputs
(any reset values `r`) and a multiplexer, selected by the delayed-reset register, that shows `r0` until the first enabled edge. -/
theorem retime_backward (f : (ι → α) → β) (en : Stream Bool) (r0 : β) (r : ι → α) (xs : ι → Stream α) (t : Nat) :
    regS en r0 (fun u => f (fun i => xs i u)) t
      = if delayedReset en t then f (fun i => regS en (r i) (xs i) t) else r0 :=
  retime_backward_vec f en r0 r xs t

/-- (c') no multiplexer is needed when the new reset values reproduce the old one (`canBeReplacedWith`) -/
theorem retime_backward_exact (f : (ι → α) → β) (en : Stream Bool) (r : ι → α) (xs : ι → Stream α) (t : Nat) :
    regS en (f r) (fun u => f (fun i => xs i u)) t = f (fun i => regS en (r i) (xs i) t) :=
  retime_forward_vec f en r xs t

/-- the delayed-reset signal is low exactly until the first enabled edge -/
theorem delayedReset_spec (en : Stream Bool) (t : Nat) : delayedReset en t = decide (1 ≤ cnt en t) := delayedReset_eq en t

/-- (d) `reg ∘ negReg = id` under equal enables: a register with the enable and reset value of the register `R` the negative
register was resolved against, fed by the negative register's output, reproduces `R`. -/
theorem neg_reg_annihilate (R : RegNode α) (e : Stream Bool) (r : α) (he : e = R.en) (hr : r = R.rst) :
    regS e r (negOf R) = R.out := by
  subst he; subst hr; rfl

/-- why it is called negative: at an enabled edge the resolved negative register shows now what `R` shows in the next cycle -/
theorem neg_reg_is_next (R : RegNode α) (t : Nat) (h : R.en t = true) : negOf R t = R.out (t + 1) := by
  simp [negOf, RegNode.out, regS_succ, h]

example : (RegNode.mk (fun t => t % 2 == 0) 9 (fun t => t + 100)).out 3 = 102 := by decide

/-- (e) Balanced register tree: if the model's `latency` of the tree is `n` (all paths from group inputs agree) and the reset
values follow the reset rule, the tree equals, in every cycle and under every stall sequence, its hint-free function applied
to the group inputs delayed by `n` registers carrying the group's reset values and enable: the reference twin. -/
theorem balanced_delay (en : Stream Bool) (r : ι → α) (xs : ι → Stream α) (c : Ckt ι α) (n : Nat)
    (hl : c.latency = .exact n) (hr : c.ResetOK r) (t : Nat) :
    c.eval en xs t = c.comb (fun i => delayN en (r i) n (xs i) t) :=
  Ckt.eval_bal en r xs c n (Ckt.latency_sound c n hl) hr t

/-- (e') Without the reset rule (user-placed feed-forward registers with arbitrary reset values, registers without reset value):
equality holds from the cycle the pipeline has filled, i.e. once `depth` enabled edges have passed. -/
theorem balanced_delay_filled (en : Stream Bool) (r : ι → α) (xs : ι → Stream α) (c : Ckt ι α) (n : Nat)
    (hl : c.latency = .exact n) (t : Nat) (hf : c.depth ≤ cnt en t) :
    c.eval en xs t = c.comb (fun i => delayN en (r i) n (xs i) t) :=
  Ckt.eval_bal_filled en r xs c n (Ckt.latency_sound c n hl) t hf

/-- (e'') Without stalls: `out (t+n) = F (inputs t)`: no operation combines values from different cycles. -/
theorem balanced_delay_nostall (xs : ι → Stream α) (c : Ckt ι α) (n : Nat) (hl : c.latency = .exact n) (hd : c.depth ≤ n)
    (t : Nat) : c.eval (fun _ => true) xs (t + n) = c.comb (fun i => xs i t) := by
  have hn : Nonempty (ι → α) := ⟨fun i => xs i 0⟩
  obtain ⟨r⟩ := hn
  rw [Ckt.eval_bal_filled (fun _ => true) r xs c n (Ckt.latency_sound c n hl) (t + n) (by rw [cnt_true]; omega)]
  congr 1; funext i; exact delayN_true (r i) n (xs i) t

-- a re-convergent tree with two stages on every path: latency 2, reset rule satisfied
example : (Ckt.reg 3 (Ckt.op2 (· + ·) (Ckt.reg 1 (Ckt.inp 0)) (Ckt.op1 (· * 2) (Ckt.reg 1 (Ckt.inp 0)))) : Ckt Nat Nat).latency = Lat.exact 2
    ∧ (Ckt.reg 3 (Ckt.op2 (· + ·) (Ckt.reg 1 (Ckt.inp 0)) (Ckt.op1 (· * 2) (Ckt.reg 1 (Ckt.inp 0)))) : Ckt Nat Nat).ResetOK (fun _ => 1) := by
  refine ⟨by decide, ?_⟩
  simp [Ckt.ResetOK, Ckt.comb]
-- an unbalanced tree is rejected
example : (Ckt.op2 (· + ·) (Ckt.reg 1 (Ckt.inp 0)) (Ckt.inp 1) : Ckt Nat Nat).latency = .conflict := by decide

/-- composition of stages: a tree of latency `n` fed by trees of latency `m` has latency `n + m` (balanced), … -/
theorem stages_compose {κ : Type} (σ : ι → Ckt κ α) (m n : Nat) (c : Ckt ι α)
    (hc : c.latency = .exact n) (hσ : ∀ i, (σ i).latency = .exact m) : (c.subst σ).Bal (n + m) :=
  Ckt.bal_subst σ m (fun i => Ckt.latency_sound _ m (hσ i)) c n (Ckt.latency_sound c n hc)

/-- … its streams are those of the outer tree run on the inner trees' outputs, and `n + m` delay registers are `n` after `m`. -/
theorem stages_compose_eval {κ : Type} (en : Stream Bool) (σ : ι → Ckt κ α) (xs : κ → Stream α) (c : Ckt ι α) :
    (c.subst σ).eval en xs = c.eval en (fun i => (σ i).eval en xs) := Ckt.eval_subst en σ xs c

theorem delay_compose (en : Stream Bool) (r : α) (m n : Nat) (s : Stream α) :
    delayN en r (m + n) s = delayN en r m (delayN en r n s) := delayN_add en r m n s

/-- (b) Region with internal registers (stalled Mealy machine; every internal enable implies `en`). Moving the input register
(reset `r`) behind the region *and advancing the state registers by one step* preserves the output stream from cycle 0. -/
theorem retime_state_advanced (m : Mealy σ ι ο) (en : Stream Bool) (r : ι) (xs : Stream ι) (t : Nat) :
    m.run en (regS en r xs) t = regS en (m.out m.init r) ((m.advance r).run en xs) t :=
  Mealy.retime_advanced m en r xs t

/-- (b-hold) State that depends on the grouped inputs and holds (registers / memory write ports whose enable is computed from grouped inputs,
`forwardPlanningHandleEnablePort`): `retimeForwardToOutput` keeps the state's reset value, which is exact from cycle 0 whenever one step
under the reset inputs leaves the initial state unchanged, e.g. when the enable logic evaluates to 0 on the group's reset values
(`valid = grp(valid, '0')`) or the register's reset value is what it would load. -/
theorem retime_state_neutral_reset (m : Mealy σ ι ο) (en : Stream Bool) (r : ι) (xs : Stream ι) (t : Nat)
    (h : m.next m.init r = m.init) :
    m.run en (regS en r xs) t = regS en (m.out m.init r) (m.run en xs) t := by
  have hm : m.advance r = m := by
    cases m; simp only [Mealy.advance] at h ⊢; simp [h]
  rw [Mealy.retime_advanced, hm]

-- a hold register enabled by `tag == 1` with tag reset 0: the reset inputs do not enable it
example : (fun (m : Mealy Nat (Nat × Nat) Nat) => m.next m.init (5, 0) = m.init)
    ⟨9, fun s x => if x.2 = 1 then x.1 else s, fun s x => s + x.1⟩ := by decide

/-- (b-ff) Feed-forward registers only (after `k` consumed inputs the state has forgotten where it started): what
`retimeForwardToOutput` produces (state registers keep their reset value) equals the reference twin from the cycle the pipeline
has filled, i.e. once `k + 1` enabled edges have passed. -/
theorem retime_state_filled (m : Mealy σ ι ο) (k : Nat) (hf : m.Forgets k) (en : Stream Bool) (r : ι) (xs : Stream ι)
    (t : Nat) (ht : k + 1 ≤ cnt en t) :
    m.run en (regS en r xs) t = regS en (m.out m.init r) (m.run en xs) t :=
  Mealy.retime_filled m k hf en r xs t ht

-- one feed-forward register: state = last input
example : (⟨7, fun _ x => x, fun s x => s + x⟩ : Mealy Nat Nat Nat).Forgets 1 := by
  intro s s' ws h
  match ws, h with
  | [_], _ => rfl

/-- (b') What `retimeForwardToOutput` produces when it retimes over anchored registers (they keep their reset value): the
region's output function applied to the delayed input and to the *delayed state*. -/
theorem retime_state_gatery (m : Mealy σ ι ο) (en : Stream Bool) (r : ι) (xs : Stream ι) (t : Nat) :
    regS en (m.out m.init r) (m.run en xs) t = m.out (regS en m.init (m.state en xs) t) (regS en r xs t) :=
  Mealy.retime_gatery m en r xs t

/-- (b'') State that does not depend on the grouped inputs: the reference twin sees the state stream `c`, the retimed design
sees `c` delayed by the output register. They agree in every cycle iff the delayed state equals the state … -/
theorem autonomous_lag (m : Mealy σ ι ο) (step : σ → σ) (hs : ∀ s x, m.next s x = step s) (en : Stream Bool) (r : ι)
    (xs : Stream ι) (t : Nat) :
    m.run en (regS en r xs) t = m.out (m.state en xs t) (regS en r xs t)
    ∧ regS en (m.out m.init r) (m.run en xs) t = m.out (regS en m.init (m.state en xs) t) (regS en r xs t) :=
  ⟨by simp [Mealy.run, Mealy.state_autonomous m step hs en (regS en r xs) xs t], Mealy.retime_gatery m en r xs t⟩

/-- … which holds from cycle 0 when the state never changes (constant registers) … -/
theorem autonomous_fixed_equal (m : Mealy σ ι ο) (hs : ∀ s x, m.next s x = s) (en : Stream Bool) (r : ι) (xs : Stream ι) (t : Nat) :
    m.run en (regS en r xs) t = regS en (m.out m.init r) (m.run en xs) t := by
  have hst : m.state en xs = fun _ => m.init := funext (Mealy.state_fixed m hs en xs)
  rw [Mealy.retime_gatery, hst, regS_const]
  simp [Mealy.run, Mealy.state_fixed m hs]

/-- … and fails for a free-running counter: the retimed design shows the counter one enabled cycle late (finding). -/
theorem autonomous_counter_differs :
    ∃ (m : Mealy Nat Nat Nat) (en : Stream Bool) (r : Nat) (xs : Stream Nat) (t : Nat),
      (∀ s x, m.next s x = s + 1) ∧ m.run en (regS en r xs) t ≠ regS en (m.out m.init r) (m.run en xs) t :=
  ⟨⟨0, fun s _ => s + 1, fun s x => s + x⟩, fun _ => true, 0, fun _ => 0, 1, fun _ _ => rfl, by decide⟩

end Gatery.C06.Props
