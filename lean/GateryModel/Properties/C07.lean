import GateryModel.C07.Compose
import GateryModel.C07.Pipeline
/-!
# C07 — property theorems

*A memory with any number of read and write ports behaves as an array in which, within one clock cycle, ports act in the
order they were declared (a read declared after a write to the same address sees the new data, a later write wins), writes
take effect at the clock edge only when enabled, and reads return the addressed word after exactly the declared read latency —
before and after post-processing, where hazard-bypass and delayed-write logic is generated.*

Specification: `C07/Spec.lean` (`ArrMem`).  Models: `C07/Model.lean` = `Node_MemPort::simulateEvaluate/simulateAdvance` as
written (four-state addresses and enables, abstract data words), `C07/Rewrites.lean` = `convertToReadBeforeWrite` and
`resolveWriteOrder` of `MemoryDetector.cpp` (the latter with its pointer-chasing loop), `C07/Hazard.lean` =
`ReadModifyWriteHazardLogicBuilder::build` (register mode) on top of a memory whose write ports were delayed by retiming.
Every theorem: any number of ports in any declaration order, any depth / address width / word type, any access sequence of any
length with fully defined in-range addresses and defined enables (what the statement promises), arbitrary data words
(also undefined ones) and arbitrary power-on content of every register the post-processing adds.
-/
namespace Gatery.C07.Props
open Gatery.C07

variable {D α : Type}

/-- **Before post-processing, one cycle**: the simulator's memory ports (asynchronous read with the forwarding loop over earlier
write ports; commit at the edge) compute exactly the array semantics — read outputs and next contents. -/
theorem memport_cycle_refines_array (ops : WordOps D) (cfg : Cfg) (hle : cfg.depth ≤ 2 ^ cfg.aw) (m : List D)
    (hlen : m.length = cfg.depth) (ps : List (Op D)) (hin : ∀ o ∈ ps, o.inRange cfg.depth) :
    cycle ops cfg m (ps.map (PortIn.ofOp cfg.aw))
      = ((ArrMem.ports ops.undef ⟨m⟩ ps).1.cells, (ArrMem.ports ops.undef ⟨m⟩ ps).2) :=
  cycle_refines ops cfg hle m hlen ps hin

/-- **Before post-processing, any run, any latency**: the MemPort model followed by `L` registers shows on the data pins what
`ArrMem` promises with declared latency `L`, for every port list and every access sequence. -/
theorem memport_refines_array (ops : WordOps D) (cfg : Cfg) (hle : cfg.depth ≤ 2 ^ cfg.aw) (m : List D)
    (hlen : m.length = cfg.depth) (cs : List (List (Op D))) (hin : ∀ c ∈ cs, ∀ o ∈ c, o.inRange cfg.depth) (L : Nat) :
    delayed L (run ops cfg m (cs.map (List.map (PortIn.ofOp cfg.aw)))) = ArrMem.observe ops.undef L ⟨m⟩ cs := by
  unfold delayed ArrMem.observe
  rw [run_refines ops cfg hle cs m hlen hin]

/-- **Power-on contents**: the simulated memory started from `Node_Memory::simulatePowerOn` behaves as the array that holds the
declared initial contents iff the memory is a ROM or its write clock has `initializeMemory` — for every declared image, port list,
access sequence and latency. -/
theorem power_on_contents_refine_array (ops : WordOps D) (cfg : Cfg) (hle : cfg.depth ≤ 2 ^ cfg.aw) (declared : List D)
    (hlen : declared.length = cfg.depth) (isRom initMem : Bool) (cs : List (List (Op D)))
    (hin : ∀ c ∈ cs, ∀ o ∈ c, o.inRange cfg.depth) (L : Nat) :
    delayed L (run ops cfg (powerOn ops declared isRom initMem) (cs.map (List.map (PortIn.ofOp cfg.aw))))
      = ArrMem.observe ops.undef L (ArrMem.init ops.undef declared (isRom || initMem)) cs := by
  have hp : powerOn ops declared isRom initMem = (ArrMem.init ops.undef declared (isRom || initMem)).cells := by
    unfold powerOn ArrMem.init
    cases h : (isRom || initMem)
    · simp only [Bool.false_eq_true, if_false]
      exact List.map_const'
    · simp
  rw [hp]
  refine memport_refines_array ops cfg hle _ ?_ cs hin L
  unfold ArrMem.init
  cases (isRom || initMem) <;> simp [hlen]

/-- **`convertToReadBeforeWrite`**: at every stage of the loop (read port still ordered after `ws1`, already moved past `ws2`)
the mux chain behind the read port gives what the port gave while it was ordered after all of `ws1 ++ ws2`. -/
theorem rbw_rewrite_sound (ops : WordOps D) (cfg : Cfg) (hle : cfg.depth ≤ 2 ^ cfg.aw) (mem : List D) (a : Nat) (ha : a < cfg.depth)
    (rdEn : Bool) (ws1 ws2 : List (WIn D)) (h2 : ∀ w ∈ ws2, w.addr < cfg.depth) :
    rbwNet (evalRead ops cfg mem (ws1.map (WIn.latch cfg.aw)) ⟨rdEn, true⟩ (Addr.ofNat cfg.aw a)) a rdEn ws2
      = evalRead ops cfg mem ((ws1 ++ ws2).map (WIn.latch cfg.aw)) ⟨rdEn, true⟩ (Addr.ofNat cfg.aw a) :=
  rbwNet_eq ops cfg hle mem ha rdEn ws1 ws2 h2

/-- **`resolveWriteOrder`**, the loop as written, for any number `n` of write ports: the contents after the clock edge are
unchanged (write ports committing in declaration order, as the simulator does). -/
theorem write_order_rewrite_sound (n : Nat) (ws : Nat → WIn D) (m : List D) :
    commitW m (portList n (resolveWriteOrder n ws)) = commitW m (portList n ws) :=
  resolveWriteOrder_commit n ws m

/-- what the loop builds: disable logic only ever lands on the first write port (every later port is compared with port 0
only, because `wp1`'s successors are re-attached to `wp2` before `wp1` leaves the chain). -/
theorem write_order_schedule (n : Nat) : schedule n = (List.range (n - 1)).map (fun i => (i + 1, 0)) := schedule_eq n

/-- with two write ports the explicit logic removes every write-write collision: afterwards the commit order is irrelevant. -/
theorem write_order_two_ports_conflict_free (ws : Nat → WIn D) :
    ¬ Collide (resolveWriteOrder 2 ws 0) (resolveWriteOrder 2 ws 1) :=
  resolveWriteOrder_two_conflict_free ws

/-- **Hazard bypass** (`ReadModifyWriteHazardLogicBuilder`, `K = k + 1 ≥ 1` stages, any number of write ports per cycle, any
power-on content of the added registers): a memory whose write ports are delayed by `K` cycles, read-first, with the bypass
network behind `K` read data registers, shows at `t + K` the word the (undelayed) array holds at `t` under the issued address. -/
theorem hazard_bypass_sound (dflt : D) (k : Nat) (m0 : List D) (gw : Nat → List (WIn D)) (ga : Nat → Nat) (gs : Nat → StageSig D)
    (gr : Nat → D) (W : Nat → List (WIn D)) (ra : Nat → Nat) (t T : Nat) (hT : t < T) (ha : ra t < m0.length) :
    (ArrMem.observe dflt (k + 1) ⟨m0⟩ (cyclesUpTo (fun _ => []) W ra T))[t + (k + 1)]?
      = some (some [hazardOut dflt k m0 gw ga gs gr W ra (t + (k + 1))]) := by
  have := postOut_eq dflt k m0 gw ga gs gr (fun _ => []) W ra t T hT ha
  simpa [postOut, rbwNet] using this

/-- **After the whole memory post-processing** (read-before-write muxes for the write ports `Wb` declared before the read port,
retiming by `K`, hazard bypass): the data pin at `t + K` is what `ArrMem` with declared latency `K` shows, whatever is
written before (`Wb`) or after (`Wa`) the read port in program order. -/
theorem postprocessed_read_sound (dflt : D) (k : Nat) (m0 : List D) (gw : Nat → List (WIn D)) (ga : Nat → Nat)
    (gs : Nat → StageSig D) (gr : Nat → D) (Wb Wa : Nat → List (WIn D)) (ra : Nat → Nat) (t T : Nat) (hT : t < T)
    (ha : ra t < m0.length) :
    (ArrMem.observe dflt (k + 1) ⟨m0⟩ (cyclesUpTo Wb Wa ra T))[t + (k + 1)]?
      = some (some [postOut dflt k m0 gw ga gs gr Wb Wa ra t]) :=
  postOut_eq dflt k m0 gw ga gs gr Wb Wa ra t T hT ha

/-! ## read-latency registers under enable scopes (`C07/Pipeline.lean`) -/

/-- **a read-latency stage holds while its enable is low, and takes the value in front of it otherwise** — any number of stages,
any per-stage enable pattern (stages beyond the enable list have no enable) -/
theorem latency_stage_semantics (prev : α) (regs : List α) (es : List Bool) (k : Nat) (hlt : k < regs.length) :
    (es[k]? = some false → (pipeStep prev regs es)[k]? = regs[k]?) ∧
    (es[k]? ≠ some false → (pipeStep prev regs es)[k]? = if k = 0 then some prev else regs[k - 1]?) :=
  ⟨pipeStep_hold prev regs es k, fun h => pipeStep_load prev regs es k h hlt⟩

/-- **one enable for all `L` stages**: after any run the stages hold the read data of the last `L` enabled cycles (newest first);
cycles with the enable low do not exist for the pipeline -/
theorem latency_pipeline_uniform_enable (cs : List (Bool × α)) (regs : List α) :
    pipeRun regs (cs.map fun c => (List.replicate regs.length c.1, c.2))
      = (((cs.filter (·.1)).map (·.2)).reverse ++ regs).take regs.length :=
  pipeRun_uniform cs regs

/-- **no enables**: the pipeline is the `L`-cycle delay of the specification (`ArrMem.observe`) -/
theorem latency_pipeline_plain (xs : List α) (regs : List α) :
    pipeRun regs (xs.map fun x => (([] : List Bool), x)) = (xs.reverse ++ regs).take regs.length :=
  pipeRun_plain xs regs

/-- **MemPort model + enable-gated pipeline = ArrMem + the same pipeline**: whatever the stage enables do, the data pin of read
port `sel` of the simulated memory shows in every cycle what the array model followed by the same registers shows -/
theorem memport_enabled_pipeline_refines_array (ops : WordOps D) (cfg : Cfg) (hle : cfg.depth ≤ 2 ^ cfg.aw) (m : List D)
    (hlen : m.length = cfg.depth) (cs : List (List (Op D))) (hin : ∀ c ∈ cs, ∀ o ∈ c, o.inRange cfg.depth)
    (sel : List D → D) (ens : List (List Bool)) (regs : List D) :
    pipeTrace ops.undef regs (List.zip ens ((run ops cfg m (cs.map (List.map (PortIn.ofOp cfg.aw)))).map sel))
      = pipeTrace ops.undef regs (List.zip ens ((ArrMem.run ops.undef ⟨m⟩ cs).map sel)) := by
  rw [run_refines ops cfg hle cs m hlen hin]

/-! ## non-vacuity / sanity on concrete instances (D = Nat, undefined = 99) -/

def natOps : WordOps Nat := ⟨99, fun a b => if a = b then a else 99⟩

/-- write-before-read sees the new word, read-before-write the old one, the later of two writes wins -/
example : ArrMem.ports 99 ⟨[10, 11, 12, 13]⟩ [.rd 1, .wr 1 true 7, .rd 1, .wr 1 true 8, .wr 2 false 5, .rd 2]
    = (⟨[10, 8, 12, 13]⟩, [11, 7, 12]) := by decide

/-- the premises of `memport_refines_array` hold on a non-trivial run (depth 3, 2 address bits, latency 2), and the model
really produces these outputs -/
example : delayed 2 (run natOps ⟨3, 2⟩ [10, 11, 12]
    ([[.rd 1, .wr 1 true 7, .rd 1], [.wr 2 true 5, .wr 2 true 6, .rd 2, .rd 1]].map (List.map (PortIn.ofOp 2))))
    = [none, none, some [11, 7], some [6, 7]] := by decide

/-- undefined controls do reach the model: an undefined write address wipes the memory, an undefined enable writes undefined -/
example : cycle natOps ⟨4, 2⟩ [10, 11, 12, 13] [.wr TBit.one TBit.one ⟨1, 1⟩ 5] = ([99, 99, 99, 99], []) := by decide
example : cycle natOps ⟨4, 2⟩ [10, 11, 12, 13] [.wr TBit.one ⟨false, false⟩ (Addr.ofNat 2 1) 5, .rd TBit.one (Addr.ofNat 2 1)]
    = ([10, 99, 12, 13], [99]) := by decide

/-- out-of-range behaviour of the implementation on a non-power-of-two depth (outside the statement): read gives undefined, write wraps -/
example : cycle natOps ⟨3, 2⟩ [10, 11, 12] [.rd TBit.one (Addr.ofNat 2 3), .wr TBit.one TBit.one (Addr.ofNat 2 3) 5]
    = ([5, 11, 12], [99]) := by decide

/-- the hazard network is exercised: two back-to-back writes to the address being read, latency 2 -/
example : (List.range 6).map (hazardOut 99 1 [10, 11] (fun _ => [⟨0, true, 77⟩]) (fun _ => 0) (fun _ => none) (fun _ => 55)
      (fun s => if s = 0 then [⟨1, true, 20⟩] else if s = 1 then [⟨1, true, 21⟩, ⟨0, true, 30⟩] else []) (fun _ => 1))
    = [55, 55, 11, 20, 21, 21] := by decide

/-- three write ports: the loop as written never compares the second with the third port; the rewritten ports still collide
(harmless in the simulator, which commits in declaration order — see `write_order_rewrite_sound`). -/
example : Collide (resolveWriteOrder 3 (fun _ => (⟨0, true, 1⟩ : WIn Nat)) 1) (resolveWriteOrder 3 (fun _ => (⟨0, true, 1⟩ : WIn Nat)) 2) := by
  decide

/-- per-stage enables on a 2-stage pipeline with reset values 7, 8: stage 1 holds while its enable is low -/
example : pipeTrace 99 [7, 8] [([true, false], 1), ([true, true], 2), ([false, true], 3), ([], 4), ([true, true], 5)] = [8, 8, 1, 2, 2] := by decide

/-- a RAM whose write clock has `initializeMemory = false` starts undefined although contents were declared; a ROM does not care -/
example : powerOn natOps [10, 11] false false = [99, 99] ∧ powerOn natOps [10, 11] false true = [10, 11] ∧ powerOn natOps [10, 11] true false = [10, 11] := by decide

end Gatery.C07.Props
