import GateryModel.C08.MemRead
import GateryModel.C08.SeqCompat
/-!
# C08 — property theorems: a value the simulator reports as defined is never wrong

Model: `Nodes/Nodes.lean` (`evalNode`, following `simulateEvaluate` of the core nodes) and `Nodes/Netlist.lean`
(combinational netlists in evaluation order), tied to the code by the node-level correspondence of
`harness/c03.cpp | gv_c08` (every node value of every simulated stimulus is compared).

`u ⊑ v`: `v` is at least as defined as `u` and agrees with it.  `compat u v`: no bit is defined in both with
different values.  Every node kind and hence every combinational netlist is monotone in `⊑`; compatibility and the
property are corollaries.  Statements only; the work is in `C08/{Order,Mono,Compat}.lean`.
-/
namespace Gatery.C08.Props
open Gatery.Nodes BV4

/-- **Every core node is monotone** (Logic, Arithmetic, Compare, Shift, Rewire, Multiplexer, PriorityConditional, Constant):
    more defined inputs give a result that is at least as defined and agrees on every bit that was already defined.
    All widths, all operand values, any number of operands, any selector width and number of multiplexer inputs. -/
theorem evalNode_mono (k : NodeKind) (w : Nat) {ins ins' : Ins} (h : InsLe ins ins') :
    evalNode k w ins ⊑ evalNode k w ins' :=
  Gatery.Nodes.evalNode_mono k w h

/-- The multiplexer in particular (`Node_Multiplexer.cpp:37-137`): with an undefined selector bit it yields undefined if
    the selector may address no input (largest possible selector value `≥` number of data inputs) and the merge of all data
    inputs otherwise; a defined selector copies its input or yields undefined out of range.  (Before the range test was added
    the node was not monotone: selector `x1` over three inputs `1` gave `1`, the concretisation `11` gave `x`; the check had
    reported that as `non_monotone_sources: kind=mux` and, through constant folding, as finding F13.) -/
theorem evalMux_mono (w : Nat) {ins ins' : Ins} (h : InsLe ins ins') :
    evalNode .mux w ins ⊑ evalNode .mux w ins' :=
  Gatery.Nodes.evalMux_mono w h

/-- the former counterexample to monotonicity, on the code as it is now: the abstract run says `x` as well -/
theorem evalMux_out_of_range_undefined :
    evalNode .mux 1 [some [.t, .x], some [.t], some [.t], some [.t]] = [.x] ∧
    evalNode .mux 1 [some [.t, .t], some [.t], some [.t], some [.t]] = [.x] ∧
    evalNode .mux 1 [some [.x, .f], some [.t], some [.t], some [.t]] = [.t] := by decide

/-- Every core node maps compatible inputs (no contradicting defined bits) to compatible outputs. -/
theorem evalNode_compat (k : NodeKind) (w : Nat) {ins ins' : Ins} (h : InsCompat ins ins') :
    compat (evalNode k w ins) (evalNode k w ins') :=
  Gatery.Nodes.evalNode_compat k w h

/-- **The tristate / bidirectional pin is monotone** (`Node_Pin.cpp:152-183`; inputs `[data, outputEnable, pad]`, the pad being
    what the test bench drives): an undefined output enable makes the read-back undefined, whatever the VALUE plane of the
    enable holds; a defined enable selects the driven data or the pad value.  `NetKind.tristate` puts it into the netlists
    of `evalNet_mono` / `defined_never_wrong` below. -/
theorem evalTristate_mono (w : Nat) {ins ins' : Ins} (h : InsLe ins ins') :
    evalTristate w ins ⊑ evalTristate w ins' :=
  Gatery.Nodes.evalTristate_mono w h

/-- … in particular: with an undefined enable no bit of the read-back is reported as defined, for any data and pad value -/
theorem evalTristate_undefined_enable (w : Nat) (data pad : Option BV4) :
    evalTristate w [data, some [.x], pad] = undef w := rfl

/-- the two completions of the seeded case C08-6 (data 1, pad 0, enable undefined) disagree, so `x` is the only sound answer -/
example : evalTristate 1 [some [.t], some [.x], some [.f]] = [.x] ∧
    evalTristate 1 [some [.t], some [.t], some [.f]] = [.t] ∧
    evalTristate 1 [some [.t], some [.f], some [.f]] = [.f] := by decide

/-- **Every combinational netlist is monotone** (nodes in evaluation order, each reading earlier nodes only; induction over
    the netlist): refining the stimulus refines the value of every node. -/
theorem evalNet_mono (net : List NetNode) {env env' : Env} (he : EnvLe env env') :
    ValsLe (evalNet env net) (evalNet env' net) :=
  evalNetFrom_mono he net .nil

/-- … and compatible stimuli give compatible values at every node. -/
theorem evalNet_compat (net : List NetNode) {env env' : Env} (he : EnvCompat env env') :
    ValsCompat (evalNet env net) (evalNet env' net) :=
  evalNetFrom_compat he net .nil

/-- **C08.**  Let `env'` assign 0/1 to (some or all) undefined stimulus bits of `env`.  If the run under `env` reports
    bit `b` of node `i` as defined `d`, and the run under `env'` computes a defined value `d'` for it, then `d = d'`:
    a value reported as defined is never wrong. -/
theorem defined_never_wrong (net : List NetNode) {env env' : Env} (he : EnvLe env env')
    (i b : Nat) (u u' : BV4)
    (hu : (evalNet env net).getD i none = some u) (hu' : (evalNet env' net).getD i none = some u')
    (d d' : Bool) (hd : u.bit b = B4.ofBool d) (hd' : u'.bit b = B4.ofBool d') : d = d' := by
  have hc : EnvCompat env env' := by
    clear hu hu'
    induction he with
    | nil => exact .nil
    | cons h _ ih => exact .cons (compat_of_le h) ih
  have := forall₂_getD (evalNet_compat net hc) none none trivial i
  rw [hu, hu'] at this
  have hb := (this : compat u u').2 b
  rw [hd, hd'] at hb
  revert hb
  cases d <;> cases d' <;> simp [B4.compat, B4.ofBool]

/-- The stronger form that monotonicity gives: a bit the abstract run reports as defined `d` **is** `d` in every run under a
    refined stimulus (it cannot even become undefined). -/
theorem defined_bit_persists (net : List NetNode) {env env' : Env} (he : EnvLe env env')
    (i b : Nat) (u u' : BV4)
    (hu : (evalNet env net).getD i none = some u) (hu' : (evalNet env' net).getD i none = some u')
    (d : Bool) (hd : u.bit b = B4.ofBool d) : u'.bit b = B4.ofBool d := by
  have := forall₂_getD (evalNet_mono net he) none none trivial i
  rw [hu, hu'] at this
  have hb := (this : u ⊑ u').2 b
  rw [hd] at hb
  cases d <;> simp [B4.le, B4.ofBool] at hb ⊢ <;> exact hb.symm

/-- what constant folding relies on (`Circuit.cpp:1270-1336`, non-constant inputs set undefined, only fully defined
    outputs folded): a fully defined abstract result is the result of every concretisation — in every netlist. -/
theorem constFold_sound (net : List NetNode) {env env' : Env} (he : EnvLe env env')
    (i : Nat) (u u' : BV4)
    (hu : (evalNet env net).getD i none = some u) (hu' : (evalNet env' net).getD i none = some u')
    (hdef : u.allDef = true) : u' = u := by
  have := forall₂_getD (evalNet_mono net he) none none trivial i
  rw [hu, hu'] at this
  exact (eq_of_le_of_allDef (this : u ⊑ u') hdef).symm

/-! ## clocked netlists: registers with enable and synchronous reset, undefined initial register contents
(`Nodes/Seq.lean`: `SeqNet`, `regEdge` = `Node_Register::simulateAdvance`; proof in `C08/SeqCompat.lean`) -/

/-- **C08 over time.**  Two runs of one clocked netlist, over a stimulus of any length, under stimuli that agree up to undefined
    bits (same reset pattern) and initial register contents that agree up to undefined bits — e.g. an abstract run and a run in
    which the undefined stimulus bits *and the undefined initial register contents* are replaced by 0/1: if at cycle `t` bit `b` of
    node `i` is defined in both runs, it has the same value.  (An undefined enable makes the register undefined.) -/
theorem clocked_defined_never_wrong (c : Gatery.Nodes.SeqNet) (stim stim' : List Gatery.Nodes.Cycle)
    (hs : Gatery.C01.StimCompat stim stim') (st st' : List BV4) (hst : EnvCompat st st') (hw : Gatery.C01.StateWF c.regs st)
    (t i b : Nat) (u u' : BV4)
    (hu : ((seqRun c stim st).getD t []).getD i none = some u) (hu' : ((seqRun c stim' st').getD t []).getD i none = some u')
    (d d' : Bool) (hd : u.bit b = B4.ofBool d) (hd' : u'.bit b = B4.ofBool d') : d = d' := by
  have hrun := Gatery.C01.seqRun_compat c stim stim' hs st st' hst hw
  have hcyc : ValsCompat ((seqRun c stim st).getD t []) ((seqRun c stim' st').getD t []) := forall₂_getD hrun [] [] .nil t
  have := forall₂_getD hcyc none none trivial i
  rw [hu, hu'] at this
  have hb := (this : compat u u').2 b
  rw [hd, hd'] at hb
  revert hb
  cases d <;> cases d' <;> simp [B4.compat, B4.ofBool]

-- non-vacuity: a 1-bit register with undefined initial content fed back through a NOT, two cycles, content concretised to 1
example : Gatery.C01.StateWF [⟨1, some 1, none, none⟩] [[.x]] ∧ EnvCompat [[.x]] [[.t]] ∧
    seqRun ⟨[⟨.input 0, 1, []⟩, ⟨.node (.logic .NOT) .bitvec, 1, [some 0]⟩], [⟨1, some 1, none, none⟩]⟩ [([], false), ([], false)] [[.t]]
      = [[some [.t], some [.f]], [some [.f], some [.t]]] := by
  refine ⟨.cons rfl .nil, .cons ⟨rfl, fun i => ?_⟩ .nil, by decide⟩
  match i with
  | 0 => exact B4.compat_x_left _
  | (j+1) => simp [bit, B4.compat_refl]

/-! ## memory read ports (`Node_MemPort::simulateEvaluate`, asynchronous read; model `C08/MemRead.lean`) -/

/-- **The asynchronous memory read is monotone** in address, contents and read enable, for every memory size (powers of two
    or not), word width and address width, in both `UndefinedReadAddrBehavior`s: with `EXACT` a partially undefined address
    yields undefined if a candidate address is beyond the memory and otherwise the bitwise merge of *all* candidate words. -/
theorem memRead_mono (exact : Bool) (w : Nat) {mem mem' : List BV4} {en en' addr addr' : Option BV4}
    (hm : MemLe mem mem') (he : optLe en en') (ha : optLe addr addr') :
    memRead exact w mem en addr ⊑ memRead exact w mem' en' addr' :=
  Gatery.Nodes.memRead_mono exact w hm he ha

/-- C08 for memory reads: a read-data bit reported as defined under a partially undefined address / partially undefined
    contents has that value for every concretisation of address and contents. -/
theorem memRead_defined_bit_persists (exact : Bool) (w : Nat) {mem mem' : List BV4} {en en' addr addr' : Option BV4}
    (hm : MemLe mem mem') (he : optLe en en') (ha : optLe addr addr') (b : Nat) (d : Bool)
    (hd : (memRead exact w mem en addr).bit b = B4.ofBool d) : (memRead exact w mem' en' addr').bit b = B4.ofBool d := by
  have hb := (memRead_mono exact w hm he ha).2 b
  rw [hd] at hb
  cases d <;> simp [B4.le, B4.ofBool] at hb ⊢ <;> exact hb.symm

/-- composed with the netlist theorem: address and enable computed by any combinational netlist from a refined stimulus -/
theorem memRead_of_net_mono (exact : Bool) (w : Nat) (net : List NetNode) {env env' : Env} (he : EnvLe env env')
    {mem mem' : List BV4} (hm : MemLe mem mem') (iEn iAddr : Nat) :
    memRead exact w mem ((evalNet env net).getD iEn none) ((evalNet env net).getD iAddr none) ⊑
    memRead exact w mem' ((evalNet env' net).getD iEn none) ((evalNet env' net).getD iAddr none) :=
  memRead_mono exact w hm (forall₂_getD (evalNet_mono net he) none none trivial iEn)
    (forall₂_getD (evalNet_mono net he) none none trivial iAddr)

-- non-vacuity: 5 words of 2 bit, address `x0x` (candidates 0,1,4,5 — 5 is beyond the memory) and `0x0` (candidates 0, 2)
example : memRead true 2 [[.t,.f],[.t,.f],[.t,.t],[.f,.f],[.t,.x]] none (some [.x,.f,.x]) = [.x,.x] := by decide
example : memRead true 2 [[.t,.f],[.t,.f],[.t,.t],[.f,.f],[.t,.x]] none (some [.f,.x,.f]) = [.t,.x] := by decide
example : memRead false 2 [[.t,.f],[.t,.f],[.t,.t],[.f,.f],[.t,.x]] none (some [.f,.x,.f]) = [.x,.x] := by decide

/-! ### non-vacuity: a netlist with an AND, an out-of-range multiplexer and an adder, under a partially undefined stimulus -/

private def demoNet : List NetNode :=
  [⟨.input 0, 2, []⟩, ⟨.input 1, 2, []⟩,
   ⟨.node (.logic .AND) .bitvec, 2, [some 0, some 1]⟩,
   ⟨.node .mux .bitvec, 2, [some 0, some 1, some 2, some 1]⟩,
   ⟨.node (.arith .ADD) .bitvec, 2, [some 3, some 1]⟩]

example : (evalNet [[.x, .t], [.f, .f]] demoNet).getD 2 none = some [.f, .f] := by decide
example : (evalNet [[.x, .t], [.f, .f]] demoNet).getD 3 none = some [.x, .x] := by decide
example : (evalNet [[.x, .f], [.f, .f]] demoNet).getD 3 none = some [.f, .f] := by decide
example : (evalNet [[.t, .t], [.f, .f]] demoNet).getD 3 none = some [.x, .x] := by decide
/-- a tristate pin inside a netlist: data = input 0, enable = NOT (input 1), pad = input 2 -/
private def triNet : List NetNode :=
  [⟨.input 0, 1, []⟩, ⟨.input 1, 1, []⟩, ⟨.node (.logic .NOT) .bool, 1, [some 1]⟩, ⟨.tristate 2, 1, [some 0, some 2]⟩]

example : (evalNet [[.t], [.x], [.f]] triNet).getD 3 none = some [.x] := by decide
example : (evalNet [[.t], [.f], [.f]] triNet).getD 3 none = some [.t] := by decide
example : (evalNet [[.t], [.t], [.f]] triNet).getD 3 none = some [.f] := by decide

example : EnvLe [[.x, .t], [.f, .f]] [[.t, .t], [.f, .f]] := by
  refine .cons ⟨rfl, fun i => ?_⟩ (.cons (le_refl _) .nil)
  match i with
  | 0 => exact B4.x_le _
  | 1 => exact B4.le_refl _
  | (j+2) => simp [bit, B4.le_refl]

end Gatery.C08.Props
