import GateryModel.C08.Compat
/-!
# C08 — property theorems: a value the simulator reports as defined is never wrong

Model: `Nodes/Nodes.lean` (`evalNode`, following `simulateEvaluate` of the core nodes) and `Nodes/Netlist.lean`
(combinational netlists in evaluation order), tied to the code by the node-level correspondence of
`harness/c03.cpp | gv_c08` (every node value of every simulated stimulus is compared).

`u ⊑ v`: `v` is at least as defined as `u` and agrees with it.  `compat u v`: no bit is defined in both with
different values.  Statements only; the work is in `C08/{Order,Mono,Compat}.lean`.
-/
namespace Gatery.C08.Props
open Gatery.Nodes BV4

/-- Every core node except the multiplexer is monotone: more defined inputs give a result that is at least as defined
    and agrees on every bit that was already defined.  All widths, all operand values, any number of operands. -/
theorem evalNode_mono (k : NodeKind) (hk : k.isMux = false) (w : Nat) {ins ins' : Ins} (h : InsLe ins ins') :
    evalNode k w ins ⊑ evalNode k w ins' :=
  Gatery.Nodes.evalNode_mono k hk w h

/-- The multiplexer is monotone when every selector value addresses a data input (`2^selWidth ≤ #inputs`,
    e.g. the 2-input multiplexers built by `IF`/`ELSE` and full `mux` tables). -/
theorem evalMux_mono_inrange (w : Nat) {sel sel' : BV4} {data data' : Ins} (hs : sel ⊑ sel') (hd : InsLe data data')
    (hr : 2 ^ sel.length ≤ data.length) :
    evalNode .mux w (some sel :: data) ⊑ evalNode .mux w (some sel' :: data') :=
  Gatery.Nodes.evalMux_mono_inrange w hs hd hr

/-- … and not monotone otherwise (the code as written, `Node_Multiplexer.cpp:49-99`): selector `x1` over three equal
    inputs `1` yields `1`; the concretisation `11` selects nothing and yields `x`. -/
theorem evalMux_not_monotone :
    ∃ ins ins' : Ins, InsLe ins ins' ∧ ¬ (evalNode .mux 1 ins ⊑ evalNode .mux 1 ins') := by
  refine ⟨[some [.t, .x], some [.t], some [.t], some [.t]], [some [.t, .t], some [.t], some [.t], some [.t]], ?_, ?_⟩
  · refine .cons ?_ (forall₂_refl optLe_refl _)
    refine ⟨rfl, fun i => ?_⟩
    match i with
    | 0 => exact B4.le_refl _
    | 1 => exact B4.x_le _
    | (j+2) => simp [bit, B4.le_refl]
  · intro h
    have := h.2 0
    revert this
    decide

/-- **Every** core node, the multiplexer included, maps compatible inputs to compatible outputs. -/
theorem evalNode_compat (k : NodeKind) (w : Nat) {ins ins' : Ins} (h : InsCompat ins ins') :
    compat (evalNode k w ins) (evalNode k w ins') :=
  Gatery.Nodes.evalNode_compat k w h

/-- Lift to combinational netlists (nodes in evaluation order, each reading earlier nodes only), by induction over the
    netlist: compatible stimuli give compatible values at every node. -/
theorem evalNet_compat (net : List NetNode) {env env' : Env} (he : EnvCompat env env') :
    ValsCompat (evalNet env net) (evalNet env' net) :=
  evalNetFrom_compat he net .nil

/-- netlists in which no multiplexer occurs are monotone as a whole -/
theorem evalNet_mono (net : List NetNode) (hm : muxFree net = true) {env env' : Env} (he : EnvLe env env') :
    ValsLe (evalNet env net) (evalNet env' net) :=
  evalNetFrom_mono he net hm .nil

/-- **C08.**  Let `env'` assign 0/1 to (some or all) undefined stimulus bits of `env`.  If the run under `env` reports
    bit `b` of node `i` as defined `d`, and the run under `env'` computes a defined value `d'` for it, then `d = d'`:
    a value reported as defined is never wrong. -/
theorem defined_never_wrong (net : List NetNode) {env env' : Env} (he : EnvLe env env')
    (i b : Nat) (u u' : BV4)
    (hu : (evalNet env net).getD i none = some u) (hu' : (evalNet env' net).getD i none = some u')
    (d d' : Bool) (hd : u.bit b = B4.ofBool d) (hd' : u'.bit b = B4.ofBool d') : d = d' := by
  have hc : EnvCompat env env' := by
    clear hu hu'
    induction he with
    | nil => exact .nil
    | cons h _ ih => exact .cons (compat_of_le h) ih
  have := forall₂_getD (evalNet_compat net hc) none none trivial i
  rw [hu, hu'] at this
  have hb := (this : compat u u').2 b
  rw [hd, hd'] at hb
  revert hb
  cases d <;> cases d' <;> simp [B4.compat, B4.ofBool]

/-- what constant folding relies on (`Circuit.cpp:1270-1336`, non-constant inputs set undefined, only fully defined
    outputs folded): in a multiplexer-free cone, a fully defined abstract result is the result of every concretisation. -/
theorem constFold_sound (net : List NetNode) (hm : muxFree net = true) {env env' : Env} (he : EnvLe env env')
    (i : Nat) (u u' : BV4)
    (hu : (evalNet env net).getD i none = some u) (hu' : (evalNet env' net).getD i none = some u')
    (hdef : u.allDef = true) : u' = u := by
  have := forall₂_getD (evalNet_mono net hm he) none none trivial i
  rw [hu, hu'] at this
  exact (eq_of_le_of_allDef (this : u ⊑ u') hdef).symm

/-! ### non-vacuity: a netlist with an AND, an out-of-range multiplexer and an adder, under a partially undefined stimulus -/

private def demoNet : List NetNode :=
  [⟨.input 0, 2, []⟩, ⟨.input 1, 2, []⟩,
   ⟨.node (.logic .AND) .bitvec, 2, [some 0, some 1]⟩,
   ⟨.node .mux .bitvec, 2, [some 0, some 1, some 2, some 1]⟩,
   ⟨.node (.arith .ADD) .bitvec, 2, [some 3, some 1]⟩]

example : (evalNet [[.x, .t], [.f, .f]] demoNet).getD 2 none = some [.f, .f] := by decide
example : (evalNet [[.x, .t], [.f, .f]] demoNet).getD 3 none = some [.f, .f] := by decide
example : (evalNet [[.t, .t], [.f, .f]] demoNet).getD 3 none = some [.x, .x] := by decide
example : EnvLe [[.x, .t], [.f, .f]] [[.t, .t], [.f, .f]] := by
  refine .cons ⟨rfl, fun i => ?_⟩ (.cons (le_refl _) .nil)
  match i with
  | 0 => exact B4.x_le _
  | 1 => exact B4.le_refl _
  | (j+2) => simp [bit, B4.le_refl]

end Gatery.C08.Props
