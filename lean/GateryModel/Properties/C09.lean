import GateryModel.C09.LoopLemmas
/-!
# C09 — property theorems: the circuit graph stays well formed under every mutation

Model: `C09/Model.lean` (pure state + the operations of `NodeIO.cpp`, `Node.cpp`, `NodeGroup.cpp`, `Circuit.h/.cpp`,
`Clock.cpp` as written; tied to the code by differential execution of generated operation histories against real hlim
nodes, `harness/c09.cpp` | `Driver/C09.lean`, which also evaluates the *same* decidable `Inv` on every graph the
implementation produces, including frontend designs before/after `postprocess()`).

`Inv s` (decidable, `C09/Model.lean`): every connected input's driver lists that input exactly once among its consumers and
every listed consumer points back (so nothing else lists it); `m_nodeGroup` ⇔ membership in exactly that group's node list,
once; clock port attached ⇔ registered in that clock's set, once; live node ids pairwise distinct and below the counter;
the circuit's node vector holds exactly the live nodes, each once; every handle mentioned anywhere is a live node
(no reference to a destroyed node) and every port index is in range.

Memory safety proper (use-after-free, out-of-bounds in the C++ object code) is **not** proved here: it is explored by running the
same harness under ASan+UBSan in the thorough tier.  What the theorems give is the logical core of it: no operation leaves a
dangling handle behind, provided the operations are called within their C++ preconditions.
Statements only; proofs are in `C09/{ListLemmas,EdgeLemmas,RegLemmas,InvLemmas,LoopLemmas}.lean`.
-/
namespace Gatery.C09.Props
open Gatery.C09

/-- the freshly constructed circuit is well formed -/
theorem inv_init : Inv State.init := Gatery.C09.inv_init

/-- every operation (create node/group/clock, rewireInput/connectInput, disconnectInput, Node_Signal::connectInput,
resizeInputs, resizeOutputs, bypassOutputToInput, setOutputConnectionType, moveToGroup, attachClock, detachClock, addClock,
addRef, removeRef, deleting the node stored at any index of `m_nodes` with the swap-with-back idiom, the whole pass
`cullOrphanedSignalNodes`, `createUnconnectedClone`, `copySubnet` with and without `copyClocks`, the destruction of a clock, and
`Clock::setLogicClockDriver` / `setLogicResetDriver` in any order and repeatedly, and the caching getter `Clock::getClockedNodes`)
that returns normally preserves the invariant — for every state, every argument. -/
theorem inv_step (s s' : State) (op : Op) (hI : Inv s) (hr : step s op = .ok s') : Inv s' :=
  Gatery.C09.inv_step op hI hr

/-- every state reachable from the empty circuit by any finite history of operations (operations that throw are skipped, as
by a caller that catches the exception) satisfies the invariant -/
theorem inv_reachable (ops : List Op) (s : State) (hr : run State.init ops = .ok s) : Inv s :=
  inv_run ops Gatery.C09.inv_init hr

/-- deleting a node (`~BaseNode` then `~NodeIO`) leaves the rest of the graph well formed while `m_nodes` is being rearranged -/
theorem destroy_keeps_graph (s s' : State) (h : Nat) (hI : GInv s) (hr : destroyNode s h = .ok s') :
    GInv s' ∧ s'.alive = upd s.alive h false :=
  let ⟨a, _, c, _, _⟩ := destroyNode_spec hI hr; ⟨a, c⟩

/-- what the invariant means, direction 1: an input is listed by nobody but its driver, and there exactly once -/
theorem inv_listed_only_by_driver (s : State) (hI : Inv s) (h i d o : Nat)
    (hd : s.live d) (ho : o < s.numOut d) (hm : (⟨h, i⟩ : NodePort) ∈ s.conns d o) :
    s.inp h i = some ⟨d, o⟩ ∧ (s.conns d o).count ⟨h, i⟩ = 1 := by
  obtain ⟨a, b, c, e⟩ := hI.1.1.2 d hd.1 hd.2 o ho _ hm
  exact ⟨e, (hI.1.1.1 h a b i c _ e).2.2.2⟩

/-- … direction 2: a connected input refers to a live node, an existing output port, and is listed there -/
theorem inv_driver_lists_input (s : State) (hI : Inv s) (h i : Nat) (d : NodePort)
    (hl : s.live h) (hi : i < s.numIn h) (hd : s.inp h i = some d) :
    s.live d.node ∧ d.port < s.numOut d.node ∧ (s.conns d.node d.port).count ⟨h, i⟩ = 1 :=
  let ⟨a, b, c, e⟩ := hI.1.1.1 h hl.1 hl.2 i hi d hd; ⟨⟨a, b⟩, c, e⟩

/-- what the invariant means for clocks: a clock port that is set refers to a clock that still exists and lists exactly this
(node, port) once; and every entry of a clock's list is a live node whose port points back -/
theorem inv_clock_registered (s : State) (hI : Inv s) (h p c : Nat) (hl : s.live h) (hp : p < s.numClk h) (hc : s.clk h p = some c) :
    c < s.nclocks ∧ s.calive c = true ∧ (s.clocked c).count ⟨h, p⟩ = 1 :=
  let ⟨a, b⟩ := hI.1.2.2.1.1 h hl.1 hl.2 p hp c hc
  ⟨a, hI.1.2.2.2.2.1 h hl.1 hl.2 p hp c hc, b⟩

theorem inv_registered_clocked (s : State) (hI : Inv s) (c : Nat) (x : NodePort) (hc : c < s.nclocks) (hx : x ∈ s.clocked c) :
    s.live x.node ∧ x.port < s.numClk x.node ∧ s.clk x.node x.port = some c :=
  let ⟨a, b, d, e⟩ := hI.1.2.2.1.2 c hc x hx
  ⟨⟨a, b⟩, d, e⟩

/-- the logic clock / reset driver a live clock reports (`m_clockDriver`, `m_resetDriver`) is a live node of the right class whose
clock port 0 is attached to that clock **and** which that clock lists among its clocked nodes exactly once: the registration between
a clock and its driver nodes is bidirectional -/
theorem inv_driver_registered (s : State) (hI : Inv s) (k c d : Nat) (hk : k = 1 ∨ k = 2) (hc : c < s.nclocks)
    (hcal : s.calive c = true) (hd : s.drv k c = some d) :
    s.live d ∧ s.dk d = k ∧ s.clk d 0 = some c ∧ (s.clocked c).count ⟨d, 0⟩ = 1 := by
  obtain ⟨a, b, e, f, g⟩ := hI.1.2.2.2.2.2.1 c hc hcal k (by omega) (by omega) d hd
  exact ⟨⟨a, b⟩, e, g, (hI.1.2.2.1.1 d a b 0 f c g).2⟩

/-- the view `Clock::getClockedNodes()` hands out (`m_clockedNodesCache`, built lazily, extended by `attachClock` only when already
built, dropped by `detachClock`) is never stale: in every reachable state it is either not built or a duplicate-free list of exactly
the registered (node, port) pairs -/
theorem inv_cache_complete (s : State) (hI : Inv s) (c : Nat) (hc : c < s.nclocks) (hne : s.cache c ≠ []) (x : NodePort) :
    x ∈ s.cache c ↔ x ∈ s.clocked c := by
  rcases hI.1.2.2.2.2.2.2 c hc with h0 | ⟨_, h1, h2⟩
  · exact absurd h0 hne
  · exact ⟨h1 x, h2 x⟩

/-- … and what the getter returns right after the call is a permutation of the registered set -/
theorem getClockedNodes_complete (s s' : State) (c : Nat) (hI : Inv s) (hr : getClockedNodes s c = .ok s') :
    Inv s' ∧ ∀ x, x ∈ s'.cache c ↔ x ∈ s'.clocked c := by
  have hI' := Gatery.C09.inv_step (.getClockedNodes c) hI hr
  refine ⟨hI', fun x => ?_⟩
  unfold getClockedNodes at hr
  split at hr
  · cases hr
  rename_i hg
  obtain ⟨hc, _⟩ := Classical.not_not.mp hg
  split at hr
  · have e := Except.ok.inj hr
    subst e
    show x ∈ upd s.cache c (sortNP s.nid (s.clocked c)) c ↔ x ∈ s.clocked c
    rw [upd_same]
    exact (sortNP_perm s.nid (s.clocked c)).mem_iff
  · rename_i hne
    have e := Except.ok.inj hr
    subst e
    exact inv_cache_complete s hI c hc hne x

/-- `setOutputConnectionType` never changes the type of an output that some connected input refers to (it either throws or finds the
type unchanged): the connection type a consumer was connected to stays the one it sees -/
theorem setType_keeps_attached_types (s s' : State) (h o : Nat) (t : CType) (hI : Inv s)
    (hr : setOutputConnectionType s h o t = .ok s') : TypeStable s s' := by
  obtain ⟨ct, e⟩ := setType_spec hr
  intro h' _ _ hs ha i _ hi d hd hp
  exact setType_attached_stable hI.1.1 hr h' i d hs ha hi hp

/-- the typed `connectInput` of arithmetic (`cls = 1`) and logic (`cls = 2`) nodes, whose output type follows their operands: if it
returns normally the graph is well formed and no existing connection has seen its driver's type change (a wider operand under attached
consumers makes it throw instead); if it throws, the operand is nevertheless connected (`afterThrow`) and the graph is still well formed -/
theorem typedConnect_ok (s s' : State) (cls h i : Nat) (d : Option NodePort) (hI : Inv s)
    (hr : typedConnect s cls h i d = .ok s') : Inv s' ∧ TypeStable s s' := by
  refine ⟨Gatery.C09.inv_step (.typedConnect cls h i d) hI hr, ?_⟩
  intro h' hs' ha' _ _ i' hi' _ d' hd' _
  exact typedConnect_stable hI.1.1 hr h' i' d' hs' ha' hi' hd'

theorem typedConnect_throw (s : State) (cls h i : Nat) (d : Option NodePort) (hI : Inv s) :
    Inv (afterThrow s (.typedConnect cls h i d)) := inv_afterThrow _ hI

/-- `createUnconnectedClone` (with `copyBaseToClone` as it is: `m_clocks.resize(n)`): the clone has as many clock ports as the
source and none of them is set, so nothing has to be registered; the graph stays well formed -/
theorem clone_unclocked (s s' : State) (src : Nat) (hI : Inv s) (hr : cloneNode s src = .ok s') :
    Inv s' ∧ s'.numClk s.size = s.numClk src ∧ ∀ p, s'.clk s.size p = none := by
  refine ⟨cloneNode_inv hI hr, ?_⟩
  unfold cloneNode at hr
  split at hr
  · cases hr
  simp only at hr
  have hG : G { createNode s (s.isSig src) (s.numIn src) (s.numOut src) (s.numClk src) (s.dk src) with
      ctype := fun x y => if x = s.size then s.ctype src y
        else (createNode s (s.isSig src) (s.numIn src) (s.numOut src) (s.numClk src) (s.dk src)).ctype x y } :=
    ((prim_inv (s' := s) hI).1 (s.isSig src) (s.numIn src) (s.numOut src) (s.numClk src) (s.dk src)).1.2.1
  obtain ⟨gn, gr, rfl, _⟩ := moveToGroup_spec hG hr
  exact ⟨by simp [createNode], fun p => by simp [createNode, clearFrom_apply]⟩

/-- The in-place erase loop of the cull passes, for an arbitrary visit function that may change the pass state and decide to
erase, any index-type modulus `W` (2^64 for `size_t`, 2^32 for `unsigned`) larger than the vector: it terminates after exactly
`v.length` iterations, the sequence of visited elements is a permutation of the original vector (every element — surviving or
not — is visited exactly once, none skipped after the `i--`), and what is left is a permutation of the visited survivors. -/
theorem erase_loop_visits_all {σ α : Type} (W : Nat) (f : σ → α → σ × Bool) (st : σ) (v : List α) (hW : v.length < W) :
    ∃ st' v' vis, eraseLoop W f v.length st 0 v [] = some (st', v', vis) ∧
      (vis.map Prod.fst).Perm v ∧ v'.Perm (kept vis) :=
  eraseLoop_visits W f st v hW

/-- `bypassOutputToInput(o, i)` on a well-formed graph terminates, keeps it well formed and leaves output `o` without consumers,
unless input `i` is driven by output `o` of the same node -/
theorem bypass_ok (s : State) (h o i : Nat) (hI : Inv s) (hl : s.live h) (ho : o < s.numOut h) (hi : i < s.numIn h)
    (hns : s.inp h i ≠ some ⟨h, o⟩) :
    ∃ s', bypassOutputToInput s h o i = .ok s' ∧ Inv s' ∧ s'.conns h o = [] := by
  have hE := hI.1.1
  have hv : ∀ x ∈ s.inp h i, s.validOut x := by
    intro x hx
    obtain ⟨a, b, c, _⟩ := hE.1 h hl.1 hl.2 i hi x hx
    exact ⟨⟨a, b⟩, c⟩
  obtain ⟨s', hs'⟩ := bypassLoop_terminates hns _ s hE hl ho hv rfl
  have hb : bypassOutputToInput s h o i = .ok s' := by
    unfold bypassOutputToInput
    rw [if_neg (fun hn => hn hl), if_neg (fun hn => hn hi), if_neg (fun hn => hn ho)]
    exact hs'
  refine ⟨s', hb, Gatery.C09.inv_step (.bypass h o i) hI hb, ?_⟩
  obtain ⟨ip, c, rfl, _, hz⟩ := bypassLoop_spec _ hE hs'
  exact hz

/-- … and in that excluded case the loop of the real code never terminates: every iteration re-connects the first consumer
to the driver it already has and changes nothing (whatever the iteration budget) -/
theorem bypass_self_diverges (s : State) (h o i : Nat) (hI : Inv s) (hl : s.live h) (hi : i < s.numIn h)
    (hself : s.inp h i = some ⟨h, o⟩) (fuel : Nat) :
    bypassLoop fuel s h o (s.inp h i) = .error .diverge := by
  rw [hself]; exact bypassLoop_self_diverges hI.1.1 hl hi hself fuel

/-- the internal assertion of `disconnectInput` (`HCL_ASSERT(it != connections.end())`) is unreachable on a well-formed graph -/
theorem disconnect_never_asserts (s : State) (h i : Nat) (hI : Inv s) (hl : s.live h) (hi : i < s.numIn h) :
    ∃ s', disconnectInput s h i = .ok s' ∧ Inv s' :=
  let ⟨s', hs'⟩ := disconnect_total hI.1.1 hl hi
  ⟨s', hs', Gatery.C09.inv_step (.disconnect h i) hI hs'⟩

/-! ## non-vacuity -/

/-- a history with a fan-out of two, a self loop, groups, a clock, a deletion in the middle of `m_nodes` and a cull pass -/
def demoOps : List Op :=
  [.createNode true 1 1 0, .createNode false 2 1 1, .createNode true 1 1 0, .createNode true 1 1 0, .createGroup, .createClock,
   .connect 1 0 (some ⟨0, 0⟩), .connect 1 1 (some ⟨0, 0⟩), .connect 2 0 (some ⟨1, 0⟩), .connect 0 0 (some ⟨0, 0⟩),
   .moveToGroup 0 (some 0), .moveToGroup 1 (some 1), .moveToGroup 2 (some 1), .attachClock 1 0 (some 0),
   .eraseNode 1, .cullOrphanedSignals]

def obs (r : Res State) : Option (List Nat × List NodePort × Option NodePort × List Nat × List NodePort × Nat) :=
  match r with
  | .ok s => some (s.order, s.conns 0 0, s.inp 2 0, s.gnodes 1, s.clocked 0, s.nextId)
  | .error _ => none

-- after erasing node 1 (index 1 of m_nodes: node 3 is moved into its place) nodes 2,3 are orphaned signals and get culled;
-- node 0 keeps only its self loop
example : obs (run State.init demoOps) = some ([0], [⟨0, 0⟩], none, [], [], 4) := by rfl

example : Inv State.init := by decide

/-- clone a clocked node, attach the clone to the same clock, copy a two-node region with and without copying clocks, destroy a clock -/
def demoOps3 : List Op :=
  [.createClock, .createNode false 3 1 1, .createNode true 1 1 0, .attachClock 0 0 (some 0), .connect 1 0 (some ⟨0, 0⟩),
   .cloneNode 0, .attachClock 2 0 (some 0), .copySubnet [] [⟨1, 0⟩] false, .copySubnet [] [⟨1, 0⟩] true, .destroyClock 0]

def obs3 (r : Res State) : Option (Nat × List NodePort × List NodePort × Option Nat × Option Nat × Option NodePort) :=
  match r with
  | .ok s => some (s.size, s.clocked 0, s.clocked 1, s.clk 4 0, s.clk 6 0, s.inp 3 0)
  | .error _ => none

-- before the clock dies it lists the original, the clone and the copy made with copyClocks = false; the copy made with
-- copyClocks = true (node 6) has a clock of its own (clock 1)
example : obs3 (run State.init (demoOps3.take 9)) = some (7, [⟨0, 0⟩, ⟨2, 0⟩, ⟨4, 0⟩], [⟨6, 0⟩], some 0, some 1, some ⟨4, 0⟩) := by rfl
example : obs3 (run State.init demoOps3) = some (7, [], [⟨6, 0⟩], none, some 1, some ⟨4, 0⟩) := by rfl

/-- a clock gets a reset driver first and a clock driver second (the order of the frontend's `overrideRstWith` / `overrideClkWith`),
then both are replaced; the released nodes are unbound and can be deleted -/
def demoOps4 : List Op :=
  [.createClock, .createNode false 1 0 1 2, .createNode false 1 0 1 1, .setLogicDriver 2 0 0, .setLogicDriver 1 0 1,
   .createNode false 1 0 1 1, .createNode false 1 0 1 2, .setLogicDriver 1 0 2, .setLogicDriver 2 0 3, .eraseNode 0]

def obs4 (r : Res State) : Option (Option Nat × Option Nat × List NodePort × Option Nat × Option Nat × List Nat) :=
  match r with
  | .ok s => some (s.drv 1 0, s.drv 2 0, s.clocked 0, s.clk 0 0, s.clk 1 0, s.order)
  | .error _ => none

example : obs4 (run State.init (demoOps4.take 5)) = some (some 1, some 0, [⟨0, 0⟩, ⟨1, 0⟩], some 0, some 0, [0, 1]) := by rfl
example : obs4 (run State.init demoOps4) = some (some 2, some 3, [⟨2, 0⟩, ⟨3, 0⟩], none, none, [3, 1, 2]) := by rfl

/-- the cache scenario: attach A, B; build the view; detach A (view dropped); attach C (must not start a partial view); build again -/
def demoOps5 : List Op :=
  [.createClock, .createNode false 0 0 1, .createNode false 0 0 1, .createNode false 0 0 1,
   .attachClock 0 0 (some 0), .attachClock 1 0 (some 0), .getClockedNodes 0, .attachClock 2 0 (some 0), .detachClock 0 0,
   .attachClock 0 0 (some 0), .getClockedNodes 0]

def obs5 (r : Res State) : Option (List NodePort × List NodePort) :=
  match r with
  | .ok s => some (s.clocked 0, s.cache 0)
  | .error _ => none

example : obs5 (run State.init (demoOps5.take 8)) = some ([⟨0, 0⟩, ⟨1, 0⟩, ⟨2, 0⟩], [⟨0, 0⟩, ⟨1, 0⟩, ⟨2, 0⟩]) := by rfl
example : obs5 (run State.init (demoOps5.take 10)) = some ([⟨1, 0⟩, ⟨2, 0⟩, ⟨0, 0⟩], []) := by rfl
example : obs5 (run State.init demoOps5) = some ([⟨1, 0⟩, ⟨2, 0⟩, ⟨0, 0⟩], [⟨0, 0⟩, ⟨1, 0⟩, ⟨2, 0⟩]) := by rfl

/-- the route of a width change through a producer's own inputs: an arithmetic node (2) with an 1-bit operand and a consumer (3);
connecting a 3-bit second operand would widen its output under the consumer: the call throws, the operand stays connected -/
def demoOps6 : List Op :=
  [.createNode false 0 1 0, .createNode false 0 1 0, .createNode false 2 1 0, .createNode true 1 1 0,
   .setType 0 0 ⟨1, 1⟩, .setType 1 0 ⟨1, 3⟩, .typedConnect 1 2 0 (some ⟨0, 0⟩), .signalConnect 3 (some ⟨2, 0⟩)]

def isAssert : Res State → Bool
  | .error .assert => true
  | _ => false

def obs6 (r : Res State) : Option (CType × CType × Option NodePort × List NodePort) :=
  match r with
  | .ok s => some (s.ctype 2 0, s.ctype 3 0, s.inp 2 1, s.conns 1 0)
  | .error _ => none

example : obs6 (run State.init demoOps6) = some (⟨1, 1⟩, ⟨1, 1⟩, none, []) := by rfl
example : isAssert ((run State.init demoOps6).bind fun s => typedConnect s 1 2 1 (some ⟨1, 0⟩)) = true := by rfl
example : obs6 (run State.init (demoOps6 ++ [.typedConnect 1 2 1 (some ⟨1, 0⟩)])) = some (⟨1, 1⟩, ⟨1, 1⟩, some ⟨1, 0⟩, [⟨2, 1⟩]) := by rfl
-- without the consumer the same call widens the output
example : obs6 (run State.init (demoOps6.take 7 ++ [.typedConnect 1 2 1 (some ⟨1, 0⟩)])) = some (⟨1, 3⟩, ⟨1, 0⟩, some ⟨1, 0⟩, [⟨2, 1⟩]) := by rfl

/-- the premises of `bypass_ok` / `bypass_self_diverges` are satisfiable: node 1 (one consumer) can be bypassed, node 0 cannot -/
def demoOps2 : List Op :=
  [.createNode true 1 1 0, .createNode true 1 1 0, .createNode false 2 1 0,
   .connect 0 0 (some ⟨0, 0⟩), .connect 1 0 (some ⟨0, 0⟩), .connect 2 0 (some ⟨1, 0⟩), .connect 2 1 (some ⟨1, 0⟩)]

def isDiverge : Res State → Bool
  | .error .diverge => true
  | _ => false

example : isDiverge ((run State.init demoOps2).bind fun s => bypassOutputToInput s 0 0 0) = true := by decide
example : obs ((run State.init demoOps2).bind fun s => bypassOutputToInput s 1 0 0) =
    some ([0, 1, 2], [⟨0, 0⟩, ⟨1, 0⟩, ⟨2, 0⟩, ⟨2, 1⟩], some ⟨0, 0⟩, [], [], 3) := by rfl

-- the erase loop on a concrete vector: 0,2,4 are erased; visiting order shows the moved-in back elements being visited in place
example : eraseLoop (2 ^ 64) (fun (n : Nat) (x : Nat) => (n + 1, x % 2 == 0)) 5 0 0 [0, 1, 2, 3, 4] [] =
    some (5, [3, 1], [(0, true), (4, true), (3, false), (1, false), (2, true)]) := by decide

end Gatery.C09.Props
