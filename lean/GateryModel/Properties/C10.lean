import GateryModel.C10.Lemmas
/-!
# C10 — property theorems (the part of the property that is logic)

*Results are a function of the design only, not of memory addresses or node order.*

What is proved here (for all keys / lists / operation histories / address assignments):
1. every comparator that gatery's `StableSet`/`StableMap` use — **translated from the C++ text on every run**
   (`Gen/StableCompare.lean`) — is defined on all pairs, is a strict order that is total on keys with distinct ids, and ignores
   the address component (`*_comparator_stable`);
2. hence iterating a `std::set`/`std::map` ordered by such a comparator yields the id-sorted sequence of the *same objects*
   whatever their addresses are and in whatever order they were inserted (`stable_iteration_address_free`,
   `stable_iteration_order_free`, `stable_iteration_sorted_by_id`);
3. every result permitted by the `std::sort` contract with such a comparator (`Conjunction::build`, CNF.cpp:264-269;
   `Clock::getClockedNodes`, Clock.cpp:99-100) is one fixed list determined by the ids (`sort_function_of_ids`);
4. an `UnstableSet`/`UnstableMap` used only through insert/emplace/operator[]/find/erase/contains/size/clear is
   observationally equal to an address-free reference map (`unstable_refines_reference`,
   `unstable_observations_address_free`).

What is **not** a theorem: that the rest of gatery touches addresses only through these containers. That is the audit
(tools/audit_unordered.py vs audit/unordered_sites.json) and the exploration (harness/c10.cpp: heap-layout perturbation).
-/
namespace Gatery.C10.Props
open Gatery.C10 Gatery.Gen.StableCompare

/-! ## 1. the translated comparators -/

/-- `StableCompare<hlim::NodePort>` (StableContainers.cpp:29-41) -/
theorem nodePort_comparator_stable : StableComparator cmpNodePort skeyNodePort NodePort.retag :=
  stableComparator_of_spec _ _ _ cmpNodePort_spec skeyNodePort_retag

/-- `StableCompare<hlim::RefCtdNodePort>` (StableContainers.cpp:44-56) -/
theorem refCtdNodePort_comparator_stable : StableComparator cmpRefCtdNodePort skeyNodePort NodePort.retag :=
  stableComparator_of_spec _ _ _ cmpRefCtdNodePort_spec skeyNodePort_retag

/-- `stableCompareNodes` = `StableCompare<NodeType*>` for every node class (StableContainers.cpp:66-69, .h:179-185) -/
theorem nodePtr_comparator_stable : StableComparator cmpNodePtr skeyPtr Ptr.retag :=
  stableComparator_of_spec _ _ _ cmpNodePtr_spec skeyPtr_retag

/-- `StableCompare<hlim::Clock*>` (StableContainers.cpp:71-74) -/
theorem clockPtr_comparator_stable : StableComparator cmpClockPtr skeyPtr Ptr.retag :=
  stableComparator_of_spec _ _ _ cmpClockPtr_spec skeyPtr_retag

/-- `StableCompare<hlim::NodeGroup*>` (StableContainers.cpp:76-79) -/
theorem nodeGroupPtr_comparator_stable : StableComparator cmpNodeGroupPtr skeyPtr Ptr.retag :=
  stableComparator_of_spec _ _ _ cmpNodeGroupPtr_spec skeyPtr_retag

/-- `StableCompare<hlim::Node_Pin*>` (StableContainers.cpp:81-84) -/
theorem nodePinPtr_comparator_stable : StableComparator cmpNodePinPtr skeyPtr Ptr.retag :=
  stableComparator_of_spec _ _ _ cmpNodePinPtr_spec skeyPtr_retag

/-- `StableCompare<hlim::Node_MultiDriver*>` (StableContainers.cpp:86-89) -/
theorem multiDriverPtr_comparator_stable : StableComparator cmpMultiDriverPtr skeyPtr Ptr.retag :=
  stableComparator_of_spec _ _ _ cmpMultiDriverPtr_spec skeyPtr_retag

/-- `StableCompare<vhdl::NodeInternalStorageSignal>` (export/vhdl/NamespaceScope.h:50-65) -/
theorem storageSignal_comparator_stable : StableComparator cmpStorageSignal skeyStorageSignal StorageSignal.retag :=
  stableComparator_of_spec _ _ _ cmpStorageSignal_spec skeyStorageSignal_retag

/-- `StableCompare<vhdl::RegisterConfig>` (export/vhdl/Process.h:110-125) -/
theorem registerConfig_comparator_stable : StableComparator cmpRegisterConfig skeyRegisterConfig RegisterConfig.retag :=
  stableComparator_of_spec _ _ _ cmpRegisterConfig_spec skeyRegisterConfig_retag

/-- distinct ids (or the same node and distinct ports) are strictly ordered, whatever the addresses -/
theorem nodePort_total_on_distinct_ids (a b : NodePort) (x y : Obj) (ha : a.node = some x) (hb : b.node = some y)
    (hne : x.id ≠ y.id ∨ a.port ≠ b.port) : ltOf cmpNodePort a b = true ∨ ltOf cmpNodePort b a = true := by
  apply nodePort_comparator_stable.total
  simp only [skeyNodePort, ha, hb]
  intro e
  simp at e
  rcases hne with h | h
  · exact h e.1
  · exact h e.2

/-! ## 2. iteration over a stable container

Generic in the key type `K` and the comparator: instantiate `sc` with any theorem of section 1. `run` = the container after an
arbitrary history of `insert`/`erase` (iteration order = list order), `fromList` = container filled from a sequence. -/

section
variable {K : Type} {cmp : K → K → M Bool} {skey : K → List Nat} {retag : (Obj → Nat) → K → K}

/-- **Address independence.** Replaying any operation history on re-addressed copies `ρ k` of the keys (`ρ` arbitrary, as long
as it keeps ids/ports) iterates over exactly the re-addressed copies, in the same order. -/
theorem stable_iteration_address_free (sc : StableComparator cmp skey retag) (ρ : K → K) (hρ : ∀ k, skey (ρ k) = skey k)
    (ops : List (Op K)) : run (ltOf cmp) (ops.map (Op.map ρ)) = (run (ltOf cmp) ops).map ρ :=
  run_map _ _ ρ (lt_map_of_skey sc.order ρ hρ) ops

/-- the same for the concrete re-assignment "object `o` now lives at address `f o`" -/
theorem stable_iteration_retag (sc : StableComparator cmp skey retag) (f : Obj → Nat) (ops : List (Op K)) :
    run (ltOf cmp) (ops.map (Op.map (retag f))) = (run (ltOf cmp) ops).map (retag f) :=
  stable_iteration_address_free sc (retag f) (sc.skey_retag f) ops

/-- **Order and address independence.** Filling a container from any permutation `l'` of re-addressed copies of the objects `l`
(ids unique) iterates like the container filled from `l`. -/
theorem stable_iteration_order_free (sc : StableComparator cmp skey retag) (ρ : K → K) (hρ : ∀ k, skey (ρ k) = skey k)
    (l l' : List K) (hp : l'.Perm (l.map ρ)) (huniq : KeyInjOn skey l) :
    fromList (ltOf cmp) l' = (fromList (ltOf cmp) l).map ρ :=
  fromList_perm_map sc.order ρ hρ l l' hp huniq

/-- iteration visits the keys in strictly increasing (id, port) order, after every history -/
theorem stable_iteration_sorted_by_id (sc : StableComparator cmp skey retag)
    (spec : ∀ a b, cmp a b = some (lexLt (skey a) (skey b))) (ops : List (Op K)) :
    ((run (ltOf cmp) ops).map skey).Pairwise fun x y => lexLt x y = true :=
  run_keys_sorted sc.order (fun a b => by rw [ltOf_eq cmp skey spec]) ops

/-- with unique ids the container holds exactly what was inserted -/
theorem stable_container_members (sc : StableComparator cmp skey retag) (l : List K) (huniq : KeyInjOn skey l) (z : K) :
    z ∈ fromList (ltOf cmp) l ↔ z ∈ l :=
  mem_fromList sc.order l huniq z

/-! ## 3. sorting with a stable comparator -/

/-- **`std::sort` with a stable comparator is a function of the ids.** `r₁` is any result the `std::sort` contract permits for
the vector `l₁`, `r₂` any result for a vector `l₂` holding re-addressed copies of the same objects in any order: then
`r₂` is `r₁` re-addressed, element by element. (No sorting algorithm is modelled; only its contract is used.) -/
theorem sort_function_of_ids (sc : StableComparator cmp skey retag) (ρ : K → K) (hρ : ∀ k, skey (ρ k) = skey k)
    (l₁ l₂ r₁ r₂ : List K) (huniq : KeyInjOn skey l₁) (hnd₁ : l₁.Nodup) (hnd₂ : l₂.Nodup) (hp : l₂.Perm (l₁.map ρ))
    (hs₁ : IsSortOf (ltOf cmp) l₁ r₁) (hs₂ : IsSortOf (ltOf cmp) l₂ r₂) : r₂ = r₁.map ρ := by
  rw [sort_unique sc.order l₁ r₁ huniq hnd₁ hs₁,
      sort_unique sc.order l₂ r₂ (keyInjOn_perm hp (keyInjOn_map ρ hρ l₁ huniq)) hnd₂ hs₂]
  exact fromList_perm_map sc.order ρ hρ l₁ l₂ hp huniq

end

/-! ## 4. UnstableSet / UnstableMap -/

/-- the address-ordered container answers every operation history like the address-free reference map -/
theorem unstable_refines_reference {α V κ : Type} [DecidableEq α] (lt : α → α → Bool) (akey : α → κ)
    (hord : StrictOrderOn lt akey) (hinj : ∀ a b, akey a = akey b → a = b) (ops : List (UOp α V)) :
    runU lt [] ops = runR [] ops :=
  runU_eq_runR hord hinj ops [] [] ⟨List.Perm.refl _, fun p hp => by cases hp⟩

/-- two address assignments (any two orders that are total modulo an injective address key) give the same observations -/
theorem unstable_observations_address_free {α V κ₁ κ₂ : Type} [DecidableEq α] (lt₁ lt₂ : α → α → Bool) (akey₁ : α → κ₁) (akey₂ : α → κ₂)
    (h₁ : StrictOrderOn lt₁ akey₁) (h₂ : StrictOrderOn lt₂ akey₂)
    (inj₁ : ∀ a b, akey₁ a = akey₁ b → a = b) (inj₂ : ∀ a b, akey₂ a = akey₂ b → a = b) (ops : List (UOp α V)) :
    runU lt₁ [] ops = runU lt₂ [] ops := by
  rw [unstable_refines_reference lt₁ akey₁ h₁ inj₁, unstable_refines_reference lt₂ akey₂ h₂ inj₂]

/-- instance: `UnstableMap<NodePort, V>` (defaulted `<=>` = (node address, port)) under two injective address assignments -/
theorem unstableMap_nodePort_address_free {V : Type} (adr₁ adr₂ : Nat → Nat)
    (i₁ : ∀ a b, adr₁ a = adr₁ b → a = b) (i₂ : ∀ a b, adr₂ a = adr₂ b → a = b) (ops : List (UOp (Nat × Nat) V)) :
    runU (nodePortDefaultLt adr₁) [] ops = runU (nodePortDefaultLt adr₂) [] ops := by
  apply unstable_observations_address_free _ _ _ _ (nodePortDefaultLt_order adr₁) (nodePortDefaultLt_order adr₂)
  · intro a b e; simp at e; exact Prod.ext (i₁ _ _ e.1) e.2
  · intro a b e; simp at e; exact Prod.ext (i₂ _ _ e.1) e.2

/-! ## non-vacuity -/

private def n (id addr : Nat) (port : Nat) : NodePort := ⟨some ⟨id, addr⟩, port⟩

/-- address order is the reverse of id order, insertion order mixed: iteration is by (id, port) -/
example : fromList (ltOf cmpNodePort) [n 7 100 0, n 3 900 1, ⟨none, 5⟩, n 3 900 0, n 5 500 0, n 7 100 0]
    = [⟨none, 5⟩, n 3 900 0, n 3 900 1, n 5 500 0, n 7 100 0] := by decide

/-- … and the pointer order (what `std::set<NodePort>` would do) differs on the same input: the premises are not trivial -/
example : (fromList (fun a b : NodePort => lexLt [(a.node.map (·.addr)).getD 0, a.port] [(b.node.map (·.addr)).getD 0, b.port])
    [n 7 100 0, n 3 900 1, n 5 500 0]).map (fun k => (k.node.map (·.id)).getD 0) = [7, 5, 3] := by decide

example : cmpNodePort (n 3 900 1) (n 7 100 0) = some true := by decide
example : cmpNodePort ((n 3 900 1).retag fun _ => 1) ((n 7 100 0).retag fun _ => 0) = some true := by decide
example : cmpRegisterConfig ⟨some ⟨1, 50⟩, none, 0, 1, 1⟩ ⟨some ⟨1, 60⟩, some ⟨0, 10⟩, 0, 0, 0⟩ = some true := by decide
example : KeyInjOn skeyNodePort [n 7 100 0, n 3 900 1, n 3 900 0] := by
  intro a ha b hb e
  simp [n] at ha hb
  rcases ha with rfl | rfl | rfl <;> rcases hb with rfl | rfl | rfl <;> first | rfl | (simp [skeyNodePort] at e)

/-- an `UnstableMap` history under two address assignments (identity and reversal) -/
example : runU (V := Nat) (nodePortDefaultLt id) [] [.insert (1, 0) 10, .insert (2, 0) 20, .insert (1, 0) 11, .find (1, 0), .erase (2, 0), .size]
    = [.ins true (some 10), .ins true (some 20), .ins false (some 10), .val (some 10), .count 1, .count 1] := by decide
example : runU (V := Nat) (nodePortDefaultLt (100 - ·)) [] [.insert (1, 0) 10, .insert (2, 0) 20, .insert (1, 0) 11, .find (1, 0), .erase (2, 0), .size]
    = [.ins true (some 10), .ins true (some 20), .ins false (some 10), .val (some 10), .count 1, .count 1] := by decide

end Gatery.C10.Props
