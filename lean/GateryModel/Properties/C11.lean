import GateryModel.C11.Erase
import GateryModel.C11.Bypass
/-!
# C11 — property theorems

*Giving signals names, wrapping logic into areas/entities, attaching comments, attributes or taps, and inserting pass-through signal
copies changes neither the simulated I/O behaviour before or after post-processing nor the behaviour of the exported VHDL.*

In the netlist semantics (`Gatery.Nodes.Netlist`, tied to the reference simulator by C03/C08) a node's meaning is a function of its
kind, width and input wiring only: names, comments, groups and attributes do not occur. What decorations add to the graph are
pass-through nodes; the theorems say that these are exactly transparent, in every netlist and for every stimulus, including undefined
bits. That post-processing of the decorated and the undecorated twin stays behaviourally equal then follows from C01 for each twin
against the same reference; it is additionally checked directly on the implementation (twins of generated designs, both post-processors).
Exported VHDL of twins is compared through C02's interpreter once that is in place (not yet part of this check).
-/
namespace Gatery.C11.Props
open Gatery.Nodes Gatery.C11

/-- A consumer reached through a pass-through signal node computes exactly what it computes when wired to the signal's driver. -/
theorem passthrough_transparent (pre post : List NetNode) (s d w : Nat) (n : NetNode)
    (hs : pre[s]? = some ⟨.signal, w, [some d]⟩) (hd : d < s) (env : Env) :
    evalNet env (pre ++ n :: post) = evalNet env (pre ++ { n with ins := reroute s d n.ins } :: post) :=
  signal_transparent pre post s d w n hs hd env

/-- Adding a pass-through node (named copy, tap, attribute carrier) changes no existing value and carries its driver's value. -/
theorem decoration_conservative (net : List NetNode) (d w : Nat) (env : Env) :
    ∃ v, evalNet env (net ++ [⟨.signal, w, [some d]⟩]) = evalNet env net ++ [v] ∧ v = (evalNet env net).getD d none :=
  insert_signal_conservative net d w env

/-- Any change of a node that keeps its value in context (renaming, regrouping, commenting: the record fields the semantics does
    not read) leaves the whole evaluation unchanged. -/
theorem same_value_same_run (pre post : List NetNode) (n n' : NetNode)
    (h : ∀ env, evalNetNode env (evalNet env pre) n = evalNetNode env (evalNet env pre) n') (env : Env) :
    evalNet env (pre ++ n :: post) = evalNet env (pre ++ n' :: post) := replace_exact pre post n n' h env

/-- **All decorations at once**: short-circuiting every chain of pass-through nodes (any number, nested to any depth) in a netlist of
    any size — every input port re-routed to the start of its chain, as `getNonSignalDriver` does — changes no value of any node, for
    every stimulus, undefined bits included. -/
theorem all_decorations_transparent (env : Env) (net : List NetNode) : evalNet env (bypass net) = evalNet env net := bypass_exact env net

/-- The same for clocked netlists (register data / enable / reset-value ports short-circuited too) over stimuli of any length:
    every node value at every cycle is unchanged. -/
theorem all_decorations_transparent_clocked (c : SeqNet) (stim : List Cycle) (st : List BV4) :
    seqRun (bypassSeq c) stim st = seqRun c stim st := bypassSeq_exact c stim st

/-- `bypass` really short-circuits: a NOT behind a chain of two named copies is wired to the pin -/
example : bypass [⟨.input 0, 1, []⟩, ⟨.signal, 1, [some 0]⟩, ⟨.signal, 1, [some 1]⟩, ⟨.node (.logic .NOT) .bool, 1, [some 2]⟩] =
    [⟨.input 0, 1, []⟩, ⟨.signal, 1, [some 0]⟩, ⟨.signal, 1, [some 0]⟩, ⟨.node (.logic .NOT) .bool, 1, [some 0]⟩] := by
  simp [bypass, bypassFrom, resolveRef, resolveSelf]

/-- non-vacuity: in0 ; 1: signal(in0) ; 2: NOT(1)  — routing the NOT to in0 directly gives the same values, for an undefined input too -/
example : evalNet [[B4.x]] ([⟨.input 0, 1, []⟩, ⟨.signal, 1, [some 0]⟩] ++ ⟨.node (.logic .NOT) .bool, 1, [some 1]⟩ :: []) =
          evalNet [[B4.x]] ([⟨.input 0, 1, []⟩, ⟨.signal, 1, [some 0]⟩] ++ ⟨.node (.logic .NOT) .bool, 1, [some 0]⟩ :: []) :=
  signal_transparent [⟨.input 0, 1, []⟩, ⟨.signal, 1, [some 0]⟩] [] 1 0 1 ⟨.node (.logic .NOT) .bool, 1, [some 1]⟩ rfl (by omega) [[B4.x]]

end Gatery.C11.Props
