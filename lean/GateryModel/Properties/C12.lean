import GateryModel.C12.LemmasInfer
import GateryModel.C12.LemmasDom
import GateryModel.C12.OrderDependence
import GateryModel.C12.LemmasTerm
/-!
# C12 — property theorems

*Unmarked clock-domain crossings are always rejected, marked ones accepted; clocks that share the physical clock source
count as one domain.*

Model: `C12/Model.lean` (`inferClockDomains` as the set `Run` of all its executions, `checkValidInputClocks` and its overrides,
`getClockPinSource`); specification: `C12/Spec.lean` (marker-free paths `Reach`, `Crossing`). Everything is stated for
**all** finite graphs (`g : Graph` with all references in range; feedback through registers is allowed — their outputs depend
on no input — and so are combinational loops, except where a theorem mentions `dom` or totality and asks for `Acyclic`), **all** clock assignments and **all** pin-source functions `ps`, **all** visiting orders
of the ports and **all** orders of serving the retry set.  Statements only; the work is in `C12/Lemmas*.lean`.

Note on `infer = dom`: the inferred *map* is **not** independent of the node order — a port gets the domain of the first
non-constant dependent input that is *known when the port is (re)tried* (CDCDetection.cpp:83-98), not of the first one in
input order. What is order-independent is (a) the verdict, always, and (b) the map up to pin source, on accepted designs.
Theorems `every_run_grounded`, `verdict_confluent`, `run_verdict_confluent`, `run_verdict_eq_dom`, `run_sim_grounded` say exactly this; the driver
counts, per run, the graphs on which the real map differs from `dom` (`orderDependent` in the evidence).
-/
namespace Gatery.C12.Props
open Gatery.C12

/-- The schedule the code actually runs (ports in storage order, retry set served smallest `NodePort` first) is one of
    the modelled executions. -/
theorem infer_is_run (g : Graph) (fuel : Nat) (order : List Nat) (σ : St) (h : infer g fuel order = some σ) :
    Run g order {} σ :=
  infer_run h

/-- **Confluence, part 1.** Every execution of `inferClockDomains` — any visiting order that covers all ports, any order
    of serving the retry set, any graph (undriven signal loops included) — ends in a *grounded fixed point* of the inference
    rules: clocked ports carry their clock, a combinational port is CONSTANT iff all its dependent inputs are and otherwise
    carries the domain of one of them, and every non-constant domain is the clock of a source that reaches the port over a
    marker-free path. (Ports left unassigned read as CONSTANT, as in `detectUnguardedCDCCrossings`.) -/
theorem every_run_grounded (g : Graph) (order : List Nat) (σ : St)
    (hcover : ∀ p, p < g.ports.size → p ∈ order) (hrun : Run g order {} σ) : Grounded g σ.total :=
  run_grounded hcover hrun

/-- On an acyclic graph every execution assigns every port. -/
theorem every_run_total (g : Graph) (order : List Nat) (σ : St) (hc : g.Closed) (hacyc : g.Acyclic)
    (hcover : ∀ p, p < g.ports.size → p ∈ order) (hrun : Run g order {} σ) :
    ∀ p, p < g.ports.size → σ.get p ≠ none :=
  (run_total_admissible hc hacyc hcover hrun).1

/-- The denotational map (own clock, else first non-constant dependent input in port order) is a grounded fixed point. -/
theorem dom_is_grounded (g : Graph) (hc : g.Closed) (hacyc : g.Acyclic) : Grounded g (dom g) :=
  grounded_of_acyclic hc hacyc (dom_admissible hc hacyc)

/-- On acyclic graphs every fixed point is grounded. -/
theorem admissible_is_grounded (g : Graph) (D : Nat → Dom) (hc : g.Closed) (hacyc : g.Acyclic) (ha : Admissible g D) :
    Grounded g D :=
  grounded_of_acyclic hc hacyc ha

/-- **Termination.** Whichever member of the retry set is taken next, one iteration of the `while` loop of `attemptResolve`
    keeps all port numbers in range and strictly decreases (number of unassigned ports, size of the retry set)
    lexicographically … -/
theorem retry_step_decreases (g : Graph) (σ : St) (p : Nat) (hin : InRange g σ) (hp : p ∈ σ.retry) :
    InRange g (process g (σ.pop p) p) ∧
    Prod.Lex (· < ·) (· < ·) (measure g (process g (σ.pop p) p)) (measure g σ) :=
  pop_step_decreases hin hp

/-- … hence there is no infinite sequence of iterations: the loop terminates for every order of serving the retry set. -/
theorem retry_loop_wellfounded (g : Graph) :
    WellFounded (fun τ σ : St => InRange g σ ∧ ∃ p, p ∈ σ.retry ∧ τ = process g (σ.pop p) p) :=
  retry_loop_terminates g

/-- **`infer = dom` does not hold** (so confluence is stated for the verdict, and for the map only up to pin source on
    accepted designs): there is an acyclic graph and two visiting orders, both executed exactly as the code does
    (smallest `NodePort` first), whose resulting maps differ at a port; one of them differs from the denotational map. -/
theorem map_is_order_dependent :
    ∃ (g : Graph) (o₁ o₂ : List Nat) (σ₁ σ₂ : St) (p : Nat), g.Closed ∧ g.Acyclic ∧
      (∀ q, q < g.ports.size → q ∈ o₁) ∧ (∀ q, q < g.ports.size → q ∈ o₂) ∧
      Run g o₁ {} σ₁ ∧ Run g o₂ {} σ₂ ∧ p < g.ports.size ∧ σ₁.total p ≠ σ₂.total p ∧ σ₂.total p ≠ dom g p := by
  obtain ⟨σ₁, h1, e1⟩ := exOD_infer_012
  obtain ⟨σ₂, h2, e2⟩ := exOD_infer_120
  refine ⟨exOD, [0, 1, 2], [1, 2, 0], σ₁, σ₂, 2, exOD_wf.1, exOD_wf.2, by decide, by decide, infer_run h1, infer_run h2, by decide, ?_, ?_⟩
  · rw [e1, e2]; decide
  · rw [e2, exOD_dom]; decide

/-- **Soundness and completeness in one statement.** For every grounded fixed point `D`, post-processing
    rejects (some node fails `checkValidInputClocks`) **iff** the design contains a crossing in the path sense: a
    marker-free path from a clocked source into a register / pin / memory port of a clock with another pin source, two such
    paths from different pin sources into two inputs of one node, or a path into a marker declared for another input clock. -/
theorem verdict_iff_crossing (g : Graph) (ps : Clk → Clk) (D : Nat → Dom) (hc : g.Closed) (hg : Grounded g D) :
    g.rejects ps D = true ↔ Crossing g ps :=
  rejects_iff_crossing hc hg

/-- **Confluence, part 2: the verdict does not depend on the order.** Any two grounded fixed points give the same verdict. -/
theorem verdict_confluent (g : Graph) (ps : Clk → Clk) (D₁ D₂ : Nat → Dom) (hc : g.Closed)
    (h1 : Grounded g D₁) (h2 : Grounded g D₂) : g.rejects ps D₁ = g.rejects ps D₂ := by
  have e1 := rejects_iff_crossing (ps := ps) hc h1
  have e2 := rejects_iff_crossing (ps := ps) hc h2
  cases h : g.rejects ps D₁ <;> cases h' : g.rejects ps D₂ <;> simp_all

/-- two executions with different node orders / retry orders reach the same verdict -/
theorem run_verdict_confluent (g : Graph) (ps : Clk → Clk) (o₁ o₂ : List Nat) (σ₁ σ₂ : St) (hc : g.Closed)
    (hc₁ : ∀ p, p < g.ports.size → p ∈ o₁) (hc₂ : ∀ p, p < g.ports.size → p ∈ o₂)
    (h₁ : Run g o₁ {} σ₁) (h₂ : Run g o₂ {} σ₂) : g.rejects ps σ₁.total = g.rejects ps σ₂.total :=
  verdict_confluent g ps _ _ hc (run_grounded hc₁ h₁) (run_grounded hc₂ h₂)

/-- the verdict of any execution is the verdict computed from the denotational map -/
theorem run_verdict_eq_dom (g : Graph) (ps : Clk → Clk) (order : List Nat) (σ : St) (hc : g.Closed) (hacyc : g.Acyclic)
    (hcover : ∀ p, p < g.ports.size → p ∈ order) (hrun : Run g order {} σ) :
    g.rejects ps σ.total = g.rejects ps (dom g) :=
  verdict_confluent g ps _ _ hc (run_grounded hcover hrun) (dom_is_grounded g hc hacyc)

/-- **Confluence, part 3 (`infer ≈ dom`).** On an accepted design the map of any execution equals any other grounded
    fixed point — e.g. the map of another execution, or the denotational map — up to pin source, port by port. -/
theorem run_sim_grounded (g : Graph) (ps : Clk → Clk) (order : List Nat) (σ : St) (D : Nat → Dom) (hc : g.Closed)
    (hcover : ∀ p, p < g.ports.size → p ∈ order) (hrun : Run g order {} σ) (hacc : g.rejects ps σ.total = false)
    (hD : Grounded g D) : ∀ p, p < g.ports.size → sim ps (σ.total p) (D p) := by
  have hok : ∀ k, k < g.nodes.size → (g.node k).check ps σ.total = true := by
    intro k hk
    cases hch : (g.node k).check ps σ.total with
    | true => rfl
    | false =>
      have : g.rejects ps σ.total = true := rejects_iff.2 ⟨k, hk, hch⟩
      rw [hacc] at this; cases this
  exact adm_sim hc (run_grounded hcover hrun) hD hok

theorem run_sim_dom (g : Graph) (ps : Clk → Clk) (order : List Nat) (σ : St) (hc : g.Closed) (hacyc : g.Acyclic)
    (hcover : ∀ p, p < g.ports.size → p ∈ order) (hrun : Run g order {} σ) (hacc : g.rejects ps σ.total = false) :
    ∀ p, p < g.ports.size → sim ps (σ.total p) (dom g p) :=
  run_sim_grounded g ps order σ (dom g) hc hcover hrun hacc (dom_is_grounded g hc hacyc)

/-- **End to end.** Whatever order the nodes are stored in and the retry set is served in, `Circuit::postprocess` throws
    the design-check error exactly for the designs with an unmarked or wrongly marked crossing. -/
theorem postprocess_rejects_iff_crossing (g : Graph) (ps : Clk → Clk) (order : List Nat) (σ : St) (hc : g.Closed)
    (hcover : ∀ p, p < g.ports.size → p ∈ order) (hrun : Run g order {} σ) :
    g.rejects ps σ.total = true ↔ Crossing g ps :=
  rejects_iff_crossing hc (run_grounded hcover hrun)

/-- **Soundness, spelled out on paths.** If no node is flagged then along every marker-free path from a source of clock
    `a`: (1) into any input of a register / pin / memory port clocked by `b`: `ps a = ps b`; (2) if a second marker-free
    path from a source of clock `a'` enters another input of the same node: `ps a = ps a'`; (3) into a crossing marker
    declared for input clock `ic`: `ps a = ps ic`. -/
theorem sound (g : Graph) (ps : Clk → Clk) (D : Nat → Dom) (hc : g.Closed) (hg : Grounded g D)
    (hacc : g.rejects ps D = false) (k : Nat) (hk : k < g.nodes.size) (s d i a : Nat)
    (hsrc : g.rel s = .clock (some a)) (hpath : Reach g s d) (hin : (g.node k).ins[i]? = some (some d)) :
    (∀ b, (g.node k).ownClock = some b → ps a = ps b) ∧
    (∀ s' d' j a', (g.node k).baseChecked → j ≠ i → g.rel s' = .clock (some a') → Reach g s' d' →
        (g.node k).ins[j]? = some (some d') → ps a = ps a') ∧
    (∀ ic oc, (g.node k).kind = .cdc ic oc → i = 0 → ps a = ps ic) := by
  have hno : ¬ Crossing g ps := by
    intro h
    rw [(rejects_iff_crossing hc hg).2 h] at hacc
    cases hacc
  have hl : g.label s = .clock a := by unfold Graph.label; rw [hsrc]
  have harr : Arrives g (g.node k) i (.clock a) := ⟨d, s, hin, hpath, hl⟩
  refine ⟨fun b hb => ?_, fun s' d' j a' hbc hji hsrc' hpath' hin' => ?_, fun ic oc hkind hi0 => ?_⟩
  · apply Classical.byContradiction
    intro hne
    exact hno ⟨k, hk, Violation.sink b i (.clock a) hb harr (by simpa [compat, compatB] using hne)⟩
  · apply Classical.byContradiction
    intro hne
    have hl' : g.label s' = .clock a' := by unfold Graph.label; rw [hsrc']
    exact hno ⟨k, hk, Violation.mix i j (.clock a) (.clock a') hbc (Ne.symm hji) harr ⟨d', s', hin', hpath', hl'⟩
      (by simpa [compat, compatB] using hne)⟩
  · apply Classical.byContradiction
    intro hne
    subst hi0
    exact hno ⟨k, hk, Violation.marker ic oc (.clock a) hkind harr (by simpa [compat, compatB] using hne)⟩

/-- **Completeness (unmarked crossing into a clocked node).** A marker-free path from a source of clock `a` into a
    register / pin / memory port of clock `b` with `ps a ≠ ps b` makes post-processing fail. -/
theorem complete_sink (g : Graph) (ps : Clk → Clk) (D : Nat → Dom) (hc : g.Closed) (hg : Grounded g D)
    (k : Nat) (hk : k < g.nodes.size) (s d i a b : Nat) (hsrc : g.rel s = .clock (some a)) (hpath : Reach g s d)
    (hin : (g.node k).ins[i]? = some (some d)) (hown : (g.node k).ownClock = some b) (hne : ps a ≠ ps b) :
    g.rejects ps D = true := by
  have hl : g.label s = .clock a := by unfold Graph.label; rw [hsrc]
  exact (rejects_iff_crossing hc hg).2
    ⟨k, hk, Violation.sink b i (.clock a) hown ⟨d, s, hin, hpath, hl⟩ (by simpa [compat, compatB] using hne)⟩

/-- **Completeness (signals of two domains combined).** -/
theorem complete_mix (g : Graph) (ps : Clk → Clk) (D : Nat → Dom) (hc : g.Closed) (hg : Grounded g D)
    (k : Nat) (hk : k < g.nodes.size) (s₁ d₁ i a₁ s₂ d₂ j a₂ : Nat) (hb : (g.node k).baseChecked) (hij : i ≠ j)
    (hsrc₁ : g.rel s₁ = .clock (some a₁)) (hpath₁ : Reach g s₁ d₁) (hin₁ : (g.node k).ins[i]? = some (some d₁))
    (hsrc₂ : g.rel s₂ = .clock (some a₂)) (hpath₂ : Reach g s₂ d₂) (hin₂ : (g.node k).ins[j]? = some (some d₂))
    (hne : ps a₁ ≠ ps a₂) : g.rejects ps D = true := by
  have hl₁ : g.label s₁ = .clock a₁ := by unfold Graph.label; rw [hsrc₁]
  have hl₂ : g.label s₂ = .clock a₂ := by unfold Graph.label; rw [hsrc₂]
  exact (rejects_iff_crossing hc hg).2
    ⟨k, hk, Violation.mix i j (.clock a₁) (.clock a₂) hb hij ⟨d₁, s₁, hin₁, hpath₁, hl₁⟩ ⟨d₂, s₂, hin₂, hpath₂, hl₂⟩
      (by simpa [compat, compatB] using hne)⟩

/-- **Completeness (wrongly declared marker).** A marker whose declared input clock differs (in pin source) from the
    clock arriving over a marker-free path makes post-processing fail. -/
theorem complete_marker (g : Graph) (ps : Clk → Clk) (D : Nat → Dom) (hc : g.Closed) (hg : Grounded g D)
    (k : Nat) (hk : k < g.nodes.size) (s d a ic : Nat) (oc : Option Clk) (hsrc : g.rel s = .clock (some a))
    (hpath : Reach g s d) (hin : (g.node k).ins[0]? = some (some d)) (hkind : (g.node k).kind = .cdc ic oc)
    (hne : ps a ≠ ps ic) : g.rejects ps D = true := by
  have hl : g.label s = .clock a := by unfold Graph.label; rw [hsrc]
  exact (rejects_iff_crossing hc hg).2
    ⟨k, hk, Violation.marker ic oc (.clock a) hkind ⟨d, s, hin, hpath, hl⟩ (by simpa [compat, compatB] using hne)⟩

/-- all crossings pass through a marker declared for exactly that source and destination clock (up to pin source):
    every marker-free path ends where its pin source is expected -/
def WellMarked (g : Graph) (ps : Clk → Clk) : Prop :=
  ∀ k, k < g.nodes.size →
    (∀ b i a, (g.node k).ownClock = some b → Arrives g (g.node k) i (.clock a) → ps a = ps b) ∧
    (∀ i j a₁ a₂, (g.node k).baseChecked → i ≠ j → Arrives g (g.node k) i (.clock a₁) → Arrives g (g.node k) j (.clock a₂) →
        ps a₁ = ps a₂) ∧
    (∀ ic oc a, (g.node k).kind = .cdc ic oc → Arrives g (g.node k) 0 (.clock a) → ps a = ps ic)

/-- **Acceptance.** A design in which every clocked node has its clock bound and all crossings are correctly marked is
    accepted — by every execution of the inference. -/
theorem accepts_well_marked (g : Graph) (ps : Clk → Clk) (D : Nat → Dom) (hc : g.Closed)
    (hg : Grounded g D) (hnu : g.NoUnknown) (hwm : WellMarked g ps) : g.rejects ps D = false := by
  cases hr : g.rejects ps D with
  | false => rfl
  | true =>
    exfalso
    obtain ⟨k, hk, hv⟩ := (rejects_iff_crossing hc hg).1 hr
    -- with all clocks bound every arriving label is a clock
    have hclk : ∀ {i l}, Arrives g (g.node k) i l → ∃ a, l = .clock a := by
      rintro i l ⟨d, s, hin, hreach, hl⟩
      have hd : d < g.ports.size := hc.2 k hk d (List.mem_of_getElem? hin)
      have hs : s < g.ports.size := reach_lt hc hreach hd
      obtain ⟨c, hcl⟩ := reach_source hreach
      cases c with
      | none => exact absurd hcl (hnu s hs)
      | some a => exact ⟨a, by rw [← hl]; unfold Graph.label; rw [hcl]⟩
    obtain ⟨h1, h2, h3⟩ := hwm k hk
    cases hv with
    | sink b i l hown harr hnc =>
      obtain ⟨a, rfl⟩ := hclk harr
      exact hnc (by simpa [compat, compatB] using h1 b i a hown harr)
    | mix i j l₁ l₂ hb hij harr₁ harr₂ hnc =>
      obtain ⟨a₁, rfl⟩ := hclk harr₁
      obtain ⟨a₂, rfl⟩ := hclk harr₂
      exact hnc (by simpa [compat, compatB] using h2 i j a₁ a₂ hb hij harr₁ harr₂)
    | marker ic oc l hkind harr hnc =>
      obtain ⟨a, rfl⟩ := hclk harr
      exact hnc (by simpa [compat, compatB] using h3 ic oc a hkind harr)

/-- clocks that share the pin source are one domain: the verdict only depends on `ps`, e.g. replacing every clock by its
    pin source changes nothing -/
theorem verdict_depends_on_pin_source_only (g : Graph) (ps ps' : Clk → Clk) (D : Nat → Dom) (hc : g.Closed)
    (hg : Grounded g D) (h : ∀ a b, ps a = ps b ↔ ps' a = ps' b) :
    g.rejects ps D = g.rejects ps' D := by
  have hcompat : ∀ x y, compat ps x y ↔ compat ps' x y := by
    intro x y
    cases x <;> cases y <;> simp [compat, compatB, h]
  have hviol : ∀ n, Violation g ps n ↔ Violation g ps' n := by
    intro n
    constructor
    · intro hv
      cases hv with
      | sink b i l h1 h2 h3 => exact Violation.sink b i l h1 h2 (fun hh => h3 ((hcompat _ _).2 hh))
      | mix i j l₁ l₂ h0 h1 h2 h3 h4 => exact Violation.mix i j l₁ l₂ h0 h1 h2 h3 (fun hh => h4 ((hcompat _ _).2 hh))
      | marker ic oc l h1 h2 h3 => exact Violation.marker ic oc l h1 h2 (fun hh => h3 ((hcompat _ _).2 hh))
    · intro hv
      cases hv with
      | sink b i l h1 h2 h3 => exact Violation.sink b i l h1 h2 (fun hh => h3 ((hcompat _ _).1 hh))
      | mix i j l₁ l₂ h0 h1 h2 h3 h4 => exact Violation.mix i j l₁ l₂ h0 h1 h2 h3 (fun hh => h4 ((hcompat _ _).1 hh))
      | marker ic oc l h1 h2 h3 => exact Violation.marker ic oc l h1 h2 (fun hh => h3 ((hcompat _ _).1 hh))
  have e1 := rejects_iff_crossing (ps := ps) hc hg
  have e2 := rejects_iff_crossing (ps := ps') hc hg
  have hcr : Crossing g ps ↔ Crossing g ps' := by
    constructor
    · rintro ⟨k, hk, hv⟩; exact ⟨k, hk, (hviol _).1 hv⟩
    · rintro ⟨k, hk, hv⟩; exact ⟨k, hk, (hviol _).2 hv⟩
  cases h1 : g.rejects ps D <;> cases h2 : g.rejects ps' D <;> simp_all

/-! ## Non-vacuity

`ex1`: register `r0` (clock 0) → XOR with itself → register `r1` (clock 1), fed back into `r0` through a marker declared
`1 → 0`.  Ports: 0 = r0.out, 1 = xor.out, 2 = r1.out, 3 = marker.out.  With `ps = id` the path r0 → xor → r1 is an unmarked
crossing; with clocks 0 and 1 sharing a pin (`ps = fun _ => 0`) the design is well marked. -/

def ex1 : Graph :=
  { nodes := #[⟨.plain (some (some 0)), [some 3, none, none]⟩,      -- r0: DATA ← marker
               ⟨.plain none, [some 0, some 0]⟩,                      -- xor
               ⟨.plain (some (some 1)), [some 1, none, none]⟩,      -- r1: DATA ← xor
               ⟨.cdc 1 (some 0), [some 2]⟩],                         -- marker 1 → 0 fed by r1
    ports := #[(0, 0), (1, 0), (2, 0), (3, 0)] }

def ex1Rank : Nat → Nat := fun p => if p = 1 then 1 else 0

example : ex1.Closed ∧ ex1.Acyclic ∧ ex1.NoUnknown :=
  ⟨closed_of_closedB (by decide), acyclic_of_rankedB (r := ex1Rank) (by decide), noUnknown_of_B (by decide)⟩

/-- the hypotheses of the rejection theorems are satisfiable: `ex1` has the unmarked crossing r0 → xor → r1 -/
example : Crossing ex1 id :=
  ⟨2, by decide, Violation.sink 1 0 (.clock 0) rfl
    ⟨1, 0, rfl, Reach.step (Reach.src ⟨some 0, rfl⟩) (by decide), rfl⟩ (by simp [compat, compatB])⟩

example : ex1.rejects id (dom ex1) = true := by decide
example : ex1.rejects (fun _ => 0) (dom ex1) = false := by decide

end Gatery.C12.Props
