import GateryModel.C13.Sound
import GateryModel.C13.CommentLemmas
/-!
# C13 — property theorems (identifier part)

*For every design whose user-given names are legal VHDL basic identifiers (including any VHDL reserved word in any letter
case and names differing only in case), every identifier in the exported files is a legal, non-reserved identifier, unique
within its declarative region ignoring case; …*

Every identifier gatery derives from a user-given name is produced by one of the `NamespaceScope::allocate*` members. The model
(`C13/Model.lean`) is that allocator as written: keyword table inserted into every scope, lower-cased `m_namesInUse`,
`isNameInUse` walking the parent chain, per-scope attempt counters, `formatDuplicateName`, the per-kind prefixes/suffixes of
`DefaultCodeFormatting`. The keyword table itself is regenerated from the C++ text (`Gen/VhdlKeywords.lean`) on every check.

The theorems quantify over: every scope tree (parent table), every finite sequence of allocation requests (any scope, any
of the 19 kinds, any desired name that is a basic identifier — reserved words, case variants and deliberate collisions
included). The remaining clauses of the property (declared before use, equal widths, variables written before read) are
decidable checkers over the emitted text (`C13/Vhdl.lean`) that the driver runs on real exports; they are not theorems.
-/
namespace Gatery.C13.Props
open Gatery.C13

/-- The table in `NamespaceScope.cpp` contains every reserved word of VHDL-2008 (§15.10). Finite table: `decide`. -/
theorem keywords_complete : ∀ w ∈ reserved2008, w ∈ Gatery.Gen.keywordTable := by decide +kernel

/-- … and therefore every reserved *name* is in the set every scope starts with. -/
theorem keywordNames_complete : ∀ w ∈ reservedNames, w ∈ keywordNames := by
  intro w hw
  simp only [reservedNames, keywordNames, List.mem_map] at hw ⊢
  obtain ⟨s, hs, rfl⟩ := hw
  exact ⟨s, keywords_complete s hs, rfl⟩

/-- **Allocator soundness**, for an arbitrary keyword table `kw` that contains the reserved words.
For every scope tree and every sequence of requests whose desired names are basic identifiers:
* the retry loop of every call terminates (no result is `loopExhausted`; the fuel is a Lean device, see `findFree_total`);
* every returned name is a basic identifier and is not a reserved word in any letter case;
* the name returned by a later call differs, ignoring case, from every name returned earlier for the same scope or for one
  of its ancestors (`chain t s` = `s`, its parent, …, the root) — in particular all names of one scope (one declarative
  region) are pairwise distinct ignoring case, and a new name never hides a name already visible from outside. -/
theorem alloc_sound (kw : List Name) (hkw : ∀ w ∈ reservedNames, w ∈ kw) (t : Tree) (reqs : List Req)
    (hleg : ∀ r ∈ reqs, isBasicId r.desired = true) :
    let out := (run t (initState kw t) reqs).2
    out.length = reqs.length ∧
    (∀ res ∈ out, res ≠ Res.loopExhausted) ∧
    (∀ n, Res.name n ∈ out → isBasicId n = true ∧ isReserved n = false) ∧
    (∀ (i j : Nat) (ri rj : Req) (ni nj : Name), i < j →
        reqs[i]? = some ri → reqs[j]? = some rj → out[i]? = some (.name ni) → out[j]? = some (.name nj) →
        ri.scope ∈ chain t rj.scope → lower ni ≠ lower nj) := by
  intro out
  have hlen : out.length = reqs.length := run_length _ _ _
  obtain ⟨hpw, hne, hnm⟩ := run_inv (t := t) reqs (kwInv_init kw t) hleg
  have zipmem : ∀ res ∈ out, ∃ r, (r, res) ∈ reqs.zip out := by
    intro res hres
    obtain ⟨i, hi, rfl⟩ := List.mem_iff_getElem.1 hres
    refine ⟨reqs[i]'(by omega), ?_⟩
    apply List.mem_iff_getElem.2
    refine ⟨i, by simp [List.length_zip]; omega, by simp⟩
  refine ⟨hlen, ?_, ?_, ?_⟩
  · intro res hres
    obtain ⟨r, hm⟩ := zipmem res hres
    exact hne _ hm
  · intro n hn
    obtain ⟨r, hm⟩ := zipmem _ hn
    obtain ⟨h1, h2, _⟩ := hnm _ hm n rfl
    refine ⟨h1, ?_⟩
    simp only [isReserved, List.contains_eq_mem, decide_eq_false_iff_not]
    exact fun h => h2 (hkw _ h)
  · intro i j ri rj ni nj hij hri hrj hni hnj hch
    rw [List.pairwise_iff_getElem] at hpw
    have hi : i < (reqs.zip out).length := by
      have := (List.getElem?_eq_some_iff.1 hri).1; simp [List.length_zip]; omega
    have hj : j < (reqs.zip out).length := by
      have := (List.getElem?_eq_some_iff.1 hrj).1; simp [List.length_zip]; omega
    have := hpw i j hi hj hij
    have ei : (reqs.zip out)[i] = (ri, Res.name ni) := by
      obtain ⟨_, h1⟩ := List.getElem?_eq_some_iff.1 hri
      obtain ⟨_, h2⟩ := List.getElem?_eq_some_iff.1 hni
      simp [h1, h2]
    have ej : (reqs.zip out)[j] = (rj, Res.name nj) := by
      obtain ⟨_, h1⟩ := List.getElem?_eq_some_iff.1 hrj
      obtain ⟨_, h2⟩ := List.getElem?_eq_some_iff.1 hnj
      simp [h1, h2]
    rw [ei, ej] at this
    exact this ni nj rfl rfl hch

/-- Allocator soundness for the keyword table the code has *now* (translator output). -/
theorem alloc_sound_current (t : Tree) (reqs : List Req) (hleg : ∀ r ∈ reqs, isBasicId r.desired = true) :
    let out := (run t (initState keywordNames t) reqs).2
    out.length = reqs.length ∧
    (∀ res ∈ out, res ≠ Res.loopExhausted) ∧
    (∀ n, Res.name n ∈ out → isBasicId n = true ∧ isReserved n = false) ∧
    (∀ (i j : Nat) (ri rj : Req) (ni nj : Name), i < j →
        reqs[i]? = some ri → reqs[j]? = some rj → out[i]? = some (.name ni) → out[j]? = some (.name nj) →
        ri.scope ∈ chain t rj.scope → lower ni ≠ lower nj) :=
  alloc_sound keywordNames keywordNames_complete t reqs hleg

/-- Termination of the `do … while (isNameInUse(lower))` loop in isolation: whatever names are in use (any finite list `V`),
starting from any attempt counter, `V.length + 1` iterations suffice. -/
theorem retry_loop_terminates (V : List Name) (initial : Name) (attempt : Nat) :
    ∃ k name, findFree (fun n => V.contains n) initial (V.length + 1) attempt = some (k, name) ∧
      attempt ≤ k ∧ name = formatDuplicateName initial k ∧ lower name ∉ V := by
  have h := findFree_total (used := fun n => V.contains n) (initial := initial) V (V.length + 1) attempt
    (by intro k' _ h; simpa using h) (by omega)
  obtain ⟨⟨k, name⟩, hs⟩ := Option.isSome_iff_exists.1 h
  have := findFree_spec hs
  exact ⟨k, name, hs, this.2.2, this.1, by simpa using this.2.1⟩

/-- The bounded walk `chain` is exactly the parent closure `isNameInUse` recurses through, for every well-formed parent table. -/
theorem chain_is_parent_closure (t : Tree) (hwf : t.WF) (i j : Nat) : j ∈ chain t i ↔ Anc t i j :=
  ⟨chain_sound, chain_complete hwf⟩

/-- **User comments stay comments.** For every comment text whatsoever (any characters: line breaks, leading blanks or tabs,
`--`, quotes, semicolons, VHDL keywords, any length), every entity name and every indentation depth, each line written by the
four comment formatters of `DefaultCodeFormatting` (entity header, block header, process comment, per-statement code comment;
model `C13/Comments.lean`, tied to the code by differential execution of the real formatters) is blank or starts, after
blanks, with `--`: no character of a user comment can reach the VHDL lexer as code. -/
theorem comments_stay_comments (entityName comment : List Char) (indentation : Nat) :
    (∀ l ∈ (Comments.formatEntityComment {} entityName comment).lines, Comments.commentedLine l = true) ∧
    (∀ l ∈ (Comments.formatBlockComment {} comment).lines, Comments.commentedLine l = true) ∧
    (∀ l ∈ (Comments.formatProcessComment {} indentation comment).lines, Comments.commentedLine l = true) ∧
    (∀ l ∈ (Comments.formatCodeComment {} indentation comment).lines, Comments.commentedLine l = true) :=
  ⟨Comments.entity_commented entityName comment, Comments.block_commented comment,
   Comments.process_commented indentation comment, Comments.code_commented indentation comment⟩

/-- non-vacuity: an indented multi-line comment with code-like text; three comment lines are really produced -/
example : ((Comments.formatEntityComment {} "adder".toList "Adds.\n    carry <= '1';\n\tsee notes".toList).lines.map String.ofList) =
    ["------------------------------------------------", "--  Entity: adder", "-- Adds.", "--     carry <= '1';", "-- \tsee notes",
     "------------------------------------------------", "", ""] := by decide

/-! ## non-vacuity -/

/-- a three-level chain (root ← entity ← process); reserved words in three letter cases, a case collision, a name that
collides with an earlier `_2` suffix, entity names at the root. -/
def exTree : Tree := [none, some 0, some 1]
def exReqs : List Req := [
  ⟨0, .entity, bytes "Process"⟩, ⟨0, .entity, bytes "process"⟩, ⟨0, .entity, bytes "PROCESS_2"⟩,
  ⟨1, .ioPin, bytes "signal"⟩, ⟨1, .ioPin, bytes "SIGNAL"⟩, ⟨1, .ioPin, bytes "x"⟩, ⟨2, .ioPin, bytes "X"⟩,
  ⟨1, .signal .localSignal, bytes "x"⟩, ⟨2, .signal .constant, bytes "x"⟩, ⟨1, .process true, bytes "p"⟩]

example : exTree.WF := by
  intro i p h
  match i, h with
  | 0, h => simp [exTree] at h
  | 1, h => simp [exTree] at h; omega
  | 2, h => simp [exTree] at h; omega
  | n + 3, h => simp [exTree] at h

example : ∀ r ∈ exReqs, isBasicId r.desired = true := by decide

set_option maxRecDepth 8000 in
example : (run exTree (initState [bytes "process", bytes "signal"] exTree) exReqs).2 =
    (["Process_2", "process_3", "PROCESS_2_2", "signal_2", "SIGNAL_3", "x", "X_2", "s_x", "C_X", "p_reg"].map
      (fun s => Res.name (bytes s))) := by decide

/-- the hypotheses of `retry_loop_terminates` are met with a loop that really iterates -/
example : findFree (fun n => [bytes "a", bytes "a_2", bytes "a_3"].contains n) (bytes "A") 4 0 = some (3, bytes "A_4") := by
  decide

end Gatery.C13.Props
