import GateryModel.C14.Model
/-!
# C14 — property theorems (under construction: soundness of `parse false` follows in C14/Sound.lean)
-/
namespace Gatery.C14.Props
open Gatery.C14

/-- the counterexample of finding F1:  0:a 1:b 2:and(0,1) 3:sig(2) 4:not(3) -/
def gF1 : Graph := #[.leaf, .leaf, .and (some 0) (some 1), .sig (some 2), .not (some 3)]
def rho10 : Nat → Bool := fun i => i == 0     -- a=1, b=0

/-- Machine-checked negation of soundness for the code as it was at the pinned commit (`bug := true`):
    `¬(named)` with `named = a ∧ b` is analysed as `¬a ∧ ¬b`, which differs from the original at a=1,b=0. -/
theorem F1_witness : (parse true gF1 (some 4)).undef = false ∧
    eval gF1 rho10 4 ≠ (parse true gF1 (some 4)).semE gF1 rho10 := by decide

/-- the corrected code is right on the same witness -/
theorem fixed_ok_on_witness : eval gF1 rho10 4 = (parse false gF1 (some 4)).semE gF1 rho10 := by decide

end Gatery.C14.Props
