import GateryModel.C14.Build
/-!
# C14 — property theorems

*Whenever the library's analysis of two Boolean conditions built from AND, NOT, constants and pass-through signals
concludes that they are equal, that one is the negation of the other, that one's terms are a subset of the other's, or
that they cannot both be true, the conclusion holds for every valuation of the underlying signals; a condition rebuilt
from its analysed form is equivalent to the original.*

Model: `C14/Model.lean` — `parse` = `Conjunction::parseOutput` (CNF.cpp) as written (visit order, `alreadyVisited` with first
polarity, `canDescendIntoAnd`, term map with contradiction detection), verdict functions as written. Graphs are arrays of
nodes whose inputs reference smaller indices (any finite acyclic network can be numbered this way; the harness dumps
creation order). Opaque terms (pins, undefined constants, other logic) are free variables of the valuation `ρ`.
All theorems: for every well-formed graph of any size, every root, every valuation.
-/
namespace Gatery.C14.Props
open Gatery.C14

/-- The analysed form is equivalent to the original condition (unless the analysis says `undefined`). -/
theorem analysis_sound (g : Graph) (hwf : g.WF) (root : Nat) (hr : root < g.size) (ρ : Nat → Bool)
    (hu : (parse false g (some root)).undef = false) :
    (parse false g (some root)).semE g ρ = eval g ρ root :=
  parse_sound g hwf root hr ρ hu

/-- `isEqualTo`: conditions reported equal have the same value under every valuation. -/
theorem isEqualTo_holds (g : Graph) (hwf : g.WF) (r1 r2 : Nat) (h1 : r1 < g.size) (h2 : r2 < g.size)
    (h : isEqualTo (parse false g (some r1)) (parse false g (some r2)) = true) (ρ : Nat → Bool) :
    eval g ρ r1 = eval g ρ r2 := by
  have hu : (parse false g (some r1)).undef = false ∧ (parse false g (some r2)).undef = false := by
    unfold isEqualTo at h; split at h
    · cases h
    · rename_i hx; simpa using hx
  rw [← parse_sound g hwf r1 h1 ρ hu.1, ← parse_sound g hwf r2 h2 ρ hu.2]
  exact isEqualTo_sound g ρ _ _ (parse_uniq _ _ _) (parse_uniq _ _ _) h

/-- `isNegationOf`: conditions reported as negations of each other always differ. -/
theorem isNegationOf_holds (g : Graph) (hwf : g.WF) (r1 r2 : Nat) (h1 : r1 < g.size) (h2 : r2 < g.size)
    (h : isNegationOf (parse false g (some r1)) (parse false g (some r2)) = true) (ρ : Nat → Bool) :
    eval g ρ r1 = !eval g ρ r2 := by
  have hu : (parse false g (some r1)).undef = false ∧ (parse false g (some r2)).undef = false := by
    unfold isNegationOf at h; split at h
    · cases h
    · rename_i hx; simpa using hx
  rw [← parse_sound g hwf r1 h1 ρ hu.1, ← parse_sound g hwf r2 h2 ρ hu.2]
  exact isNegationOf_sound g ρ _ _ h

/-- `a.isSubsetOf(b)`: every term of `a` is a term of `b`, so whenever `b` holds `a` holds. -/
theorem isSubsetOf_holds (g : Graph) (hwf : g.WF) (r1 r2 : Nat) (h1 : r1 < g.size) (h2 : r2 < g.size)
    (h : isSubsetOf (parse false g (some r1)) (parse false g (some r2)) = true) (ρ : Nat → Bool) :
    eval g ρ r2 = true → eval g ρ r1 = true := by
  have hu : (parse false g (some r1)).undef = false ∧ (parse false g (some r2)).undef = false := by
    unfold isSubsetOf at h; split at h
    · cases h
    · rename_i hx; simpa using hx
  rw [← parse_sound g hwf r1 h1 ρ hu.1, ← parse_sound g hwf r2 h2 ρ hu.2]
  exact isSubsetOf_sound g ρ _ _ h

/-- `cannotBothBeTrue`: no valuation makes both conditions true. -/
theorem cannotBothBeTrue_holds (g : Graph) (hwf : g.WF) (r1 r2 : Nat) (h1 : r1 < g.size) (h2 : r2 < g.size)
    (h : cannotBothBeTrue (parse false g (some r1)) (parse false g (some r2)) = true) (ρ : Nat → Bool) :
    ¬ (eval g ρ r1 = true ∧ eval g ρ r2 = true) := by
  have hu : (parse false g (some r1)).undef = false ∧ (parse false g (some r2)).undef = false := by
    unfold cannotBothBeTrue at h; split at h
    · cases h
    · rename_i hx; simpa using hx
  rw [← parse_sound g hwf r1 h1 ρ hu.1, ← parse_sound g hwf r2 h2 ρ hu.2]
  exact cannotBothBeTrue_sound g ρ _ _ h

/-- **A condition rebuilt from its analysed form is equivalent to the original**: for a root whose analysis is neither undefined
    nor contradicting, `build` appends nodes to the network (leaving the existing ones as they are) and the port it returns
    (`none` = unconnected = constant true) has, in the extended network and under every valuation, the value of the original root. -/
theorem rebuilt_equivalent (g : Graph) (hwf : g.WF) (root : Nat) (hr : root < g.size) (allowUnconnected : Bool)
    (hu : (parse false g (some root)).undef = false) (hc : (parse false g (some root)).contra = false) :
    let r := build g (parse false g (some root)) allowUnconnected
    Graph.WF r.1 ∧ Extends g r.1 ∧ ∀ ρ, evalPort r.1 ρ r.2 = eval g ρ root := by
  obtain ⟨h1, h2, _, h4⟩ := build_sound g hwf (parse false g (some root)) hc (parse_cdrv g hwf root hr) allowUnconnected
  exact ⟨h1, h2, fun ρ => by rw [h4 ρ, parse_sound g hwf root hr ρ hu]⟩

/-! ### the defect found at the pinned commit (F1), machine checked -/

/-- 0:a 1:b 2:and(0,1) 3:sig(2) 4:not(3) -/
def gF1 : Graph := #[.leaf, .leaf, .and (some 0) (some 1), .sig (some 2), .not (some 3)]
def rho10 : Nat → Bool := fun i => i == 0     -- a=1, b=0

/-- Negation of soundness for the code as it was (`bug := true`: the `Node_Signal` case forgot `canDescendIntoAnd`):
    `¬(named)` with `named = a ∧ b` was analysed as `¬a ∧ ¬b`. -/
theorem F1_witness : (parse true gF1 (some 4)).undef = false ∧
    eval gF1 rho10 4 ≠ (parse true gF1 (some 4)).semE gF1 rho10 := by decide

/-! ### non-vacuity -/

/-- a well-formed network on which the verdicts fire: r1 = a ∧ ¬b (through a signal), r2 = ¬b, r3 = b -/
def gEx : Graph := #[.leaf, .leaf, .not (some 1), .sig (some 2), .and (some 0) (some 3), .sig (some 1)]

example : gEx.WF := by
  intro i hi
  have : i < 6 := hi
  match i, this with
  | 0, _ => trivial | 1, _ => trivial
  | 2, _ => show (1 : Nat) < 2; omega
  | 3, _ => show (2 : Nat) < 3; omega
  | 4, _ => exact ⟨show (0 : Nat) < 4 by omega, show (3 : Nat) < 4 by omega⟩
  | 5, _ => show (1 : Nat) < 5; omega

example : isSubsetOf (parse false gEx (some 2)) (parse false gEx (some 4)) = true ∧
    cannotBothBeTrue (parse false gEx (some 4)) (parse false gEx (some 5)) = true ∧
    isNegationOf (parse false gEx (some 3)) (parse false gEx (some 5)) = true ∧
    isEqualTo (parse false gEx (some 2)) (parse false gEx (some 3)) = true ∧
    (parse false gEx (some 4)).undef = false ∧ (parse false gEx (some 4)).contra = false ∧
    (build gEx (parse false gEx (some 4)) true).1.size = 8 := by decide

end Gatery.C14.Props
