import GateryModel.C15.Lemmas
import GateryModel.C15.Gray
import GateryModel.C15.ArrayLemmas
import GateryModel.C15.TransLemmas
/-!
# C15 — property theorems: the library FIFO is a loss-free, duplicate-free, order-preserving queue

Model: `C15/Model.lean` (the circuit built by `scl::Fifo::generate*`, Fifo.h:285-409, tied to the code by the
correspondence harness).  All theorems quantify over

* every depth `2^k` (`c.k`), every pair of latencies `c.lw`, `c.lr` (register-chain / synchroniser lengths),
* every payload type `α` and every initial memory content `x`,
* every schedule `es : List (Ev α)` of clock edges, requests, payloads and levels that is well formed (`Wf`):
  resets released, and — only if a crossing has no register at all (latency ≤ 1) — both clocks tick together.
  `wf_single` (single clock, any latencies) and `wf_dual` (latencies ≥ 2, ANY interleaving of push and pop
  clock edges = any clock ratio and phase) show that this covers both variants the library builds.

`accepted tr` / `yielded tr` (C15/Spec.lean) are the payloads taken over / handed out at the interface, read off
the observable trace `tr = trace c (init c x) es`.  Statements only — the work is in
`C15/{Arith,Abstract,Chains,Lemmas}.lean`.
-/
namespace Gatery.C15.Props
open Gatery.C15
variable {α : Type}

/-- **0 ≤ put − get ≤ capacity**: never more yielded than accepted, never more than `N = 2^k` items held. -/
theorem occupancy_bounds (c : Cfg) (x : α) (es : List (Ev α)) (hw : Wf c es) :
    let tr := trace c (init c x) es
    (yielded tr).length ≤ (accepted tr).length ∧ (accepted tr).length ≤ (yielded tr).length + c.N := by
  have r := reach c x es hw
  have i := r.ginv.inv
  obtain ⟨hP, hG⟩ := r.counts
  simp only [hP, hG]
  have := i.oG_le; have := i.G_le; have := i.oP_le; have := i.P_le
  omega

/-- **Refinement to a `List α` queue**: what has come out is exactly the first `#yielded` accepted items — every
accepted item comes out at most once, unchanged, in acceptance order, and nothing else comes out. -/
theorem queue_refinement (c : Cfg) (x : α) (es : List (Ev α)) (hw : Wf c es) :
    let tr := trace c (init c x) es
    yielded tr = (accepted tr).take (yielded tr).length := by
  have r := reach c x es hw
  obtain ⟨_, hG⟩ := r.counts
  simp only [hG]
  rw [← r.out, ← r.hist]; exact r.ginv.inv.out_eq

/-- **Never accepts a push when holding its full capacity**: holding `N` items forces `full`, hence no `pushValid`. -/
theorem full_of_holding_capacity (c : Cfg) (x : α) (es : List (Ev α)) (hw : Wf c es)
    (h : fill (trace c (init c x) es) = c.N) :
    (run c (init c x) es).core.full = true ∧ ∀ req, pushValid (run c (init c x) es).core req = false := by
  have r := reach c x es hw
  have i := r.ginv.inv
  obtain ⟨hP, hG⟩ := r.counts
  have hf : (run c (init c x) es).core.full = true := by
    rw [r.core, i.full_eq]
    unfold fill at h; rw [hP, hG] at h
    have := i.oG_le; have := i.P_le; have := c.N_pos
    simp; omega
  exact ⟨hf, fun req => by simp [pushValid, hf]⟩

/-- **Never yields an item when holding none**: holding nothing forces `empty`, hence no `popValid`. -/
theorem empty_of_holding_none (c : Cfg) (x : α) (es : List (Ev α)) (hw : Wf c es)
    (h : fill (trace c (init c x) es) = 0) :
    (run c (init c x) es).core.empty = true ∧ ∀ req, popValid (run c (init c x) es).core req = false := by
  have r := reach c x es hw
  have i := r.ginv.inv
  obtain ⟨hP, hG⟩ := r.counts
  have hf : (run c (init c x) es).core.empty = true := by
    rw [r.core, i.empty_eq]
    unfold fill at h; rw [hP, hG] at h
    have := i.G_le; have := i.oP_le
    simp; omega
  exact ⟨hf, fun req => by simp [popValid, hf]⟩

/-- **Exposure is correct**: whenever `empty` is off, `peek` is the head of the abstract queue (the oldest
accepted item not yet yielded) — so the next yield delivers exactly that item. -/
theorem peek_is_head (c : Cfg) (x : α) (es : List (Ev α)) (hw : Wf c es)
    (h : (run c (init c x) es).core.empty = false) :
    (queue (trace c (init c x) es)).head? = some (run c (init c x) es).core.peek := by
  have r := reach c x es hw
  have i := r.ginv.inv
  obtain ⟨_, hG⟩ := r.counts
  rw [r.core, i.empty_eq] at h
  have hlt : (grun c (ginit c x) es).a.g.G < (grun c (ginit c x) es).a.g.oP := by
    have := i.G_le; simp at h; omega
  have := i.peek_ok hlt
  unfold queue
  rw [hG, List.head?_drop, ← r.hist, r.core]
  exact this.symm

/-- **almostFull is never optimistic**: while `af` is off there are more than `level` free places, `level`
being the value applied at the last push-clock edge (`level ≤ N`; Fifo.h:208 computes `N - level` at `k+1` bits). -/
theorem almostFull_not_optimistic (c : Cfg) (x : α) (es : List (Ev α)) (hw : Wf c es)
    (hl : lastAf 0 es ≤ c.N) (h : (run c (init c x) es).core.af = false) :
    fill (trace c (init c x) es) + lastAf 0 es < c.N := by
  have r := reach c x es hw
  have i := r.ginv.inv
  obtain ⟨hP, hG⟩ := r.counts
  rw [r.core] at h
  have := i.af_ok (by rw [r.afl]; exact hl) h
  rw [r.afl] at this
  have := i.G_le; have := i.oP_le
  unfold fill; rw [hP, hG]; omega

/-- **almostEmpty is never optimistic**: while `ae` is off more than `level` items are held, `level` being the
`(k+1)`-bit value applied at the last pop-clock edge. -/
theorem almostEmpty_not_optimistic (c : Cfg) (x : α) (es : List (Ev α)) (hw : Wf c es)
    (h : (run c (init c x) es).core.ae = false) :
    lastAe c.M 0 es < fill (trace c (init c x) es) := by
  have r := reach c x es hw
  have i := r.ginv.inv
  obtain ⟨hP, hG⟩ := r.counts
  rw [r.core] at h
  have := i.ae_ok h
  rw [r.ael] at this
  unfold fill; rw [hP, hG]; omega

/-- **Liveness with bound**: take any schedule `es1`, then any continuation `es2` containing at least `lw - 1`
pop-clock edges (`lw = latency_writeToEmpty`; whatever else happens).  Then every item accepted during `es1`
has either been yielded already, or `empty` is off and `peek` exposes the oldest item still held. -/
theorem liveness (c : Cfg) (x : α) (es1 es2 : List (Ev α)) (hw1 : Wf c es1) (hw2 : Wf c es2)
    (hticks : c.lw - 1 ≤ popTicks es2) :
    let st := run c (init c x) (es1 ++ es2)
    let tr := trace c (init c x) (es1 ++ es2)
    (accepted (trace c (init c x) es1)).length ≤ (yielded tr).length ∨
      (st.core.empty = false ∧ (queue tr).head? = some st.core.peek) := by
  intro st tr
  have r1 := reach c x es1 hw1
  have r := reach c x (es1 ++ es2) (hw1.append hw2)
  obtain ⟨hP1, _⟩ := r1.counts
  obtain ⟨_, hG⟩ := r.counts
  have i := r.ginv.inv
  -- visibility after es2
  have hvis : (accepted (trace c (init c x) es1)).length ≤ (grun c (ginit c x) (es1 ++ es2)).a.g.oP := by
    rw [grun_append, hP1]
    refine live_grun c _ es2 _ 1 r1.ginv hw2 (Nat.le_refl _) ?_
    cases hpc : (grun c (ginit c x) es1).pc with
    | nil => left; rw [r1.ginv.ep hpc]; exact Nat.le_refl _
    | cons h t =>
      right
      have hh := r1.ginv.hp h t hpc
      have hl := r1.ginv.lp; rw [hpc] at hl
      refine ⟨⟨by omega, trivial⟩, by simp, ?_⟩
      simp only [List.length_cons] at hl ⊢; omega
  cases he : st.core.empty
  · right; exact ⟨rfl, peek_is_head c x (es1 ++ es2) (hw1.append hw2) he⟩
  · left
    have : (grun c (ginit c x) (es1 ++ es2)).a.core.empty = true := by rw [← r.core]; exact he
    rw [i.empty_eq] at this
    simp at this
    show _ ≤ (yielded (trace c (init c x) (es1 ++ es2))).length
    rw [hG]; omega

/-- **Dual clock / any stale observation sequence**: run the two side step functions with observations of the
other side's pointer chosen by an adversary, subject only to `Stale` (not older than the previous observation,
not newer than the pointer itself, not ahead of what the memory read can see).  All safety clauses hold for the
ghost sequences `hist` (accepted) and `out` (yielded) of the run. -/
theorem stale_observation_safety (c : Cfg) (x : α) (es : List (OEv α)) (hs : StaleRun c (ainit c x) es) :
    let a := arun c (ainit c x) es
    a.g.out = a.g.hist.take a.g.out.length ∧
    a.g.out.length ≤ a.g.hist.length ∧ a.g.hist.length ≤ a.g.out.length + c.N ∧
    (a.g.hist.length = a.g.out.length + c.N → a.core.full = true) ∧
    (a.g.hist.length = a.g.out.length → a.core.empty = true) ∧
    (a.core.empty = false → a.g.hist[a.g.out.length]? = some a.core.peek) ∧
    (a.g.afLvl ≤ c.N → a.core.af = false → (a.g.hist.length - a.g.out.length) + a.g.afLvl < c.N) ∧
    (a.core.ae = false → a.g.aeLvl < a.g.hist.length - a.g.out.length) := by
  intro a
  have i : Inv c a := inv_arun c _ es (inv_ainit c x) hs
  have h1 := i.oG_le; have h2 := i.G_le; have h3 := i.oP_le; have h4 := i.P_le
  have hN := c.N_pos
  have hlen : a.g.out.length = a.g.G := by rw [i.out_eq, List.length_take, i.hist_len]; omega
  rw [hlen, i.hist_len]
  refine ⟨i.out_eq, by omega, by omega, ?_, ?_, ?_, ?_, ?_⟩
  · intro h; rw [i.full_eq]; simp; omega
  · intro h; rw [i.empty_eq]; simp; omega
  · intro h; rw [i.empty_eq] at h; simp at h
    exact (i.peek_ok (by omega)).symm
  · intro hl h; have := i.af_ok hl h; omega
  · intro h; have := i.ae_ok h; omega

/-- the chain registers / synchronisers of the model only ever produce stale observations -/
theorem chains_are_stale (c : Cfg) (g : GState α) (e : Ev α) (hg : GInv c g) :
    Stale c g.a e (obs g.gc (g.a.g.G + (yldNow g.a e).toNat)) (obs g.pc (g.a.g.P + (accNow g.a e).toNat)) :=
  gstale c g e hg

/-- the dual-clock variant is only ever built with latencies ≥ 4 (Fifo.h:264-275), so `wf_dual` applies to every
dual-clock FIFO the library builds; single-clock requests other than `Specific 0` / `AtMost 0` give latency ≥ 1 -/
theorem chosen_latency_bounds (r : LatReq) (l : Nat) :
    (chosenLatency true r = some l → 4 ≤ l) ∧
    (chosenLatency false r = some l → r ≠ .specific 0 → r ≠ .atMost 0 → 1 ≤ l) := by
  constructor
  · intro h
    cases r <;> simp [chosenLatency, mergeAtLeast, LatReq.resolve] at h
    all_goals omega
  · intro h h1 h2
    cases r <;> simp [chosenLatency, LatReq.resolve] at h h1 h2 <;> omega

/-- **Gray-code crossing is lossless, every width**: the bit-serial `grayDecode` (cdc.cpp:30-36) undoes
`grayEncode = val ^ (val >> 1)` (cdc.cpp:25) on bit vectors of any length — so the pointer that leaves
`synchronizeGrayCode` is the pointer that entered it, which is what `Model.lean` assumes for the dual-clock chains. -/
theorem gray_roundtrip (v : Gray.Bits) : Gray.grayDecode (Gray.grayEncode v) = v := by
  rw [Gray.grayEncode_eq]; exact Gray.decode_encode_from false v

/-- … and `grayEncode` undoes `grayDecode` (both are bijections of the `w`-bit vectors), widths preserved. -/
theorem gray_roundtrip_inv (v : Gray.Bits) :
    Gray.grayEncode (Gray.grayDecode v) = v ∧ (Gray.grayEncode v).length = v.length ∧ (Gray.grayDecode v).length = v.length := by
  refine ⟨?_, ?_, Gray.length_decodeFrom false v⟩
  · rw [Gray.grayEncode_eq]; exact Gray.encode_decode_from false v
  · rw [Gray.grayEncode_eq]; exact Gray.length_encodeFrom false v

/-- **FifoArray refines `2^kf` independent queues** (model `C15/Array.lean` of scl/FifoArray.h): for every number of
FIFOs `2^kf`, depth `2^k`, payload type, and every schedule of requests and selectors `es` (push and pop selector
arbitrary and independent in every cycle), each FIFO `i` for itself is a loss-free, duplicate-free, order-preserving
queue of capacity `N`: what it has yielded is the prefix of what it has accepted, and it never holds more than `N`. -/
theorem array_refines_queues (kf k : Nat) (x : α) (es : List (AEv α)) (i : Nat) (hi : i < 2 ^ kf) :
    let tr := arrTrace (cfg1 k) x (arrInit kf (cfg1 k) x) es
    yieldedAt i tr = (acceptedAt i tr).take (yieldedAt i tr).length ∧
    (yieldedAt i tr).length ≤ (acceptedAt i tr).length ∧
    (acceptedAt i tr).length ≤ (yieldedAt i tr).length + (cfg1 k).N := by
  intro tr
  obtain ⟨h1, h2, _⟩ := arr_traces (cfg1 k) (Nat.le_refl 1) (2 ^ kf) x es _ _ (arrRel_init kf (cfg1 k) (Nat.le_refl 1) (Nat.le_refl 1) x) i hi
  have hw := wf_proj (α := α) k i es
  have hq := queue_refinement (cfg1 k) x _ hw
  have hb := occupancy_bounds (cfg1 k) x _ hw
  simp only [tr, h1, h2]
  exact ⟨hq, hb.1, hb.2⟩

/-- **FifoArray flags are exact for the SELECTED queue** in the cycle `e` that follows any schedule `es`:
`full` is on when the FIFO addressed by the push selector holds `N` items (so the push is refused), `empty` is on
when the FIFO addressed by the pop selector holds none (so nothing is yielded), `empty` is off as soon as it holds
one (latency 0), and while `empty` is off `peek` is the oldest item that FIFO still holds. -/
theorem array_flags_selected (kf k : Nat) (x : α) (es : List (AEv α)) (e : AEv α)
    (hp : e.pushSel < 2 ^ kf) (hq : e.popSel < 2 ^ kf) :
    let c := cfg1 k
    let tr := arrTrace c x (arrInit kf c x) es
    let o := arrOutputs c x (arrRun c (arrInit kf c x) es) e
    ((acceptedAt e.pushSel tr).length - (yieldedAt e.pushSel tr).length = c.N → o.full = true) ∧
    ((acceptedAt e.popSel tr).length - (yieldedAt e.popSel tr).length = 0 → o.empty = true) ∧
    (0 < (acceptedAt e.popSel tr).length - (yieldedAt e.popSel tr).length → o.empty = false) ∧
    (o.empty = false → ((acceptedAt e.popSel tr).drop (yieldedAt e.popSel tr).length).head? = some o.peek) := by
  intro c tr o
  have hinit := arrRel_init kf c (Nat.le_refl 1) (Nat.le_refl 1) x
  obtain ⟨hp1, hp2, hrel⟩ := arr_traces c (Nat.le_refl 1) (2 ^ kf) x es _ _ hinit e.pushSel hp
  obtain ⟨hq1, hq2, _⟩ := arr_traces c (Nat.le_refl 1) (2 ^ kf) x es _ _ hinit e.popSel hq
  obtain ⟨ho1, ho2⟩ := arrOutputs_eq c (2 ^ kf) x _ _ e hrel
  have hwp := wf_proj (α := α) k e.pushSel es
  have hwq := wf_proj (α := α) k e.popSel es
  obtain ⟨hoe, hop⟩ := ho2 hq
  refine ⟨?_, ?_, ?_, ?_⟩
  · intro h
    show o.full = true
    rw [show o.full = _ from ho1 hp]
    exact (full_of_holding_capacity c x _ hwp (by unfold fill; rw [← hp1, ← hp2]; exact h)).1
  · intro h
    show o.empty = true
    rw [show o.empty = _ from hoe]
    exact (empty_of_holding_none c x _ hwq (by unfold fill; rw [← hq1, ← hq2]; exact h)).1
  · intro h
    show o.empty = false
    rw [show o.empty = _ from hoe]
    have hl := liveness c x (es.map (projEv e.popSel)) [] hwq (fun _ h => nomatch h) (Nat.zero_le _)
    simp only [List.append_nil] at hl
    rcases hl with hl | hl
    · rw [← hq1, ← hq2] at hl
      have h' : 0 < (acceptedAt e.popSel (arrTrace c x (arrInit kf c x) es)).length -
          (yieldedAt e.popSel (arrTrace c x (arrInit kf c x) es)).length := h
      omega
    · exact hl.1
  · intro h
    have hpk := peek_is_head c x _ hwq (by rw [← hoe]; exact h)
    unfold queue at hpk
    rw [← hq1, ← hq2] at hpk
    rw [hpk]; exact congrArg some hop.symm

/-- **TransactionalFifo refines the tentative queue** (model `C15/Trans.lean` of scl/TransactionalFifo.h, single clock;
specification `TSpec`/`tcheck`: `com` = everything the producer committed, `gc` = how much of it the consumer
committed, `gt` = tentative pops since).  For every depth `2^k`, latencies, payload type and every schedule of
push / commitPush(cutoff) / rollbackPush / pop / commitPop / rollbackPop strobes — in any same-cycle combination —
that respects the caller obligations `TOk`, in the state reached and for any next cycle `e`:

* whatever is yielded (`popValid`) or exposed (`!empty`) is `com[gc+gt]` — the oldest committed item the consumer has
  not taken since its last commit; as `rollbackPop` resets `gt` to 0 even when a pop happens in the same cycle
  (the specification's statement order), every item popped since the last `commitPop` is delivered again, and committed
  items are never lost, duplicated or reordered; uncommitted or rolled-back pushes are never seen;
* the consumer never gets ahead of what is committed (`gc + gt ≤ |com|`), and with nothing left `empty` is on;
* room is only freed by committed pops: `|com| + |tent| - gc ≤ N`, a push is accepted only below `N`, and at `N` `full` is on. -/
theorem trans_refines_tentative_queue [BEq α] (c : Cfg) (x : α) (es : List (TEv α))
    (hok : TOk c (tinit c x) {} es) (e : TEv α) :
    let s := trun c (tinit c x) es
    let q := tspecRun c (tinit c x) {} es
    (s.popValid e = true → q.com[q.gc + q.gt]? = some s.peek) ∧
    (s.empty = false → q.com[q.gc + q.gt]? = some s.peek) ∧
    q.gc + q.gt ≤ q.com.length ∧
    (q.com.length ≤ q.gc + q.gt → s.empty = true) ∧
    q.com.length + q.tent.length - q.gc ≤ c.N ∧
    (s.pushValid e = true → q.com.length + q.tent.length - q.gc < c.N) ∧
    (q.com.length + q.tent.length - q.gc = c.N → s.full = true) := by
  intro s q
  obtain ⟨g, hi, hr⟩ := trun_inv c (tinit c x) (tginit c) {} es (tinv_init c x) (specRel_init c) hok
  exact trans_facts c s g q e hi hr

/-- **The reset values of the flags are not optimistic either** (first cycles after power-on / reset release, before
the flag registers have sampled a level): like `almostFull_not_optimistic`, but the level the `af` register "refers to"
before the first push-clock edge may be ANY `d < N` — its reset value '0' is right for every level below the depth
(`level = N`, where the indication is constantly true by definition, is the one exception: see `C15/Lemmas.lean`).
`ae` resets to '1', which `almostEmpty_not_optimistic` covers for every level. -/
theorem almostFull_not_optimistic_from_reset (c : Cfg) (x : α) (es : List (Ev α)) (hw : Wf c es) (d : Nat) (hd : d < c.N)
    (hl : lastAf d es ≤ c.N) (h : (run c (init c x) es).core.af = false) :
    fill (trace c (init c x) es) + lastAf d es < c.N := by
  obtain ⟨h1, h2, h3, h4, h5, _⟩ := grun_spec c (ginitL c x d) es (ginv_ginitL c x d hd) hw
  rw [proj_ginitL] at h2 h3 h4
  have i := h1.inv
  have hh : (grun c (ginitL c x d) es).a.g.hist = accepted (trace c (init c x) es) := by simpa [ginitL, ginit, ainit] using h3
  have ho : (grun c (ginitL c x d) es).a.g.out = yielded (trace c (init c x) es) := by simpa [ginitL, ginit, ainit] using h4
  have hP : (accepted (trace c (init c x) es)).length = (grun c (ginitL c x d) es).a.g.P := by rw [← hh, i.hist_len]
  have hG : (yielded (trace c (init c x) es)).length = (grun c (ginitL c x d) es).a.g.G := by
    rw [← ho, i.out_eq, List.length_take, i.hist_len]; have := i.G_le; have := i.oP_le; omega
  have hcore : (run c (init c x) es).core = (grun c (ginitL c x d) es).a.core := by rw [← h2]; rfl
  have hlvl : (grun c (ginitL c x d) es).a.g.afLvl = lastAf d es := h5
  rw [hcore] at h
  have := i.af_ok (by rw [hlvl]; exact hl) h
  rw [hlvl] at this
  have := i.G_le; have := i.oP_le
  unfold fill; rw [hP, hG]; omega

/-- **The capacity is at least what was requested**: the depth the default `FifoCapabilities::select` derives from
`readDepth.atLeast(minDepth)` (`utils::nextPow2`, modelled by `depthLog`) is never below the request. -/
theorem chosen_depth_ge_request (minDepth : Nat) : minDepth ≤ 2 ^ depthLog minDepth := by
  unfold depthLog
  split
  · have : 0 < 2 ^ 0 := by decide
    omega
  · have := Nat.lt_log2_self (n := minDepth - 1)
    omega

/-- … and that capacity is usable: as long as nothing has been yielded, a FIFO holding fewer than `N` items is not `full`
(with `chosen_depth_ge_request`: a FIFO holding fewer items than the requested minimum depth never refuses a push). -/
theorem not_full_below_capacity (c : Cfg) (x : α) (es : List (Ev α)) (hw : Wf c es)
    (hy : yielded (trace c (init c x) es) = []) (h : (accepted (trace c (init c x) es)).length < c.N) :
    (run c (init c x) es).core.full = false := by
  have r := reach c x es hw
  have i := r.ginv.inv
  obtain ⟨hP, hG⟩ := r.counts
  rw [hy] at hG
  rw [r.core, i.full_eq]
  have := i.oG_le
  simp at hG ⊢; omega

/-! ### non-vacuity -/

private def ev (pc qc push : Bool) (d : Nat) (pop : Bool) : Ev Nat :=
  { pushClk := pc, popClk := qc, pushReq := push, data := d, afLevel := 1, popReq := pop, aeLevel := 1 }

/-- depth 2, latency 2, single clock: push 7, push 8, push 9 (refused: full), then pop three times -/
private def demo : List (Ev Nat) :=
  [ev true true true 7 false, ev true true true 8 false, ev true true true 9 false, ev true true false 0 false,
   ev true true false 0 true, ev true true false 0 true, ev true true false 0 true, ev true true false 0 true]

example : Wf ⟨1, 2, 2⟩ demo := wf_single _ _ (by decide)
example : accepted (trace ⟨1, 2, 2⟩ (init ⟨1, 2, 2⟩ 0) demo) = [7, 8] ∧
          yielded (trace ⟨1, 2, 2⟩ (init ⟨1, 2, 2⟩ 0) demo) = [7, 8] := by decide
-- capacity really is reached (premise of `full_of_holding_capacity`), and `empty` really goes off (premise of `peek_is_head`)
example : fill (trace ⟨1, 2, 2⟩ (init ⟨1, 2, 2⟩ 0) (demo.take 3)) = (⟨1, 2, 2⟩ : Cfg).N := by decide
example : (run ⟨1, 2, 2⟩ (init ⟨1, 2, 2⟩ 0) (demo.take 4)).core.empty = false := by decide
-- flags do switch off (premises of the almost-full / almost-empty theorems)
example : (run ⟨1, 2, 2⟩ (init ⟨1, 2, 2⟩ 0) demo).core.af = false ∧ lastAf 0 demo ≤ (⟨1, 2, 2⟩ : Cfg).N ∧
          (run ⟨1, 2, 2⟩ (init ⟨1, 2, 2⟩ 0) (demo.take 4)).core.ae = false := by decide
-- dual clock, latency 4, depth 2: push edges and pop edges interleaved 2:1; the item becomes visible
private def demoDual : List (Ev Nat) :=
  [ev true false true 5 false, ev false true false 0 false, ev true false false 0 false, ev true true false 0 false,
   ev true false false 0 false, ev false true false 0 false, ev false true false 0 true, ev false true false 0 true]
example : Wf ⟨1, 4, 4⟩ demoDual := wf_dual _ _ (by decide) (by decide) (by decide)
example : yielded (trace ⟨1, 4, 4⟩ (init ⟨1, 4, 4⟩ 0) demoDual) = [5] := by decide
-- a stale run that is not a chain run: the pop side is shown the push immediately, the push side never sees the pop
example : StaleRun ⟨1, 2, 2⟩ (ainit ⟨1, 2, 2⟩ 0)
    [(ev true false true 5 false, 0, 0), (ev false true false 0 true, 0, 1), (ev false true false 0 true, 0, 1)] := by
  refine ⟨⟨rfl, rfl⟩, ⟨?_, ?_, ?_, ?_⟩, ⟨rfl, rfl⟩, ⟨?_, ?_, ?_, ?_⟩, ⟨rfl, rfl⟩, ⟨?_, ?_, ?_, ?_⟩, trivial⟩ <;> decide

-- 9-bit pointer value 256 (the first one a three-stage prefix decoder gets wrong): encode, decode
example : Gray.grayEncode [true, false, false, false, false, false, false, false, false] =
          [true, true, false, false, false, false, false, false, false] ∧
          Gray.grayDecode [true, true, false, false, false, false, false, false, false] =
          [true, false, false, false, false, false, false, false, false] := by decide

-- FifoArray, 2 FIFOs of depth 2: two items into FIFO 1, pop one of them, fill FIFO 0 while the pop selector rests on FIFO 1
private def aev (push : Bool) (ps d : Nat) (pop : Bool) (qs : Nat) : AEv Nat := { push := push, pushSel := ps, data := d, pop := pop, popSel := qs }
private def demoArr : List (AEv Nat) :=
  [aev true 1 11 false 0, aev true 1 12 false 0, aev false 0 0 true 1, aev true 0 21 false 1, aev true 0 22 false 1, aev true 0 23 false 1]
example : acceptedAt 0 (arrTrace (cfg1 1) 0 (arrInit 1 (cfg1 1) 0) demoArr) = [21, 22] ∧
          acceptedAt 1 (arrTrace (cfg1 1) 0 (arrInit 1 (cfg1 1) 0) demoArr) = [11, 12] ∧
          yieldedAt 1 (arrTrace (cfg1 1) 0 (arrInit 1 (cfg1 1) 0) demoArr) = [11] := by decide

-- TransactionalFifo, depth 8, latency 1: push 10..50 committing each, pop two items without committing, raise
-- rollbackPop while pop is still high (item 30 is yielded and rolled back as well), then drain committing every pop
private def tev (push : Bool) (d : Nat) (pop qc qr : Bool) : TEv Nat :=
  { pushReq := push, data := d, pushCommit := true, pushRollback := false, cutoff := 0, popReq := pop, popCommit := qc, popRollback := qr }
private def demoTrans : List (TEv Nat) :=
  [tev true 10 false false false, tev true 20 false false false, tev true 30 false false false, tev true 40 false false false,
   tev true 50 false false false, tev false 0 true false false, tev false 0 true false false, tev false 0 true false true,
   tev false 0 true true false, tev false 0 true true false, tev false 0 true true false, tev false 0 true true false,
   tev false 0 true true false, tev false 0 true true false]
example : TOk ⟨3, 1, 1⟩ (tinit ⟨3, 1, 1⟩ 0) {} demoTrans := by decide
example : (ttrace ⟨3, 1, 1⟩ (tinit ⟨3, 1, 1⟩ 0) demoTrans).filterMap (fun eo => if eo.2.popValid then some eo.2.peek else none) =
          [10, 20, 30, 10, 20, 30, 40, 50] ∧
          (tspecRun ⟨3, 1, 1⟩ (tinit ⟨3, 1, 1⟩ 0) {} demoTrans).gc = 5 := by decide

end Gatery.C15.Props
