import GateryModel.C16.FifoLive
import GateryModel.C16.Bits
import GateryModel.C16.WidthP
/-!
# C16 — property theorems

*Every ready/valid stream stage of the component library (downstream, ready and decoupling registers, blocking register,
delay, stall, FIFO, width extension and reduction and their compositions) passes on exactly the sequence of transfers it
accepted, unchanged and in order, for every pattern of producer validity and consumer readiness, and on its output keeps
valid asserted and the payload stable until the transfer is accepted. Packet boundaries and per-beat meta signals stay
attached to their beats.*

Model: `C16/Model.lean` — each stage of `scl/stream/utils.h` / `streamFifo.h` as a Mealy machine `Stage α β` following the
generator code (file:line at every definition); the payload type `α` is arbitrary, i.e. the theorems hold for every
payload width and every set of per-beat meta signals (eop, sop, error, txid, empty … all travel inside `α`).
Specification: `C16/Spec.lean` — environments are *arbitrary* functions `Nat → In α` (valid/payload, ready, stall bits per
cycle); `Good S T ok` says: for every environment that keeps the interface law on the input,
`outs t ++ offered_out t <+: T.run (ins t ++ offered_in t)` at every time `t` (in order, unchanged, at most once, nothing
that was not accepted/committed) and the output keeps the interface law. `T` is the list specification
(`Trans.idT` = identity for the 1:1 stages, `extSpec`/`redSpec` for the width changers, characterised below).
Proofs: `C16/Lemmas.lean` (generic refinement arguments + composition), `Stages.lean`, `FifoProof.lean`, `Width.lean`,
`Chains.lean`, `Live.lean`, `Live2.lean`, `FifoLive.lean`, `Bits.lean`, `WidthP.lean`.
Packet.h `widthExtend` is modelled (`widthExtendP`) with the *repaired* sop handler
(harness/examples/c16_fix_widthextend_sop.diff.txt: the sop flag changes only with a transfer); the handler as found
(`flagInstantSet(in.sop, isLast | eop)` evaluated in every cycle) does not meet the specification — harness mode 8 reports
that on a tree without the repair (`seq:pext:sop`, `law:pext`, `frame:*`).

Not in this file (see the check's evidence / report): the tie of each model to the C++ is by correspondence
(harness/c16.cpp | Driver/C16.lean); the FIFO's pointer/memory storage is abstracted to a list (that is property C15).
-/
namespace Gatery.C16.Props
open Gatery.C16

/-! ### the list specifications say what they should -/

/-- 1:1 stages: the specified output sequence is the accepted sequence itself -/
theorem spec_identity {α : Type} (l : List α) : (Trans.idT : Trans α α).run l = l := Trans.run_idT l

/-- `reduceWidth ratio`: every accepted wide beat is replaced by its `ratio` parts, first part first
    (with `redSlice`: part `i` carries data word `i`, `eop` only on the last part, `sop` only on the first, the other meta signals on all) -/
theorem spec_reduce {α β : Type} (ratio : Nat) (slice : Nat → α → β) (l : List α) :
    (redSpec ratio slice).run l = l.flatMap fun x => (List.range ratio).map fun i => slice i x :=
  Trans.run_expandT _ l

/-- `extendWidth ratio`: the accepted sequence cut into groups of `ratio` beats gives one wide beat per complete group, built
    from the group's data words in order and the meta signals (eop, …) of the group's last beat; an incomplete trailing group gives nothing -/
theorem spec_extend {α β δ : Type} (ratio : Nat) (dataOf : α → δ) (mk : List δ → α → β)
    (groups : List (List α × α)) (tail : List α) (hg : ∀ p ∈ groups, p.1.length + 1 = ratio) (ht : tail.length < ratio) :
    (extSpec ratio dataOf mk).run ((groups.map fun p => p.1 ++ [p.2]).flatten ++ tail)
      = groups.map fun p => mk ((p.1 ++ [p.2]).map dataOf) p.2 :=
  Trans.run_chunkT_full ratio _ groups tail hg ht

/-- the concrete data path of the width changers: part `i` of the words packed by `extendWidth` is word `i` again -/
theorem extend_then_reduce_data (w : Nat) (words : List Nat) (i : Nat) (h : i < words.length) :
    partWord w i (packWords w words) = words[i] % 2 ^ w := partWord_packWords w words i h

/-- the same for the byte enables: `reduceWidth` gives part `k` of a word exactly the enable group `k` that `extendWidth`
    (or the producer) put there — `redSlice`/`extMk` use `partWord`/`packWords` for data and byte enables alike -/
theorem reduce_slice_byteEnable (ratio w bw k : Nat) (x : Beat) :
    (redSlice ratio w bw k x).be = partWord bw k x.be ∧ (redSlice ratio w bw k x).data = partWord w k x.data ∧
    (redSlice ratio w bw k x).aux = x.aux := ⟨rfl, rfl, rfl⟩

theorem extend_then_reduce_byteEnable (w bw : Nat) (slots : List (Nat × Nat)) (x : Beat) (ratio k : Nat) (h : k < slots.length) :
    (redSlice ratio w bw k (extMk w bw slots x)).be = (slots[k]).2 % 2 ^ bw := by
  have := partWord_packWords bw (slots.map Prod.snd) k (by simpa using h)
  simpa [redSlice, extMk] using this

/-- specifications compose like functions -/
theorem spec_comp {α β γ : Type} (T : Trans α β) (U : Trans β γ) (l : List α) : (T.comp U).run l = U.run (T.run l) :=
  Trans.run_comp T U l

/-! ### every stage, for all schedules, payload types, depths, latencies, ratios, delays -/

theorem regDownstream_preserves {α : Type} (d0 : α) : Good (regDownstream d0) Trans.idT okTrue := good_regDownstream d0
theorem regDownstreamBlocking_preserves {α : Type} (d0 : α) : Good (regDownstreamBlocking d0) Trans.idT okTrue :=
  good_regDownstreamBlocking d0
/-- the skid buffer -/
theorem regReady_preserves {α : Type} (d0 : α) : Good (regReady d0) Trans.idT okTrue := good_regReady d0
theorem regDecouple_preserves {α : Type} (d0 : α) : Good (regDecouple d0) Trans.idT okTrue := good_regDecouple d0
theorem delay_preserves {α : Type} (d0 : α) (n : Nat) : Good (delay d0 n) Trans.idT okTrue := good_delay d0 n

/-- `stall`: the sequence is preserved for every stall pattern whatsoever (no law needed on the input either) … -/
theorem stall_preserves_sequence {α : Type} (env : Env α) (t : Nat) :
    (stall (α := α)).outs env t ++ ((stall (α := α)).out env t).off <+: (stall (α := α)).ins env t ++ (env t).inp.off :=
  stall_safe_any env t

/-- … and the output keeps the interface law provided the stall condition does not rise while a beat is offered and not taken -/
theorem stall_preserves {α : Type} : Good (stall (α := α)) Trans.idT stallOk := good_stall

/-- Without that side condition `stall` does **not** keep the law on its output (utils.h:688: `valid(out) = '0'` whenever
    stalled): a witness environment — one beat offered and held, consumer not ready, stall raised in cycle 1. -/
theorem stall_breaks_law_when_stalled_mid_offer :
    ∃ env : Env Nat, (stall (α := Nat)).LawIn env ∧ ¬ (stall (α := Nat)).LawOut env := by
  refine ⟨fun t => ⟨fun _ => decide (t = 1), ⟨true, 7⟩, false⟩, ?_, ?_⟩
  · intro t _ _; exact ⟨rfl, rfl⟩
  · intro h
    have := (h 0 (by decide) (by decide)).1
    revert this; decide

/-- the stream FIFO for every depth ≥ 1 and latency, with and without the latency-0 bypass -/
theorem fifo_preserves {α : Type} (d0 : α) (depth lat : Nat) (ft : Bool) (hok : FifoOk depth lat ft) :
    Good (fifo d0 depth lat ft) Trans.idT okTrue := good_fifo d0 depth lat ft hok

theorem extendWidth_preserves {α β δ : Type} (ratio : Nat) (d0 : δ) (dataOf : α → δ) (mk : List δ → α → β) (hr : 0 < ratio) :
    Good (extendWidth ratio d0 dataOf mk) (extSpec ratio dataOf mk) okTrue := good_extendWidth ratio d0 dataOf mk hr

theorem reduceWidth_preserves {α β : Type} (ratio : Nat) (slice : Nat → α → β) (hr : 0 < ratio) :
    Good (reduceWidth ratio slice) (redSpec ratio slice) okTrue := good_reduceWidth ratio slice hr

/-- Packet.h `widthReduce` (the packet-aware reduction, with the per-meta handlers for sop, eop, empty, emptyBits, byteEnable
    folded into `slice`/`fin`): for every slice function whose last part ends the beat, it emits for each accepted wide beat
    exactly the parts up to the first final one, in order, under every valid/ready schedule -/
theorem widthReduce_preserves {α β : Type} (slice : Nat → α → β) (fin : Nat → α → Bool) (ratio : Nat) (hr : 0 < ratio)
    (hlast : ∀ x, fin (ratio - 1) x = true) : Good (widthReduceP slice fin) (pRedSpec ratio slice fin) okTrue :=
  good_widthReduceP slice fin ratio hr hlast

/-- what the specification says about the start-of-packet flag: of the narrow beats cut from one wide beat only the first
    can carry sop, and it does iff the wide beat did (Packet.h:710-713, `in.sop & beat.isFirst()`); likewise data word and
    byte-enable group `i` go to part `i`, and eop only to a part at or after the last non-empty one -/
theorem widthReduce_slice_meta (ratio w bw ek i : Nat) (x : Beat) :
    (pRedSlice ratio w bw ek i x).sop = (x.sop && (i == 0)) ∧
    (pRedSlice ratio w bw ek i x).data = partWord w i x.data ∧ (pRedSlice ratio w bw ek i x).be = partWord bw i x.be ∧
    ((pRedSlice ratio w bw ek i x).eop = true → x.eop = true) ∧ (pRedSlice ratio w bw ek i x).aux = x.aux := by
  refine ⟨rfl, rfl, rfl, ?_, rfl⟩
  simp only [pRedSlice, Bool.and_eq_true]; exact fun h => h.1

theorem widthReduce_concrete_preserves (ratio w bw ek : Nat) (hr : 0 < ratio) :
    Good (Desc.pred ratio w bw ek).stage (pRedSpec ratio (pRedSlice ratio w bw ek) (pRedFin ratio w bw ek)) okTrue :=
  good_widthReduceP _ _ ratio hr (pRedFin_last ratio w bw ek hr)

/-- Packet.h `widthExtend` (repaired sop handler): for every ratio, slot content, eop/sop predicate and empty arithmetic the
    accepted beats are grouped (a group ends after `ratio` beats or at eop) and each group comes out as exactly one wide beat
    that carries sop iff a beat of the group did; the output keeps the interface law — sop included — while it is offered -/
theorem widthExtend_preserves {α β δ : Type} (ratio : Nat) (d0 : δ) (slotOf : α → δ) (isEop isSop : α → Bool) (empOf : α → Nat)
    (start step emod : Nat) (mk : List δ → Bool → Nat → α → β) :
    Good (widthExtendP ratio d0 slotOf isEop isSop empOf start step emod mk)
      (pExtSpec ratio d0 slotOf isEop isSop empOf start step emod mk) okTrue :=
  good_widthExtendP ratio d0 slotOf isEop isSop empOf start step emod mk

theorem widthExtend_concrete_preserves (ratio w bw ek ew : Nat) :
    Good (Desc.pext ratio w bw ek ew).stage
      (pExtSpec ratio (0, 0) extSlot Beat.eop Beat.sop Beat.emp (pExtStart ratio w ek) (emptyUnit ek w) (pExtMod ratio w ek ew) (pExtMk w bw)) okTrue :=
  good_widthExtendP ..

/-- the framing law through `widthExtend`: if the accepted narrow beats carry sop exactly on the first beat after an eop,
    so do the wide beats (with `widthExtend_concrete_preserves`: the wide beats the stage emits) -/
theorem widthExtend_keeps_framing (ratio w bw ek ew : Nat) (l : List Beat) (h : framedFrom false l = true) :
    framedFrom false ((pExtSpec ratio (0, 0) extSlot Beat.eop Beat.sop Beat.emp (pExtStart ratio w ek) (emptyUnit ek w)
      (pExtMod ratio w ek ew) (pExtMk w bw)).run l) = true :=
  pExt_framed ratio w bw ek ew l h

/-! ### compositions -/

/-- `A | B` implements the composed specification under the side conditions of `A` and `B` on what each of them sees -/
theorem compose_preserves {α β γ : Type} (A : Stage α β) (B : Stage β γ) {T : Trans α β} {U : Trans β γ}
    {okA : Env α → Prop} {okB : Env β → Prop} (gA : Good A T okA) (gB : Good B U okB) :
    Good (comp A B) (T.comp U) (okComp A B okA okB) := good_comp A B gA gB

/-- any finite chain of stages each of which has the property has the property (induction over the chain) -/
theorem chain_preserves {α β : Type} {ch : Chain α β} {T : Trans α β} {ok : Env α → Prop} (h : GoodChain ch T ok) :
    Good ch.toStage T ok := h.good

/-- conservation for the 1:1 storage stages, e.g. the skid buffer: accepted = emitted ++ held, at every time, for every
    environment (no law needed) — nothing is dropped, duplicated or reordered inside -/
theorem regReady_conserves {α : Type} (d0 : α) (env : Env α) (t : Nat) :
    (regReady d0).outs env t ++ beatIf ((regReady d0).state env t).v ((regReady d0).state env t).d = (regReady d0).ins env t :=
  (qRegReady d0).conserve env t

theorem fifo_conserves {α : Type} (d0 : α) (depth lat : Nat) (ft : Bool) (hok : FifoOk depth lat ft) (env : Env α) (t : Nat) :
    (fifo d0 depth lat ft).outs env t ++ ((fifo d0 depth lat ft).state env t).q = (fifo d0 depth lat ft).ins env t :=
  (qFifo hok).conserve env t

/-! ### eventual delivery under fair readiness (an extra: the statement of C16 itself is the safety part above)

`Live S T ok dn up`: for every environment that keeps the input law and satisfies `ok`, if the consumer is fair
(`dn = true`: ready infinitely often unconditionally; `dn = false`: ready may wait for valid, but an offered beat is
eventually taken) then every accepted beat is eventually emitted — with `Good.safe`: exactly once — and the stage is a
fair consumer of strength `up` itself. -/

theorem regDownstream_live {α : Type} (d0 : α) : Live (regDownstream d0) Trans.idT okTrue false true := live_regDownstream d0
/-- the blocking register needs `dn = true` (utils.h:34 "valid will not become high while ready is low") -/
theorem regDownstreamBlocking_live {α : Type} (d0 : α) : Live (regDownstreamBlocking d0) Trans.idT okTrue true true :=
  live_regDownstreamBlocking d0
theorem regReady_live {α : Type} (d0 : α) : Live (regReady d0) Trans.idT okTrue false true := live_regReady d0
theorem regDecouple_live {α : Type} (d0 : α) : Live (regDecouple d0) Trans.idT okTrue false true := live_regDecouple d0
theorem delay_live {α : Type} (d0 : α) (n : Nat) : Live (delay d0 (n+1)) Trans.idT okTrue false true := live_delay d0 n
/-- the stream FIFO: a stored beat becomes visible after at most `lat-1` cycles and is then delivered; a full FIFO gets free
    again once a pop has travelled through the latency pipe -/
theorem fifo_live {α : Type} (d0 : α) (depth lat : Nat) (ft : Bool) (hok : FifoOk depth lat ft) :
    Live (fifo d0 depth lat ft) Trans.idT okTrue false true := live_fifo d0 depth lat ft hok
theorem stall_live {α : Type} (dn up : Bool) : Live (stall (α := α)) Trans.idT (stallFair up) dn up := live_stall dn up
theorem extendWidth_live {α β δ : Type} (ratio : Nat) (d0 : δ) (dataOf : α → δ) (mk : List δ → α → β) (hr : 0 < ratio) (b : Bool) :
    Live (extendWidth ratio d0 dataOf mk) (extSpec ratio dataOf mk) okTrue b b := live_extendWidth ratio d0 dataOf mk hr b
/-- `reduceWidth` is only a weakly fair consumer (`up = false`): its ready waits for valid -/
theorem reduceWidth_live {α β : Type} (ratio : Nat) (slice : Nat → α → β) (hr : 0 < ratio) :
    Live (reduceWidth ratio slice) (redSpec ratio slice) okTrue false false := live_reduceWidth ratio slice hr

/-- composition is live if the second stage is a fair enough consumer for the first (`upB = true ∨ dnA = false`);
    `regDownstreamBlocking | reduceWidth` (`dnA = true`, `upB = false`) is exactly what this excludes — the real chain gets
    stuck for good (harness mode 2, observation `undelivered:dsb>red`). -/
theorem compose_live {α β γ : Type} (A : Stage α β) (B : Stage β γ) {T : Trans α β} {U : Trans β γ}
    {okA okLA : Env α → Prop} {okLB : Env β → Prop} {dnA upA dnB upB : Bool}
    (gA : Good A T okA) (lA : Live A T okLA dnA upA) (lB : Live B U okLB dnB upB) (h : upB = true ∨ dnA = false) :
    Live (comp A B) (T.comp U) (okLiveComp A B okA okLA okLB) dnB upA := live_comp A B gA lA lB h

theorem chain_live {α β : Type} {ch : Chain α β} {T : Trans α β} {ok : Env α → Prop} {dn up : Bool}
    (h : LiveChain ch T ok dn up) : Live ch.toStage T ok dn up := h.live

/-! ### non-vacuity -/

/-- the premises are satisfiable: a law-abiding producer exists for every stage (never valid), and a non-trivial one for
    `regReady`: valid in every cycle with payload = number of beats accepted so far is law-abiding whatever the consumer does -/
example {α β : Type} (S : Stage α β) (a : α) : S.LawIn (fun _ => ⟨fun _ => false, ⟨false, a⟩, true⟩) := by
  intro t h; cases h

example : FifoOk 4 2 false ∧ FifoOk 16 1 true ∧ ¬ FifoOk 0 1 false := by
  refine ⟨⟨by decide, by decide⟩, ⟨by decide, by decide⟩, fun h => absurd h.1 (by decide)⟩

/-- a concrete chain `regDecouple | fifo(4, latency 2) | extendWidth 2 | delay 3 | reduceWidth 2` over concrete beats -/
example : ∃ T ok, GoodChain (chainOf [.dec, .fifo 4 2 false, .ext 2 8 1, .dly 3, .red 2 8 1]) T ok :=
  ⟨_, _, .cons (good_regDecouple _) (.cons (good_fifo _ 4 2 false ⟨by decide, by decide⟩)
    (.cons (good_extendWidth 2 _ _ _ (by decide)) (.cons (good_delay _ 3) (.cons (good_reduceWidth 2 _ (by decide)) .nil))))⟩

/-- a live chain `delay 2 | fifo(8, latency 3) | extendWidth 2 | regDownstream | reduceWidth 2` -/
example : ∃ T ok, LiveChain (chainOf [.dly 2, .fifo 8 3 false, .ext 2 8 1, .ds, .red 2 8 1]) T ok false true :=
  ⟨_, _, .cons (good_delay _ 2) (live_delay _ 1) (.cons (good_fifo _ 8 3 false ⟨by decide, by decide⟩) (live_fifo _ 8 3 false ⟨by decide, by decide⟩)
    (.cons (good_extendWidth 2 _ _ _ (by decide)) (live_extendWidth 2 _ _ _ (by decide) true)
      (.cons (good_regDownstream _) (live_regDownstream _)
        (.cons (good_reduceWidth 2 _ (by decide)) (live_reduceWidth 2 _ (by decide)) (.nil false) (Or.inr rfl))
        (Or.inr rfl)) (Or.inl rfl)) (Or.inr rfl)) (Or.inl rfl)⟩

end Gatery.C16.Props
