import GateryModel.C17.LemmasBits
import GateryModel.C17.LemmasTree
import GateryModel.C17.LemmasArith
import GateryModel.C17.LemmasCrc
import GateryModel.C17.LemmasExtra
import GateryModel.C17.LemmasTreeReg
import GateryModel.C17.Historic
import GateryModel.C17.LemmasGraySync
/-!
# C17 — library arithmetic and coding primitives equal their mathematical definitions

Property theorems about the structural models of `GateryModel/C17/Model.lean` (the generator code of
scl/utils/BitCount.h, utils/OneHot.cpp, utils/Thermometric.cpp, cdc.cpp, math.h/.cpp, Adder.cpp, Counter.cpp, crc.cpp).
All widths, operand values, list lengths, branching parameters, counter limits, operation histories and CRC
polynomials are universally quantified.  The models are tied to the real circuits by `harness/c17.cpp | gv_c17`.

Four defects that an earlier version of this check found in gatery (signed `min`/`max`, `counterUpDown` with both inputs at
a limit, `biggestPowerOfTwo` for widths ≥ 32, the registered priority tree with a short last chunk) are fixed in /repo
(ff2206d, 5569e92, 7605865, b9353d8); the theorems below are full strength for the code as it is now.  The `historic_…`
theorems are witnesses about the pre-fix generators kept in `GateryModel/C17/Historic.lean`, for the record only.
-/
namespace Gatery.C17.Props
open Gatery.C17 Gatery.C17.Spec

/-! ## bit count -/

/-- `bitcount` of any bit vector of any length is its population count, and the `BitWidth::last(size)`-bit accumulator never wraps. -/
theorem bitcount_eq_popcount (bits : List Bool) :
    bitcount bits = popcount bits ∧ popcount bits < 2 ^ bitcountW bits.length := by
  refine ⟨bitcount_eq bits, ?_⟩
  have h1 := lt_two_pow_bwLast bits.length
  have h2 : bits.count true ≤ bits.length := List.count_le_length
  unfold popcount bitcountW; omega

example : bitcount [true, false, true, true, false, true, true] = 5 := by decide

/-! ## one-hot decoder / encoder -/

/-- `decoder` sets exactly bit `v`. -/
theorem decoder_spec (w v i : Nat) (hi : i < 2 ^ w) : (decoder w v).getD i false = decide (v = i) := by
  unfold decoder
  by_cases h : v = i <;> simp [List.getD, hi, h]

/-- `encoder (decoder v) = v` for every input width `w ≥ 1` and every `v < 2^w`; the result has `w` bits. -/
theorem encoder_decoder (w v : Nat) (hw : 1 ≤ w) (hv : v < 2 ^ w) : encoder (decoder w v) = some ⟨w, some v⟩ := by
  unfold encoder
  have hlen : (decoder w v).length = 2 ^ w := by simp [decoder]
  have h2 : 2 ≤ 2 ^ w := by
    calc 2 = 2 ^ 1 := rfl
      _ ≤ 2 ^ w := Nat.pow_le_pow_right (by omega) hw
  rw [hlen, if_neg (by omega), log2C_two_pow hw, encGo_decoder w v hv]

/-- `encoder` of the one-hot word of any length `n ≥ 2` (not only powers of two) with bit `k` set is `k`. -/
theorem encoder_oneHot (n k : Nat) (hn : 2 ≤ n) (hk : k < n) :
    encoder ((List.range n).map fun i => k == i) = some ⟨log2C n, some k⟩ := by
  unfold encoder
  simp only [List.length_map, List.length_range]
  rw [if_neg (by omega), List.range_eq_range', encGo_oneHot]
  simp [hk]

/-- …and `k` fits into the `Log2C(n)` result bits. -/
theorem encoder_oneHot_fits (n k : Nat) (hk : k < n) : k < 2 ^ log2C n :=
  Nat.lt_of_lt_of_le hk (le_two_pow_log2C (by omega))

example : encoder (decoder 3 5) = some ⟨3, some 5⟩ := by decide
example : encoder ((List.range 5).map fun i => 4 == i) = some ⟨3, some 4⟩ := by decide

/-! ## priority encoders -/

/-- `lowestSet` is the lowest set index (characterisation used below). -/
theorem lowestSet_iff (bits : List Bool) (i : Nat) :
    lowestSet bits = some i ↔ (bits.getD i false = true ∧ ∀ j, j < i → bits.getD j false = false) := by
  constructor
  · exact lowestSet_some
  · intro ⟨h1, h2⟩
    cases h : lowestSet bits with
    | none => have := lowestSet_none h i; rw [h1] at this; cases this
    | some k =>
      obtain ⟨k1, k2⟩ := lowestSet_some h
      congr 1
      apply Nat.le_antisymm
      · apply Nat.le_of_not_lt; intro hlt
        have := k2 i hlt; rw [h1] at this; cases this
      · apply Nat.le_of_not_lt; intro hlt
        have := h2 k hlt; rw [k1] at this; cases this

/-- Flat `priorityEncoder`, any width: if bit `i` is the lowest set bit the result is `(i, valid)`. -/
theorem priorityEncoder_lowest (bits : List Bool) (i : Nat)
    (hi : bits.getD i false = true) (hlow : ∀ j, j < i → bits.getD j false = false) :
    (priorityEncoder bits).v = some i ∧ (priorityEncoder bits).valid = true := by
  have hne : bits ≠ [] := by intro h; subst h; simp at hi
  have h := (lowestSet_iff bits i).mpr ⟨hi, hlow⟩
  exact ⟨by rw [priorityEncoder_v bits hne, h], by rw [priorityEncoder_valid, h]; rfl⟩

/-- …and if no bit is set it reports `valid = 0` (the index is then undefined, exactly as the circuit leaves it). -/
theorem priorityEncoder_zero (bits : List Bool) (h : ∀ j, bits.getD j false = false) :
    (priorityEncoder bits).valid = false := by
  rw [priorityEncoder_valid]
  cases hl : lowestSet bits with
  | none => rfl
  | some k => have := (lowestSet_some hl).1; rw [h k] at this; cases this

/-- `valid = (in ≠ 0)`. -/
theorem priorityEncoder_valid_iff (bits : List Bool) : (priorityEncoder bits).valid = bits.any id := by
  rw [priorityEncoder_valid, lowestSet_isSome]

/-- The result index fits into the `BitWidth::count(size)` result bits. -/
theorem priorityEncoder_fits (bits : List Bool) (i : Nat) (h : (priorityEncoder bits).v = some i) (hne : 2 ≤ bits.length) :
    i < 2 ^ (priorityEncoder bits).w := by
  have hne' : bits ≠ [] := by intro h; subst h; simp at hne
  rw [priorityEncoder_v bits hne'] at h
  have hlt := lowestSet_lt h
  have : (priorityEncoder bits).w = log2C bits.length := by
    unfold priorityEncoder bwCount
    have : bits.isEmpty = false := by cases bits <;> simp_all
    simp [this]; omega
  rw [this]
  exact Nat.lt_of_lt_of_le hlt (le_two_pow_log2C (by omega))

/-- **tree = flat**: for every input width, every input value and every branching parameter `bps ≥ 1` the recursive,
chunked `priorityEncoderTree` terminates and returns the index and valid flag of the flat `priorityEncoder`. -/
theorem priorityEncoderTree_eq_flat (bps : Nat) (hb : 1 ≤ bps) (bits : List Bool) :
    ∃ w, peTree bps (bits.length + 1) bits = some ⟨w, (priorityEncoder bits).v, (priorityEncoder bits).valid⟩ :=
  peTree_eq_flat bps hb (bits.length + 1) bits (by omega)

/-- more recursion budget never changes the result -/
theorem priorityEncoderTree_fuel (bps : Nat) (hb : 1 ≤ bps) (bits : List Bool) (fuel : Nat) (hf : bits.length < fuel) :
    ∃ w, peTree bps fuel bits = some ⟨w, (priorityEncoder bits).v, (priorityEncoder bits).valid⟩ :=
  peTree_eq_flat bps hb fuel bits hf

example : peTree 2 18 (ofNat 17 0x10400) = some ⟨5, some 10, true⟩ := by decide
example : (priorityEncoder (ofNat 17 0x10400)).v = some 10 := by decide
example : peTree 1 6 (ofNat 5 0) = some ⟨3, none, false⟩ := by decide

/-- Pipelined variant `priorityEncoderTree(in, registerStep = true, bps)`: for every input width `n`, every `bps ≥ 1` and every
input stream, the output in cycle `t + L` is the flat priority encoding of the input of cycle `t`, where `L` is the number of
register levels.  (Every chunk is zero-extended to the common chunk size, so all paths have the same latency.) -/
theorem priorityEncoderTree_registered (bps : Nat) (hb : 1 ≤ bps) (n : Nat) (hist : Nat → List Bool) (t : Nat)
    (hlen : ∀ s, (hist s).length = n) :
    ∃ w, peTreeReg bps (n + 1) hist (t + peTreeRegDepth bps (n + 1) n)
      = some ⟨w, (priorityEncoder (hist t)).v, (priorityEncoder (hist t)).valid⟩ := by
  obtain ⟨w, hw⟩ := peTreeReg_eq_flat bps hb (n + 1) n hist (t + peTreeRegDepth bps (n + 1) n) hlen (by omega) (by omega)
  rw [Nat.add_sub_cancel] at hw
  exact ⟨w, hw⟩

example : peTreeRegDepth 2 18 17 = 2 ∧ peTreeRegDepth 1 33 32 = 4 ∧ peTreeRegDepth 3 10 9 = 1 := by decide
example : peTreeReg 2 18 (fun s => if s = 1 then ofNat 17 0x10000 else ofNat 17 0) 3 = some ⟨5, some 16, true⟩ := by decide

/-- historical witness (code before b9353d8, `Historic.peTreeReg`): 17 input bits, `bps = 2`: chunks of 8, 8 and 1 bits sat behind
2, 2 and 1 registers.  A word with only bit 16 set in cycle 1, zeros otherwise: two cycles later the output was "invalid". -/
theorem historic_priorityEncoderTree_registered_witness :
    Historic.peTreeReg 2 18 (fun s => if s = 1 then ofNat 17 0x10000 else ofNat 17 0) 3 = some ⟨5, none, false⟩ ∧
    (priorityEncoder (ofNat 17 0x10000)).v = some 16 := by decide

/-! ## count leading zeros -/

/-- `countLeadingZeros` returns `size - 1 - j` when `j` is the highest set bit … -/
theorem countLeadingZeros_highest (bits : List Bool) (j : Nat)
    (hj : bits.getD j false = true) (hhigh : ∀ k, j < k → bits.getD k false = false) :
    (countLeadingZeros bits).v = some (bits.length - 1 - j) := by
  rw [countLeadingZeros_eq]
  unfold Spec.clz
  cases h : highestSet bits with
  | none => have := highestSet_none h j; rw [hj] at this; cases this
  | some k =>
    obtain ⟨k1, k2⟩ := highestSet_some h
    have : k = j := by
      apply Nat.le_antisymm
      · apply Nat.le_of_not_lt; intro hlt
        have := hhigh k hlt; rw [k1] at this; cases this
      · apply Nat.le_of_not_lt; intro hlt
        have := k2 j hlt; rw [hj] at this; cases this
    subst this; rfl

/-- … and `size` when the input is zero; the result always fits the result width. -/
theorem countLeadingZeros_zero (bits : List Bool) (h : ∀ k, bits.getD k false = false) :
    (countLeadingZeros bits).v = some bits.length := by
  rw [countLeadingZeros_eq]
  unfold Spec.clz
  cases hh : highestSet bits with
  | none => rfl
  | some k => have := (highestSet_some hh).1; rw [h k] at this; cases this

theorem countLeadingZeros_fits (bits : List Bool) : Spec.clz bits < 2 ^ (countLeadingZeros bits).w := by
  have h1 := lt_two_pow_bwLast bits.length
  have : Spec.clz bits ≤ bits.length := by
    unfold Spec.clz; cases highestSet bits <;> simp <;> omega
  unfold countLeadingZeros; simp only; omega

example : (countLeadingZeros (ofNat 9 0b000101100)).v = some 3 := by decide

/-! ## thermometric code -/

/-- `uintToThermometric` of a `w`-bit value `v`: `v` ones followed by zeros, `2^w - 1` bits in total. -/
theorem uintToThermometric_spec (w v : Nat) (hv : v < 2 ^ w) :
    uintToThermometric w v = List.replicate v true ++ List.replicate (2 ^ w - 1 - v) false :=
  uintToThermometric_eq w v hv

/-- the width-limited variant keeps the low `outW` bits: `min v outW` ones -/
theorem uintToThermometricW_spec (w v outW : Nat) (hv : v < 2 ^ w) (ho : outW ≤ 2 ^ w - 1) :
    uintToThermometricW w v outW = some (List.replicate (min v outW) true ++ List.replicate (outW - v) false) := by
  unfold uintToThermometricW
  rw [if_pos ho, uintToThermometric_eq w v hv]
  congr 1
  rw [List.take_append, List.take_replicate, List.take_replicate]
  simp only [List.length_replicate]
  congr 2 <;> omega

/-- `thermometricToUInt (uintToThermometric v) = v` -/
theorem thermometric_roundtrip (w v : Nat) (hv : v < 2 ^ w) : thermometricToUInt (uintToThermometric w v) = v :=
  Gatery.C17.thermometric_roundtrip w v hv

example : uintToThermometric 3 5 = [true, true, true, true, true, false, false] := by decide

/-! ## Gray code -/

/-- `grayDecode (grayEncode x) = x` for every width `w ≥ 1` and every `x < 2^w`. -/
theorem gray_roundtrip (w x : Nat) (hw : 0 < w) (hx : x < 2 ^ w) : grayDecode w (grayEncode x) = some x :=
  grayDecode_grayEncode w x hw hx

/-- the code word has `w` bits -/
theorem grayEncode_fits (w x : Nat) (hx : x < 2 ^ w) : grayEncode x < 2 ^ w := grayEncode_lt w x hx

/-- Adjacent values have code words that differ in exactly one of the `w` bit positions. -/
theorem gray_adjacent_one_bit (w x : Nat) (hx : x + 1 < 2 ^ w) :
    hamming w (grayEncode x) (grayEncode (x + 1)) = 1 := by
  obtain ⟨k, hk, h⟩ := gray_adjacent_lt w x hx
  exact hamming_of_xor_eq_two_pow w _ _ k hk h

/-- …including the wrap-around from `2^w - 1` to `0` (the code is cyclic). -/
theorem gray_wrap_one_bit (w : Nat) (hw : 0 < w) : hamming w (grayEncode (2 ^ w - 1)) (grayEncode 0) = 1 := by
  obtain ⟨k, rfl⟩ : ∃ k, w = k + 1 := ⟨w - 1, by omega⟩
  apply hamming_of_xor_eq_two_pow (k + 1) _ _ k (by omega)
  rw [grayEncode_block]
  simp [grayEncode]

/-- `x ^ (x >> 1)` *is* the binary-reflected Gray code (defined by reflection: the upper half of the `w+1`-bit code is the
lower half in reverse order with the top bit set). -/
theorem gray_is_reflected (w x : Nat) (hx : x < 2 ^ w) : grayEncode x = reflectedGray w x :=
  grayEncode_eq_reflected w x hx

example : grayEncode 7 = 4 ∧ grayEncode 8 = 12 := by decide
example : grayDecode 5 (grayEncode 19) = some 19 := by decide

/-! ## synchronizeGrayCode (gray-coded clock domain crossing) -/

/-- At power-on the overload with a reset value delivers `reset`, for every width, reset value, chain length and with or without
the input-side register (every register holds `grayEncode reset`, and `grayDecode (grayEncode r) = r`). -/
theorem synchronizeGrayCode_power_on (w n r : Nat) (inStage : Bool) (hw : 0 < w) (hr : r < 2 ^ w) (hn : 0 < n) :
    graySyncOut ⟨w, n, inStage, some r⟩ (graySyncInit ⟨w, n, inStage, some r⟩) = some r :=
  graySync_reset_phase w n r inStage hw hr hn [] (by simpa [countB] using hn)

/-- …and it keeps delivering `reset` for as long as the chain holds reset values: through any sequence of clock-edge instants of
the two domains (any interleaving, coincident edges included, any inputs) in which the output-domain chain latched fewer than
`outStages` times. -/
theorem synchronizeGrayCode_reset_phase (w n r : Nat) (inStage : Bool) (hw : 0 < w) (hr : r < 2 ^ w) (hn : 0 < n)
    (es : List (Bool × Bool × Nat)) (hes : countB es < n) :
    graySyncOut ⟨w, n, inStage, some r⟩ (graySyncRun ⟨w, n, inStage, some r⟩ (graySyncInit ⟨w, n, inStage, some r⟩) es) = some r :=
  graySync_reset_phase w n r inStage hw hr hn es hes

/-- Afterwards the output follows the input: once the input-side register has taken the held input `x` (or there is no such
register), `outStages` latches of the chain — under any interleaving with input-clock edges — put `x` on the output.  Holds for
both overloads and from any chain contents. -/
theorem synchronizeGrayCode_settles (c : GraySync) (x : Nat) (hw : 0 < c.w) (hx : x < 2 ^ c.w) (s : GraySyncState)
    (hlen : s.stages.length = c.outStages) (hn : 0 < c.outStages)
    (hin : c.inStage = true → s.inReg = some (grayEncode x))
    (es : List (Bool × Bool × Nat)) (hes : ∀ e ∈ es, e.2.2 = x) (hcnt : c.outStages ≤ countB es) :
    graySyncOut c (graySyncRun c s es) = some x :=
  graySync_settles c x hw hx s hlen hn hin es hes hcnt

/-- an input-clock edge loads the input-side register with the gray code of the input -/
theorem synchronizeGrayCode_in_stage (c : GraySync) (s : GraySyncState) (b : Bool) (x : Nat) :
    (graySyncStep c s true b x).inReg = some (grayEncode x) := by
  simp [graySyncStep]

example : graySyncOut ⟨3, 3, true, some 5⟩ (graySyncInit ⟨3, 3, true, some 5⟩) = some 5 := by decide
example : graySyncOut ⟨3, 2, true, none⟩ (graySyncRun ⟨3, 2, true, none⟩ (graySyncInit ⟨3, 2, true, none⟩)
    [(true, true, 6), (false, true, 6), (false, true, 6)]) = some 6 := by decide

/-! ## min / max -/

theorem min_unsigned (a b : Nat) : minU a b = min a b := minU_eq a b
theorem max_unsigned (a b : Nat) : maxU a b = max a b := maxU_eq a b

/-- `scl::min` on `SInt`, every width `w ≥ 1`, all operands: the two's complement minimum. -/
theorem min_signed (w a b : Nat) (hw : 0 < w) (ha : a < 2 ^ w) (hb : b < 2 ^ w) :
    toInt w (minS w a b) = min (toInt w a) (toInt w b) := by
  unfold minS
  rw [ltS_eq w b a hw hb ha]
  by_cases h : toInt w b < toInt w a
  · simp only [h, decide_true, if_true]; omega
  · simp only [h, decide_false, Bool.false_eq_true, if_false]; omega

/-- `scl::max` on `SInt` -/
theorem max_signed (w a b : Nat) (hw : 0 < w) (ha : a < 2 ^ w) (hb : b < 2 ^ w) :
    toInt w (maxS w a b) = max (toInt w a) (toInt w b) := by
  unfold maxS
  rw [ltS_eq w a b hw ha hb]
  by_cases h : toInt w a < toInt w b
  · simp only [h, decide_true, if_true]; omega
  · simp only [h, decide_false, Bool.false_eq_true, if_false]; omega

/-- the frontend comparison itself: `lt` on `SInt` is `<` on the integers -/
theorem signed_lt (w x y : Nat) (hw : 0 < w) (hx : x < 2 ^ w) (hy : y < 2 ^ w) : ltS w x y = decide (toInt w x < toInt w y) :=
  ltS_eq w x y hw hx hy

example : toInt 4 (minS 4 8 0) = -8 ∧ toInt 4 (maxS 4 8 1) = 1 ∧ toInt 4 (minS 4 13 2) = -3 := by decide

/-- historical witness (code before ff2206d, comparison by a `w`-bit subtraction): 4-bit `min(-8, 0)` was `0`, `max(-8, 1)` was `-8` -/
theorem historic_min_max_signed_witness :
    toInt 4 (Historic.minS 4 8 0) = 0 ∧ toInt 4 (Historic.maxS 4 8 1) = -8 := by decide

/-! ## biggest power of two -/

/-- For every width and every value: `0 ↦ 0`, otherwise the largest power of two `≤ v`. -/
theorem biggestPowerOfTwo_spec (w v : Nat) (hv : v < 2 ^ w) :
    biggestPowerOfTwo w v = if v = 0 then 0 else 2 ^ Nat.log2 v :=
  biggestPowerOfTwo_eq w v hv

/-- the specification value is what it should be: a power of two with `p ≤ v < 2p` -/
theorem biggestPowerOfTwo_bounds (v : Nat) (hv : v ≠ 0) : 2 ^ Nat.log2 v ≤ v ∧ v < 2 * 2 ^ Nat.log2 v := by
  have h1 := Nat.log2_self_le hv
  have h2 := @Nat.lt_log2_self v
  rw [Nat.pow_succ] at h2; omega

example : biggestPowerOfTwo 10 777 = 512 ∧ biggestPowerOfTwo 40 (2 ^ 39 + 5) = 2 ^ 39 := by decide

/-- historical witness (code before 7605865): the generator rejected every width ≥ 32 (`1 << 31` is a negative `int`) -/
theorem historic_biggestPowerOfTwo_wide (w v : Nat) (hw : 32 ≤ w) : Historic.biggestPowerOfTwo w v = none := by
  unfold Historic.biggestPowerOfTwo; rw [if_pos hw]

/-! ## long division -/

/-- Restoring division, all operand widths: quotient `n / d`, and the remainder register ends as `n % d`. -/
theorem longDivision_unsigned (nw dw n d : Nat) (hn : n < 2 ^ nw) (hd : d < 2 ^ dw) (hd0 : d ≠ 0) :
    longDivision nw dw n d = (n / d, n % d) :=
  longDivision_eq nw dw n d hn hd (Nat.pos_of_ne_zero hd0)

/-- division by zero yields the all-ones quotient (what math_test.cpp expects) -/
theorem longDivision_by_zero (nw dw n : Nat) : (longDivision nw dw n 0).1 = 2 ^ nw - 1 := longDivision_zero nw dw n

/-- Signed numerator: the result is the truncated quotient (C semantics), for every width including `-2^(w-1) / 1`. -/
theorem longDivision_signed (nw dw n d : Nat) (hw : 0 < nw) (hn : n < 2 ^ nw) (hd : d < 2 ^ dw) (hd0 : d ≠ 0) :
    toInt nw (longDivisionS nw dw n d) = Int.tdiv (toInt nw n) d :=
  longDivisionS_eq nw dw n d hw hn hd (Nat.pos_of_ne_zero hd0)

example : longDivision 8 4 200 7 = (28, 4) := by decide
example : toInt 8 (longDivisionS 8 4 (256 - 100) 7) = -14 := by decide

/-! ## adders -/

/-- carry-save adder: `sum + 2·carry = a + b + c` for all naturals (hence all widths). -/
theorem addCarrySave_spec (a b c : Nat) : (addCarrySave a b c).1 + 2 * (addCarrySave a b c).2 = a + b + c :=
  addCarrySave_sum a b c

/-- `CarrySafeAdder` over any list of `w`-bit operands: `sum()` is the sum modulo `2^w`. -/
theorem carrySafeAdder_total (w : Nat) (ops : List Nat) (hops : ∀ o ∈ ops, o < 2 ^ w) :
    (csaAddAll w ops).total w = ops.foldl (· + ·) 0 % 2 ^ w :=
  csaAddAll_total w ops hops

example : (csaAddAll 8 [200, 100, 50, 7]).total 8 = (200 + 100 + 50 + 7) % 256 := by decide

/-! ## counters -/

/-- `Counter(end)` with a non-power-of-two `end`, `Counter(BitWidth)`, `Counter(UInt end)` (the overflow-checked form), any width
`w ≥ 1`, any limit `1 ≤ E ≤ 2^w`, any start value below `E`, any history of inc / dec / both / idle / load cycles with loaded
values below `E`: the register holds the modulo-`E` count of the history. -/
theorem counter_history (w E : Nat) (hw : 0 < w) (h1 : 1 ≤ E) (h2 : E ≤ 2 ^ w) (ops : List CounterOp) (v : Nat) (hv : v < E)
    (hl : ∀ o ∈ ops, o.load = true → o.lv < E) :
    counterRun ⟨w, true, false⟩ (E - 1) v ops = wrapRun E v ops :=
  (counterRun_checked w E hw h1 h2 ops v hv hl).1

/-- `Counter(end)` with `end = 2^w` (no overflow logic, natural wrap) -/
theorem counter_history_pow2 (w : Nat) (hw : 0 < w) (em1 : Nat) (ops : List CounterOp) (v : Nat) (hv : v < 2 ^ w)
    (hl : ∀ o ∈ ops, o.load = true → o.lv < 2 ^ w) :
    counterRun ⟨w, false, false⟩ em1 v ops = wrapRun (2 ^ w) v ops :=
  (counterRun_unchecked w hw em1 ops v hv hl).1

/-- the constructor `Counter(size_t end)` picks exactly these two configurations, with `(end-1).lower(w) = end - 1` -/
theorem counterCfgOfEnd_cases (E : Nat) (auto : Bool) :
    (counterCfgOfEnd E auto = ⟨bwCount E, false, auto⟩ ∧ isPow2 E = true) ∨
    (counterCfgOfEnd E auto = ⟨bwLast E, true, auto⟩ ∧ isPow2 E = false) := by
  unfold counterCfgOfEnd; cases isPow2 E <;> simp

theorem endM1_spec (w E : Nat) (h1 : 1 ≤ E) (h2 : E ≤ 2 ^ w) : endM1 w E = E - 1 := endM1_eq w E h1 h2

/-- closed form of a load-free history: `(v₀ + #increments - #decrements) mod E` -/
theorem counter_closed_form (E : Nat) (h1 : 1 ≤ E) (ops : List CounterOp) (v : Nat) (hl : ∀ o ∈ ops, o.load = false) :
    wrapRun E v ops % E = (v + ups ops + downs ops * (E - 1)) % E :=
  wrapRun_closed E h1 ops v hl

/-- a counter whose `inc()`/`dec()` are never called counts every cycle -/
theorem counter_auto_increment (w E v lv : Nat) (chk : Bool) (hw : 0 < w) (h1 : 1 ≤ E) (h2 : E ≤ 2 ^ w)
    (hchk : chk = false → E = 2 ^ w) (hv : v < E) :
    (counterStep ⟨w, chk, true⟩ v ⟨false, false, false, lv, E - 1⟩).next = (v + 1) % E :=
  counterStep_auto w E v lv chk hw h1 h2 hchk hv

/-- **The whole `Counter` API as usage patterns.**  For every subset `u` of {`inc`, `dec`, `reset`, `load`} that the user logic ever
calls on an instance (16 patterns, including none = free-running and `dec` only = pure down counter), every placement order of
`load`/`reset`, every width, limit `1 ≤ E ≤ 2^w` (power of two or not), reset value and start value below `E`, and every history
of per-cycle call conditions with loaded values below `E`: the register follows the API definition `apiRun` and stays in `[0, E)`. -/
theorem counter_api_history (w E rv : Nat) (chk : Bool) (u : CounterUse) (resetLast : Bool)
    (hw : 0 < w) (h1 : 1 ≤ E) (h2 : E ≤ 2 ^ w) (hchk : chk = false → E = 2 ^ w) (hrv : rv < E)
    (hist : List CounterCalls) (v : Nat) (hv : v < E) (hl : ∀ c ∈ hist, c.lv < E) :
    counterApiRun w chk u resetLast rv (E - 1) v hist = apiRun E rv u resetLast v hist ∧ apiRun E rv u resetLast v hist < E :=
  counterApiRun_eq w E rv chk u resetLast hw h1 h2 hchk hrv hist v hv hl

/-- each call has its definition (consequences of `apiStep`, for any value `v < E`): -/
theorem counter_api_free_running (E rv v : Nat) (u : CounterUse) (rl : Bool) (c : CounterCalls)
    (hu : u.inc = false ∧ u.dec = false) (hc : (u.load && c.load) = false ∧ (u.reset && c.reset) = false) :
    apiStep E rv u rl v c = (v + 1) % E := by
  simp [apiStep, wrapStep, hu.1, hu.2, hc.1, hc.2]

/-- a counter on which `dec()` (but never `inc()`) is called is a pure down counter: it holds when nothing is requested … -/
theorem counter_api_dec_only_holds (E rv v : Nat) (u : CounterUse) (rl : Bool) (c : CounterCalls)
    (hu : u.inc = false ∧ u.dec = true) (hc : c.dec = false ∧ (u.load && c.load) = false ∧ (u.reset && c.reset) = false) :
    apiStep E rv u rl v c = v := by
  simp [apiStep, wrapStep, hu.1, hu.2, hc.1, hc.2.1, hc.2.2]

/-- … and steps down modulo `E` on request -/
theorem counter_api_dec (E rv v : Nat) (u : CounterUse) (rl : Bool) (c : CounterCalls)
    (hu : u.dec = true) (hc : c.dec = true ∧ (u.inc && c.inc) = false ∧ (u.load && c.load) = false ∧ (u.reset && c.reset) = false) :
    apiStep E rv u rl v c = (v + E - 1) % E := by
  simp [apiStep, wrapStep, hu, hc.1, hc.2.1, hc.2.2.1, hc.2.2.2]

theorem counter_api_reset (E rv v : Nat) (u : CounterUse) (c : CounterCalls)
    (hu : u.reset = true) (hc : c.reset = true ∧ (u.load && c.load) = false) :
    apiStep E rv u true v c = rv ∧ apiStep E rv u false v c = rv := by
  simp [apiStep, wrapStep, hu, hc.1, hc.2]

/-- `scl::Counter(12, 5)` used as a timer (only `dec()` and `reset()` are ever called): idle, dec, dec, idle, reload, dec -/
example : counterApiRun 4 true ⟨false, true, true, false⟩ true 5 11 5
    [⟨false, false, false, false, 0⟩, ⟨false, true, false, false, 0⟩, ⟨false, true, false, false, 0⟩, ⟨false, false, false, false, 0⟩]
      = 3 := by decide
example : counterApiRun 4 true ⟨false, false, false, false⟩ true 5 11 10
    [⟨false, false, false, false, 0⟩, ⟨false, false, false, false, 0⟩, ⟨false, false, false, false, 0⟩] = 1 := by decide

/-- flags: `isLast = (value = end-1)`, `isFirst = (value = 0)`, `becomesFirst = (next value = 0)` -/
theorem counter_flags (c : CounterCfg) (v : Nat) (i : CounterIn) :
    (counterStep c v i).last = (v == i.endM1) ∧ (counterStep c v i).first = (v == 0) ∧
    (counterStep c v i).becomesFirst = ((counterStep c v i).next == 0) := by
  unfold counterStep; exact ⟨rfl, rfl, rfl⟩

/-- `counterUpDown`, one cycle, every width: the net change `inc - dec` is applied and clamped to `[0, 2^w - 1]`; `reset` loads the
reset value. -/
theorem counterUpDown_step (w rv v : Nat) (inc dec reset : Bool) (hw : 0 < w) (hv : v < 2 ^ w) :
    (counterUpDownStep w rv v inc dec reset).next = clampStep (2 ^ w - 1) v inc dec reset (rv % 2 ^ w) :=
  counterUpDownStep_clamp w rv v inc dec reset hw hv

/-- `counterUpDown`, every history of (increment, decrement, reset) cycles: the register holds the clamped running count. -/
theorem counterUpDown_history (w rv : Nat) (hw : 0 < w) (ops : List (Bool × Bool × Bool)) (v : Nat) (hv : v < 2 ^ w) :
    counterUpDownRun w rv v ops = clampRun (2 ^ w - 1) (rv % 2 ^ w) v ops :=
  counterUpDownRun_eq w rv hw ops v hv

example : counterUpDownRun 3 5 6 [(true, false, false), (true, false, false), (true, true, false), (false, true, false)] = 6 := by decide

/-- historical witness (code before 5569e92, increment and decrement gated independently): 3 bits, `inc ∧ dec` at 7 gave 6, at 0 gave 1 -/
theorem historic_counterUpDown_witness :
    (Historic.counterUpDownStep 3 0 7 true true false).next = 6 ∧ (Historic.counterUpDownStep 3 0 0 true true false).next = 1 ∧
    clampStep 7 7 true true false 0 = 7 ∧ clampStep 7 0 true true false 0 = 0 := by decide

example : counterRun ⟨3, true, false⟩ 4 2 [⟨true, false, false, 0⟩, ⟨true, false, false, 0⟩, ⟨true, false, false, 0⟩,
    ⟨false, true, false, 0⟩, ⟨false, true, false, 0⟩] = 3 := by decide

/-! ## CRC -/

/-- **crc = remainder of polynomial division over GF(2).**  For every CRC width `n ≥ 1`, every data width `dw ≥ 1`
(narrower, equal or wider than the CRC), every generator polynomial `x^n + poly`, remainder and data word:
the circuit's result `r` has degree `< n` and `rem·x^dw + data·x^n = q·(x^n + poly) + r` for some quotient `q`
(`clmul` = carry-less product, `^^^` = addition in GF(2)[x]). -/
theorem crc_remainder (n dw rem data poly : Nat) (hn : 0 < n) (hdw : 0 < dw)
    (hrem : rem < 2 ^ n) (hdata : data < 2 ^ dw) (hpoly : poly < 2 ^ n) :
    ∃ r, crc n dw n rem data poly = some r ∧ r < 2 ^ n ∧
      ∃ q, (rem <<< dw) ^^^ (data <<< n) = clmul q (2 ^ n + poly) ^^^ r :=
  crc_is_remainder n dw rem data poly hn hdw hrem hdata hpoly

/-- Remainders modulo a monic polynomial of degree `n` are unique, so `crc_remainder` determines the result completely … -/
theorem polynomial_remainder_unique (n P q q' r r' : Nat) (hP1 : 2 ^ n ≤ P) (hP2 : P < 2 ^ (n + 1)) (hr : r < 2 ^ n) (hr' : r' < 2 ^ n)
    (h : clmul q P ^^^ r = clmul q' P ^^^ r') : r = r' :=
  remainder_unique n P q q' r r' hP1 hP2 hr hr' h

/-- … and it equals the executable schoolbook division `pmod` (cancel leading coefficients from the top), which is what
the driver compares the real circuit against. -/
theorem crc_eq_polynomial_division (n dw rem data poly : Nat) (hn : 0 < n) (hdw : 0 < dw)
    (hrem : rem < 2 ^ n) (hdata : data < 2 ^ dw) (hpoly : poly < 2 ^ n) :
    crc n dw n rem data poly = some (pmod n poly ((rem <<< dw) ^^^ (data <<< n))) :=
  crc_eq_pmod n dw rem data poly hn hdw hrem hdata hpoly

example : crc 8 8 8 0 0x31 0x07 = some 0x97 := by decide
example : pmod 8 0x07 (0x31 <<< 8) = 0x97 := by decide

/-! ### TESTS (not proofs of the property): the well-known parameter sets of `CrcParams::init` reproduce the published check
values for the message "123456789", computed through `CrcState::init/update/checksum` of the model (`decide` on constants). -/

set_option maxRecDepth 100000 in
theorem test_crc5_usb : crcRun crc5Usb 8 checkMessage = some 0x19 := by decide
set_option maxRecDepth 100000 in
theorem test_crc16_ccitt : crcRun crc16Ccitt 8 checkMessage = some 0xE5CC := by decide
set_option maxRecDepth 100000 in
theorem test_crc16_usb : crcRun crc16Usb 8 checkMessage = some 0xB4C8 := by decide
set_option maxRecDepth 100000 in
theorem test_crc32 : crcRun crc32 8 checkMessage = some 0xCBF43926 := by decide
set_option maxRecDepth 100000 in
theorem test_crc32c : crcRun crc32C 8 checkMessage = some 0xE3069283 := by decide
set_option maxRecDepth 100000 in
theorem test_crc32d : crcRun crc32D 8 checkMessage = some 0x87315576 := by decide
set_option maxRecDepth 100000 in
theorem test_crc32q : crcRun crc32Q 8 checkMessage = some 0x3010BF7F := by decide

end Gatery.C17.Props
