import GateryModel.C18.Lemmas3
import GateryModel.C18.Literal
import GateryModel.C18.BigInt
import GateryModel.C18.CompareExt
import GateryModel.C18.LiteralProof
import GateryModel.C18.SigImportLemmas
/-!
# C18 — property theorems

*The four-state bit-vector container behaves like a plain array of bits: every operation has exactly the
effect of the same operation on an array of individual bits, touching no bit outside the addressed range.*

Model: `C18/Model.lean` (word-level, follows `simulation/BitVectorState.h` branch by branch; leaf bit arithmetic
regenerated from `utils/BitManipulation.h` by the translator into `Gen/BitManip.lean`).
Specification: `C18/Spec.lean` (lists of bits, no words). All theorems quantify over every plane content,
offset, size and value; preconditions are the ones the C++ code asserts or needs to stay inside its vectors.
Statements only — the proofs are in `C18/Lemmas.lean`, `Lemmas2.lean`, `Seq.lean`.

Covered by theorem: get/set/clear/toggle, insertNonStraddling, extractNonStraddling, insert, extract (straddling
included), setRange/clearRange (3-segment split), copyRange (byte fast path + chunk loop), compareRange
(DefaultConfig and ExtendedConfig specialisations), resize, operator==, allOne/allZero/allDefined/anyDefined, extract(start,size),
insert(state,…), append, extractBigInt / insertBigInt (≤ 64 bit path and word-aligned wide path, negative values as two's complement) and their round trip, and arbitrary operation sequences.
Literals: `parseBitVector` on `x` / `o` / `b` literals of any length with or without explicit width equals the grammar's bit array
(`literal_digits_spec`, `parseBitVector_digits_spec`); `d` literals denote their number in `Log2C(n+1)` bits or the explicit width
(`decimal_literal_spec`); binary text round trip.
`parseBitVector_spec`: for EVERY input string the parser's result is the grammar specification `specLiteral` (all five literal kinds, all
rejections). `formatRange_refines`: `formatRange` is its bit-array specification (reads only the addressed range).
Covered by correspondence only (driver compares the model with the implementation, no theorem): `operator<<` binary / hex and `formatState`.
-/
namespace Gatery.C18.Props
open Gatery.C18 Gatery.Gen

/-! ### single operations, pointwise (effect inside the range, frame outside) -/

theorem insertNS_spec (p : Plane) (start size i : Nat) (v : W) (h : PreNS p start size) :
    bit (insertNS p start size v) i = if start ≤ i ∧ i < start + size then v.getLsbD (i - start) else bit p i :=
  bit_insertNS p start size i v h

theorem extractNS_spec (p : Plane) (start size j : Nat) (h : PreXNS p start size) :
    (extractNS p start size).getLsbD j = (decide (j < size) && bit p (start + j)) :=
  extractNS_getLsbD p start size j h

/-- `insert` at any offset (word-straddling included): the `size` low bits of `v` land at `[off, off+size)`, nothing else moves. -/
theorem insert_spec (p : Plane) (off size i : Nat) (v : W) (h : PreI p off size) :
    bit (insert p off size v) i = if off ≤ i ∧ i < off + size then v.getLsbD (i - off) else bit p i :=
  bit_insert p off size i v h

/-- `extract` at any offset (straddling included) returns exactly the addressed bits, zero-extended. -/
theorem extract_spec (p : Plane) (off size j : Nat) (h : PreX p off size) :
    (extract p off size).getLsbD j = (decide (j < size) && bit p (off + j)) :=
  extract_getLsbD p off size j h

/-- `setRange`/`clearRange`: head segment, full words and trailing segment together write exactly `[off, off+size)`. -/
theorem setRange_spec (p : Plane) (off size i : Nat) (b : Bool) (h : InRange p off size) :
    bit (setRange p off size b) i = if off ≤ i ∧ i < off + size then b else bit p i :=
  bit_setRange p off size i b h

/-- `copyRange` (byte-aligned `memcpy` fast path followed by the 64-bit chunk loop) copies exactly `size` bits. -/
theorem copyRange_spec (dst src : Plane) (dOff sOff size i : Nat)
    (hd : dOff + size ≤ 64 * dst.length) (hs : sOff + size ≤ 64 * src.length) :
    bit (copyRange dst src dOff sOff size) i =
      if dOff ≤ i ∧ i < dOff + size then bit src (sOff + (i - dOff)) else bit dst i :=
  bit_copyRange dst src dOff sOff size i hd hs

/-- `resize`: bits below the new size are kept, everything at or above it reads as zero. -/
theorem resize_spec (p : Plane) (n i : Nat) : bit (resizePlane p n) i = (decide (i < n) && bit p i) :=
  bit_resizePlane p n i

/-- `compareRange<DefaultConfig>`: true iff definedness agrees on every bit and values agree wherever defined. -/
theorem compareRangeDefault_spec (dv dd sv sd : Plane) (dOff sOff size : Nat)
    (hdv : dOff + size ≤ 64 * dv.length) (hdd : dOff + size ≤ 64 * dd.length)
    (hsv : sOff + size ≤ 64 * sv.length) (hsd : sOff + size ≤ 64 * sd.length) :
    compareChunksDefault dv dd sv sd dOff sOff size (size / 64 + 1) 0 = true ↔
      ∀ j, j < size → (bit sd (sOff + j) = bit dd (dOff + j) ∧ (bit sd (sOff + j) = true → bit sv (sOff + j) = bit dv (dOff + j))) := by
  rw [compareChunksDefault_spec dv dd sv sd dOff sOff size _ 0 hdv hdd hsv hsd (by omega)]
  constructor
  · intro h j hj
    have := h j (Nat.zero_le _) hj
    simp only [cmpDefAt, Bool.and_eq_true, Bool.or_eq_true, Bool.not_eq_true', beq_iff_eq] at this
    refine ⟨this.1, fun hd => ?_⟩
    rcases this.2 with h0 | h0
    · simp [hd] at h0
    · exact h0
  · intro h j _ hj
    obtain ⟨h1, h2⟩ := h j hj
    simp only [cmpDefAt, Bool.and_eq_true, Bool.or_eq_true, Bool.not_eq_true', beq_iff_eq]
    refine ⟨h1, ?_⟩
    cases h0 : bit sd (sOff + j)
    · exact Or.inl rfl
    · exact Or.inr (h2 h0)

/-- `compareRange` for `ExtendedConfig` (planes VALUE, DEFINED, DONT_CARE, HIGH_IMPEDANCE; chunks of up to 64 bits) decides the
    bit-by-bit extended comparison: a don't-care on either side matches anything; otherwise high impedance and definedness agree and,
    where the source is defined, the values agree. -/
theorem compareRangeExt_spec (d s : BVS) (dOff sOff size : Nat)
    (hd : ∀ k, k < 4 → dOff + size ≤ 64 * (d.plane k).length) (hs : ∀ k, k < 4 → sOff + size ≤ 64 * (s.plane k).length) :
    d.compareRangeExt dOff s sOff size = true ↔ ∀ j, j < size → cmpExtAt d s dOff sOff j = true := by
  unfold BVS.compareRangeExt
  rw [compareChunksExt_spec d s dOff sOff size _ 0 hd hs (by omega)]
  exact ⟨fun h j hj => h j (Nat.zero_le _) hj, fun h j _ hj => h j hj⟩

/-- `operator==` (word-wise comparison with the last word masked) decides equality of the first `size` bits. -/
theorem eq_spec (a b : Plane) (size : Nat) (ha : a.length = (size + 63) / 64) :
    eqPlane a b size a.length = true ↔ ∀ j, j < size → bit a j = bit b j := by
  rw [eqPlane_spec]
  constructor
  · intro h j hj; exact h j (by omega)
  · intro h j hj; exact h j (by omega)

/-- `allOne` / `allDefined` (chunked scan: head bits, full words, tail bits) decides "every bit of the clamped range is set". -/
theorem allOne_holds (p : Plane) (vsize start size : Nat) :
    allOne p vsize start size = true ↔ ∀ j, j < min size (vsize - start) → bit p (start + j) = true := allOne_spec p vsize start size

theorem allZero_holds (p : Plane) (vsize start size : Nat) :
    allZero p vsize start size = true ↔ ∀ j, j < min size (vsize - start) → bit p (start + j) = false := allZero_spec p vsize start size

/-- `anyDefined` decides "some bit of the clamped range is set". -/
theorem anyOne_holds (p : Plane) (vsize start size : Nat) :
    anyOne p vsize start size = true ↔ ∃ j, j < min size (vsize - start) ∧ bit p (start + j) = true := anyOne_spec p vsize start size

/-- `extract(start, size)` (fresh state; memcpy when byte aligned, copyRange otherwise) is the addressed slice, zero beyond. -/
theorem extractState_spec (sp : Plane) (start size i : Nat) (hs : start + size ≤ 64 * sp.length) :
    bit (extractPlane sp start size) i = (decide (i < size) && bit sp (start + i)) := bit_extractPlane sp start size i hs

/-- `insert(state, offset, size)` (chunks cut at the word borders of both vectors) writes exactly `[offset, offset+width)`. -/
theorem insertState_spec (dst src : Plane) (width offset i : Nat)
    (hd : offset + width ≤ 64 * dst.length) (hs : width ≤ 64 * src.length) :
    bit (insertStateChunks dst src width (width + 1) offset 0) i =
      if offset ≤ i ∧ i < offset + width then bit src (i - offset) else bit dst i := by
  have := bit_insertStateChunks dst src width (width + 1) offset 0 i hd hs (by omega) (by omega)
  simpa using this

/-- `append(src)`: old bits stay, the new bits follow, nothing else. -/
theorem append_spec (dp sp : Plane) (dsize ssize i : Nat) (hs : ssize ≤ 64 * sp.length) :
    bit (appendPlane dp sp dsize ssize) i =
      if i < dsize then bit dp i else if i < dsize + ssize then bit sp (i - dsize) else false := bit_appendPlane dp sp dsize ssize i hs

/-! ### the same as equalities with the bit-array specification -/

theorem setRange_refines (p : Plane) (n off size : Nat) (b : Bool) (h : InRange p off size) :
    absPlane (setRange p off size b) n = specSetRange (absPlane p n) off size b := setRange_abs p n off size b h

theorem insert_refines (p : Plane) (n off size : Nat) (v : W) (h : PreI p off size) :
    absPlane (insert p off size v) n = specInsert (absPlane p n) off size v := insert_abs p n off size v h

theorem copyRange_refines (dst src : Plane) (n m dOff sOff size : Nat)
    (hd : dOff + size ≤ 64 * dst.length) (hs : sOff + size ≤ 64 * src.length) (hm : sOff + size ≤ m) :
    absPlane (copyRange dst src dOff sOff size) n = specCopy (absPlane dst n) (absPlane src m) dOff sOff size :=
  copyRange_abs dst src n m dOff sOff size hd hs hm

theorem extract_refines (p : Plane) (n off size : Nat) (h : PreX p off size) (hn : off + size ≤ n) :
    extract p off size = specExtract (absPlane p n) off size := extract_spec_eq p n off size h hn

/-- `extractBigInt(vec, offset, size)` is the unsigned number spelled by the addressed bits — for the ≤ 64 bit path and for the
wide path (full words `import_bits`-ed, trailing partial chunk or-ed on top); `hal` is the code's own assertion
(`offset % 64 == 0` when `size > 64`). -/
theorem extractBigInt_refines (p : Plane) (n off size : Nat) (hin : off + size ≤ 64 * p.length) (hn : off + size ≤ n)
    (hal : size > 64 → off % 64 = 0) :
    extractBigInt p off size = specBigExtract (absPlane p n) off size := extractBigInt_spec p n off size hin hn hal

/-- `insertBigInt(vec, offset, size, v)` writes `v mod 2^size` (two's complement of negative `v`, produced by the code as
`bitwiseNegation(v, size) + 1` on boost's sign-magnitude `cpp_int` and exported as 64-bit words) into `[offset, offset+size)`
and leaves every other bit alone. -/
theorem insertBigInt_refines (p : Plane) (n off size : Nat) (v : Int) (hin : off + size ≤ 64 * p.length)
    (hal : size > 64 → off % 64 = 0) :
    absPlane (insertBigInt p off size v) n = specBigInsert (absPlane p n) off size v := insertBigInt_abs p n off size v hin hal

/-- write-then-read round trip of big integers -/
theorem bigInt_round_trip (p : Plane) (off size : Nat) (v : Int) (hin : off + size ≤ 64 * p.length)
    (hal : size > 64 → off % 64 = 0) :
    extractBigInt (insertBigInt p off size v) off size = (v % (2 ^ size : Int)).toNat := extract_insertBigInt p off size v hin hal

theorem resize_refines (p : Plane) (n m : Nat) (hc : Clean p n) :
    absPlane (resizePlane p m) m = specResize (absPlane p n) m := resize_abs p n m hc

/-- **Literals, digit loop.** For every `b` (1 bit per digit), `o` (3) and `x` (4) digit string of any length, with or without an explicit
    width, the parser's digit loop on the word-level container (`insert` per digit, which may straddle a word: the 22nd octal digit)
    yields exactly the bit array the grammar denotes — digits right to left, `x`/`X` digits undefined, zero extension to the explicit
    width — and rejects exactly when the explicit width is too small. -/
theorem literal_digits_spec (bps : Nat) (hb : bps = 1 ∨ bps = 3 ∨ bps = 4) (num : List Char) (width : Option Nat) :
    resultBits (parseDigits bps num (initState width)) = specDigits bps num width :=
  parseDigits_spec bps (by omega) (by omega) num width

/-- the whole of `parseBitVector` on such literals: the grammar's bit array for well-formed digit strings, a design error otherwise -/
theorem parseBitVector_digits_spec (s : String) (width : Option Nat) (tag : Char) (num : List Char)
    (h : splitWidth s.toList = (width, tag :: num)) (bps : Nat) (ht : (tag = 'x' ∧ bps = 4) ∨ (tag = 'o' ∧ bps = 3) ∨ (tag = 'b' ∧ bps = 1)) :
    resultBits (parseBitVector s) = if num.all (digitOk bps) then specDigits bps num width else none :=
  parseBitVector_digits s width tag num h bps ht

example : resultBits (parseBitVector "10xA3") = specDigits 4 ['A', '3'] (some 10) := by
  rw [parseBitVector_digits_spec "10xA3" (some 10) 'x' ['A', '3'] (by decide) 4 (Or.inl ⟨rfl, rfl⟩)]; decide

/-- **Decimal literals.** A `d` literal denotes its number `n`: rejected for `n ≥ 2^64` (strtoull range) or when the explicit width is
    smaller than the `Log2C(n+1)` bits it needs (64 for `2^64-1`, fix 27bc7d0); otherwise bit `i` of the result is bit `i` of `n`, all defined,
    in exactly `Log2C(n+1)` bits or in the explicit width. Non-digits after `d` are a design error. -/
theorem decimal_literal_spec (s : String) (width : Option Nat) (num : List Char) (h : splitWidth s.toList = (width, 'd' :: num)) :
    resultBits (parseBitVector s) = if num.all isDigit then specDec num width else none := parseBitVector_dec s width num h

example : resultBits (parseBitVector "8d37") = some ((List.range 8).map fun i => some (Nat.testBit 37 i)) := by
  rw [decimal_literal_spec "8d37" (some 8) ['3', '7'] (by decide)]; decide

/-- **Every literal.** For every input string, `parseBitVector` (optional width, then `s` / `x` / `o` / `b` / `d` literal; container
    operations on words) returns exactly what the grammar specification `specLiteral` denotes — a bit array with undefined digits, or a
    rejection (malformed text, width too small, decimal out of range). -/
theorem parseBitVector_spec (s : String) : resultBits (parseBitVector s) = specLiteral s := Gatery.C18.parseBitVector_spec s

example : specLiteral "12sAb" = none ∧ specLiteral "20sAb" = some ((List.range 20).map fun i => some (decide (i < 16) && (['A', 'b'].getD (i / 8) ' ').toNat.testBit (i % 8))) := by
  decide

/-- **formatRange.** For every base, offset and size inside the vector, `formatRange` (digit groups of `Log2C(base)` bits, most significant
    first, leading digit padded, `X` for a group with an undefined bit) equals its specification on the bit arrays — so it depends on
    the bits of `[offset, offset+size)` only, never on the bit behind the range. -/
theorem formatRange_refines (v d : Plane) (n base offset size : Nat) (hn : offset + size ≤ n) :
    formatRange v d base offset size = specFormatRange (absPlane v n) (absPlane d n) base offset size :=
  formatRange_abs v d n base offset size hn

example : formatRange [0x2F5#64] [0x3DF#64] 16 0 10 = "2X5" ∧ formatRange [0x2F5#64] [0x3DF#64] 8 4 5 = "1X" ∧ formatRange [0x2F5#64] [0x3FF#64] 16 0 10 = "2F5" := by decide

/-- Formatting then parsing (grammar level): the binary text of any four-state vector, read as a `b` literal, denotes that vector. -/
theorem binary_text_round_trip (bits : List (Option Bool)) :
    (formatBits bits).all (digitOk 1) = true ∧ specDigits 1 (formatBits bits) none = some bits := by
  refine ⟨formatBits_digitOk bits, ?_⟩
  simp [specDigits, literalBits_formatBits]

/-! ### every operation history -/

/-- For every finite sequence of resize / set / clear / toggle / setRange / insert / copyRange operations whose arguments stay
    inside the current size, the container's content equals the result of running the same operations on a plain list of bits,
    and the representation invariant (vector length, zero padding) is maintained. No bound on sizes, offsets or sequence length. -/
theorem history_refines (s : P1) (ops : List Op) (hwf : s.WF) (hv : validSeq s ops) :
    (ops.foldl P1.apply s).abs = ops.foldl specApply s.abs ∧ (ops.foldl P1.apply s).WF :=
  run_abs s ops hwf hv

/-! ### non-vacuity: the hypotheses are satisfiable on non-trivial states -/

example : PreNS [0#64, 5#64] 70 20 ∧ PreXNS [0#64, 5#64] 64 64 ∧ PreI [1#64, 2#64, 3#64] 60 64 ∧ PreX [1#64, 2#64] 1 64 ∧
    InRange [1#64, 2#64, 3#64] 5 180 := by decide

/-- the empty state is well formed -/
theorem empty_wf : (⟨0, []⟩ : P1).WF :=
  ⟨by decide, fun i _ => bit_of_ge [] i (by simp)⟩

/-- a valid non-trivial history from the empty state: grow, straddling insert, range set over three words, toggle,
    copy from another (well-formed) state at unaligned offsets, single-bit write -/
example : ∃ src : P1, src.WF ∧ src.size = 70 ∧
    validSeq ⟨0, []⟩
      [.resize 130, .insert 60 10 0x3ff#64, .setRange 3 126 true, .toggle 69, .copyFrom 64 src 1 66, .assign 129 true] := by
  have hsrc : ((⟨0, []⟩ : P1).apply (.resize 70)).WF := (apply_abs ⟨0, []⟩ (.resize 70) empty_wf trivial).2
  refine ⟨(⟨0, []⟩ : P1).apply (.resize 70), hsrc, rfl, ?_⟩
  refine ⟨trivial, ⟨by decide, by decide⟩, ?_, ?_, ⟨hsrc, ?_, ?_⟩, ?_, trivial⟩ <;>
    simp [P1.apply, Op.valid]

/-! ### integers through the simulation signal handles (`SigHandle.cpp`) -/

/-- `simu(x) = (std::int64_t) v` stores `v` modulo `2^w` in two's complement in a signal of **any** width `w` (sign extension above
    bit 63): the statements as written (`Sig.importI64`: VALUE plane prefilled with the sign bit, word 0 overwritten) equal the
    specification bit for bit. -/
theorem sighandle_import_int64 (w : Nat) (v : Int) (hlo : -(2:Int)^63 ≤ v) (hhi : v < (2:Int)^63) (i : Nat) :
    Sig.importI64 w v i = Sig.specImport w v i := Sig.importI64_spec w v hlo hhi i

/-- `simu(x) = (std::uint64_t) v` stores `v` zero extended, any width -/
theorem sighandle_import_uint64 (w v : Nat) (hv : v < 2^64) (i : Nat) : Sig.importU64 w v i = Sig.specImport w (v : Int) i :=
  Sig.importU64_spec w v hv i

/-- `(std::int64_t) simu(x)` is the signed reading of the `w ≤ 64` bits -/
theorem sighandle_export_int64 (w : Nat) (hw : w ≤ 64) (bits : Nat → Bool) : Sig.exportI64 w bits = Sig.specSigned w bits :=
  Sig.exportI64_spec w hw bits

example : (List.range 70).map (Sig.importI64 70 (-5)) = (List.range 70).map (Sig.specImport 70 (-5)) ∧ Sig.importI64 70 (-5) 69 = true := by decide

end Gatery.C18.Props
