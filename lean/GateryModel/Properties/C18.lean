import GateryModel.C18.Lemmas
/-!
# C18 — property theorems

The four-state bit-vector container behaves like a plain array of bits: every operation of the
word-level model (`C18/Model.lean`, tied to `BitVectorState.h` by translator + correspondence)
has exactly the effect of the bit-array specification (`C18/Spec.lean`) and touches no bit outside
the addressed range. Statements only; the work is in `C18/Lemmas.lean`.
-/
namespace Gatery.C18.Props
open Gatery.C18 Gatery.Gen

/-- `insertNonStraddling`: inside the range the bits of `v`, outside nothing changes (frame). -/
theorem insertNS_spec (p : Plane) (start size i : Nat) (v : W) (h : PreNS p start size) :
    bit (insertNS p start size v) i = if start ≤ i ∧ i < start + size then v.getLsbD (i - start) else bit p i :=
  bit_insertNS p start size i v h

/-- `extractNonStraddling` returns exactly the addressed bits, zero-extended. -/
theorem extractNS_spec (p : Plane) (start size j : Nat) (h : PreXNS p start size) :
    (extractNS p start size).getLsbD j = (decide (j < size) && bit p (start + j)) :=
  extractNS_getLsbD p start size j h

-- non-vacuity: the preconditions are satisfiable on a non-trivial state
example : PreNS [0#64, 5#64] 70 20 ∧ PreXNS [0#64, 5#64] 64 64 := by decide

end Gatery.C18.Props
