import GateryModel.C19.Lemmas
import GateryModel.C19.FiberN
import GateryModel.Properties.C04
/-!
# C19 — property theorems

*A simulation process that waits for a clock in the before-phase sees register outputs from before the edge and its writes are
captured by that edge, in the after-phase it sees the updated registers, and in the during-phase it sees old values while its writes
are not captured; waiting for a duration resumes exactly at that rational time, processes becoming runnable at the same instant resume
in the order they suspended, and waiting for a change resumes only if a watched signal changed. Fiber-style processes never run
concurrently with the simulator or each other, so runs are reproducible and free of data races under any OS thread schedule.*

Model: the event loop of `Sched/Sim.lean` (shared with C04) with process scripts `Sched/Proc.lean` (waits, reads, writes, forks;
insertion ids, `awaitingSimProcs`, signal watches, `WaitStable`) plugged in as `scriptSem`; the thread hand-off of
`SimulationFiber.cpp` as a transition system (`C19/Fiber.lean`, `C19/FiberN.lean`). Specification: `C19/Spec.lean`.

The model is a function: a run is determined by (program, scripts, test-bench calls) — `runOps` — there is no choice point; the only
thing the model leaves open (`MicroStep`) is the pop order of `std::priority_queue` among events that `Event::operator<` does not
order, and the C04 theorems show register contents do not depend on it.

Not covered by theorems: `co_await` on a forked process (join), `WaitUntil` (unimplemented in gatery), `abort()`, freedom from data
races of everything outside the five member functions of `SimulationFiber` (explored by running every generated case as fibers with
scheduler perturbation and comparing logs; not proved).

**Known deviation from the statement** (found by the check, reproduced on the unchanged tree): resume events of processes waiting
for a clock are created when the clock pin's trigger event is handled (DURING phase); for BEFORE-phase waiters this makes the order
between waiters of *different* clock pins (or of a clock that is not part of the simulation) follow the order in which the trigger
events are handled — decided by the heap layout — not the order of suspension. `resume_order_by_id` below is therefore a statement
about events that are *in the queue together*.
-/
namespace Gatery.C19.Props
open Gatery.Sched Gatery.C04 Gatery.C19

/-! ### the C04 theorems hold with any set of process scripts -/

/-- the script semantics is lawful: processes cannot touch registers, clock/reset state, time, hardware events or the hardware log.
    Hence every theorem of `Properties/C04.lean` holds verbatim for `S := scriptSem n`. -/
theorem scripts_lawful (n : Nat) : (scriptSem n).Lawful := scriptSem_lawful n

/-- instance: registers change only at their own clock's edges / asynchronous resets, whatever the processes do -/
theorem registers_unaffected_by_processes {P : Prog} (hwf : WF P) (n : Nat) (pins0 : List Val) (ext : PExt) {s s' : PSim}
    (hr : Steps P (scriptSem n) (initState P pins0 ext) s) (st : MicroStep P (scriptSem n) s s') (i : Nat) (hi : i < s.regs.length)
    (hch : s'.outs.getD i default ≠ s.outs.getD i default) :
    ∃ e ∈ s.queue, e.time = s.time ∧ s' = processEvent P (scriptSem n) (s.dequeue e) e ∧
      ((e.type = .clockValueChange ∧ (P.regDom i).pin = e.pin ∧ (P.regDom i).trig.activates e.flag = true) ∨
       (e.type = .resetValueChange ∧ (P.regDom i).rstPin = some e.pin ∧ (P.regDom i).rstType = .async ∧
          specInReset (P.reg i) (P.regDom i) e.flag = true)) :=
  Gatery.C04.Props.reg_changes_only_at_own_events hwf (scriptSem_lawful n) pins0 ext hr st i hi hch

/-! ### (b) waiting for a duration -/

/-- **waitFor_exact**: `co_await WaitFor(d)` at time `t` queues exactly one resume event for the process, at exactly `t + d`
    (AFTER phase; a zero wait in the AFTER phase resumes one micro tick later), and an event is only ever handled when the
    simulation time equals its time (`MicroStep.event`, guard of `advanceMicroTick`). -/
theorem waitFor_exact (s : PSim) (h : Nat) (d : Rat) :
    ∃ e : Event, (suspend s h (.waitFor d)).queue = s.queue ++ [e] ∧ e.type = .simProcResume ∧ e.handle = h ∧
      e.time = specWaitForTime s.time d ∧ e.phase = .after ∧ e.microTick = specWaitForTick d s.phase s.microTick ∧
      e.insertionId = s.nextId ∧ (suspend s h (.waitFor d)).nextId = s.nextId + 1 :=
  waitFor_event s h d

/-- events are handled at exactly their own time: in every step of the event loop that handles an event -/
theorem handled_at_event_time {P : Prog} {S : ProcSem PExt} {s : PSim} {e : Event}
    (hmem : e ∈ s.queue) (htime : e.time = s.time) (hmin : ∀ e' ∈ s.queue, ¬ e'.time < e.time) :
    MicroStep P S s (processEvent P S (s.dequeue e) e) ∧ e.time = s.time :=
  ⟨.event s e hmem htime hmin, htime⟩

/-! ### (c) same-instant order -/

/-- **fifo_resume_order**: of two resume events due at the same (time, phase, micro tick) the one with the smaller insertion id is
    taken first; insertion ids are handed out in suspension order (`suspension_takes_next_id`, `ids_never_decrease`). -/
theorem resume_order_by_id {a b : Event} (ha : a.type = .simProcResume) (hb : b.type = .simProcResume)
    (ht : a.time = b.time) (hp : a.phase = b.phase) (hm : a.microTick = b.microTick) :
    a.earlier b = true ↔ specResumesBefore a.insertionId b.insertionId :=
  Gatery.C19.resume_order_by_id ha hb ht hp hm

theorem suspension_takes_next_id (s : PSim) (h : Nat) (w : Instr) :
    (suspend s h w).nextId = if w = .waitStable ∨ w.isWait = false then s.nextId else s.nextId + 1 := suspend_nextId s h w

theorem ids_never_decrease (fuel : Nat) (s : PSim) (h : Nat) : s.nextId ≤ (runProc fuel s h).nextId :=
  runProc_nextId_mono fuel s h

/-- clock waiters keep the id they got at suspension when the trigger handler turns them into resume events -/
theorem clock_waiters_keep_ids (s : PSim) (e : Event) (di : Nat) :
    (releaseAwaiting s e di).queue = s.queue ++ (s.awaiting.filter (·.dom = di)).map (fun a =>
      ({ e with type := .simProcResume, handle := a.handle, insertionId := a.sortId, phase := a.phase, pin := 0, flag := false } : Event)) ∧
    (releaseAwaiting s e di).awaiting = s.awaiting.filter (·.dom ≠ di) := releaseAwaiting_events s e di

/-! ### (d) waiting for a change -/

/-- **waitChange_iff**: the snapshot is taken at suspension; `checkSignalWatches` resumes (and removes) a watch iff one of its
    signals differs from the snapshot, and keeps it otherwise -/
theorem waitChange_iff (s : PSim) :
    (∀ w, w ∈ (checkWatches s).ext.watches ↔ w ∈ s.ext.watches ∧ w.sigs.map (sigVal s) = w.snap) ∧
    (checkWatches s).queue = s.queue ++ (s.ext.watches.filter fun w => w.sigs.map (sigVal s) != w.snap).map (fun w =>
      ({ type := .simProcResume, time := s.time, microTick := if s.phase = .after then s.microTick + 1 else 0,
         phase := .after, handle := w.handle, insertionId := w.insertionId } : Event)) :=
  checkWatches_spec s

theorem waitChange_snapshot_at_suspension (s : PSim) (h : Nat) (sigs : List Sig) :
    (suspend s h (.waitChange sigs)).ext.watches =
      s.ext.watches ++ [{ handle := h, sigs := sigs, snap := sigs.map (sigVal s), insertionId := s.nextId }] := rfl

/-! ### (e) joining a forked process -/

/-- **joiners resume in the order they began to wait**: when process `h` reaches its end, exactly the processes waiting for it are
    appended to the handler's ready queue, in the order in which they started to wait (`join` appends at the back of the waiting list);
    `run()` then resumes the ready queue front to back (`drain`, by definition). Joiners of other processes keep waiting. -/
theorem joiners_resume_in_waiting_order (s : PSim) (h : Nat) (hf : s.ext.finished.contains h = false) :
    (finishProc s h).ext.ready = s.ext.ready ++ (s.ext.joiners.filter (·.1 == h)).map (·.2) ∧
    (finishProc s h).ext.joiners = s.ext.joiners.filter (·.1 != h) ∧
    (finishProc s h).ext.finished = s.ext.finished ++ [h] := by
  simp only [finishProc, hf, Bool.false_eq_true, if_false, and_self]

/-- a process that ended stays ended: a second call changes nothing (nobody is resumed twice) -/
theorem finish_once (s : PSim) (h : Nat) (hf : s.ext.finished.contains h = true) : finishProc s h = s := by
  simp only [finishProc, hf, if_true]

/-- `run()` takes the front of the ready queue first -/
theorem ready_queue_is_fifo (fuel : Nat) (s : PSim) (r : Nat) (rest : List Nat) (hr : s.ext.ready = r :: rest) :
    drain (fuel + 1) s = drain fuel (runProc procFuel { s with ext := { s.ext with ready := rest } } r) := by
  simp [drain, hr]

-- three processes (2, 5, 3 — in this order) wait for process 1, one waits for process 4: the end of 1 makes exactly 2, 5, 3 ready, in that order
example (s : PSim) (h1 : s.ext.joiners = [(1, 2), (4, 9), (1, 5), (1, 3)]) (h2 : s.ext.finished = []) (h3 : s.ext.ready = []) :
    (finishProc s 1).ext.ready = [2, 5, 3] ∧ (finishProc s 1).ext.joiners = [(4, 9)] := by
  have hf : s.ext.finished.contains 1 = false := by rw [h2]; rfl
  obtain ⟨r1, r2, _⟩ := joiners_resume_in_waiting_order s 1 hf
  rw [r1, r2, h1, h3]
  decide

/-! ### (a) phase visibility -/

/-- BEFORE-phase and DURING-phase resumptions are taken out of the queue before the clock edge of the same instant -/
theorem before_during_run_before_edge {r v : Event} (hr : r.type = .simProcResume) (hv : v.type = .clockValueChange)
    (ht : r.time = v.time) (hvp : v.phase = .during)
    (hph : r.phase = .before ∨ (r.phase = .during ∧ r.microTick ≤ v.microTick)) : r.earlier v = true :=
  resume_precedes_edge hr hv ht hvp hph

/-- AFTER-phase resumptions are taken out of the queue after every clock edge of the same instant -/
theorem after_runs_after_edge {r v : Event} (ht : r.time = v.time) (hvp : v.phase = .during) (hph : r.phase = .after) :
    v.earlier r = true := edge_precedes_after_resume ht hvp hph

/-- the executable model always pops an event no queued event precedes; with the two theorems above and
    `registers_unaffected_by_processes`: a BEFORE/DURING process reads pre-edge register outputs, an AFTER process post-edge ones -/
theorem pops_in_order {q : List Event} {m : Event} (h : minEvent q = some m) : m ∈ q ∧ ∀ e ∈ q, e.earlier m = false :=
  ⟨minEvent_mem h, minEvent_min h⟩

/-- DURING: resuming a process leaves every register's output *and latched D/ENABLE* untouched and nothing re-evaluates the network
    within a micro tick (`Props.micro_tick_is_events_only`), so the edge of that micro tick does not capture what the process wrote -/
theorem during_writes_not_captured (P : Prog) (n : Nat) (s : PSim) (e : Event) (he : e.type = .simProcResume) :
    (processEvent P (scriptSem n) (s.dequeue e) e).regs = s.regs := resume_leaves_registers P n s e he

/-- BEFORE: every micro tick is followed by `reevaluate`, which latches `dataIn`/`enIn` of the *current* pin values
    (`C04.Props.latched_after_reevaluate`), before the DURING phase handles the edge: BEFORE-phase writes are captured -/
theorem before_writes_are_latched (P : Prog) (S : ProcSem PExt) (fuel n : Nat) (s : PSim) (e : Event)
    (hm : minEvent s.queue = some e) (hc : e.time = s.time ∧ e.phase = s.phase) :
    phaseLoop P S fuel (n+1) s =
      let s1 := if s.microTick = 0 ∨ s.phase ≠ .during then s else s.fail "assert:microTick==0||phase!=DURING"
      let s2 := reevaluate P (advanceMicroTick P S fuel s1)
      let s3 := S.checkWatches P s2
      phaseLoop P S fuel n { s3 with microTick := s3.microTick + 1 } := phaseLoop_reevaluates P S fuel n s e hm hc

/-! ### (f) fibers -/

/-- **fiber_mutex**, one fiber: in every reachable state of the hand-off protocol (every interleaving of the two threads, spurious
    wake-ups included) the simulator thread and the fiber's user code are not both running -/
theorem fiber_mutex {s : Fiber.St} (h : Fiber.Reachable s) : ¬ (Fiber.mainActive s = true ∧ Fiber.fiberActive s = true) :=
  Fiber.fiber_mutex h

/-- any number of fibers: if a fiber runs user code, the simulator thread is blocked inside a call on that fiber and no other fiber runs -/
theorem fibers_mutex {n : Nat} {g : Fiber.G} (h : Fiber.GReach n g) (i : Nat) (hi : g.fiberActive i = true) :
    g.m ≠ .idle ∧ g.cur = i ∧ ∀ j, j ≠ i → g.fiberActive j = false := Fiber.fibers_mutex h i hi

/-! ### non-vacuity -/

/-- the protocol does reach a state in which the fiber runs while the simulator thread waits inside `start()`, and one in which the
    fiber is suspended while the simulator runs -/
example : ∃ s, Fiber.Reachable s ∧ Fiber.fiberActive s = true ∧ Fiber.mainActive s = false :=
  ⟨⟨.startCheck, .body, .main, true, false⟩,
   .step (.step (.step .init (s' := ⟨.startLock, .notStarted, .free, true, false⟩) (by decide))
     (s' := ⟨.startSpawn, .notStarted, .main, true, false⟩) (by decide)) (by decide), rfl, rfl⟩

example : ∃ s, Fiber.Reachable s ∧ Fiber.mainActive s = true ∧ s.f = .suspWait := by
  have h0 : Fiber.Reachable ⟨.startCheck, .body, .main, true, false⟩ :=
    .step (.step (.step .init (s' := ⟨.startLock, .notStarted, .free, true, false⟩) (by decide))
      (s' := ⟨.startSpawn, .notStarted, .main, true, false⟩) (by decide)) (by decide)
  have h1 : Fiber.Reachable ⟨.startWait, .body, .free, true, false⟩ := .step h0 (by decide)
  have h2 : Fiber.Reachable ⟨.startWait, .suspLock, .free, true, false⟩ := .step h1 (by decide)
  have h3 : Fiber.Reachable ⟨.startWait, .suspSet, .fiber, true, false⟩ := .step h2 (by decide)
  have h4 : Fiber.Reachable ⟨.startWait, .suspCheck, .fiber, false, false⟩ := .step h3 (by decide)
  have h5 : Fiber.Reachable ⟨.startWait, .suspWait, .free, false, false⟩ := .step h4 (by decide)
  have h6 : Fiber.Reachable ⟨.startWake, .suspWait, .free, false, false⟩ := .step h5 (by decide)
  have h7 : Fiber.Reachable ⟨.startCheck, .suspWait, .main, false, false⟩ := .step h6 (by decide)
  have h8 : Fiber.Reachable ⟨.idle, .suspWait, .free, false, false⟩ := .step h7 (by decide)
  exact ⟨_, h8, rfl, rfl⟩

example : Fiber.GReach 3 ⟨.idle, 0, List.replicate 3 {}⟩ := .init

/-- two resume events of one instant with distinct ids -/
example : (⟨.simProcResume, 2, 0, .after, 0, false, 7, 3⟩ : Event).earlier ⟨.simProcResume, 2, 0, .after, 0, false, 4, 5⟩ = true :=
  (resume_order_by_id (a := ⟨.simProcResume, 2, 0, .after, 0, false, 7, 3⟩) (b := ⟨.simProcResume, 2, 0, .after, 0, false, 4, 5⟩)
    rfl rfl rfl rfl rfl).2 (by show 3 < 5; omega)

end Gatery.C19.Props
