import GateryModel.C20.RoundTrip
import GateryModel.C20.TVEdge
/-!
# C20 — property theorems

*For every simulation run, the value of each recorded signal reconstructed from the VCD file at any time equals the value
the simulator held for that signal when that time step was committed (including undefined bits and wide vectors), and
replaying the recorded test-vector stimuli into a fresh simulation of the same design reproduces every recorded expectation.*

Models: `C20/VCD.lean` (`encode` = `WaveformRecorder::onCommitState` + `VCDSink` + `VCDWriter` as written, `decode` = a VCD
reader) and `C20/TV.lean` (`run` = `FileBasedTestbenchRecorder` as written: phase buffering, flush spacing, `ADV` rounding).
Both are compared byte for byte with the files the real classes write on every run of `checks/c20.py`.

What is proved about the test vectors is what the *file* guarantees to whoever replays it (time keeping, grouping, order relative
to the clock events and to the recording order). That the replay into a fresh `ReferenceSimulator` reproduces every CHECK is
established per run by the harness (it needs the simulator's semantics), not by a theorem.
-/
namespace Gatery.C20.Props
open Gatery.C20 Gatery.C20.TV

/-! ## waveforms -/

/-- The identifier generator never repeats: all calls, any number of signals. -/
theorem ident_injective (a b : Nat) (h : ident a = ident b) : a = b := ident_injective' h

/-- Identifiers are usable as VCD tokens: non-empty runs of printable characters without blanks or line breaks. -/
theorem ident_token (n : Nat) : ident n ≠ [] ∧ ∀ ch ∈ ident n, ch ≠ ' ' ∧ ch ≠ '\n' := by
  refine ⟨?_, ident_chars n⟩
  cases n <;> simp [ident, identDigits]
  rename_i n
  cases identDigits n <;> simp [identNext]
  split <;> simp

/-- **Round trip.** Reading back the file written for any trace gives, for every recorded signal and every time `T` (ps), the
    four-state value the signal had at the last commit whose time step is `≤ T` (all `X` before the first commit).
    For every configuration (any number of signals, any widths including 0 and > 64, scalar or vector, hidden, memory words, any
    scope nesting, any clocks / resets), every initial clock state and every event sequence with non-decreasing time stamps;
    undefined bits and the value plane under them are arbitrary. -/
theorem vcd_round_trip (c : Cfg) (init : Init) (evs : List Ev) (hn : c.NamesOk) (hs : TicksSorted 0 evs) (hc : CommitsOk c evs)
    (i : Nat) (hi : i < c.sigs.length) (T : Nat) :
    decode (encode c init evs) (ident i) T = specValue c evs i T :=
  round_trip c init evs hn hs hc i hi T

/-- The reader finds the declared width of every recorded signal in the header (each signal is declared exactly under its
    identifier, whatever the scope tree looks like). -/
theorem vcd_declares_width (c : Cfg) (hn : c.NamesOk) (i : Nat) (hi : i < c.sigs.length) :
    declaredWidth (declLines c) (ident i) = (c.sigs.getD i default).width :=
  declaredWidth_decl c hn i hi

/-- Time stamps written by `advanceTick` are monotone in the simulation time (so `TicksSorted` holds for every real run). -/
theorem tickPs_mono (n1 d1 n2 d2 : Nat) (h1 : 0 < d1) (h2 : 0 < d2) (h : n1 * d2 ≤ n2 * d1) : tickPs n1 d1 ≤ tickPs n2 d2 := by
  unfold tickPs
  rw [Nat.le_div_iff_mul_le h2]
  have hx : n1 * psPerSecond / d1 * d1 ≤ n1 * psPerSecond := Nat.div_mul_le_self _ _
  have : n1 * psPerSecond / d1 * d2 * d1 ≤ n2 * psPerSecond * d1 := by
    calc n1 * psPerSecond / d1 * d2 * d1 = (n1 * psPerSecond / d1 * d1) * d2 := by
            rw [Nat.mul_assoc, Nat.mul_comm d2 d1, ← Nat.mul_assoc]
      _ ≤ n1 * psPerSecond * d2 := Nat.mul_le_mul_right _ hx
      _ = (n1 * d2) * psPerSecond := by rw [Nat.mul_assoc, Nat.mul_comm psPerSecond d2, ← Nat.mul_assoc]
      _ ≤ (n2 * d1) * psPerSecond := Nat.mul_le_mul_right _ h
      _ = n2 * psPerSecond * d1 := by rw [Nat.mul_assoc, Nat.mul_comm d1 psPerSecond, ← Nat.mul_assoc]
  exact Nat.le_of_mul_le_mul_right this h1

/-! ## test vectors -/

/-- **No drift.** After every `ADV` the time written so far is at most the exact time the group was scheduled at and less than
    one picosecond behind it: the rounding remainder is carried, never accumulated. For every callback sequence that starts with
    power-on and has non-decreasing simulation times. -/
theorem adv_no_drift (rest : List TEv) (hm : Mono 0 rest) (pre : List Group) (g : Group) (post : List Group)
    (h : run 0 {} (.powerOn :: rest) = pre ++ g :: post) :
    ((advSum pre + g.adv : Nat) : Rat) / psPerSec ≤ g.target ∧ g.target < ((advSum pre + g.adv : Nat) : Rat) / psPerSec + 1 / psPerSec := by
  have hd : DriftOk 0 (run 0 {} (.powerOn :: rest)) := by
    simp only [run, step, List.nil_append]
    exact run_drift rest 1 _ 0 0 ⟨by simp only [psPerSec]; grind, Rat.le_refl, Rat.le_refl⟩ hm
  rw [h] at hd
  simpa using driftOk_split pre g post 0 hd

/-- **Every group lies between the two flushes that bracket it.** The groups written by one flush are scheduled inside the
    interval between the previous flush (`start`) and the current one (`stop`), strictly inside when the interval is not empty;
    `start` / `stop` are consecutive entries of the recorder's flush times (AFTER notifications of the simulator at which nothing
    recorded after an edge of the same time is pending, and the end of the run). -/
theorem tv_group_in_interval (rest : List TEv) (hm : Mono 0 rest) (g : Group) (hg : g ∈ run 0 {} (.powerOn :: rest)) :
    (g.start ≤ g.target ∧ g.target ≤ g.stop ∧ (g.start < g.stop → g.start < g.target ∧ g.target < g.stop)) ∧
    (flushTimes 1 (step 0 {} .powerOn).2 rest)[g.interval]? = some g.stop ∧
    g.start = intervalStart 0 (flushTimes 1 (step 0 {} .powerOn).2 rest) g.interval := by
  simp only [run] at hg
  have hinv : TimeInv (step 0 {} TEv.powerOn).2 0 0 := ⟨by simp only [step, psPerSec]; grind, by simp [step], by simp [step]⟩
  refine ⟨run_bracket rest 1 _ 0 0 hinv hm g (by simpa [step] using hg), ?_⟩
  obtain ⟨m, h1, h2, h3⟩ := run_flushTimes rest 1 (step 0 {} .powerOn).2 0 hm g (by simpa [step] using hg)
  have h1' : g.interval = m := by simpa [step] using h1
  subst h1'
  exact ⟨h2, by simpa [step] using h3⟩

/-- **Nothing recorded after the clock edges of a time is written at that time.** Every group is scheduled strictly behind the
    flush that precedes it (`start < target`) — except groups written in an empty flush interval, and those only hold what arrived in
    the BEFORE or DURING phase of the pass that flushed them (stimuli the edge must capture, reads that must not see it), never
    anything recorded after the flush at that time. For every callback sequence the simulator can produce (`passes`), any times. -/
theorem tv_after_edge_strict (rest : List TEv) (hm : Mono 0 rest) (hp : passes none (.powerOn :: rest) = true)
    (g : Group) (hg : g ∈ run 0 {} (.powerOn :: rest)) :
    g.start < g.target ∨
    (g.target = g.start ∧ g.start = g.stop ∧
      ∀ x ∈ g.items, ∃ c, (phaseTrack none (.powerOn :: rest))[x.tag]? = some c ∧ (c = some (.before, g.stop) ∨ c = some (.during, g.stop))) := by
  have hb := (tv_group_in_interval rest hm g hg).1
  by_cases hlt : g.start < g.stop
  · exact Or.inl (hb.2.2 hlt).1
  · have heq : g.start = g.stop := by
      have := Rat.le_trans hb.1 hb.2.1
      grind
    refine Or.inr ⟨by have := hb.1; have := hb.2.1; grind, heq, ?_⟩
    exact run_edge_recorded _ hp g hg heq

/-- **Groups are written in (clock interval, micro tick) order**, each interval and phase at most once. -/
theorem tv_groups_sorted (evs : List TEv) : (run 0 {} evs).Pairwise (fun a b => keyLt a.key b.key) :=
  run_sorted evs 0 {}

/-- **Every written statement is the statement its callback produced, in the group of the (interval, phase) that callback
    belongs to**: nothing is invented, nothing leaves its interval. (`slots`: interval = number of flushes so far, phase = index of
    the last open phase; overrides made in the DURING phase belong to the phase opened by the coming AFTER notification.) -/
theorem tv_statement_slot (evs : List TEv) (hfin : FinishLast evs) (g : Group) (hg : g ∈ run 0 {} evs) (x : Tagged)
    (hx : x ∈ g.items) :
    (slots 0 {} evs)[x.tag]? = some (some (g.interval, g.phase)) ∧ (evs[x.tag]?).bind (produced x.tag) = some x :=
  run_recorded evs hfin g hg x hx

/-- Inside a group the CHECKs come first, then the SETs, then the RSTs (what a read in a phase saw does not include the
    overrides of that phase). -/
theorem tv_group_layout (g : Group) :
    g.lines = [['A','D','V'], natToDec g.adv] ++ g.checks.flatMap (kw ['C','H','E','C','K']) ++ g.sets.flatMap (kw ['S','E','T'])
      ++ g.rsts.flatMap (kw ['R','S','T']) := rfl

/-- **Every CHECK comes after the SETs / RSTs it observed.** If an override was recorded as callback `i`, a statement was
    recorded as callback `j > i`, and between them the simulator finished a micro tick or announced the AFTER phase (for an
    override made in the DURING phase: announced the AFTER phase, i.e. the clock edge took effect), then the group holding the
    override is written before the group holding the later statement. -/
theorem tv_check_after_observed (rest : List TEv) (hfin : FinishLast rest) (g h : Group)
    (hg : g ∈ run 0 {} (.powerOn :: rest)) (hh : h ∈ run 0 {} (.powerOn :: rest))
    (x y : Tagged) (hx : x ∈ g.items) (hy : y ∈ h.items) (m : Nat) (ex em ey : TEv) (hxm : x.tag < m) (hmy : m < y.tag)
    (h1 : (TEv.powerOn :: rest)[x.tag]? = some ex) (h2 : (TEv.powerOn :: rest)[m]? = some em) (h3 : (TEv.powerOn :: rest)[y.tag]? = some ey)
    (hb : if ex.during then ∃ now, em = .newPhase .after now else em.boundary = true) (hd : ey.during = false) :
    [g, h].Sublist (run 0 {} (.powerOn :: rest)) := by
  have hfin' : FinishLast (.powerOn :: rest) := by simpa [FinishLast] using hfin
  have sx := (run_recorded _ hfin' g hg x hx).1
  have sy := (run_recorded _ hfin' h hh y hy).1
  have hlt : keyLt g.key h.key := by
    cases hxt : x.tag with
    | zero => rw [hxt] at sx; simp [slots] at sx
    | succ i =>
      cases hmt : m with
      | zero => omega
      | succ m' =>
        cases hyt : y.tag with
        | zero => omega
        | succ j =>
          rw [hxt] at sx h1; rw [hyt] at sy h3; rw [hmt] at h2
          simp only [slots, List.getElem?_cons_succ] at sx sy h1 h2 h3
          exact slots_order rest 1 _ i m' j _ _ ex em ey (by simp [step]) (by omega) (by omega) sx h1 h2 hb sy h3 hd
  exact sorted_sublist _ (fun a => keyLt_irrefl a.key) (fun a b => keyLt_asymm a.key b.key) _ (run_sorted _ 0 {}) g h hg hh hlt

/-! ## non-vacuity -/

def exCfg : Cfg :=
  { date := ['2','0','2','6'],
    sigs := [⟨8, true, false, ['a'], [(0, ['t','o','p'])], none⟩, ⟨1, false, true, ['e','n'], [(0, ['t','o','p']), (3, ['s','u','b'])], none⟩,
             ⟨70, true, false, ['w'], [(0, ['t','o','p'])], none⟩, ⟨4, false, false, ['a','d','d','r','_','0'], [(0, ['t','o','p'])], some (9, ['m'])⟩],
    clocks := [(1, ['c','l','k'])], resets := [(1, ['r','s','t'])] }

def exVals (a : Nat) (x : Bool) : List RVec :=
  [(List.range 8).map (fun i => ⟨!(x && i == 3), a.testBit i⟩), [⟨true, a.testBit 0⟩],
   (List.range 70).map (fun i => ⟨i != 66, (a + i) % 3 == 0⟩), (List.range 4).map (fun i => ⟨true, a.testBit (i + 1)⟩)]

def exEvs : List Ev :=
  [.commit (exVals 3 true), .tick 1 200000000, .clock 0 false, .commit (exVals 3 true), .tick 1 100000000, .clock 0 true, .reset 0 false,
   .commit (exVals 6 false), .tick 31 3000000000, .commit (exVals 9 true)]

example : exCfg.NamesOk := by
  refine ⟨by decide, ?_, by decide, by decide⟩
  intro s hs
  simp only [exCfg, List.mem_cons, List.not_mem_nil, or_false] at hs
  rcases hs with rfl | rfl | rfl | rfl <;> refine ⟨by decide, by decide, ?_⟩ <;> intro k hk <;> simp at hk
  subst hk; decide

example : TicksSorted 0 exEvs := by simp [exEvs, TicksSorted, tickPs, psPerSecond]
example : CommitsOk exCfg exEvs := by simp [exEvs, CommitsOk, exCfg, exVals]

-- the specification distinguishes the commits (an undefined bit, then a defined value); by the theorem so does `decode ∘ encode`
example : specValue exCfg exEvs 0 4999 = [.t, .t, .f, .x, .f, .f, .f, .f] := by decide
example : specValue exCfg exEvs 0 10000 = [.f, .t, .t, .f, .f, .f, .f, .f] := by decide
example : (specValue exCfg exEvs 2 10333).length = 70 ∧ (specValue exCfg exEvs 2 10333)[66]? = some .x := by decide

def exTv : List TEv :=
  [.rst false ['r'] true, .set false ['a'] [.t, .x],
   .newPhase .before 5, .newPhase .during 5, .newPhase .after 5, .microTick, .read ['o'] false [.f, .t],
   .newPhase .before 10, .newPhase .during 10, .set true ['a'] [.f, .f], .read ['o'] false [.x, .t], .microTick,
   .newPhase .after 10, .microTick, .read ['o'] true [.t],
   -- the same time step is entered again: what is pending was recorded after its edge and is kept
   .newPhase .before 10, .newPhase .during 10, .newPhase .after 10, .read ['o'] true [.f],
   .finish 12]

example : Mono 0 exTv := by simp [exTv, Mono]; grind
example : FinishLast exTv := by simp [exTv, FinishLast]
example : passes none (.powerOn :: exTv) = true := by simp [exTv, passes, inDuring, inBefore]
-- five groups are written: (interval, phase) = (0,0) power-on SET+RST, (1,2) two CHECKs, (2,0) the postponed DURING SET,
-- (2,2) CHECK recorded after the edge at time 10, (2,4) CHECK recorded after that time step was entered again (same interval: kept)
example : (run 0 {} (.powerOn :: exTv)).map (fun g => (g.interval, g.phase, g.checks.length, g.sets.length, g.rsts.length))
    = [(0, 0, 0, 1, 1), (1, 2, 2, 0, 0), (2, 0, 0, 1, 0), (2, 2, 1, 0, 0), (2, 4, 1, 0, 0)] := by
  simp [run, step, exTv, flush, flushGo, Phase.isEmpty, modifyLast, mapSet, renderCheck, renderState, renderSet, pendingNow, finishStop]

end Gatery.C20.Props
