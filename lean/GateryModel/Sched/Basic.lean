/-!
# Sched — shared model of `sim::ReferenceSimulator`'s event loop (used by C04 and C19)

`Basic.lean`: values, phases, events and the event order.

Anchors (all under `/repo/source/gatery`):
* `simulation/ReferenceSimulator.h:161-206`  `struct Event`, `Event::operator<`
* `simulation/simProc/WaitClock.h`           `enum TimingPhase { BEFORE, DURING, AFTER }`
* `hlim/ClockRational.h:30-37`               `clockLess`/`clockMore` (cross multiplication on `boost::rational<uint64_t>`)

Time is `Rat` (core Lean). `boost::rational<std::uint64_t>` agrees with `Rat` as long as no numerator,
denominator or cross product `num·den'` reaches `2^64` (see `Sched/Bound.lean` for the bound the generators respect).
-/
namespace Gatery.Sched

abbrev Time := Rat

/-! ### four-state values (VALUE/DEFINED planes of `DefaultBitVectorState`, canonical: value masked by defined) -/

/-- a bit vector of width `w`; bit `i` is defined iff bit `i` of `d` is set, its value is bit `i` of `v`
    (`v` is kept masked by `d`: VALUE bits under cleared DEFINED bits are unobservable). -/
structure Val where
  w : Nat
  v : Nat
  d : Nat
  deriving DecidableEq, Repr, Inhabited

/-- `clearRange(DEFINED, off, w)` -/
def Val.undef (w : Nat) : Val := ⟨w, 0, 0⟩

/-- one four-state bit (INT_ENABLE: one VALUE bit and one DEFINED bit) -/
inductive Tri | zero | one | x
  deriving DecidableEq, Repr, Inhabited

def Val.toTri (a : Val) : Tri := if a.d % 2 = 0 then .x else if a.v % 2 = 1 then .one else .zero

/-! ### phases and events -/

/-- `WaitClock::TimingPhase` -/
inductive Phase | before | during | after
  deriving DecidableEq, Repr, Inhabited

def Phase.toNat : Phase → Nat
  | .before => 0 | .during => 1 | .after => 2

/-- `Event::Type` (ReferenceSimulator.h:162-167), in declaration order -/
inductive EvType | clockPinTrigger | simProcResume | clockValueChange | resetValueChange
  deriving DecidableEq, Repr, Inhabited

def EvType.toNat : EvType → Nat
  | .clockPinTrigger => 0 | .simProcResume => 1 | .clockValueChange => 2 | .resetValueChange => 3

/-- `struct Event` (ReferenceSimulator.h:161-192). The `std::variant` payload is flattened:
    `pin`/`flag` = `clockPinIdx`/`risingEdge` (trigger, value change) or `resetPinIdx`/`newResetHigh`;
    `handle`/`insertionId` = `SimProcResumeEvt`. -/
structure Event where
  type : EvType := .clockPinTrigger
  time : Time := 0
  microTick : Nat := 0
  phase : Phase := .during
  pin : Nat := 0
  flag : Bool := false
  handle : Nat := 0
  insertionId : Nat := 0
  deriving DecidableEq, Repr, Inhabited

/-- `Event::operator<` exactly as written (ReferenceSimulator.h:193-205): `a < b` means *a has lower priority*
    in the `std::priority_queue` (a max-heap), i.e. `a` is handled later than `b`. -/
def Event.cppLt (a b : Event) : Bool :=
  if a.time > b.time then true
  else if a.time < b.time then false
  else if a.phase.toNat > b.phase.toNat then true
  else if a.phase.toNat < b.phase.toNat then false
  else if a.microTick > b.microTick then true
  else if a.microTick < b.microTick then false
  else if a.type.toNat > b.type.toNat then true
  else if a.type.toNat < b.type.toNat then false
  else if a.type = .simProcResume then decide (a.insertionId > b.insertionId)
  else false

/-- `a` is taken out of the queue before `b` whenever both are present -/
def Event.earlier (a b : Event) : Bool := b.cppLt a

/-- the part of an event the order looks at -/
def Event.ordId (e : Event) : Nat := if e.type = .simProcResume then e.insertionId else 0

/-- equivalent under the order (neither is earlier) -/
def Event.sameKey (a b : Event) : Prop :=
  a.time = b.time ∧ a.phase = b.phase ∧ a.microTick = b.microTick ∧ a.type = b.type ∧ a.ordId = b.ordId

/-! ### the queue: a finite multiset kept as a list in insertion order

`std::priority_queue<Event>` is a binary heap; among events that are equivalent under `operator<` the pop order
depends on the heap layout. The executable model takes the *first inserted* among the earliest events; the
theorems about the event loop (`MicroStep`) are proved for *any* choice. -/

/-- first earliest element: the earliest event, the first inserted one among equivalent ones -/
def minEvent : List Event → Option Event
  | [] => none
  | e :: es => match minEvent es with
    | none => some e
    | some m => if m.earlier e then some m else some e

end Gatery.Sched
