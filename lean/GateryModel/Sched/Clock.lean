import GateryModel.Sched.Sim
/-!
# Sched — clock tree, derived clocks, clock/reset pin allocation

Anchors (under `/repo/source/gatery`):
* `hlim/Clock.cpp:66-92`    `getMinResetTime`, `getMinResetCycles`
* `hlim/Clock.cpp:105-168`  `inheritsClockPinSource`, `getClockPinSource`, `inheritsResetPinSource`, `getResetPinSource`
* `hlim/Clock.cpp:253-256`  `DerivedClock::absoluteFrequency = parent->absoluteFrequency() * multiplier`
* `hlim/Clock.cpp:243-256`, `frontend/Clock.cpp:190-229` `DerivedClock::DerivedClock`, `Clock::applyConfig` (`deriveDecl`)
* `hlim/postprocessing/ClockPinAllocation.cpp:33-96` `determineRelevantClocks`; `:99-157` `extractClockPins`
* `simulation/ReferenceSimulator.cpp:115-145` `Program::allocateClocks`

Clocks are numbered in creation order (`Clock::getId()`), so a derived clock's parent has a smaller index.
Logic-driven clocks/resets (`Node_Signal2Clk/Rst`) are rejected by the simulator itself (`HCL_ASSERT_HINT` at
ReferenceSimulator.cpp:123/128) and are not modelled: every clock is self driven.
-/
namespace Gatery.Sched

structure ClockDecl where
  parent : Option Nat          -- `m_parentClock` (`none`: RootClock)
  freqOrMul : Rat              -- `RootClock::m_frequency` / `DerivedClock::m_parentRelativeMultiplicator`
  name : String
  resetName : String
  trig : Trigger
  phaseSync : Bool             -- `m_phaseSynchronousWithParent`
  rstType : ResetType
  activeHigh : Bool
  hasNodes : Bool              -- `!m_clockedNodes.empty()` (all clocked nodes belong to the simulated subnet)
  minResetTime : Rat := 0      -- `m_minResetTime`
  minResetCycles : Nat := 0    -- `m_minResetCycles`
  deriving Repr, Inhabited, DecidableEq

abbrev ClockTree := List ClockDecl

/-- the fields of a frontend `ClockConfig` that a derived clock may override (`std::optional`, `none` = not given) -/
structure ClockCfg where
  name : Option String := none
  resetName : Option String := none
  trig : Option Trigger := none
  phaseSync : Option Bool := none
  rstType : Option ResetType := none
  activeHigh : Option Bool := none
  deriving Repr, Inhabited, DecidableEq

/-- `Clock::deriveClock(cfg)`: `DerivedClock::DerivedClock(parent)` (`hlim/Clock.cpp:243-256`) copies name, reset name, trigger event
    and the register attributes of the parent (the phase relation to the parent keeps its default `true`: fix of F21), then `frontend/Clock.cpp:190-229` (`applyConfig`) overrides the
    fields the configuration gives. -/
def deriveDecl (parentIdx : Nat) (parent : ClockDecl) (mul : Rat) (cfg : ClockCfg) : ClockDecl :=
  { parent := some parentIdx, freqOrMul := mul,
    name := cfg.name.getD parent.name, resetName := cfg.resetName.getD parent.resetName,
    trig := cfg.trig.getD parent.trig, phaseSync := cfg.phaseSync.getD true,
    rstType := cfg.rstType.getD parent.rstType, activeHigh := cfg.activeHigh.getD parent.activeHigh,
    hasNodes := false }

namespace ClockTree
variable (cs : ClockTree)

def get (i : Nat) : ClockDecl := cs.getD i default

/-- what clock `i` has to report, given the configuration it was created with: a derived clock `deriveDecl` of its parent's reported
    attributes; a root clock the requested value in every field the configuration gives (`mul` = the absolute frequency) -/
def expectedDecl (i : Nat) (cfg : ClockCfg) (mul : Option Rat) : ClockDecl :=
  let d := cs.get i
  match d.parent with
  | none =>
    { d with freqOrMul := mul.getD d.freqOrMul, name := cfg.name.getD d.name, resetName := cfg.resetName.getD d.resetName,
             trig := cfg.trig.getD d.trig, phaseSync := cfg.phaseSync.getD d.phaseSync, rstType := cfg.rstType.getD d.rstType,
             activeHigh := cfg.activeHigh.getD d.activeHigh }
  | some pi =>
    { deriveDecl pi (cs.get pi) (mul.getD 1) cfg with hasNodes := d.hasNodes, minResetTime := d.minResetTime, minResetCycles := d.minResetCycles }

/-- names of the attributes in which two declarations differ -/
def declMismatch (e d : ClockDecl) : List String :=
  (if e.freqOrMul != d.freqOrMul then ["frequency"] else []) ++ (if e.trig != d.trig then ["trigger"] else []) ++
  (if e.rstType != d.rstType then ["resetType"] else []) ++ (if e.activeHigh != d.activeHigh then ["resetActive"] else []) ++
  (if e.name != d.name then ["name"] else []) ++ (if e.resetName != d.resetName then ["resetName"] else []) ++
  (if e.phaseSync != d.phaseSync then ["phaseSync"] else [])

/-- `absoluteFrequency()`; fuel = depth bound -/
def absFreqF : Nat → Nat → Rat
  | 0, _ => 0
  | f+1, i => match (cs.get i).parent with
    | none => (cs.get i).freqOrMul
    | some p => absFreqF f p * (cs.get i).freqOrMul

def absFreq (i : Nat) : Rat := absFreqF cs cs.length i

/-- `inheritsClockPinSource()` (105-119) -/
def inheritsClockPin (i : Nat) : Bool :=
  match (cs.get i).parent with
  | none => false
  | some p => (cs.get p).name = (cs.get i).name && cs.absFreq p = cs.absFreq i && (cs.get i).phaseSync

/-- `getClockPinSource()` (121-127) -/
def clockPinSourceF : Nat → Nat → Nat
  | 0, i => i
  | f+1, i => match (cs.get i).parent with
    | none => i
    | some p => if cs.inheritsClockPin i then clockPinSourceF f p else i

def clockPinSource (i : Nat) : Nat := clockPinSourceF cs cs.length i

/-- `inheritsResetPinSource()` (137-152) -/
def inheritsResetPin (i : Nat) : Bool :=
  (cs.get i).rstType ≠ .none &&
  match (cs.get i).parent with
  | none => false
  | some p => (cs.get p).resetName = (cs.get i).resetName

/-- `getResetPinSource()` (154-163): `none` = `nullptr` -/
def resetPinSourceF : Nat → Nat → Option Nat
  | 0, i => some i
  | f+1, i =>
    if (cs.get i).rstType = .none then none
    else match (cs.get i).parent with
      | none => some i
      | some p => if cs.inheritsResetPin i then resetPinSourceF f p else some i

def resetPinSource (i : Nat) : Option Nat := resetPinSourceF cs cs.length i

/-- `m_derivedClocks` of clock `i` -/
def children (i : Nat) : List Nat := (List.range cs.length).filter fun j => (cs.get j).parent = some i

def ratMax (a b : Rat) : Rat := if a < b then b else a

/-- `getMinResetTime()` (66-77) -/
def minResetTimeF : Nat → Nat → Rat
  | 0, _ => 0
  | f+1, i =>
    let c := cs.get i
    let res := c.minResetTime
    let res := if c.rstType = .async ∧ c.hasNodes then ratMax res (1 / cs.absFreq i) else res
    (cs.children i).foldl (fun r d => ratMax r (minResetTimeF f d)) res

/-- `hlim::ceil(ClockRational)` (ClockRational.h:44) -/
def ceilRat (r : Rat) : Nat := (r.num.toNat + r.den - 1) / r.den

/-- `getMinResetCycles()` (79-92) -/
def minResetCyclesF : Nat → Nat → Nat
  | 0, _ => 0
  | f+1, i =>
    let c := cs.get i
    let res := c.minResetCycles
    let res := if c.rstType = .sync ∧ c.hasNodes then max res 1 else res
    (cs.children i).foldl (fun r d => max r (ceilRat ((minResetCyclesF f d : Nat) / (cs.get d).freqOrMul))) res

def minResetTime (i : Nat) : Rat := minResetTimeF cs cs.length i
def minResetCycles (i : Nat) : Nat := minResetCyclesF cs cs.length i

/-- `determineRelevantClocks` (33-96): a clock is relevant iff it or one of its descendants drives nodes -/
def relevantF : Nat → Nat → Bool
  | 0, _ => false
  | f+1, i => (cs.get i).hasNodes || (cs.children i).any (relevantF f)

/-- the relevant clocks in `StableMap` (= id) order -/
def relevant : List Nat := (List.range cs.length).filter (relevantF cs cs.length)

/-- result of `extractClockPins`, pins in allocation order, each with its source clock -/
structure Alloc where
  clockPins : List Nat := []                 -- source clock of clock pin idx
  resetPins : List Nat := []                 -- source clock of reset pin idx
  clock2pin : List (Nat × Nat) := []         -- clock ↦ clock pin idx
  clock2rst : List (Nat × Nat) := []         -- clock ↦ reset pin idx
  deriving Repr, DecidableEq

def indexOf? (l : List Nat) (x : Nat) : Option Nat :=
  let i := l.idxOf x
  if i < l.length then some i else none

/-- one iteration of the loop in `extractClockPins` (104-144) -/
def allocStep (a : Alloc) (c : Nat) : Alloc :=
  let src := cs.clockPinSource c
  let (a, idx) := match indexOf? a.clockPins src with
    | some i => (a, i)
    | none => ({ a with clockPins := a.clockPins ++ [src] }, a.clockPins.length)
  let a := { a with clock2pin := a.clock2pin ++ [(c, idx)] }
  match cs.resetPinSource c with
  | none => a
  | some rsrc =>
    let (a, ridx) := match indexOf? a.resetPins rsrc with
      | some i => (a, i)
      | none => ({ a with resetPins := a.resetPins ++ [rsrc] }, a.resetPins.length)
    { a with clock2rst := a.clock2rst ++ [(c, ridx)] }

def alloc : Alloc := cs.relevant.foldl (allocStep cs) {}

/-- `Program::allocateClocks` (115-145) + the attributes the simulator reads from the clocks:
    one `ClockDomain` per relevant clock (in id order), clock pins, reset pins with
    `minTime = max(minResetTime, minResetCycles / absoluteFrequency)` (ReferenceSimulator.cpp:673-677). -/
def toProg (net : Net) : Prog :=
  let a := cs.alloc
  { pins := a.clockPins.map fun src => { freq := cs.absFreq src, srcRising := (cs.get src).trig = .rising },
    rstPins := a.resetPins.map fun src =>
      { srcActiveHigh := (cs.get src).activeHigh,
        minTime := ratMax (cs.minResetTime src) ((cs.minResetCycles src : Nat) / cs.absFreq src) },
    doms := cs.relevant.map fun c =>
      { pin := ((a.clock2pin.lookup c).getD 0), rstPin := a.clock2rst.lookup c,
        trig := (cs.get c).trig, rstType := (cs.get c).rstType, activeHigh := (cs.get c).activeHigh },
    net := net }

/-- index of clock `c`'s domain in `toProg` -/
def domIndex (c : Nat) : Nat := cs.relevant.idxOf c

end ClockTree
end Gatery.Sched
