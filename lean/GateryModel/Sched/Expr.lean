import GateryModel.Sched.Sim
/-!
# Sched — a small expression language for the combinational network between registers

Used by the drivers to instantiate `Net.dataIn`/`Net.enIn` for the generated register networks. The semantics follows
`hlim/coreNodes/Node_Logic.cpp:64-118` (AND/OR dominance, XOR/NOT), `hlim/coreNodes/Node_Arithmetic.cpp:72-141`
(all-or-nothing definedness, wrap-around ADD) and a one-bit `Node_Rewire` extraction, on canonical values (`v ⊆ d`).
The C04/C19 theorems do not depend on this file: they hold for arbitrary `Net`s.
-/
namespace Gatery.Sched

inductive Expr
  | q (i : Nat) | p (i : Nat) | c (v : Val)
  | not (a : Expr) | xor (a b : Expr) | and (a b : Expr) | or (a b : Expr) | add (a b : Expr)
  | bit (a : Expr)
  deriving Repr, Inhabited

def maskOf (w : Nat) : Nat := 2 ^ w - 1

def Expr.eval (outs pins : List Val) : Expr → Val
  | .q i => outs.getD i default
  | .p i => pins.getD i default
  | .c v => v
  | .not a => let x := a.eval outs pins; ⟨x.w, (maskOf x.w ^^^ x.v) &&& x.d, x.d⟩
  | .xor a b => let x := a.eval outs pins; let y := b.eval outs pins
      let d := x.d &&& y.d; ⟨x.w, (x.v ^^^ y.v) &&& d, d⟩
  | .and a b => let x := a.eval outs pins; let y := b.eval outs pins
      let d := (x.d ^^^ x.v) ||| (y.d ^^^ y.v) ||| (x.d &&& y.d); ⟨x.w, x.v &&& y.v &&& d, d⟩
  | .or a b => let x := a.eval outs pins; let y := b.eval outs pins
      let d := x.v ||| y.v ||| (x.d &&& y.d); ⟨x.w, (x.v ||| y.v) &&& d, d⟩
  | .add a b => let x := a.eval outs pins; let y := b.eval outs pins
      if x.d = maskOf x.w ∧ y.d = maskOf y.w then ⟨x.w, (x.v + y.v) % 2 ^ x.w, maskOf x.w⟩ else .undef x.w
  | .bit a => let x := a.eval outs pins; ⟨1, x.v % 2 &&& x.d % 2, x.d % 2⟩

/-- a register network given by expressions -/
structure ExprNet where
  regs : List RegDecl
  data : List (Option Expr)
  en : List (Option Expr)

def ExprNet.toNet (n : ExprNet) : Net :=
  { regs := n.regs,
    dataIn := fun outs pins i => (n.data.getD i none).map (·.eval outs pins),
    enIn := fun outs pins i => (n.en.getD i none).map fun e => (e.eval outs pins).toTri }

end Gatery.Sched
