import GateryModel.Sched.Step
/-!
# Sched — which fields each piece of the event switch touches (simp lemmas)
-/
namespace Gatery.Sched
variable {π : Type}

section trigger
variable (P : Prog) (e : Event)

/-- the release loop of `onTrigger` only appends resume events and edits the waiting list -/
theorem releaseLoop_spec (l : List Nat) (s : Sim π) :
    let s' := l.foldl (fun s di =>
      let d := P.dom di
      if !clockInReset s d && d.trig.activates e.flag then releaseAwaiting s e di else s) s
    s'.time = s.time ∧ s'.regs = s.regs ∧ s'.clockHigh = s.clockHigh ∧ s'.resetHigh = s.resetHigh ∧ s'.log = s.log ∧
    s'.pins = s.pins ∧ s'.microTick = s.microTick ∧ s'.phase = s.phase ∧ s'.nextId = s.nextId ∧ s'.ext = s.ext ∧
    ∃ evs : List Event, s'.queue = s.queue ++ evs ∧ ∀ x ∈ evs, x.type = .simProcResume := by
  induction l generalizing s with
  | nil => simp
  | cons di ds ih =>
    simp only [List.foldl_cons]
    split
    · have := ih (releaseAwaiting s e di)
      obtain ⟨h1, h2, h3, h4, h5, h6, h7, h8, h9, h10, evs, hq, hev⟩ := this
      refine ⟨h1, h2, h3, h4, h5, h6, h7, h8, h9, h10, ?_⟩
      refine ⟨((s.awaiting.filter (·.dom = di)).map fun a =>
          { e with type := .simProcResume, handle := a.handle, insertionId := a.sortId, phase := a.phase, pin := 0, flag := false }) ++ evs, ?_, ?_⟩
      · rw [hq]; simp [releaseAwaiting]
      · intro x hx
        rcases List.mem_append.1 hx with hx | hx
        · obtain ⟨a, _, rfl⟩ := List.mem_map.1 hx; rfl
        · exact hev x hx
    · exact ih s
end trigger

theorem onTrigger_spec (P : Prog) (s : Sim π) (e : Event) :
    (onTrigger P s e).time = s.time ∧ (onTrigger P s e).regs = s.regs ∧ (onTrigger P s e).clockHigh = s.clockHigh ∧
    (onTrigger P s e).resetHigh = s.resetHigh ∧ (onTrigger P s e).log = s.log ∧ (onTrigger P s e).pins = s.pins ∧
    ∃ evs : List Event, (onTrigger P s e).queue = s.queue ++ evs ++
        [{ e with type := .clockValueChange }, { e with flag := !e.flag, time := e.time + (1/2) / P.pinFreq e.pin, microTick := 0 }] ∧
      ∀ x ∈ evs, x.type = .simProcResume := by
  obtain ⟨h1, h2, h3, h4, h5, h6, _, _, _, _, evs, hq, hev⟩ := releaseLoop_spec P e (P.domsOfPin e.pin) s
  unfold onTrigger
  simp only [Sim.push]
  refine ⟨h1, h2, h3, h4, h5, h6, evs, ?_, hev⟩
  rw [hq]; simp

@[simp] theorem onClockValue_queue (P : Prog) (s : Sim π) (e : Event) : (onClockValue P s e).queue = s.queue := rfl
@[simp] theorem onClockValue_time (P : Prog) (s : Sim π) (e : Event) : (onClockValue P s e).time = s.time := rfl
@[simp] theorem onClockValue_resetHigh (P : Prog) (s : Sim π) (e : Event) : (onClockValue P s e).resetHigh = s.resetHigh := rfl
@[simp] theorem onClockValue_pins (P : Prog) (s : Sim π) (e : Event) : (onClockValue P s e).pins = s.pins := rfl
@[simp] theorem onClockValue_log (P : Prog) (s : Sim π) (e : Event) :
    (onClockValue P s e).log = .clock e.pin e.flag s.time :: s.log := rfl
@[simp] theorem onResetValue_queue (P : Prog) (s : Sim π) (e : Event) : (onResetValue P s e).queue = s.queue := rfl
@[simp] theorem onResetValue_time (P : Prog) (s : Sim π) (e : Event) : (onResetValue P s e).time = s.time := rfl
@[simp] theorem onResetValue_clockHigh (P : Prog) (s : Sim π) (e : Event) : (onResetValue P s e).clockHigh = s.clockHigh := rfl
@[simp] theorem onResetValue_pins (P : Prog) (s : Sim π) (e : Event) : (onResetValue P s e).pins = s.pins := rfl
@[simp] theorem onResetValue_log (P : Prog) (s : Sim π) (e : Event) :
    (onResetValue P s e).log = .reset e.pin e.flag s.time :: s.log := rfl

@[simp] theorem dequeue_regs (s : Sim π) (e : Event) : (s.dequeue e).regs = s.regs := rfl
@[simp] theorem dequeue_time (s : Sim π) (e : Event) : (s.dequeue e).time = s.time := rfl
@[simp] theorem dequeue_log (s : Sim π) (e : Event) : (s.dequeue e).log = s.log := rfl
@[simp] theorem dequeue_resetHigh (s : Sim π) (e : Event) : (s.dequeue e).resetHigh = s.resetHigh := rfl
@[simp] theorem dequeue_clockHigh (s : Sim π) (e : Event) : (s.dequeue e).clockHigh = s.clockHigh := rfl
@[simp] theorem dequeue_pins (s : Sim π) (e : Event) : (s.dequeue e).pins = s.pins := rfl
@[simp] theorem dequeue_queue (s : Sim π) (e : Event) : (s.dequeue e).queue = s.queue.erase e := rfl

@[simp] theorem reevaluate_queue (P : Prog) (s : Sim π) : (reevaluate P s).queue = s.queue := rfl
@[simp] theorem reevaluate_time (P : Prog) (s : Sim π) : (reevaluate P s).time = s.time := rfl
@[simp] theorem reevaluate_log (P : Prog) (s : Sim π) : (reevaluate P s).log = s.log := rfl
@[simp] theorem reevaluate_resetHigh (P : Prog) (s : Sim π) : (reevaluate P s).resetHigh = s.resetHigh := rfl
@[simp] theorem reevaluate_clockHigh (P : Prog) (s : Sim π) : (reevaluate P s).clockHigh = s.clockHigh := rfl
@[simp] theorem reevaluate_pins (P : Prog) (s : Sim π) : (reevaluate P s).pins = s.pins := rfl

theorem reevaluate_outs (P : Prog) (s : Sim π) : (reevaluate P s).outs = s.outs := by
  simp only [reevaluate, Sim.outs]
  apply List.ext_getElem
  · simp
  · intro i h1 h2
    simp [Reg.evaluate]

/-- `commitState` = process hook (frame) followed by one `commit` log entry -/
theorem commitState_spec (P : Prog) (S : ProcSem π) (hS : S.Lawful) (s : Sim π) :
    (commitState P S s).time = s.time ∧ (commitState P S s).regs = s.regs ∧ (commitState P S s).clockHigh = s.clockHigh ∧
    (commitState P S s).resetHigh = s.resetHigh ∧ hwQueue (commitState P S s).queue = hwQueue s.queue ∧
    hwLog (commitState P S s).log = .commit s.time s.outs :: hwLog s.log := by
  have f := hS.commit P { s with readOnly := true }
  simp only [commitState, Sim.addLog]
  refine ⟨f.time, f.regs, f.clockHigh, f.resetHigh, f.hwq, ?_⟩
  simp only [hwLog, List.filter_cons, isHwLog, if_true]
  have : (S.commit P { s with readOnly := true }).outs = s.outs := by simp only [Sim.outs, f.regs]
  rw [this, f.time]; congr 1; exact f.hwlog

end Gatery.Sched
