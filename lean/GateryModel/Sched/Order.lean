import GateryModel.Sched.Basic
/-!
# Sched — `Event::operator<` is a strict weak order, total up to `sameKey`; `minEvent` returns an earliest event
-/
namespace Gatery.Sched
set_option linter.unusedSimpArgs false

theorem EvType.toNat_inj {a b : EvType} (h : a.toNat = b.toNat) : a = b := by
  cases a <;> cases b <;> simp [EvType.toNat] at h <;> rfl
theorem Phase.toNat_inj {a b : Phase} (h : a.toNat = b.toNat) : a = b := by
  cases a <;> cases b <;> simp [Phase.toNat] at h <;> rfl

theorem rat_tri (x y : Rat) : x < y ∨ x = y ∨ y < x := by
  rcases Rat.le_total (a := x) (b := y) with h | h
  · rcases Rat.le_iff_lt_or_eq.mp h with h | h <;> simp [h]
  · rcases Rat.le_iff_lt_or_eq.mp h with h | h <;> simp [h]
theorem rat_lt_asymm {x y : Rat} (h : x < y) : ¬ y < x := by
  intro h'; exact Rat.lt_irrefl (a := x) (by grind)
theorem rat_lt_trans {x y z : Rat} (h : x < y) (h' : y < z) : x < z := by grind

/-- lexicographic "later than" on (time, phase, micro tick, type, ordId) -/
def Later (a b : Event) : Prop :=
  b.time < a.time ∨ (a.time = b.time ∧
    (b.phase.toNat < a.phase.toNat ∨ (a.phase.toNat = b.phase.toNat ∧
      (b.microTick < a.microTick ∨ (a.microTick = b.microTick ∧
        (b.type.toNat < a.type.toNat ∨ (a.type.toNat = b.type.toNat ∧ b.ordId < a.ordId)))))))

/-- the C++ comparison is the lexicographic order on (time, phase, micro tick, type, insertion id of resume events) -/
theorem cppLt_iff (a b : Event) : a.cppLt b = true ↔ Later a b := by
  unfold Event.cppLt Later Event.ordId
  have ht := @EvType.toNat_inj a.type b.type
  rcases rat_tri a.time b.time with h | h | h
  · have := rat_lt_asymm h
    have hne : a.time ≠ b.time := by intro e; rw [e] at h; exact Rat.lt_irrefl h
    simp [h, this, hne]
  · have h1 : ¬ b.time < a.time := by rw [h]; exact Rat.lt_irrefl
    have h2 : ¬ a.time < b.time := by rw [h]; exact Rat.lt_irrefl
    simp only [GT.gt, h1, h2, h, if_false, false_or, true_and]
    by_cases e : a.type = .simProcResume
    · by_cases e' : b.type = .simProcResume
      · simp [e, e']; omega
      · have : a.type.toNat ≠ b.type.toNat := fun x => e' ((ht x) ▸ e)
        simp [e, e']; grind
    · by_cases e' : b.type = .simProcResume
      · have : a.type.toNat ≠ b.type.toNat := fun x => e ((ht x) ▸ e')
        simp [e, e']; grind
      · simp [e, e']; omega
  · simp [h]

theorem later_irrefl (a : Event) : ¬ Later a a := by
  unfold Later
  rintro (h | ⟨_, h⟩)
  · exact Rat.lt_irrefl h
  · omega

theorem later_trans {a b c : Event} (h1 : Later a b) (h2 : Later b c) : Later a c := by
  unfold Later at *
  rcases h1 with h1 | ⟨e1, h1⟩
  · rcases h2 with h2 | ⟨e2, _⟩
    · exact Or.inl (rat_lt_trans h2 h1)
    · exact Or.inl (e2 ▸ h1)
  · rcases h2 with h2 | ⟨e2, h2⟩
    · exact Or.inl (e1 ▸ h2)
    · refine Or.inr ⟨e1.trans e2, ?_⟩; omega

theorem later_total (a b : Event) : Later a b ∨ Later b a ∨ a.sameKey b := by
  unfold Later Event.sameKey
  rcases rat_tri a.time b.time with h | h | h
  · exact Or.inr (Or.inl (Or.inl h))
  · have hp := @Phase.toNat_inj a.phase b.phase
    have ht := @EvType.toNat_inj a.type b.type
    have hirr : ¬ b.time < b.time := Rat.lt_irrefl
    rw [h]
    simp only [hirr, false_or, true_and]
    by_cases p : a.phase.toNat = b.phase.toNat
    · by_cases m : a.microTick = b.microTick
      · by_cases t : a.type.toNat = b.type.toNat
        · by_cases o : a.ordId = b.ordId
          · exact Or.inr (Or.inr ⟨hp p, m, ht t, o⟩)
          · omega
        · omega
      · omega
    · omega
  · exact Or.inl (Or.inl h)

theorem sameKey_not_later {a b : Event} (h : a.sameKey b) : ¬ Later a b := by
  obtain ⟨h1, h2, h3, h4, h5⟩ := h
  unfold Later; rw [h1, h2, h3, h4, h5]
  rintro (h | ⟨_, h⟩)
  · exact Rat.lt_irrefl h
  · omega

/-! `earlier` (= the pop order) -/

theorem earlier_iff (a b : Event) : a.earlier b = true ↔ Later b a := cppLt_iff b a

theorem earlier_irrefl (a : Event) : a.earlier a = false := by
  have := later_irrefl a; rw [← earlier_iff] at this; simpa using this

theorem earlier_trans {a b c : Event} (h1 : a.earlier b = true) (h2 : b.earlier c = true) : a.earlier c = true := by
  rw [earlier_iff] at *; exact later_trans h2 h1

theorem earlier_asymm {a b : Event} (h : a.earlier b = true) : b.earlier a = false := by
  cases hb : b.earlier a with
  | false => rfl
  | true => have := earlier_trans h hb; rw [earlier_irrefl] at this; cases this

theorem earlier_total (a b : Event) : a.earlier b = true ∨ b.earlier a = true ∨ a.sameKey b := by
  rcases later_total a b with h | h | h
  · exact Or.inr (Or.inl ((earlier_iff b a).2 h))
  · exact Or.inl ((earlier_iff a b).2 h)
  · exact Or.inr (Or.inr h)

/-- two resume events with different insertion ids are always ordered -/
theorem earlier_total_of_ids {a b : Event} (ha : a.type = .simProcResume) (hb : b.type = .simProcResume)
    (hne : a.insertionId ≠ b.insertionId) : a.earlier b = true ∨ b.earlier a = true := by
  rcases earlier_total a b with h | h | h
  · exact Or.inl h
  · exact Or.inr h
  · exact absurd (by have := h.2.2.2.2; simpa [Event.ordId, ha, hb] using this) hne

/-- an event with a strictly smaller time is earlier -/
theorem earlier_of_time_lt {a b : Event} (h : a.time < b.time) : a.earlier b = true :=
  (earlier_iff a b).2 (Or.inl h)

theorem time_le_of_not_earlier {a b : Event} (h : b.earlier a = false) : ¬ b.time < a.time := by
  intro hlt; rw [earlier_of_time_lt hlt] at h; cases h

/-! `minEvent` -/

theorem minEvent_none {q : List Event} : minEvent q = none ↔ q = [] := by
  cases q with
  | nil => simp [minEvent]
  | cons e es =>
    simp only [minEvent]
    cases minEvent es with
    | none => simp
    | some m => by_cases h : m.earlier e = true <;> simp [h]

theorem minEvent_mem {q : List Event} {m : Event} (h : minEvent q = some m) : m ∈ q := by
  induction q generalizing m with
  | nil => simp [minEvent] at h
  | cons e es ih =>
    simp only [minEvent] at h
    cases hm : minEvent es with
    | none => rw [hm] at h; simp at h; simp [h]
    | some m' =>
      rw [hm] at h
      by_cases c : m'.earlier e = true
      · simp [c] at h; subst h; exact List.mem_cons_of_mem _ (ih hm)
      · simp [c] at h; simp [h]

/-- no event of the queue is earlier than the one `minEvent` returns -/
theorem minEvent_min {q : List Event} {m : Event} (h : minEvent q = some m) : ∀ e ∈ q, e.earlier m = false := by
  induction q generalizing m with
  | nil => simp [minEvent] at h
  | cons x xs ih =>
    simp only [minEvent] at h
    cases hm : minEvent xs with
    | none =>
      rw [hm] at h; simp at h; subst h
      have : xs = [] := minEvent_none.1 hm
      subst this; intro e he; simp at he; subst he; exact earlier_irrefl _
    | some m' =>
      rw [hm] at h
      have ih' := ih hm
      by_cases c : m'.earlier x = true
      · simp [c] at h; subst h
        intro e he
        rcases List.mem_cons.1 he with rfl | he
        · exact earlier_asymm c
        · exact ih' e he
      · simp [c] at h; subst h
        have c' : m'.earlier x = false := by simpa using c
        intro e he
        rcases List.mem_cons.1 he with rfl | he
        · exact earlier_irrefl _
        · cases hx : e.earlier x with
          | false => rfl
          | true =>
            have h1 := ih' e he
            rcases earlier_total m' e with h2 | h2 | h2
            · have := earlier_trans h2 hx; rw [c'] at this; cases this
            · rw [h1] at h2; cases h2
            · have hl : Later x e := (earlier_iff e x).1 hx
              have : Later x m' := by
                obtain ⟨k1, k2, k3, k4, k5⟩ := h2
                unfold Later at *; rw [k1, k2, k3, k4, k5]; exact hl
              have := (earlier_iff m' x).2 this
              rw [c'] at this; cases this

/-- the event `minEvent` returns has minimal time -/
theorem minEvent_time_min {q : List Event} {m : Event} (h : minEvent q = some m) : ∀ e ∈ q, ¬ e.time < m.time :=
  fun e he => time_le_of_not_earlier (minEvent_min h e he)

end Gatery.Sched
