import GateryModel.Sched.Step
/-!
# Sched — simulation processes as scripts (C19)

Anchors (under `/repo/source/gatery`):
* `simulation/ReferenceSimulator.cpp:1169-1240`  `simulationProcessSuspending` overloads (WaitFor, WaitClock, WaitChange, WaitStable)
* `simulation/ReferenceSimulator.cpp:907-931`    `checkSignalWatches`
* `simulation/ReferenceSimulator.cpp:757-782`    `commitState` (processes awaiting commit, read-only mode)
* `simulation/ReferenceSimulator.cpp:711-730`    starting the processes at power-on
* `simulation/simProc/SimulationProcess.h:356-404` `SimulationCoroutineHandler::start/run`, `forkFunc` (child runs immediately up to its first suspension)
* `simulation/ReferenceSimulator.cpp:488-520`    `SignalWatch` (snapshot, `anySignalChanged`)

A process is a finite list of instructions; its coroutine handle is its index in `procs` (= process id).
Signals a process can read or watch: register outputs (live state) and input-pin *outputs* (`Node_Pin` copies its internal state to
its output in `simulateEvaluate`, so the output is the pin value as of the last `reevaluate`).
`join(handle)` of a forked process is modelled with the coroutine handler's ready queue (`SimulationProcess.h:341-372`,
`SimulationProcess.cpp:42-58`: `FinalSuspendAwaiter::await_suspend` appends the joiners in the order they started waiting, `run()`
drains the queue front to back); `WaitUntil` (unimplemented in gatery) and `abort()` are not modelled.
-/
namespace Gatery.Sched

inductive Sig
  | q (i : Nat)        -- output of register `i`
  | p (k : Nat)        -- output of input pin `k`
  deriving Repr, DecidableEq, Inhabited

inductive Instr
  | waitFor (d : Time)
  | waitClk (dom : Nat) (ph : Phase)             -- `WaitClock` on a clock that is part of the simulation
  | waitClkFree (f : Rat) (ph : Phase)           -- `WaitClock` on a clock that is not (ReferenceSimulator.cpp:1197-1215)
  | waitChange (sigs : List Sig)
  | waitStable
  | read (sigs : List Sig)                       -- observe: logs (pid, time, phase, micro tick, values)
  | write (pin : Nat) (v : Val)                  -- `simProcSetInputPin`
  | fork (script : Nat)                          -- `forkFunc` of script number `script`
  | join (k : Nat)                               -- `co_await join(h)`, `h` = handle returned by the `k`-th `fork` so far (none yet: no-op)
  deriving Repr, DecidableEq, Inhabited

/-- `SignalWatch` -/
structure Watch where
  handle : Nat
  sigs : List Sig
  snap : List Val
  insertionId : Nat
  deriving Repr, DecidableEq, Inhabited

/-- process-side state -/
structure PExt where
  scripts : List (List Instr) := []      -- the scripts `fork` can start
  procs : List (List Instr) := []        -- remaining instructions of every started process, by handle
  watches : List Watch := []             -- `m_signalWatches`
  awaitingCommit : List Nat := []        -- `m_processesAwaitingCommit`
  forked : List Nat := []                -- handles returned by `fork`, in call order (what `join k` refers to)
  finished : List Nat := []              -- processes that reached their final suspend
  joiners : List (Nat × Nat) := []       -- (joined process, waiting process) in the order the waits began: `awaitingFinalSuspend`
  ready : List Nat := []                 -- `SimulationCoroutineHandler::m_coroutinesReadyToResume`
  deriving Repr, Inhabited

abbrev PSim := Sim PExt

def sigVal (s : PSim) : Sig → Val
  | .q i => s.outs.getD i default
  | .p k => s.pinsSeen.getD k default

def setProc (s : PSim) (h : Nat) (rest : List Instr) : PSim :=
  { s with ext := { s.ext with procs := s.ext.procs.set h rest } }

/-- `floor(ClockRational)` for non-negative values -/
def floorRat (r : Rat) : Nat := r.num.toNat / r.den

/-- what `co_await <wait>` does: `simulationProcessSuspending(handle, wait)` -/
def suspend (s : PSim) (h : Nat) : Instr → PSim
  | .waitFor d =>
    let t := s.time + d
    let e : Event := { type := .simProcResume, time := t,
                       microTick := if t = s.time ∧ s.phase = .after then s.microTick + 1 else 0,
                       phase := .after, handle := h, insertionId := s.nextId }
    { s.push e with nextId := s.nextId + 1 }
  | .waitClk dom ph =>
    { s with awaiting := s.awaiting ++ [{ dom := dom, sortId := s.nextId, phase := ph, handle := h }], nextId := s.nextId + 1 }
  | .waitClkFree f ph =>
    let nextTick := floorRat (s.time * f) + 1
    let e : Event := { type := .simProcResume, time := (nextTick : Rat) / f, microTick := 0, phase := ph,
                       handle := h, insertionId := s.nextId }
    { s.push e with nextId := s.nextId + 1 }
  | .waitChange sigs =>
    let w : Watch := { handle := h, sigs := sigs, snap := sigs.map (sigVal s), insertionId := s.nextId }
    { s with ext := { s.ext with watches := s.ext.watches ++ [w] }, nextId := s.nextId + 1 }
  | .waitStable => { s with ext := { s.ext with awaitingCommit := s.ext.awaitingCommit ++ [h] } }
  | _ => s

def Instr.isWait : Instr → Bool
  | .waitFor _ | .waitClk .. | .waitClkFree .. | .waitChange _ | .waitStable => true
  | _ => false

/-- `FinalSuspendAwaiter::await_suspend`: everything waiting for `h` becomes ready, in the order it started waiting -/
def finishProc (s : PSim) (h : Nat) : PSim :=
  if s.ext.finished.contains h then s else
  { s with ext := { s.ext with finished := s.ext.finished ++ [h],
                               ready := s.ext.ready ++ (s.ext.joiners.filter (·.1 == h)).map (·.2),
                               joiners := s.ext.joiners.filter (·.1 != h) } }

/-- resume process `h` and run it up to its next suspension (or its end); forked children run immediately, nested -/
def runProc : Nat → PSim → Nat → PSim
  | 0, s, _ => s.fail "fuel:runProc"
  | fuel+1, s, h =>
    match s.ext.procs.getD h [] with
    | [] => finishProc s h
    | ins :: rest =>
      let s := setProc s h rest
      match ins with
      | .read sigs => runProc fuel (s.addLog (.proc h s.time s.phase s.microTick (sigs.map (sigVal s)))) h
      | .write k v => runProc fuel (setPin s k v) h
      | .fork c =>
        let h' := s.ext.procs.length
        let s := { s with ext := { s.ext with procs := s.ext.procs ++ [s.ext.scripts.getD c []], forked := s.ext.forked ++ [h'] } }
        runProc fuel (runProc fuel s h') h
      | .join k =>
        match s.ext.forked[k]? with
        | none => runProc fuel s h
        | some t =>
          if s.ext.finished.contains t then runProc fuel s h          -- `Join::await_ready`: already done
          else { s with ext := { s.ext with joiners := s.ext.joiners ++ [(t, h)] } }
      | w => suspend s h w

def procFuel : Nat := 10000

/-- `SimulationCoroutineHandler::run()`: resume what is ready, front to back, until nothing is -/
def drain : Nat → PSim → PSim
  | 0, s => s.fail "fuel:drain"
  | fuel+1, s =>
    match s.ext.ready with
    | [] => s
    | r :: rest => drain fuel (runProc procFuel { s with ext := { s.ext with ready := rest } } r)

/-- `readyToResume(h); run()` -/
def resumeTop (s : PSim) (h : Nat) : PSim := drain procFuel (runProc procFuel s h)

/-- `checkSignalWatches()` (907-931) -/
def checkWatches (s : PSim) : PSim :=
  let fired := s.ext.watches.filter fun w => w.sigs.map (sigVal s) != w.snap
  let evs := fired.map fun w =>
    ({ type := .simProcResume, time := s.time, microTick := if s.phase = .after then s.microTick + 1 else 0,
       phase := .after, handle := w.handle, insertionId := w.insertionId } : Event)
  { s with queue := s.queue ++ evs,
           ext := { s.ext with watches := s.ext.watches.filter fun w => w.sigs.map (sigVal s) == w.snap } }

/-- the process part of `commitState()` (768-773): resume everything awaiting the commit, in order -/
def commitProcs (s : PSim) : PSim :=
  let hs := s.ext.awaitingCommit
  let s := { s with ext := { s.ext with awaitingCommit := [] } }
  hs.foldl (fun s h => resumeTop s h) s

/-- power-on: start the first `n` scripts as processes, in order (719-729) -/
def startProcs (n : Nat) (s : PSim) : PSim :=
  (List.range n).foldl (fun s k =>
    let h := s.ext.procs.length
    let s := { s with ext := { s.ext with procs := s.ext.procs ++ [s.ext.scripts.getD k []] } }
    resumeTop s h) s

/-- the process semantics plugged into the event loop; `nStart` = number of processes started at power-on -/
def scriptSem (nStart : Nat) : ProcSem PExt :=
  { resume := fun _ s h => resumeTop s h,
    checkWatches := fun _ s => checkWatches s,
    commit := fun _ s => commitProcs s,
    start := fun _ s => startProcs nStart s }

end Gatery.Sched
