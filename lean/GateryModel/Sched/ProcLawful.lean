import GateryModel.Sched.Proc
import GateryModel.Sched.Frame
/-!
# Sched — the script semantics is lawful: processes cannot touch registers, clock/reset state, time, hardware events or the hardware log
-/
namespace Gatery.Sched

theorem hwQueue_append_resume (q evs : List Event) (h : ∀ x ∈ evs, x.type = .simProcResume) : hwQueue (q ++ evs) = hwQueue q := by
  simp only [hwQueue, List.filter_append]
  have : evs.filter isHw = [] := List.filter_eq_nil_iff.2 fun x hx => by simp [isHw, h x hx]
  rw [this]; simp

theorem suspend_frame (s : PSim) (h : Nat) (w : Instr) : ProcFrame s (suspend s h w) := by
  cases w <;> simp only [suspend]
  case waitFor d =>
    exact ⟨rfl, rfl, rfl, rfl, by simpa [Sim.push] using hwQueue_append_resume s.queue [_] (by simp), rfl⟩
  case waitClk => exact ⟨rfl, rfl, rfl, rfl, rfl, rfl⟩
  case waitClkFree f ph =>
    exact ⟨rfl, rfl, rfl, rfl, by simpa [Sim.push] using hwQueue_append_resume s.queue [_] (by simp), rfl⟩
  case waitChange => exact ⟨rfl, rfl, rfl, rfl, rfl, rfl⟩
  case waitStable => exact ⟨rfl, rfl, rfl, rfl, rfl, rfl⟩
  all_goals exact .refl s

theorem finishProc_frame (s : PSim) (h : Nat) : ProcFrame s (finishProc s h) := by
  unfold finishProc
  split
  · exact .refl s
  · exact ⟨rfl, rfl, rfl, rfl, rfl, rfl⟩

theorem runProc_frame (fuel : Nat) (s : PSim) (h : Nat) : ProcFrame s (runProc fuel s h) := by
  induction fuel generalizing s h with
  | zero => exact frame_fail s _
  | succ n ih =>
    unfold runProc
    cases hp : s.ext.procs.getD h [] with
    | nil => exact finishProc_frame s h
    | cons ins rest =>
      simp only
      have f0 : ProcFrame s (setProc s h rest) := ⟨rfl, rfl, rfl, rfl, rfl, rfl⟩
      cases ins with
      | read sigs =>
        refine f0.trans (ProcFrame.trans ?_ (ih _ _))
        exact ⟨rfl, rfl, rfl, rfl, rfl, by simp [Sim.addLog, hwLog, isHwLog]⟩
      | write k v => exact f0.trans ((setPin_frame _ _ _).trans (ih _ _))
      | fork c =>
        refine f0.trans (ProcFrame.trans ?_ ((ih _ _).trans (ih _ _)))
        exact ⟨rfl, rfl, rfl, rfl, rfl, rfl⟩
      | join k =>
        refine f0.trans ?_
        simp only
        split
        · exact ih _ _
        · split
          · exact ih _ _
          · exact ⟨rfl, rfl, rfl, rfl, rfl, rfl⟩
      | waitFor d => exact f0.trans (suspend_frame _ _ _)
      | waitClk d ph => exact f0.trans (suspend_frame _ _ _)
      | waitClkFree f ph => exact f0.trans (suspend_frame _ _ _)
      | waitChange sigs => exact f0.trans (suspend_frame _ _ _)
      | waitStable => exact f0.trans (suspend_frame _ _ _)

theorem drain_frame (fuel : Nat) (s : PSim) : ProcFrame s (drain fuel s) := by
  induction fuel generalizing s with
  | zero => exact frame_fail s _
  | succ n ih =>
    unfold drain
    split
    · exact .refl s
    · rename_i r rest _
      exact ProcFrame.trans (b := { s with ext := { s.ext with ready := rest } }) ⟨rfl, rfl, rfl, rfl, rfl, rfl⟩
        ((runProc_frame _ _ _).trans (ih _))

theorem resumeTop_frame (s : PSim) (h : Nat) : ProcFrame s (resumeTop s h) :=
  (runProc_frame _ s h).trans (drain_frame _ _)

theorem checkWatches_frame (s : PSim) : ProcFrame s (checkWatches s) := by
  refine ⟨rfl, rfl, rfl, rfl, ?_, rfl⟩
  simp only [checkWatches]
  apply hwQueue_append_resume
  intro x hx
  obtain ⟨w, _, rfl⟩ := List.mem_map.1 hx
  rfl

theorem foldl_frame {α : Type} (f : PSim → α → PSim) (hf : ∀ s a, ProcFrame s (f s a)) (l : List α) (s : PSim) :
    ProcFrame s (l.foldl f s) := by
  induction l generalizing s with
  | nil => exact .refl s
  | cons a l ih => exact (hf s a).trans (ih _)

theorem commitProcs_frame (s : PSim) : ProcFrame s (commitProcs s) := by
  unfold commitProcs
  refine ProcFrame.trans (b := { s with ext := { s.ext with awaitingCommit := [] } }) ⟨rfl, rfl, rfl, rfl, rfl, rfl⟩ ?_
  exact foldl_frame _ (fun s h => resumeTop_frame s h) _ _

theorem startProcs_frame (n : Nat) (s : PSim) : ProcFrame s (startProcs n s) := by
  unfold startProcs
  apply foldl_frame
  intro s k
  exact ProcFrame.trans (b := { s with ext := { s.ext with procs := s.ext.procs ++ [s.ext.scripts.getD k []] } })
    ⟨rfl, rfl, rfl, rfl, rfl, rfl⟩ (resumeTop_frame _ _)

/-- the script semantics satisfies the frame laws, so all C04 theorems hold in the presence of any set of process scripts -/
theorem scriptSem_lawful (n : Nat) : (scriptSem n).Lawful :=
  ⟨fun _ s h => resumeTop_frame s h, fun _ s => checkWatches_frame s, fun _ s => commitProcs_frame s,
   fun _ s => startProcs_frame n s⟩

end Gatery.Sched
