import GateryModel.Sched.Basic
/-!
# Sched — registers, clock domains and the event loop of `sim::ReferenceSimulator`

Anchors (under `/repo/source/gatery`):
* `hlim/coreNodes/Node_Register.cpp:50-102,193-217` power-on, reset change, evaluate (latch), advance (commit), reset value
* `simulation/ReferenceSimulator.cpp:606-745`       `powerOn`
* `simulation/ReferenceSimulator.cpp:747-782`       `reevaluate`, `commitState`
* `simulation/ReferenceSimulator.cpp:784-905`       `advanceMicroTick` (the switch over event types)
* `simulation/ReferenceSimulator.cpp:933-973`       `handleCurrentTimeStep`
* `simulation/ReferenceSimulator.cpp:975-1053`      `advanceEvent`, `advance`

What is abstracted:
* the combinational network between registers is a pair of arbitrary functions (`Net.dataIn`, `Net.enIn`) of the register
  outputs and the input pins — the theorems hold for every network, the driver instantiates them with expression trees;
* loops over the clocked nodes of a domain become one `mapIdx` over all registers (each node touches only its own state);
* simulation processes are a hook (`ProcSem`) with frame laws (`ProcSem.Lawful`); C19 instantiates it with process scripts;
* `abort()` is not modelled.
-/
namespace Gatery.Sched

/-! ### static description -/

/-- `hlim::Clock::TriggerEvent` -/
inductive Trigger | rising | falling | both
  deriving DecidableEq, Repr, Inhabited

/-- the activation test written three times in ReferenceSimulator.cpp (812-814, 859-861) -/
def Trigger.activates (t : Trigger) (risingEdge : Bool) : Bool :=
  t = .both || (t = .rising && risingEdge) || (t = .falling && !risingEdge)

/-- `RegisterAttributes::ResetType` -/
inductive ResetType | sync | async | none
  deriving DecidableEq, Repr, Inhabited

/-- a `ClockDomain` (ReferenceSimulator.h:117-126) with the attributes of its `hlim::Clock` -/
structure DomainDecl where
  pin : Nat                     -- clockSourceIdx
  rstPin : Option Nat           -- resetSourceIdx (`~0ull` = none)
  trig : Trigger
  rstType : ResetType
  activeHigh : Bool             -- `resetActive == Active::HIGH`
  deriving Repr, Inhabited, DecidableEq

/-- a clock pin (`Program::m_clockSources[i]`): frequency and trigger event of the pin source clock -/
structure PinDecl where
  freq : Rat
  srcRising : Bool              -- `pin->getTriggerEvent() == RISING` : the clock signal starts high
  deriving Repr, Inhabited, DecidableEq

/-- a reset pin (`Program::m_resetSources[i]` + `ClockPinAllocation::ResetPin`) -/
structure RstPinDecl where
  srcActiveHigh : Bool          -- `pin->getRegAttribs().resetActive == HIGH`
  minTime : Rat                 -- `max(minResetTime, minResetCycles / absoluteFrequency)`
  deriving Repr, Inhabited, DecidableEq

/-- a `Node_Register` -/
structure RegDecl where
  dom : Nat
  width : Nat
  rst : Option Val              -- constant driving RESET_VALUE (`none` = unconnected)
  deriving Repr, Inhabited, DecidableEq

/-- the combinational network: D and ENABLE inputs of register `i` as functions of all register outputs and all
    input-pin values (`none` = input unconnected, `inputOffsets[..] == ~0ull`) -/
structure Net where
  regs : List RegDecl
  dataIn : List Val → List Val → Nat → Option Val
  enIn : List Val → List Val → Nat → Option Tri

structure Prog where
  pins : List PinDecl
  rstPins : List RstPinDecl
  doms : List DomainDecl
  net : Net

def Prog.dom (P : Prog) (d : Nat) : DomainDecl := P.doms.getD d default
def Prog.reg (P : Prog) (i : Nat) : RegDecl := P.net.regs.getD i default
def Prog.regDom (P : Prog) (i : Nat) : DomainDecl := P.dom (P.reg i).dom
def Prog.pinFreq (P : Prog) (p : Nat) : Rat := (P.pins.getD p default).freq

/-! ### register node -/

/-- internal state and output of one register: output, INT_DATA, INT_ENABLE, INT_IN_RESET -/
structure RegState where
  out : Val
  intData : Val
  intEn : Tri
  inReset : Bool
  deriving Repr, Inhabited, DecidableEq

/-- `Node_Register::writeResetValueTo(state, {INT_DATA, output}, width, clearDefinedIfUnconnected)` (193-217) -/
def Reg.writeResetValue (d : RegDecl) (clearIfUnconnected : Bool) (r : RegState) : RegState :=
  match d.rst with
  | none => if clearIfUnconnected then { r with intData := .undef d.width, out := .undef d.width } else r
  | some v => { r with intData := v, out := v }

/-- state after `powerOn`'s `clearRange` of both planes followed by `simulatePowerOn` (50-56) -/
def Reg.powerOn (d : RegDecl) : RegState :=
  { Reg.writeResetValue d true ⟨.undef d.width, .undef d.width, .x, false⟩ with inReset := false }

/-- `simulateResetChange` (58-66) -/
def Reg.resetChange (d : RegDecl) (dom : DomainDecl) (resetHigh : Bool) (r : RegState) : RegState :=
  let inReset := (resetHigh != !dom.activeHigh) && d.rst.isSome
  let r := { r with inReset := inReset }
  if inReset && dom.rstType = .async then Reg.writeResetValue d false r else r

/-- `simulateEvaluate` (68-80): latch DATA and ENABLE -/
def Reg.evaluate (d : RegDecl) (din : Option Val) (en : Option Tri) (r : RegState) : RegState :=
  { r with intData := din.getD (.undef d.width), intEn := en.getD .one }

/-- `simulateAdvance` (82-102): commit -/
def Reg.advance (d : RegDecl) (dom : DomainDecl) (r : RegState) : RegState :=
  if r.inReset then
    if dom.rstType = .sync then Reg.writeResetValue d false r else r
  else match r.intEn with
    | .x => { r with out := .undef d.width }
    | .one => { r with out := r.intData }
    | .zero => r

/-! ### dynamic state -/

/-- what the callbacks observe -/
inductive LogEntry
  | clock (pin : Nat) (rising : Bool) (t : Time)          -- `onClock`
  | reset (rstPin : Nat) (high : Bool) (t : Time)         -- `onReset`
  | commit (t : Time) (outs : List Val)                   -- `onCommitState` with the register outputs
  | proc (pid : Nat) (t : Time) (ph : Phase) (tick : Nat) (obs : List Val)   -- emitted by simulation processes (C19)
  deriving Repr, DecidableEq

/-- `ClockAwaitingSimProc` with its domain -/
structure Awaiting where
  dom : Nat
  sortId : Nat
  phase : Phase
  handle : Nat
  deriving Repr, DecidableEq, Inhabited

/-- simulator state; `π` is the state of the simulation processes (hook) -/
structure Sim (π : Type) where
  time : Time := 0
  microTick : Nat := 0
  phase : Phase := .after
  regs : List RegState := []
  pins : List Val := []              -- internal state of the input pins (what `simProcSetInputPin` wrote)
  pinsSeen : List Val := []          -- output of the pin nodes = `pins` as of the last `reevaluate` (`Node_Pin::simulateEvaluate`)
  clockHigh : List Bool := []
  resetHigh : List Bool := []
  queue : List Event := []
  nextId : Nat := 0                  -- `m_nextSimProcInsertionId`
  awaiting : List Awaiting := []     -- all `ClockDomain::awaitingSimProcs`, in insertion order
  readOnly : Bool := false
  needsReeval : Bool := false        -- `m_stateNeedsReevaluating`
  log : List LogEntry := []          -- newest first
  err : Option String := none        -- an `HCL_ASSERT`/`HCL_DESIGNCHECK` fired or fuel ran out
  ext : π

variable {π : Type}

def Sim.outs (s : Sim π) : List Val := s.regs.map (·.out)
def Sim.push (s : Sim π) (e : Event) : Sim π := { s with queue := s.queue ++ [e] }
def Sim.addLog (s : Sim π) (l : LogEntry) : Sim π := { s with log := l :: s.log }
def Sim.fail (s : Sim π) (m : String) : Sim π := { s with err := s.err.orElse fun _ => some m }

/-- hook for simulation processes. `resume` = `m_coroutineHandler.readyToResume(h); m_coroutineHandler.run()`;
    `checkWatches` = `checkSignalWatches()`; `commit` = resuming `m_processesAwaitingCommit`; `start` = starting all processes at power-on. -/
structure ProcSem (π : Type) where
  resume : Prog → Sim π → Nat → Sim π
  checkWatches : Prog → Sim π → Sim π
  commit : Prog → Sim π → Sim π
  start : Prog → Sim π → Sim π

/-- no processes -/
def ProcSem.none : ProcSem Unit := ⟨fun _ s _ => s, fun _ s => s, fun _ s => s, fun _ s => s⟩

/-! ### the event switch of `advanceMicroTick` (795-903) -/

/-- is domain `d` in reset (803-807) -/
def clockInReset (s : Sim π) (d : DomainDecl) : Bool :=
  match d.rstPin with
  | none => false
  | some rp => s.resetHigh.getD rp false == d.activeHigh

/-- 816-826: schedule the processes waiting for domain `di` (events copy time and micro tick of the trigger) -/
def releaseAwaiting (s : Sim π) (e : Event) (di : Nat) : Sim π :=
  let mine := s.awaiting.filter (·.dom = di)
  let evs := mine.map fun a => { e with type := .simProcResume, handle := a.handle, insertionId := a.sortId, phase := a.phase, pin := 0, flag := false }
  { s with queue := s.queue ++ evs, awaiting := s.awaiting.filter (·.dom ≠ di) }

/-- indices of the domains driven by clock pin `p`, in domain order -/
def Prog.domsOfPin (P : Prog) (p : Nat) : List Nat :=
  (List.range P.doms.length).filter fun di => (P.dom di).pin = p

def Prog.domsOfRstPin (P : Prog) (rp : Nat) : List Nat :=
  (List.range P.doms.length).filter fun di => (P.dom di).rstPin = some rp

/-- case `clockPinTrigger` (796-842) -/
def onTrigger (P : Prog) (s : Sim π) (e : Event) : Sim π :=
  let s := (P.domsOfPin e.pin).foldl (fun s di =>
      let d := P.dom di
      if !clockInReset s d && d.trig.activates e.flag then releaseAwaiting s e di else s) s
  let s := s.push { e with type := .clockValueChange }
  s.push { e with flag := !e.flag, time := e.time + (1/2) / P.pinFreq e.pin, microTick := 0 }

/-- case `clockValueChange` (843-876). `clockValueChanged` is a no-op for registers. -/
def onClockValue (P : Prog) (s : Sim π) (e : Event) : Sim π :=
  let regs := s.regs.mapIdx fun i r =>
    let d := P.regDom i
    if d.pin = e.pin ∧ d.trig.activates e.flag then Reg.advance (P.reg i) d r else r
  { s with clockHigh := s.clockHigh.set e.pin e.flag, regs := regs }.addLog (.clock e.pin e.flag s.time)

/-- case `resetValueChange` (877-895) -/
def onResetValue (P : Prog) (s : Sim π) (e : Event) : Sim π :=
  let regs := s.regs.mapIdx fun i r =>
    let d := P.regDom i
    if d.rstPin = some e.pin then Reg.resetChange (P.reg i) d e.flag r else r
  { s with resetHigh := s.resetHigh.set e.pin e.flag, regs := regs }.addLog (.reset e.pin e.flag s.time)

/-- the switch; `s` is the state after `m_nextEvents.pop()` -/
def processEvent (P : Prog) (S : ProcSem π) (s : Sim π) (e : Event) : Sim π :=
  match e.type with
  | .clockPinTrigger => onTrigger P s e
  | .clockValueChange => onClockValue P s e
  | .resetValueChange => onResetValue P s e
  | .simProcResume => S.resume P s e.handle

/-- `reevaluate()` (747-755): every register latches its inputs; outputs of registers do not change -/
def reevaluate (P : Prog) (s : Sim π) : Sim π :=
  let outs := s.outs
  { s with regs := s.regs.mapIdx (fun i r => Reg.evaluate (P.reg i) (P.net.dataIn outs s.pins i) (P.net.enIn outs s.pins i) r),
           pinsSeen := s.pins, needsReeval := false }

/-- `commitState()` (757-782) -/
def commitState (P : Prog) (S : ProcSem π) (s : Sim π) : Sim π :=
  let s := { s with readOnly := true }
  let s := S.commit P s
  let s := s.addLog (.commit s.time s.outs)
  { s with readOnly := false }

/-! ### loops (fuel-bounded; running out of fuel sets `err`) -/

def Sim.dequeue (s : Sim π) (e : Event) : Sim π := { s with queue := s.queue.erase e }

/-- `advanceMicroTick()` (784-905) -/
def advanceMicroTick (P : Prog) (S : ProcSem π) : Nat → Sim π → Sim π
  | 0, s => s.fail "fuel:advanceMicroTick"
  | fuel+1, s =>
    match minEvent s.queue with
    | none => s
    | some e =>
      if e.time = s.time ∧ e.microTick = s.microTick ∧ e.phase = s.phase then
        advanceMicroTick P S fuel (processEvent P S (s.dequeue e) e)
      else s

/-- the inner `while` of `handleCurrentTimeStep` (949-968): all micro ticks of the current phase -/
def phaseLoop (P : Prog) (S : ProcSem π) (fuel : Nat) : Nat → Sim π → Sim π
  | 0, s => s.fail "fuel:phaseLoop"
  | n+1, s =>
    match minEvent s.queue with
    | none => s
    | some e =>
      if e.time = s.time ∧ e.phase = s.phase then
        let s := if s.microTick = 0 ∨ s.phase ≠ .during then s else s.fail "assert:microTick==0||phase!=DURING"
        let s := advanceMicroTick P S fuel s
        let s := reevaluate P s
        let s := S.checkWatches P s
        phaseLoop P S fuel n { s with microTick := s.microTick + 1 }
      else s

/-- the `for (phase : {BEFORE, DURING, AFTER})` loop (939-969) -/
def runPhases (P : Prog) (S : ProcSem π) (fuel : Nat) (s : Sim π) : Sim π :=
  [Phase.before, Phase.during, Phase.after].foldl
    (fun s ph => phaseLoop P S fuel fuel { s with phase := ph, microTick := 0 }) s

/-- the outer `while` (936) -/
def timeStepLoop (P : Prog) (S : ProcSem π) (fuel : Nat) : Nat → Sim π → Sim π
  | 0, s => s.fail "fuel:timeStepLoop"
  | n+1, s =>
    match minEvent s.queue with
    | none => s
    | some e => if e.time = s.time then timeStepLoop P S fuel n (runPhases P S fuel s) else s

/-- `handleCurrentTimeStep()` (933-973) -/
def handleCurrentTimeStep (P : Prog) (S : ProcSem π) (fuel : Nat) (s : Sim π) : Sim π :=
  commitState P S (timeStepLoop P S fuel fuel s)

/-- `advanceEvent()` (975-1034) -/
def advanceEvent (P : Prog) (S : ProcSem π) (fuel : Nat) (s : Sim π) : Sim π :=
  match minEvent s.queue with
  | none => s
  | some e => handleCurrentTimeStep P S fuel { s with time := e.time, microTick := 0 }

/-- `advance(seconds)` (1036-1053) -/
def advanceLoop (P : Prog) (S : ProcSem π) (fuel : Nat) (target : Time) : Nat → Sim π → Sim π
  | 0, s => s.fail "fuel:advance"
  | n+1, s =>
    if s.time < target then
      match minEvent s.queue with
      | none => { s with time := target }
      | some e => if e.time > target then { s with time := target } else advanceLoop P S fuel target n (advanceEvent P S fuel s)
    else s

def advance (P : Prog) (S : ProcSem π) (fuel : Nat) (seconds : Time) (s : Sim π) : Sim π :=
  advanceLoop P S fuel (s.time + seconds) fuel s

/-! ### power-on (606-745) -/

/-- 629-651: initial level of clock pin `i` and its first trigger event -/
def initClockEvents (P : Prog) : List Event :=
  P.pins.mapIdx fun i p =>
    { type := .clockPinTrigger, pin := i, flag := !p.srcRising, time := 0 + (1/2) / p.freq }

/-- 653-701 for reset pin `rp`: assert the reset at its source's active level, then release it immediately if the minimum
    reset time is zero (as written: the second `changeReset` is called with `!rs.resetHigh` *after* `rs.resetHigh` was toggled,
    i.e. again with the active level), or schedule the release. -/
def initReset (P : Prog) (s : Sim π) (rp : Nat) (r : RstPinDecl) : Sim π :=
  let high := r.srcActiveHigh
  let chg (lvl : Bool) (s : Sim π) : Sim π :=
    { s with regs := s.regs.mapIdx fun i st =>
        let d := P.regDom i
        if d.rstPin = some rp then Reg.resetChange (P.reg i) d lvl st else st }
  let s := chg high { s with resetHigh := s.resetHigh.set rp high }
  let s := s.addLog (.reset rp high s.time)
  if r.minTime = 0 then
    let s := { s with resetHigh := s.resetHigh.set rp (!high) }
    let s := chg (!(!high)) s
    s.addLog (.reset rp (!(!high)) s.time)
  else
    s.push { type := .resetValueChange, pin := rp, flag := !high, time := s.time + r.minTime }

/-- 606-627: cleared state, `simulatePowerOn` of every register, clock levels, first trigger events -/
def initState0 (P : Prog) (npins : List Val) (ext : π) : Sim π :=
  { time := 0, microTick := 0, phase := .after,
    regs := P.net.regs.map Reg.powerOn,
    pins := npins,
    pinsSeen := npins,
    clockHigh := P.pins.map (·.srcRising),
    resetHigh := P.rstPins.map (fun _ => false),
    queue := initClockEvents P,
    ext := ext }

/-- state after the set-up part of `powerOn` (606-701), before the first `reevaluate` -/
def initState (P : Prog) (npins : List Val) (ext : π) : Sim π :=
  (List.range P.rstPins.length).foldl (fun s rp => initReset P s rp (P.rstPins.getD rp default)) (initState0 P npins ext)

/-- `powerOn()`; `pins0` = power-on state of the input pins (undefined unless pulled) -/
def powerOn (P : Prog) (S : ProcSem π) (fuel : Nat) (pins0 : List Val) (ext : π) : Sim π :=
  let s := initState P pins0 ext
  let s := reevaluate P s
  let s := S.start P s
  let s := if s.needsReeval then reevaluate P s else s
  handleCurrentTimeStep P S fuel s

/-! ### what a test bench does between events -/

/-- `simProcSetInputPin` (1055-1066); `Node_Pin::setState` reports a change iff some bit's definedness or (defined) value differs -/
def setPin (s : Sim π) (i : Nat) (v : Val) : Sim π :=
  if s.readOnly then s.fail "designcheck:readOnly" else
  { s with pins := s.pins.set i v, needsReeval := s.needsReeval || decide (s.pins.getD i default ≠ v) }

inductive ApiOp
  | setPin (i : Nat) (v : Val)
  | reevaluate
  | advanceEvent
  | advance (seconds : Time)

def applyOp (P : Prog) (S : ProcSem π) (fuel : Nat) (s : Sim π) : ApiOp → Sim π
  | .setPin i v => setPin s i v
  | .reevaluate => reevaluate P s
  | .advanceEvent => advanceEvent P S fuel s
  | .advance d => advance P S fuel d s

end Gatery.Sched
