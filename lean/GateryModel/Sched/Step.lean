import GateryModel.Sched.Order
import GateryModel.Sched.Sim
/-!
# Sched — small-step view of the event loop

`MicroStep` is a nondeterministic transition system that abstracts from the heap order of `std::priority_queue` among
events of equal time: *any* queued event whose time is the current simulation time and minimal in the queue may be handled next.
The executable loops of `Sim.lean` (`advanceMicroTick`, `handleCurrentTimeStep`, `advanceEvent`, `advance`, `powerOn`) are
refinements of it (`*_steps`), so every invariant proved for `MicroStep` holds for every history of API calls.

Simulation processes enter through `ProcSem`; `ProcSem.Lawful` is the frame condition that they cannot touch what the hardware
side of the simulator owns (registers, clock/reset state, time, the non-resume events of the queue, the hardware log).
-/
namespace Gatery.Sched
variable {π : Type}

def isHw (e : Event) : Bool := e.type ≠ .simProcResume
def hwQueue (q : List Event) : List Event := q.filter isHw
def isHwLog : LogEntry → Bool
  | .proc .. => false
  | _ => true
def hwLog (l : List LogEntry) : List LogEntry := l.filter isHwLog

/-- `s'` differs from `s` only in what processes and the test bench may touch: input pins, resume events in the queue,
    waiting lists, insertion ids, process log entries, flags, phase and micro tick counters. -/
structure ProcFrame (s s' : Sim π) : Prop where
  time : s'.time = s.time
  regs : s'.regs = s.regs
  clockHigh : s'.clockHigh = s.clockHigh
  resetHigh : s'.resetHigh = s.resetHigh
  hwq : hwQueue s'.queue = hwQueue s.queue
  hwlog : hwLog s'.log = hwLog s.log

theorem ProcFrame.refl (s : Sim π) : ProcFrame s s := ⟨rfl, rfl, rfl, rfl, rfl, rfl⟩
theorem ProcFrame.trans {a b c : Sim π} (h1 : ProcFrame a b) (h2 : ProcFrame b c) : ProcFrame a c :=
  ⟨h2.time.trans h1.time, h2.regs.trans h1.regs, h2.clockHigh.trans h1.clockHigh, h2.resetHigh.trans h1.resetHigh,
   h2.hwq.trans h1.hwq, h2.hwlog.trans h1.hwlog⟩

structure ProcSem.Lawful (S : ProcSem π) : Prop where
  resume : ∀ P s h, ProcFrame s (S.resume P s h)
  checkWatches : ∀ P s, ProcFrame s (S.checkWatches P s)
  commit : ∀ P s, ProcFrame s (S.commit P s)
  start : ∀ P s, ProcFrame s (S.start P s)

theorem ProcSem.none_lawful : ProcSem.none.Lawful :=
  ⟨fun _ s _ => .refl s, fun _ s => .refl s, fun _ s => .refl s, fun _ s => .refl s⟩

inductive MicroStep (P : Prog) (S : ProcSem π) : Sim π → Sim π → Prop
  /-- handle one queued event of the current time (no queued event is strictly earlier in time) -/
  | event (s : Sim π) (e : Event) (hmem : e ∈ s.queue) (htime : e.time = s.time)
      (hmin : ∀ e' ∈ s.queue, ¬ e'.time < e.time) : MicroStep P S s (processEvent P S (s.dequeue e) e)
  | reeval (s : Sim π) : MicroStep P S s (reevaluate P s)
  | commit (s : Sim π) : MicroStep P S s (commitState P S s)
  /-- anything that respects the frame: process hooks, `simProcSetInputPin`, phase/micro-tick counters, error flag -/
  | frame (s s' : Sim π) (h : ProcFrame s s') : MicroStep P S s s'
  /-- `m_simulationTime = …` -/
  | setTime (s : Sim π) (t : Time) : MicroStep P S s { s with time := t }

inductive Steps (P : Prog) (S : ProcSem π) : Sim π → Sim π → Prop
  | refl (s : Sim π) : Steps P S s s
  | tail {a b c : Sim π} : Steps P S a b → MicroStep P S b c → Steps P S a c

namespace Steps
variable {P : Prog} {S : ProcSem π}

theorem single {a b : Sim π} (h : MicroStep P S a b) : Steps P S a b := .tail (.refl a) h

theorem trans {a b c : Sim π} (h1 : Steps P S a b) (h2 : Steps P S b c) : Steps P S a c := by
  induction h2 with
  | refl => exact h1
  | tail _ hs ih => exact .tail ih hs

theorem frame {a b : Sim π} (h : ProcFrame a b) : Steps P S a b := single (.frame a b h)

/-- an invariant of `MicroStep` is an invariant of `Steps` -/
theorem induct {I : Sim π → Prop} (hstep : ∀ a b, I a → MicroStep P S a b → I b) {a b : Sim π}
    (h : Steps P S a b) (ha : I a) : I b := by
  induction h with
  | refl => exact ha
  | tail _ hs ih => exact hstep _ _ ih hs
end Steps

/-! ### the executable loops refine `Steps` -/
section refine
variable (P : Prog) (S : ProcSem π)

theorem frame_fail (s : Sim π) (m : String) : ProcFrame s (s.fail m) := ⟨rfl, rfl, rfl, rfl, rfl, rfl⟩

theorem frame_ticks (s : Sim π) (mt : Nat) (ph : Phase) : ProcFrame s { s with microTick := mt, phase := ph } :=
  ⟨rfl, rfl, rfl, rfl, rfl, rfl⟩

theorem advanceMicroTick_steps (fuel : Nat) (s : Sim π) : Steps P S s (advanceMicroTick P S fuel s) := by
  induction fuel generalizing s with
  | zero => exact .frame (frame_fail s _)
  | succ n ih =>
    unfold advanceMicroTick
    cases hm : minEvent s.queue with
    | none => exact .refl s
    | some e =>
      simp only
      split
      · rename_i hc
        exact (Steps.single (.event s e (minEvent_mem hm) hc.1 (minEvent_time_min hm))).trans (ih _)
      · exact .refl s

theorem phaseLoop_steps (hS : S.Lawful) (fuel n : Nat) (s : Sim π) : Steps P S s (phaseLoop P S fuel n s) := by
  induction n generalizing s with
  | zero => exact .frame (frame_fail s _)
  | succ n ih =>
    unfold phaseLoop
    cases hm : minEvent s.queue with
    | none => exact .refl s
    | some e =>
      simp only
      split
      · let s1 := if s.microTick = 0 ∨ s.phase ≠ .during then s else s.fail "assert:microTick==0||phase!=DURING"
        let s2 := advanceMicroTick P S fuel s1
        let s3 := reevaluate P s2
        let s4 := S.checkWatches P s3
        let s5 : Sim π := { s4 with microTick := s4.microTick + 1 }
        have h1 : Steps P S s s1 := by
          show Steps P S s (if s.microTick = 0 ∨ s.phase ≠ .during then s else s.fail _)
          split
          · exact .refl s
          · exact .frame (frame_fail s _)
        have h2 : Steps P S s1 s2 := advanceMicroTick_steps P S fuel s1
        have h3 : Steps P S s2 s3 := .single (.reeval _)
        have h4 : Steps P S s3 s4 := .frame (hS.checkWatches P s3)
        have h5 : Steps P S s4 s5 := .frame ⟨rfl, rfl, rfl, rfl, rfl, rfl⟩
        exact (h1.trans (h2.trans (h3.trans (h4.trans h5)))).trans (ih s5)
      · exact .refl s

theorem runPhases_steps (hS : S.Lawful) (fuel : Nat) (s : Sim π) : Steps P S s (runPhases P S fuel s) := by
  unfold runPhases
  simp only [List.foldl_cons, List.foldl_nil]
  have step : ∀ (a : Sim π) (ph : Phase), Steps P S a (phaseLoop P S fuel fuel { a with phase := ph, microTick := 0 }) :=
    fun a ph => Steps.trans (b := { a with phase := ph, microTick := 0 }) (Steps.frame ⟨rfl, rfl, rfl, rfl, rfl, rfl⟩)
      (phaseLoop_steps P S hS fuel fuel _)
  exact ((step _ _).trans (step _ _)).trans (step _ _)

theorem timeStepLoop_steps (hS : S.Lawful) (fuel n : Nat) (s : Sim π) : Steps P S s (timeStepLoop P S fuel n s) := by
  induction n generalizing s with
  | zero => exact .frame (frame_fail s _)
  | succ n ih =>
    unfold timeStepLoop
    cases hm : minEvent s.queue with
    | none => exact .refl s
    | some e =>
      simp only
      split
      · exact (runPhases_steps P S hS fuel s).trans (ih _)
      · exact .refl s

theorem handleCurrentTimeStep_steps (hS : S.Lawful) (fuel : Nat) (s : Sim π) :
    Steps P S s (handleCurrentTimeStep P S fuel s) :=
  (timeStepLoop_steps P S hS fuel fuel s).trans (.single (.commit _))

theorem advanceEvent_steps (hS : S.Lawful) (fuel : Nat) (s : Sim π) : Steps P S s (advanceEvent P S fuel s) := by
  unfold advanceEvent
  cases hm : minEvent s.queue with
  | none => exact .refl s
  | some e =>
    simp only
    have h1 : Steps P S s { s with time := e.time } := .single (.setTime s e.time)
    have h2 : Steps P S { s with time := e.time } { s with time := e.time, microTick := 0 } :=
      .frame ⟨rfl, rfl, rfl, rfl, rfl, rfl⟩
    exact (h1.trans h2).trans (handleCurrentTimeStep_steps P S hS fuel _)

theorem advanceLoop_steps (hS : S.Lawful) (fuel : Nat) (target : Time) (n : Nat) (s : Sim π) :
    Steps P S s (advanceLoop P S fuel target n s) := by
  induction n generalizing s with
  | zero => exact .frame (frame_fail s _)
  | succ n ih =>
    unfold advanceLoop
    split
    · cases hm : minEvent s.queue with
      | none => exact .single (.setTime s target)
      | some e =>
        simp only
        split
        · exact .single (.setTime s target)
        · exact (advanceEvent_steps P S hS fuel s).trans (ih _)
    · exact .refl s

theorem advance_steps (hS : S.Lawful) (fuel : Nat) (d : Time) (s : Sim π) : Steps P S s (advance P S fuel d s) :=
  advanceLoop_steps P S hS fuel _ fuel s

theorem setPin_frame (s : Sim π) (i : Nat) (v : Val) : ProcFrame s (setPin s i v) := by
  unfold setPin
  split
  · exact frame_fail s _
  · exact ⟨rfl, rfl, rfl, rfl, rfl, rfl⟩

theorem applyOp_steps (hS : S.Lawful) (fuel : Nat) (s : Sim π) (o : ApiOp) : Steps P S s (applyOp P S fuel s o) := by
  cases o with
  | setPin i v => exact .frame (setPin_frame s i v)
  | reevaluate => exact .single (.reeval s)
  | advanceEvent => exact advanceEvent_steps P S hS fuel s
  | advance d => exact advance_steps P S hS fuel d s

/-- `powerOn` after its set-up part -/
theorem powerOn_steps (hS : S.Lawful) (fuel : Nat) (pins0 : List Val) (ext : π) :
    Steps P S (initState P pins0 ext) (powerOn P S fuel pins0 ext) := by
  unfold powerOn
  let s0 := initState P pins0 ext
  let s1 := reevaluate P s0
  let s2 := S.start P s1
  let s3 := if s2.needsReeval then reevaluate P s2 else s2
  have h1 : Steps P S s0 s1 := .single (.reeval _)
  have h2 : Steps P S s1 s2 := .frame (hS.start P s1)
  have h3 : Steps P S s2 s3 := by
    show Steps P S s2 (if s2.needsReeval then reevaluate P s2 else s2)
    split
    · exact .single (.reeval _)
    · exact .refl _
  exact (h1.trans (h2.trans h3)).trans (handleCurrentTimeStep_steps P S hS fuel s3)

/-- every state a test bench can reach: power-on followed by any sequence of API calls -/
def runOps (fuel : Nat) (pins0 : List Val) (ext : π) (ops : List ApiOp) : Sim π :=
  ops.foldl (applyOp P S fuel) (powerOn P S fuel pins0 ext)

theorem runOps_steps (hS : S.Lawful) (fuel : Nat) (pins0 : List Val) (ext : π) (ops : List ApiOp) :
    Steps P S (initState P pins0 ext) (runOps P S fuel pins0 ext ops) := by
  unfold runOps
  have : ∀ (s : Sim π), Steps P S (initState P pins0 ext) s →
      Steps P S (initState P pins0 ext) (ops.foldl (applyOp P S fuel) s) := by
    induction ops with
    | nil => intro s h; exact h
    | cons o os ih => intro s h; exact ih _ (h.trans (applyOp_steps P S hS fuel s o))
  exact this _ (powerOn_steps P S hS fuel pins0 ext)

end refine
end Gatery.Sched
