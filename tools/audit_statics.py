#!/usr/bin/env python3
"""C10 audit, part 2: process-global mutable state in source/gatery (all sub-directories).

A result that depends on how often something ran before in the same process (a function-local `static` counter, a
namespace-scope cache, a class-static id generator) makes the second construction of a design differ from the first.
This scanner lists, on every run,
  local-static   every function-local `static` / `thread_local` variable that is not const/constexpr
  namespace-var  every namespace-scope variable (with or without `static`, `inline`, `thread_local`, `extern`) that is not const/constexpr
  class-static   every static data member that is not const/constexpr (declaration in the class; the out-of-class definition
                 shows up as namespace-var)
and compares them with the reviewed list audit/static_state_sites.json (reason why the state cannot reach exported files /
traces, or `relevant: covered by the build-twice comparison`). Identity = file | enclosing function or scope | kind | name;
`hash` = normalised text of the enclosing function (local-static) or of the declaration (others). NEW / CHANGED / missing
sites break the tie exactly like the unordered-site audit.

"const": `constexpr` anywhere in the declaration, or a top-level `const` (`const T x`, `T *const x`; `const T *x` is a mutable
pointer and is listed).

Limits: regex/brace based, no preprocessing (both branches of #if are scanned); a namespace-scope variable initialised with
parentheses whose arguments look like a parameter list is taken for a function declaration; *uses* of a listed variable in
other functions are not hashed (the review names them).
"""
import hashlib
import json
import os
import re
import sys

sys.path.insert(0, os.path.dirname(os.path.abspath(__file__)))
from audit_unordered import strip_comments, match_brace, norm_hash  # noqa: E402

REPO = os.environ.get("GATERY_REPO", "/repo")
VERIF = os.path.dirname(os.path.dirname(os.path.abspath(__file__)))
SRC = os.path.join(REPO, "source", "gatery")
REVIEWED = os.path.join(VERIF, "audit", "static_state_sites.json")

SKIP_START = re.compile(r"^(using|typedef|template|friend|return|namespace|static_assert|extern\s+\"C\"|extern\s+template|public|private|protected|case|default|goto|break|continue|throw|delete|if|for|while|switch|do|else|try|catch|co_return|co_await|co_yield|asm|operator)\b")
TYPEISH = re.compile(r"^(class|struct|union|enum)\b")


def list_files():
    fs = []
    for root, _, names in os.walk(SRC):
        for f in sorted(names):
            if f.endswith((".h", ".cpp", ".hpp", ".c")):
                fs.append(os.path.join(root, f))
    return sorted(fs)


def strip_preproc(text):
    """blank preprocessor lines and the bodies of `#if 0` … (`#else`|`#endif`) blocks"""
    out = []
    cont = False
    stack = []   # True = this #if level is a dead `#if 0` branch
    for line in text.split("\n"):
        s = line.lstrip()
        if cont or s.startswith("#"):
            if not cont:
                d = s[1:].lstrip()
                if re.match(r"if\s+0\b", d):
                    stack.append(True)
                elif re.match(r"if", d):
                    stack.append(False)
                elif re.match(r"(else|elif)\b", d) and stack:
                    stack[-1] = False
                elif re.match(r"endif\b", d) and stack:
                    stack.pop()
            cont = line.rstrip().endswith("\\")
            out.append("")
        elif any(stack):
            out.append("")
        else:
            out.append(line)
    return "\n".join(out)


def is_const(decl):
    d = " " + " ".join(decl.split()) + " "
    if re.search(r"\bconstexpr\b|\bconstinit\s+const\b", d):
        return True
    # cut the initialiser
    d = re.split(r"=|\{", d, 1)[0]
    if "*" in d:
        return bool(re.search(r"\*\s*const\b[^*]*$", d))
    return bool(re.search(r"\bconst\b", d))


def declared_name(decl):
    d = re.split(r"=|\{|\(", " ".join(decl.split()), 1)[0].strip()
    d = re.sub(r"\[[^\]]*\]", "", d).strip()
    m = re.search(r"([A-Za-z_][\w:]*)\s*$", d)
    return m.group(1) if m else d[-30:]


def looks_like_function_decl(stmt):
    """`T name(args)` with a parameter-list-looking argument list (or none) and no initialiser"""
    s = " ".join(stmt.split())
    if "(" not in s:
        return False
    head, rest = s.split("(", 1)
    if "=" in head:
        return False
    if re.search(r"\boperator\b", head):
        return True
    args = rest.rsplit(")", 1)[0].strip()
    if args == "" or args == "void":
        return True
    first = args.split(",")[0].strip()
    # literals / expressions => constructor call of a variable
    if re.match(r"^[\d\"'{\-+!~]", first) or re.search(r"\bnew\b|^(true|false|nullptr)$", first):
        return False
    # `type name`, `const type &name`, `type`, `type*` … => parameters
    first = re.sub(r"<[^()]*>", "<>", first)   # template arguments may contain `*`, `,` …
    if re.match(r"^(const\s+|unsigned\s+|struct\s+|class\s+)?[A-Za-z_][\w:<>,\s]*[\s\*&]+[A-Za-z_]\w*(\s*=.*)?$", first) or re.match(r"^(const\s+)?[A-Za-z_][\w:<>]*\s*[\*&]*$", first):
        return True
    return False


def scan_file(path, text, sites):
    rel = os.path.relpath(path, SRC)
    n = len(text)

    def add(kind, scope, decl, hash_text, pos):
        decl1 = " ".join(decl.split())
        sites.append({"file": rel, "scope": scope, "kind": kind, "name": declared_name(decl1), "decl": decl1[:200],
                      "line": text.count("\n", 0, pos) + 1, "hash": norm_hash(hash_text)})

    def scan_function_body(name, start, end):
        body = text[start:end]
        for m in re.finditer(r"(?:(?<=[;{}])|(?<=\)))\s*((?:static|thread_local)\b(?:\s+(?:static|thread_local|inline)\b)*\s+[^;]*?)(;|=|\{)", body):
            decl = m.group(1)
            if re.match(r"(static|thread_local)\s*$", decl):
                continue
            if is_const(decl + m.group(2)):
                continue
            if "(" in decl and looks_like_function_decl(decl):
                continue
            add("local-static", name, decl, body, start + m.start(1))

    def walk(i, end, scope_kind, scope_name):
        """scope_kind in {'ns','class'}; scans declarations of this scope"""
        stmt_start = i
        pending_func = None
        prefix = ""      # type name of a class/struct whose body was just closed (`struct X {…} g_x;`)
        paren = 0
        while i < end:
            ch = text[i]
            if ch == "(":
                paren += 1
                i += 1
            elif ch == ")":
                paren = max(0, paren - 1)
                i += 1
            elif ch == "{" and paren > 0:
                i = match_brace(text, i)   # brace initialiser inside a parameter / argument list
            elif ch == ";":
                stmt = text[stmt_start:i].strip()
                if prefix:
                    if stmt:
                        handle_stmt(prefix + " " + stmt, stmt_start, scope_kind, scope_name)
                else:
                    handle_stmt(stmt, stmt_start, scope_kind, scope_name)
                stmt_start = i + 1
                pending_func = None
                prefix = ""
                paren = 0
                i += 1
            elif ch == "{":
                head = " ".join(text[stmt_start:i].split())
                head = re.sub(r"^((public|private|protected)\s*:\s*)+", "", head)
                close = match_brace(text, i)
                mns = re.match(r"^(inline\s+)?namespace\b\s*([\w:]*)", head)
                mcl = re.match(r"^(?:template\s*<.*>\s*)?(?:typedef\s+)?(class|struct|union)\b[^()]*$", head)
                if pending_func is not None or ("(" in head and not mns and not re.match(r"^(class|struct|union|enum)\b[^()]*$", head)):
                    # function body (or lambda / constructor initialiser list element)
                    fname = pending_func
                    if fname is None:
                        fm = re.search(r"((?:[A-Za-z_]\w*(?:<[^()]*>)?::)*(?:operator\s*(?:\(\)|[^\s(]+)|~?[A-Za-z_]\w*))\s*\(", head)
                        fname = ((scope_name + "::") if scope_kind == "class" and scope_name else "") + (fm.group(1) if fm else "?")
                    scan_function_body(fname, i, close)
                    i = close
                    j = i
                    while j < end and text[j] in " \t\n":
                        j += 1
                    if j < end and text[j] in "{,":   # member initialiser list continues
                        pending_func = fname
                        if text[j] == ",":
                            k = text.find("{", j)
                            i = k if 0 <= k < end else end
                        else:
                            i = j
                    else:
                        pending_func = None
                        stmt_start = i
                elif mns:
                    walk(i + 1, close - 1, "ns", mns.group(2))
                    i = close
                    stmt_start = i
                elif mcl:
                    cm = re.search(r"(class|struct|union)\s+(?:\w+\s+)*?([A-Za-z_]\w*)\s*(?:final\s*)?(?::|$)", head)
                    cname = cm.group(2) if cm else "?"
                    walk(i + 1, close - 1, "class", cname)
                    i = close  # a declarator may follow: `struct X {…} g_x;`
                    prefix = ("static " if re.match(r"^static\b", head) else "") + cname
                    stmt_start = i
                    if re.match(r"^typedef\b", head):   # `typedef struct {…} Name;` declares a type
                        k = text.find(";", i)
                        i = (k + 1) if 0 <= k < end else end
                        prefix = ""
                        stmt_start = i
                elif re.match(r"^(?:typedef\s+)?enum\b", head):
                    i = close
                else:
                    i = close   # brace initialiser: part of the current statement
            elif ch == "}":
                i += 1
                stmt_start = i
            else:
                i += 1

    def handle_stmt(stmt, pos, scope_kind, scope_name):
        s = " ".join(stmt.split())
        if not s:
            return
        s = re.sub(r"^(public|private|protected)\s*:\s*", "", s)
        s = re.sub(r"^\[\[[^\]]*\]\]\s*", "", s)
        if not s or SKIP_START.match(s):
            return
        if TYPEISH.match(s) and not re.search(r"\}\s*[A-Za-z_]", s):
            return  # forward declaration / type definition without declarator
        if re.match(r"^extern\b", s) and "(" in s.split("=")[0]:
            return
        has_static = bool(re.search(r"\bstatic\b|\bthread_local\b", s.split("=")[0].split("(")[0]))
        if scope_kind == "class" and not has_static:
            return  # ordinary data member / member function declaration
        if is_const(s):
            return
        if "(" in s.split("=")[0] and looks_like_function_decl(s):
            return
        if re.match(r"^[~\w:<>,\s\*&]*\boperator\b", s):
            return
        if not re.search(r"[A-Za-z_]", s):
            return
        kind = "class-static" if scope_kind == "class" else "namespace-var"
        scope = (scope_name or "<global>") + ("{}" if scope_kind == "class" else " (namespace)")
        add(kind, scope, s, s, pos + (len(stmt) - len(stmt.lstrip())))

    walk(0, n, "ns", "")


def scan():
    sites = []
    files = list_files()
    for f in files:
        text = strip_preproc(strip_comments(open(f, errors="replace").read()))
        scan_file(f, text, sites)
    merged = {}
    for s in sites:
        k = site_key(s)
        e = merged.setdefault(k, dict(s, lines=[]))
        e["lines"].append(s["line"])
        if e["hash"] != s["hash"]:
            e["hash"] = norm_hash(e["hash"] + s["hash"])
    out = []
    for k in sorted(merged):
        e = merged[k]
        e.pop("line", None)
        out.append(e)
    return out, {"files_scanned": len(files)}


def site_key(e):
    return "%s | %s | %s | %s" % (e["file"], e["scope"], e["kind"], e["name"])


def compare(found, reviewed):
    problems = []
    rv = {site_key(e): e for e in reviewed.get("sites", [])}
    fd = {site_key(e): e for e in found}
    for k, e in fd.items():
        if k not in rv:
            problems.append("NEW unreviewed mutable static state: %s (lines %s): %s" % (k, e["lines"], e["decl"][:100]))
        else:
            r = rv[k]
            if r.get("hash") != e["hash"]:
                problems.append("CHANGED static-state site (the enclosing function / declaration differs from the reviewed one): %s (lines %s)" % (k, e["lines"]))
            if not r.get("reason") or not r.get("category"):
                problems.append("static-state site without review reason: " + k)
    for k in rv:
        if k not in fd:
            problems.append("reviewed static-state site no longer found (moved/renamed; review again): " + k)
    return problems


def run():
    """(ok, message, info) — used by checks/c10.py"""
    try:
        found, info = scan()
    except Exception as e:  # fail closed
        return False, "audit_statics: scanner failed: %r" % (e,), {}
    if not os.path.exists(REVIEWED):
        return False, "audit_statics: %s missing" % REVIEWED, {}
    reviewed = json.load(open(REVIEWED))
    problems = compare(found, reviewed)
    cats = {}
    for e in reviewed.get("sites", []):
        cats[e.get("category", "?")] = cats.get(e.get("category", "?"), 0) + 1
    info.update({"sites_found": len(found), "sites_reviewed": len(reviewed.get("sites", [])), "categories": cats, "problems": problems,
                 "relevant": [site_key(e) for e in reviewed.get("sites", []) if e.get("category", "").startswith("relevant")]})
    if problems:
        return False, "audit_statics: %d problem(s): %s" % (len(problems), " || ".join(problems[:6])), info
    return True, "audit_statics: %d sites, all reviewed" % len(found), info


if __name__ == "__main__":
    if len(sys.argv) > 1 and sys.argv[1] == "--list":
        found, info = scan()
        for e in found:
            print("%-46s %-44s %-13s %-28s %s | %s" % (e["file"][:46], e["scope"][:44], e["kind"], e["name"][:28], e["lines"], e["decl"][:90]))
        print(len(found), "sites;", info)
        sys.exit(0)
    if len(sys.argv) > 1 and sys.argv[1] == "--skeleton":
        found, info = scan()
        old = json.load(open(REVIEWED)) if os.path.exists(REVIEWED) else {"sites": []}
        rv = {site_key(e): e for e in old.get("sites", [])}
        out = []
        for e in found:
            r = rv.get(site_key(e), {})
            e2 = dict(e, category=r.get("category", ""), reason=r.get("reason", ""))
            if r and r.get("hash") != e["hash"]:
                e2["reason"] = "(CODE CHANGED — review again) " + e2["reason"]
            out.append(e2)
        print(json.dumps({"sites": out}, indent=1))
        sys.exit(0)
    ok, msg, info = run()
    print(msg)
    for p in info.get("problems", []):
        print("  " + p)
    sys.exit(0 if ok else 1)
