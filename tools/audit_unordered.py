#!/usr/bin/env python3
"""C10 audit: list every place in gatery's {hlim,export,simulation,frontend,utils} sources whose result can depend on the
*order* of an address-ordered container, and compare with the committed reviewed list audit/unordered_sites.json.

Site kinds
  anyOrder   every `.anyOrder()` call (the escape hatch of UnstableSet/UnstableMap)
  range-for  `for (… : c)` over a std::set/map/multiset/multimap/unordered_* whose key type is not on the address-free
  begin      `c.begin()/cbegin()/rbegin()/std::begin(c)` of such a container (iteration, copy-out, "take the first")
  bound      `c.lower_bound/upper_bound/equal_range(…)` of such a container (neighbour by key order)
  sort       `std::sort/stable_sort/ranges::sort` whose comparator is not utils::StableCompare (default `<` on pointers …)
  order-op   a user-defined / defaulted `operator<` / `operator<=>` (a key type's order; address-dependent if it
             compares pointers) — every one is listed so that a new pointer-comparing order is noticed

Key-type rule (fail closed): a container is *address-free* only if its key is built from the whitelisted scalar / string
types below (through pair/tuple/vector/optional) and it has no custom comparator other than std::less<> or
utils::StableCompare. Every other key (raw pointers, NodePort with its default <=>, NodePtr, Conjunction, coroutine
handles, variants of slice descriptors, unknown classes) makes the container *address-ordered*.

A site's identity is (file, enclosing function, kind, container expression); its `hash` is the normalised text of the whole
enclosing function (for an ordering operator: of the operator's definition). Missing, new or changed (hash) sites break the tie. Line numbers are informational only.

Limits (stated in the evidence): variables declared `auto`, containers reached through `it->second` / function results of
unknown type are recognised only by *name* (a name declared anywhere as an address-ordered container is treated as one
everywhere in the scanned tree, which over-approximates); containers nested in other templates are tracked by the outer
variable's name.
"""
import hashlib
import json
import os
import re
import sys

REPO = os.environ.get("GATERY_REPO", "/repo")
VERIF = os.path.dirname(os.path.dirname(os.path.abspath(__file__)))
DIRS = ["hlim", "export", "simulation", "frontend", "utils"]
SRC = os.path.join(REPO, "source", "gatery")
REVIEWED = os.path.join(VERIF, "audit", "unordered_sites.json")

SAFE_SCALARS = {
    "std::string", "string", "std::string_view", "string_view", "size_t", "std::size_t", "std::uint64_t", "uint64_t", "std::uint32_t",
    "uint32_t", "std::int64_t", "int64_t", "int", "unsigned", "unsigned int", "bool", "char", "std::uint8_t", "uint8_t", "std::uint16_t",
    "std::filesystem::path", "std::type_index",
    # plain enums / value structs of the code base that contain no pointers (checked by the order-op review)
    "BitWidth", "ClockRational", "hlim::ClockRational",
}
CONTAINERS = r"(?:std::)?(?:unordered_)?(?:multi)?(?:set|map)"
KEYWORDS = {"for", "if", "while", "switch", "catch", "return", "else", "do", "sizeof", "decltype", "requires", "static_assert"}


def strip_comments(text):
    """remove comments and string/char literal contents, keeping newlines (so line numbers stay valid)"""
    out = []
    i, n = 0, len(text)
    while i < n:
        c = text[i]
        if text.startswith("//", i):
            j = text.find("\n", i)
            j = n if j < 0 else j
            i = j
        elif text.startswith("/*", i):
            j = text.find("*/", i + 2)
            j = n if j < 0 else j + 2
            out.append("".join(ch if ch == "\n" else " " for ch in text[i:j]))
            i = j
        elif c == '"':
            if text.startswith('R"', i - 1) and i > 0:
                m = re.match(r'"([^(]*)\(', text[i:])
                if m:
                    endtok = ")" + m.group(1) + '"'
                    j = text.find(endtok, i)
                    j = n if j < 0 else j + len(endtok)
                    out.append('"' + "".join(ch if ch == "\n" else " " for ch in text[i + 1:j - 1]) + '"')
                    i = j
                    continue
            j = i + 1
            while j < n and text[j] != '"':
                j += 2 if text[j] == "\\" else 1
            out.append('"' + " " * (j - i - 1) + '"')
            i = j + 1
        elif c == "'" and not (i > 0 and text[i - 1].isalnum()):
            j = i + 1
            while j < n and text[j] != "'":
                j += 2 if text[j] == "\\" else 1
            out.append("'" + " " * (j - i - 1) + "'")
            i = j + 1
        else:
            out.append(c)
            i += 1
    return "".join(out)


def match_angle(text, i):
    """text[i] == '<' ; returns index after the matching '>' (template brackets; '->' and '>>' handled), or -1"""
    depth, n = 0, len(text)
    j = i
    while j < n:
        ch = text[j]
        if ch == "<":
            depth += 1
        elif ch == ">":
            if text[j - 1] == "-":
                j += 1
                continue
            depth -= 1
            if depth == 0:
                return j + 1
        elif ch in ";{}":
            return -1
        j += 1
    return -1


def split_args(s):
    args, depth, cur = [], 0, []
    for ch in s:
        if ch in "<([":
            depth += 1
        elif ch in ">)]":
            depth -= 1
        if ch == "," and depth == 0:
            args.append("".join(cur).strip())
            cur = []
        else:
            cur.append(ch)
    if "".join(cur).strip():
        args.append("".join(cur).strip())
    return args


def key_is_safe(k):
    k = re.sub(r"\bconst\b", "", k).replace("&", "").strip()
    k = re.sub(r"\s+", " ", k)
    if "*" in k:
        return False
    if k in SAFE_SCALARS:
        return True
    m = re.match(r"(?:std::)?(pair|tuple|vector|optional|array)\s*<(.*)>$", k, re.S)
    if m:
        return all(key_is_safe(a) or re.fullmatch(r"\d+", a) for a in split_args(m.group(2)))
    return False


def classify(kind, args):
    """returns (address_ordered: bool, why)"""
    key = args[0] if args else "?"
    is_map = kind.endswith("map")
    unordered = "unordered_" in kind
    cmp_idx = 2 if is_map else 1
    comparator = args[cmp_idx] if len(args) > cmp_idx else None
    if comparator and "StableCompare" in comparator:
        return False, "StableCompare"
    if comparator and not unordered and not re.fullmatch(r"std::less<\s*>", comparator):
        return True, "custom comparator " + comparator
    if key_is_safe(key):
        return False, "address-free key"
    return True, ("hash of " if unordered else "default order of ") + re.sub(r"\s+", " ", key)


def enclosing_function(text, pos):
    """name of the innermost enclosing function definition (lambdas skipped) + the start of its body"""
    depth = 0
    i = pos
    while i > 0:
        i -= 1
        ch = text[i]
        if ch == "}":
            depth += 1
        elif ch == "{":
            if depth > 0:
                depth -= 1
                continue
            # unmatched '{' : look at its header
            j = i
            while j > 0 and text[j - 1] not in ";{}":
                j -= 1
            # a constructor's initialiser list may contain braces; good enough for this code base
            head = text[j:i]
            head_s = " ".join(head.split())
            m = re.search(r"([~\w:<>,\s\*&]*?)\b((?:[A-Za-z_]\w*(?:<[^()]*>)?::)*(?:operator\s*(?:\(\)|[^\s(]+)|~?[A-Za-z_]\w*))\s*\((.*)\)\s*((?:const|noexcept|override|final|mutable)\s*)*(->\s*[\w:<>&\*\s]+)?(:\s.*)?$", head_s)
            if m and m.group(2).split("::")[-1] not in KEYWORDS and not re.search(r"\]\s*(\(|$)", head_s.split(m.group(2))[0][-3:] if m.group(2) in head_s else ""):
                name = m.group(2)
                # lambda: `[...] (args) {`  -> the char before '(' group is ']'
                pre = head_s[:m.start(2)].rstrip()
                if not pre.endswith("]") and not re.match(r"(if|for|while|switch|catch)\b", name):
                    return name, i
            m2 = re.search(r"\b(class|struct)\s+([A-Za-z_][\w:]*(?:<.*>)?)", head_s)
            if m2 and "(" not in head_s:
                # member declared inside a class body (in-class code is found by the function regex first)
                return m2.group(2) + "{}", i
    return "<file scope>", 0


def statement_text(text, pos):
    """the loop/statement starting at the line of `pos`: up to the matching brace of a `for` body, else to the next ';'"""
    ls = text.rfind("\n", 0, pos) + 1
    m = re.match(r"\s*for\s*\(", text[ls:])
    if m:
        # find end of for header
        i = ls + m.end() - 1
        depth = 0
        while i < len(text):
            if text[i] == "(":
                depth += 1
            elif text[i] == ")":
                depth -= 1
                if depth == 0:
                    break
            i += 1
        j = i + 1
        while j < len(text) and text[j] in " \t\n":
            j += 1
        if j < len(text) and text[j] == "{":
            depth = 0
            k = j
            while k < len(text):
                if text[k] == "{":
                    depth += 1
                elif text[k] == "}":
                    depth -= 1
                    if depth == 0:
                        return text[ls:k + 1]
                k += 1
        # single statement body: to the next ';' at depth 0 (nested for/if with braces included)
        k, depth = j, 0
        while k < len(text):
            if text[k] in "({":
                depth += 1
            elif text[k] in ")}":
                depth -= 1
                if depth == 0 and text[k] == "}":
                    return text[ls:k + 1]
            elif text[k] == ";" and depth == 0:
                return text[ls:k + 1]
            k += 1
    e = text.find(";", pos)
    e = len(text) if e < 0 else e + 1
    return text[ls:e]


def match_brace(text, i):
    """text[i] == '{' -> index after the matching '}'"""
    d, j = 0, i
    while j < len(text):
        if text[j] == "{":
            d += 1
        elif text[j] == "}":
            d -= 1
            if d == 0:
                return j + 1
        j += 1
    return len(text)


def norm_hash(s):
    return hashlib.sha256(" ".join(s.split()).encode()).hexdigest()[:12]


def list_files():
    fs = []
    for d in DIRS:
        for root, _, names in os.walk(os.path.join(SRC, d)):
            for f in sorted(names):
                if f.endswith((".h", ".cpp", ".hpp")):
                    fs.append(os.path.join(root, f))
    return sorted(fs)


def scan():
    files = list_files()
    texts = {f: strip_comments(open(f, errors="replace").read()) for f in files}
    # ---- pass A: names of address-ordered containers (variables, members, parameters, functions returning them, aliases)
    unsafe_types = {}   # alias name -> why
    names = {}          # identifier -> set(why)
    decl_rx = re.compile(r"\b(" + CONTAINERS + r")\s*<")

    def record_decl(text, end, why):
        """after the closing '>' at `end`: find what is being declared"""
        rest = text[end:end + 200]
        m = re.match(r"\s*(?:const\s*)?[&\*]*\s*(?:const\s*)?([A-Za-z_]\w*)\s*(\(|;|=|\{|,|\)|\[)", rest)
        if m and m.group(1) not in KEYWORDS:
            names.setdefault(m.group(1), set()).add(why)
            return
        # nested in an outer template: walk outwards to the outer declaration's name
        m = re.match(r"\s*(?:[,>]|::)", rest)
        if m:
            # find the end of the outermost template argument list
            depth, j = 0, end
            while j < len(text) and text[j] not in ";{}()=":
                if text[j] == "<":
                    depth += 1
                elif text[j] == ">":
                    depth -= 1
                j += 1
                if depth < 0:
                    mm = re.match(r"\s*(?:const\s*)?[&\*]*\s*([A-Za-z_]\w*)\s*(\(|;|=|\{|,|\))", text[j:j + 200])
                    if mm and mm.group(1) not in KEYWORDS:
                        names.setdefault(mm.group(1), set()).add("nested: " + why)
                        return
                    depth = 0

    for f, text in texts.items():
        for m in decl_rx.finditer(text):
            lt = m.end() - 1
            end = match_angle(text, lt)
            if end < 0:
                continue
            args = split_args(text[lt + 1:end - 1])
            bad, why = classify(m.group(1), args)
            if not bad:
                continue
            why = re.sub(r"\s+", " ", m.group(1) + "<" + text[lt + 1:end - 1] + ">: " + why)
            if os.path.basename(f) == "StableContainers.h":
                continue  # the wrappers themselves; their escape hatch anyOrder() is a site kind of its own
            # alias?
            pre = text[max(0, m.start() - 80):m.start()]
            ma = re.search(r"\busing\s+([A-Za-z_]\w*)\s*=\s*(?:typename\s+)?$", pre)
            if ma:
                unsafe_types[ma.group(1)] = why
                continue
            record_decl(text, end, why)
    # declarations through aliases
    for alias, why in list(unsafe_types.items()):
        rx = re.compile(r"\b(?:[A-Za-z_]\w*::)*" + re.escape(alias) + r"\b(?!\s*=)")
        for f, text in texts.items():
            for m in rx.finditer(text):
                record_decl(text, m.end(), "alias " + alias + " = " + why)
    # ---- pass B: sites
    sites = []

    def add(f, text, pos, kind, container, why):
        fn, body_start = enclosing_function(text, pos)
        if kind == "order-op":
            # the operator's own definition: up to the matching brace if a body follows, else the declaration
            semi, brace = text.find(";", pos), text.find("{", pos)
            if brace >= 0 and (semi < 0 or brace < semi):
                st = text[text.rfind("\n", 0, pos) + 1:match_brace(text, brace)]
            else:
                st = statement_text(text, pos)
        elif fn not in ("<file scope>",) and not fn.endswith("{}"):
            # the whole enclosing function: a reason such as "sorted on the next line" depends on the surrounding code
            st = text[body_start:match_brace(text, body_start)]
        else:
            st = statement_text(text, pos)
        sites.append({"file": os.path.relpath(f, SRC), "function": fn, "kind": kind, "container": " ".join(container.split()),
                      "line": text.count("\n", 0, pos) + 1, "hash": norm_hash(st), "why_listed": why})

    name_alt = "|".join(sorted(map(re.escape, names), key=len, reverse=True)) or "$^"
    last_ident = re.compile(r"(?:^|[^\w])(" + name_alt + r")\s*(?:\(\s*\))?\s*$")
    for f, text in texts.items():
        if os.path.basename(f) == "StableContainers.h":
            continue
        for m in re.finditer(r"((?:[A-Za-z_]\w*(?:\(\s*\))?\s*(?:\.|->|::)\s*)*[A-Za-z_]\w*(?:\(\s*\))?)\s*\.\s*anyOrder\s*\(\s*\)", text):
            add(f, text, m.start(), "anyOrder", m.group(1), "UnstableSet/UnstableMap escape hatch")
        for m in re.finditer(r"\bfor\s*\(", text):
            i = m.end() - 1
            depth, j = 0, i
            while j < len(text):
                if text[j] == "(":
                    depth += 1
                elif text[j] == ")":
                    depth -= 1
                    if depth == 0:
                        break
                j += 1
            head = text[i + 1:j]
            if ";" in head:
                continue
            # range-for: split at the top-level ':' that is not '::'
            k = re.search(r"(?<!:):(?!:)", head)
            if not k:
                continue
            rng = head[k.end():].strip()
            if "anyOrder" in rng:
                continue
            mm = last_ident.search(rng)
            if mm:
                add(f, text, m.start(), "range-for", rng, "; ".join(sorted(names[mm.group(1)])))
        for m in re.finditer(r"\b(" + name_alt + r")\s*(?:\.|->)\s*(c?r?begin|lower_bound|upper_bound|equal_range)\s*\(", text):
            kind = "begin" if m.group(2).endswith("begin") else "bound"
            add(f, text, m.start(), kind, m.group(1), "; ".join(sorted(names[m.group(1)])))
        for m in re.finditer(r"\bstd::c?r?begin\s*\(\s*(" + name_alt + r")\s*\)", text):
            add(f, text, m.start(), "begin", m.group(1), "; ".join(sorted(names[m.group(1)])))
        for m in re.finditer(r"\b(?:std::|std::ranges::|ranges::)(?:stable_)?sort\s*\(", text):
            st = statement_text(text, m.start())
            if "StableCompare" in st:
                continue
            arg = st[st.find("(", st.find("sort")) + 1:]
            add(f, text, m.start(), "sort", split_args(arg)[0].rstrip(");") if arg else "?", "sort without utils::StableCompare")
        for m in re.finditer(r"\boperator\s*(<=>|<)\s*\(", text):
            ls = text.rfind("\n", 0, m.start()) + 1
            le = text.find("\n", m.start())
            line = text[ls:le]
            if re.search(r"\b(Bit|UInt|SInt|BVec)\b.*operator\s*<\s*\(", line) and "frontend" in f:
                continue  # hardware comparison operators of the frontend signal types
            if line.strip().startswith("//"):
                continue
            add(f, text, m.start(), "order-op", "operator" + m.group(1), "ordering operator (address-dependent iff it compares pointers)")
        if os.path.basename(f) != "StableContainers.cpp":
            # comparator functors (StableCompare specialisations outside StableContainers.*, priority-queue orders, …)
            for m in re.finditer(r"\bbool\s+operator\s*\(\s*\)\s*\(([^)]*)\)", text):
                if m.group(1).count(",") == 1:
                    add(f, text, m.start(), "order-op", "operator()", "binary comparator functor (address-dependent iff it compares pointers)")
    # merge duplicates of the same identity (several uses in one function): keep all lines, combine hashes
    merged = {}
    for s in sites:
        key = (s["file"], s["function"], s["kind"], s["container"])
        e = merged.setdefault(key, {"file": s["file"], "function": s["function"], "kind": s["kind"], "container": s["container"],
                                    "lines": [], "hashes": [], "why_listed": s["why_listed"]})
        if s["line"] not in e["lines"]:
            e["lines"].append(s["line"])
            e["hashes"].append(s["hash"])
    out = []
    for key in sorted(merged):
        e = merged[key]
        e["hash"] = norm_hash(" ".join(e.pop("hashes")))
        out.append(e)
    return out, {"files_scanned": len(files), "address_ordered_container_names": sorted(names), "aliases": sorted(unsafe_types)}


def site_key(e):
    return "%s | %s | %s | %s" % (e["file"], e["function"], e["kind"], e["container"])


def compare(found, reviewed):
    """returns list of problems (strings)"""
    problems = []
    rv = {site_key(e): e for e in reviewed.get("sites", [])}
    fd = {site_key(e): e for e in found}
    for k, e in fd.items():
        if k not in rv:
            problems.append("NEW unreviewed site: %s (lines %s) [%s]" % (k, e["lines"], e["why_listed"]))
        else:
            r = rv[k]
            if r.get("hash") != e["hash"]:
                problems.append("CHANGED site (code of the loop/statement differs from the reviewed one): %s (lines %s)" % (k, e["lines"]))
            if not r.get("reason") or not r.get("category"):
                problems.append("site without review reason: " + k)
            elif r.get("category") == "ORDER-SENSITIVE":
                pass  # reported separately by the caller (a finding, not a tie break)
    for k in rv:
        if k not in fd:
            problems.append("reviewed site no longer found (code moved/renamed; review again): " + k)
    return problems


def run():
    """(ok, message, info) — used by checks/c10.py"""
    try:
        found, info = scan()
    except Exception as e:  # fail closed
        return False, "audit_unordered: scanner failed: %r" % (e,), {}
    if not os.path.exists(REVIEWED):
        return False, "audit_unordered: %s missing" % REVIEWED, {}
    reviewed = json.load(open(REVIEWED))
    problems = compare(found, reviewed)
    cats = {}
    for e in reviewed.get("sites", []):
        cats[e.get("category", "?")] = cats.get(e.get("category", "?"), 0) + 1
    info.update({"sites_found": len(found), "sites_reviewed": len(reviewed.get("sites", [])), "categories": cats,
                 "order_sensitive": [site_key(e) for e in reviewed.get("sites", []) if e.get("category") == "ORDER-SENSITIVE"],
                 "order_sensitive_signatures": sorted({s for e in reviewed.get("sites", []) if e.get("category") == "ORDER-SENSITIVE" for s in e.get("signatures", [])}),
                 "problems": problems})
    if problems:
        return False, "audit_unordered: %d problem(s): %s" % (len(problems), " || ".join(problems[:6])), info
    return True, "audit_unordered: %d sites, all reviewed" % len(found), info


if __name__ == "__main__":
    if len(sys.argv) > 1 and sys.argv[1] == "--list":
        found, info = scan()
        for e in found:
            print("%-50s %-45s %-9s %-40s %s %s" % (e["file"], e["function"][:45], e["kind"], e["container"][:40], e["lines"], e["hash"]))
        print(json.dumps(info, indent=1))
        print(len(found), "sites")
        sys.exit(0)
    if len(sys.argv) > 1 and sys.argv[1] == "--skeleton":
        # merge: keep reviewed reasons, add new sites with empty reason, refresh hashes/lines
        found, info = scan()
        old = json.load(open(REVIEWED)) if os.path.exists(REVIEWED) else {"sites": []}
        rv = {site_key(e): e for e in old.get("sites", [])}
        out = []
        for e in found:
            r = rv.get(site_key(e), {})
            e2 = dict(e)
            e2["category"] = r.get("category", "")
            e2["reason"] = r.get("reason", "")
            if r and r.get("hash") != e["hash"]:
                e2["reason"] = "(CODE CHANGED — review again) " + e2["reason"]
            out.append(e2)
        print(json.dumps({"sites": out}, indent=1))
        sys.exit(0)
    ok, msg, info = run()
    print(msg)
    for p in info.get("problems", []):
        print("  " + p)
    sys.exit(0 if ok else 1)
