#!/bin/bash
# Incremental rebuild of gatery (core + scl) from /repo's current working tree with hooks on.
# Usage: build_repo.sh [plain|asan]
set -e
VERIF="$(cd "$(dirname "$0")/.." && pwd)"
REPO="${GATERY_REPO:-/repo}"
FLAVOR="${1:-plain}"
BROOT="${VERIF_BUILD:-$VERIF/.build}"
BDIR="$BROOT/gatery-$FLAVOR"
FLAGS="-O1 -g0 -w -DGATERY_VERIF"
if [ "$FLAVOR" = asan ]; then FLAGS="-O1 -g1 -w -DGATERY_VERIF -fsanitize=address,undefined -fno-sanitize=vptr -fno-sanitize-recover=all -fno-omit-frame-pointer"; fi
mkdir -p "$BROOT"
exec 9>"$BROOT/.lock-$FLAVOR"
flock 9
if [ ! -f "$BDIR/build.ninja" ]; then
  cmake -S "$REPO" -B "$BDIR" -G Ninja -DCMAKE_BUILD_TYPE=None -DCMAKE_CXX_FLAGS="$FLAGS" >"$BDIR.cmake.log" 2>&1 || { cat "$BDIR.cmake.log"; exit 2; }
fi
# file(GLOB_RECURSE) is evaluated at configure time: re-run cmake when the set of source files changed
LIST="$BDIR/.srclist"
( cd "$REPO" && find source/gatery -name '*.cpp' -o -name '*.h' -o -name '*.c' | sort ) > "$LIST.new"
if ! cmp -s "$LIST.new" "$LIST" 2>/dev/null; then
  cmake -S "$REPO" -B "$BDIR" >"$BDIR.cmake.log" 2>&1 || { cat "$BDIR.cmake.log"; exit 2; }
  mv "$LIST.new" "$LIST"
else rm -f "$LIST.new"; fi
ninja -C "$BDIR" gatery_core gatery_scl > "$BDIR.ninja.log" 2>&1 || { tail -50 "$BDIR.ninja.log"; exit 2; }
echo "$BDIR"
