#!/usr/bin/env python3
"""add or replace a check entry in MANIFEST.json:  manifest_add.py <ID> <level_text> <level_note> <technique> [design_ref]"""
import json, sys
pid, text, note, tech = sys.argv[1:5]
ref = sys.argv[5] if len(sys.argv) > 5 else "DESIGN.md §5 " + pid
m = json.load(open('/verif/MANIFEST.json'))
low = pid.lower()
entry = {"property_id": pid, "quick_cmd": "python3 checks/%s.py --tier quick" % low, "thorough_cmd": "python3 checks/%s.py --tier thorough" % low,
         "evidence_file": "evidence/%s.json" % pid, "replay_cmd_template": "python3 checks/%s.py --replay {path}" % low, "engine": "lean-model",
         "level_claimed": {"category": "proof", "text": text, "design_ref": ref}, "level_note": note, "technique": tech}
m['checks'] = [c for c in m['checks'] if c['property_id'] != pid] + [entry]
m['checks'].sort(key=lambda c: c['property_id'])
m['not_applicable'] = [x for x in m.get('not_applicable', []) if x['property_id'] != pid]
for e in m['engines']:
    e['serves_properties'] = sorted(set(e['serves_properties']) | {pid})
json.dump(m, open('/verif/MANIFEST.json', 'w'), indent=1)
print("manifest:", [c['property_id'] for c in m['checks']])
