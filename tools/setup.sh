#!/bin/bash
# MANIFEST.setup_cmd: build everything the checks need from files on disk (offline).
set -e
VERIF="$(cd "$(dirname "$0")/.." && pwd)"
cd "$VERIF"
tools/build_repo.sh plain >/dev/null
( cd lean && lake build 2>&1 | tail -3 )
python3 - <<'PY'
import os, sys, glob
sys.path.insert(0, 'tools')
import vlib
b, log = vlib.build_gatery()
from concurrent.futures import ThreadPoolExecutor
names = [os.path.basename(f)[:-4] for f in glob.glob('harness/*.cpp')]
def one(n):
    h, log = vlib.build_harness(n, b)
    return n, h is not None, log[-2000:]
with ThreadPoolExecutor(8) as ex:
    for n, ok, log in ex.map(one, names):
        print('harness', n, 'ok' if ok else 'FAILED\n' + log)
PY
echo setup done
