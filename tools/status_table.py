#!/usr/bin/env python3
"""print a markdown status table from evidence/*.json, known_findings.json and the Lean sources (for DESIGN.md §10.6)"""
import json, glob, os, re
V = os.path.dirname(os.path.dirname(os.path.abspath(__file__)))
k = json.load(open(os.path.join(V, "known_findings.json")))["findings"]
print("| id | theorems (axioms clean) | model+proof lines | quick tier: cases / evaluations | fixed | known |")
print("|----|------|------|------|------|------|")
for f in sorted(glob.glob(os.path.join(V, "evidence", "C*.json"))):
    e = json.load(open(f)); pid = e["property_id"]; c = e["coverage"]
    lines = 0
    for d in glob.glob(os.path.join(V, "lean", "GateryModel", pid, "*.lean")) + [os.path.join(V, "lean", "GateryModel", "Properties", pid + ".lean")]:
        lines += sum(1 for _ in open(d))
    fixed = sum(1 for x in k if x["property"] == pid and x["kind"] == "fixed")
    known = sum(1 for x in k if x["property"] == pid and x["kind"] == "known")
    print("| %s | %d/%d | %d | %s / %s | %d | %d |" % (pid, c.get("discharged", 0), c.get("obligations", 0), lines,
          c.get("traces_validated_against_impl", "-"), c.get("evaluations", "-"), fixed, known))
