#!/usr/bin/env python3
"""Translator: leaf bit arithmetic of utils/BitManipulation.h  ->  lean/GateryModel/Gen/BitManip.lean

Regenerated on every check run (C18 and everything built on the word-level container). The generic template
bodies (T = std::uint64_t) of andNot / bitMaskRange / bitfieldExtract / bitfieldInsert are parsed with a small C
expression parser and re-emitted as Lean `BitVec 64` / `Nat` terms. Anything the parser does not understand
raises (fail closed). The BMI intrinsics specialisations are behind `#ifdef __BMI__`, which the build does not
define (no -march flag in CMakeLists.txt / tools/build_repo.sh); the translator checks that.
"""
import os
import re
import sys

REPO = os.environ.get("GATERY_REPO", "/repo")
VERIF = os.path.dirname(os.path.dirname(os.path.abspath(__file__)))
SRC = os.path.join(REPO, "source/gatery/utils/BitManipulation.h")
OUT = os.path.join(os.environ.get("VERIF_LEAN", os.path.join(VERIF, "lean")), "GateryModel/Gen/BitManip.lean")


class TErr(Exception):
    pass


TOK = re.compile(r"\s*(0[xX][0-9a-fA-F]+(?:ull|ULL|u|U)?|\d+(?:ull|ULL|u|U)?|[A-Za-z_][A-Za-z_0-9:]*|<<=|>>=|<<|>>|>=|<=|==|!=|&=|\|=|[-+*/%&|^~!<>(){},;=])")


def tokenize(s):
    out, i = [], 0
    s = s.strip()
    while i < len(s):
        m = TOK.match(s, i)
        if not m:
            raise TErr("cannot tokenize at: " + s[i:i + 30])
        out.append(m.group(1))
        i = m.end()
    return out


class P:
    """expression parser producing (lean_text, type) with type in {'W','N','B'}; literals are ('lit', value)"""

    def __init__(self, toks, env, funcs):
        self.t, self.i, self.env, self.funcs = toks, 0, env, funcs

    def peek(self):
        return self.t[self.i] if self.i < len(self.t) else None

    def eat(self, x=None):
        tok = self.peek()
        if tok is None or (x is not None and tok != x):
            raise TErr("expected %r got %r" % (x, tok))
        self.i += 1
        return tok

    # --- helpers on typed values
    @staticmethod
    def asW(v):
        if v[0] == 'lit':
            return "(%d#64)" % v[1]
        if v[1] != 'W':
            raise TErr("expected word operand: %r" % (v,))
        return v[0]

    @staticmethod
    def asN(v):
        if v[0] == 'lit':
            return str(v[1])
        if v[1] != 'N':
            raise TErr("expected size_t operand: %r" % (v,))
        return v[0]

    def binop(self, op, a, b):
        if a[0] == 'lit' and b[0] == 'lit':
            f = {'+': lambda x, y: x + y, '-': lambda x, y: x - y, '*': lambda x, y: x * y, '&': lambda x, y: x & y,
                 '|': lambda x, y: x | y, '^': lambda x, y: x ^ y, '<<': lambda x, y: x << y, '>>': lambda x, y: x >> y}.get(op)
            if f is None:
                raise TErr("const op " + op)
            return ('lit', f(a[1], b[1]))
        lean = {'+': '+', '-': '-', '*': '*', '&': '&&&', '|': '|||', '^': '^^^'}
        if op in ('<<', '>>'):
            sh = '<<<' if op == '<<' else '>>>'
            ty = 'W' if (a[0] != 'lit' and a[1] == 'W') else 'N'
            left = self.asW(a) if ty == 'W' else self.asN(a)
            return ("(%s %s %s)" % (left, sh, self.asN(b)), ty)
        if op in lean:
            ty = 'W' if ((a[0] != 'lit' and a[1] == 'W') or (b[0] != 'lit' and b[1] == 'W')) else 'N'
            cv = self.asW if ty == 'W' else self.asN
            return ("(%s %s %s)" % (cv(a), lean[op], cv(b)), ty)
        if op in ('>=', '<=', '<', '>', '==', '!='):
            ty = 'W' if ((a[0] != 'lit' and a[1] == 'W') or (b[0] != 'lit' and b[1] == 'W')) else 'N'
            cv = self.asW if ty == 'W' else self.asN
            l = {'>=': '≥', '<=': '≤', '<': '<', '>': '>', '==': '=', '!=': '≠'}[op]
            return ("%s %s %s" % (cv(a), l, cv(b)), 'B')
        raise TErr("operator " + op)

    LEVELS = [['|'], ['^'], ['&'], ['==', '!='], ['<', '>', '<=', '>='], ['<<', '>>'], ['+', '-'], ['*']]

    def expr(self, lvl=0):
        if lvl == len(self.LEVELS):
            return self.unary()
        a = self.expr(lvl + 1)
        while self.peek() in self.LEVELS[lvl]:
            op = self.eat()
            b = self.expr(lvl + 1)
            a = self.binop(op, a, b)
        return a

    def unary(self):
        if self.peek() == '~':
            self.eat()
            v = self.unary()
            return ("(~~~%s)" % self.asW(v), 'W')
        return self.primary()

    def primary(self):
        tok = self.eat()
        if tok == '(':
            v = self.expr()
            self.eat(')')
            return v
        if re.match(r"0[xX]|\d", tok):
            return ('lit', int(re.sub(r"(ull|ULL|u|U)$", "", tok), 0))
        if tok == 'sizeof':
            self.eat('('); self.eat('T'); self.eat(')')
            return ('lit', 8)
        if tok == 'T':  # T(0) or T{ 1 }
            o = self.eat()
            if o not in '({':
                raise TErr("T" + o)
            v = self.expr()
            self.eat(')' if o == '(' else '}')
            if v[0] != 'lit':
                raise TErr("T(non-literal)")
            return ("(%d#64)" % v[1], 'W')
        if tok in self.funcs:
            if self.peek() == '<':
                self.eat('<'); self.eat('T'); self.eat('>')
            self.eat('(')
            args = []
            while self.peek() != ')':
                args.append(self.expr())
                if self.peek() == ',':
                    self.eat(',')
            self.eat(')')
            ptys, rty = self.funcs[tok]
            if len(ptys) != len(args):
                raise TErr("arity of " + tok)
            txt = " ".join((self.asW(a) if ty == 'W' else self.asN(a)) for a, ty in zip(args, ptys))
            return ("(%s %s)" % (tok, txt), rty)
        if tok in self.env:
            return (tok, self.env[tok])
        raise TErr("unknown identifier " + tok)


def strip_outer(s):
    # remove one redundant outer pair of parentheses
    if s.startswith("(") and s.endswith(")"):
        d = 0
        for i, c in enumerate(s):
            d += c == '('
            d -= c == ')'
            if d == 0 and i < len(s) - 1:
                return s
        return s[1:-1]
    return s


def translate_body(body, env, funcs, ret):
    """body: C statements; returns Lean term lines"""
    stmts = [s.strip() for s in body.split(';') if s.strip()]
    lines = []
    env = dict(env)
    for k, s in enumerate(stmts):
        m = re.match(r"if\s*\((.*)\)\s*return\s+(.*)$", s, re.S)
        if m:
            c = P(tokenize(m.group(1)), env, funcs).expr()
            if c[1] != 'B':
                raise TErr("condition not boolean")
            e = P(tokenize(m.group(2)), env, funcs).expr()
            val = P.asW(e) if ret == 'W' else P.asN(e)
            lines.append("if %s then %s else" % (c[0], strip_outer(val)))
            continue
        m = re.match(r"return\s+(.*)$", s, re.S)
        if m:
            p = P(tokenize(m.group(1)), env, funcs)
            e = p.expr()
            if p.peek() is not None:
                raise TErr("trailing tokens in return")
            val = P.asW(e) if ret == 'W' else P.asN(e)
            lines.append(strip_outer(val))
            if k != len(stmts) - 1:
                raise TErr("code after return")
            return lines
        m = re.match(r"(auto|T)\s+(\w+)\s*=\s*(.*)$", s, re.S)
        if m:
            e = P(tokenize(m.group(3)), env, funcs).expr()
            ty = 'W' if (m.group(1) == 'T' or (e[0] != 'lit' and e[1] == 'W')) else 'N'
            val = P.asW(e) if ty == 'W' else P.asN(e)
            env[m.group(2)] = ty
            lines.append("let %s := %s" % (m.group(2), strip_outer(val)))
            continue
        m = re.match(r"(\w+)\s*&=\s*(.*)$", s, re.S)
        if m and m.group(1) in env:
            e = P(tokenize(m.group(1) + " & (" + m.group(2) + ")"), env, funcs).expr()
            val = P.asW(e) if env[m.group(1)] == 'W' else P.asN(e)
            lines.append("let %s := %s" % (m.group(1), strip_outer(val)))
            continue
        raise TErr("statement not understood: " + s)
    raise TErr("no return")


FUNCS = [
    # name, regex for the generic template definition, params (name,type), return type
    ("andNot", r"template<typename T>\s*inline T andNot\(T a, T b\)\s*\{(.*?)\}", [("a", "W"), ("b", "W")], "W"),
    ("bitMaskRange", r"template<typename T = std::size_t>\s*inline T bitMaskRange\(size_t start, size_t count\)\s*\{(.*?)\n\}", [("start", "N"), ("count", "N")], "W"),
    ("bitfieldExtract", r"template<typename T>\s*inline T bitfieldExtract\(T a, size_t start, size_t count\)\s*\{(.*?)\n\}", [("a", "W"), ("start", "N"), ("count", "N")], "W"),
    ("bitfieldInsert", r"template<typename T>\s*inline T bitfieldInsert\(T a, size_t start, size_t count, T v\)\s*\{(.*?)\n\}", [("a", "W"), ("start", "N"), ("count", "N"), ("v", "W")], "W"),
]


def generate():
    text = open(SRC).read()
    # strip comments
    text_nc = re.sub(r"//[^\n]*", "", text)
    text_nc = re.sub(r"/\*.*?\*/", "", text_nc, flags=re.S)
    cm = open(os.path.join(REPO, "CMakeLists.txt")).read()
    if re.search(r"-m(arch|bmi)", cm):
        raise TErr("CMakeLists.txt passes -march/-mbmi: BMI specialisations of bitfieldExtract/andNot may be active (not modelled)")
    funcs = {}
    out = ["/-! GENERATED by tools/translate_bitmanip.py from source/gatery/utils/BitManipulation.h — do not edit by hand.",
           "    T = std::uint64_t. C++ `<<`/`>>` on uint64_t with a shift count < 64 (the callers' preconditions) are BitVec shifts;",
           "    `size_t` values are `Nat` (no size_t arithmetic in these bodies can wrap for arguments < 2^63). -/",
           "namespace Gatery.Gen", "", "abbrev W := BitVec 64", ""]
    for name, rx, params, ret in FUNCS:
        ms = re.findall(rx, text_nc, re.S)
        if len(ms) != 1:
            raise TErr("expected exactly one generic definition of %s, found %d" % (name, len(ms)))
        body = ms[0]
        lines = translate_body(body, dict(params), funcs, ret)
        funcs[name] = ([t for _, t in params], ret)
        sig = " ".join("(%s : %s)" % (n, "W" if t == "W" else "Nat") for n, t in params)
        csrc = " ".join(body.split())
        out.append("/-- C++: `%s` -/" % csrc.replace("`", "'"))
        out.append("def %s %s : %s :=" % (name, sig, "W" if ret == "W" else "Nat"))
        out += ["  " + l for l in lines]
        out.append("")
    out += ["end Gatery.Gen", ""]
    return "\n".join(out)


def run():
    """returns (ok, message); writes the file only if its content changed (keeps lake's incremental build quiet)"""
    try:
        new = generate()
    except (TErr, OSError) as e:
        return False, "translate_bitmanip: %s" % e
    old = open(OUT).read() if os.path.exists(OUT) else None
    if new != old:
        with open(OUT, "w") as f:
            f.write(new)
        return True, "Gen/BitManip.lean regenerated (content changed)"
    return True, "Gen/BitManip.lean unchanged"


if __name__ == "__main__":
    ok, msg = run()
    print(msg)
    sys.exit(0 if ok else 1)
