#!/usr/bin/env python3
"""Translator: the stable comparators of gatery  ->  lean/GateryModel/Gen/StableCompare.lean   (property C10)

Sources (C++ text of /repo's working tree, re-read on every check run):
  utils/StableContainers.cpp   StableCompare<NodePort>, <RefCtdNodePort>, stableCompareWithId<T>, stableCompareNodes,
                               StableCompare<Clock*>, <NodeGroup*>, <Node_Pin*>, <Node_MultiDriver*>
  utils/StableContainers.h     StableCompare<NodeType*> (forwarding template), StableSet/StableMap aliases, UnstableSet/UnstableMap API
  export/vhdl/NamespaceScope.h StableCompare<vhdl::NodeInternalStorageSignal>
  export/vhdl/Process.h        StableCompare<vhdl::RegisterConfig>

Every body is parsed with a small statement/expression parser for the fragment
    if (e) stmt [else stmt] | { stmt* } | return e; | utils::StableCompare<T> name;
    e ::= a == nullptr | a != nullptr | a < b | a > b | f(a, b) | true | false
    a ::= lhs | rhs | lhs.field | lhs.node->getId() | lhs->getId()
and re-emitted as a Lean term in the monad `M = Option` of GateryModel/C10/Basis.lean (`none` = null dereference).
Anything else raises (fail closed). The translator also checks
  * the struct layouts the Lean basis assumes (NodePort, RefCtdNodePort, NodeInternalStorageSignal, RegisterConfig),
  * that every key type used with StableSet/StableMap anywhere in source/gatery has a translated comparator,
  * that StableSet/StableMap are std::set/std::map over StableCompare and that the public interface of UnstableSet/UnstableMap
    is exactly the reviewed one (the members modelled in C10/Unstable.lean + anyOrder(), which the audit tracks + operator<=>,
    which the audit lists as an order-op).
"""
import os
import re
import sys

REPO = os.environ.get("GATERY_REPO", "/repo")
VERIF = os.path.dirname(os.path.dirname(os.path.abspath(__file__)))
SRC = os.path.join(REPO, "source/gatery")
OUT = os.path.join(os.environ.get("VERIF_LEAN", os.path.join(VERIF, "lean")), "GateryModel/Gen/StableCompare.lean")


class TErr(Exception):
    pass


def strip_comments(t):
    t = re.sub(r"/\*.*?\*/", " ", t, flags=re.S)
    return re.sub(r"//[^\n]*", "", t)


TOK = re.compile(r"\s*(->|==|!=|<=|>=|::|[A-Za-z_]\w*|\d+|[-+*/%&|^~!<>(){},;=.\[\]])")


def tokenize(s):
    out, i = [], 0
    s = s.strip()
    while i < len(s):
        m = TOK.match(s, i)
        if not m:
            raise TErr("cannot tokenize at: " + s[i:i + 40])
        out.append(m.group(1))
        i = m.end()
    return out


# field tables of the key structs: field -> ('ptr'|'nat')
STRUCTS = {
    "NodePort": {"node": "ptr", "port": "nat"},
    "StorageSignal": {"node": "ptr", "signalIdx": "nat"},
    "RegisterConfig": {"clock": "ptr", "reset": "ptr", "triggerEvent": "nat", "resetType": "nat", "resetHighActive": "nat"},
}


class Parser:
    def __init__(self, toks, ptype, funcs):
        self.t, self.i = toks, 0
        self.ptype = ptype          # 'ptr' or a struct name: type of lhs/rhs
        self.funcs = dict(funcs)    # callable name -> (lean name, arg type)

    def peek(self, k=0):
        return self.t[self.i + k] if self.i + k < len(self.t) else None

    def eat(self, x=None):
        tok = self.peek()
        if tok is None or (x is not None and tok != x):
            raise TErr("expected %r, got %r (…%s)" % (x, tok, " ".join(self.t[max(0, self.i - 6):self.i + 3])))
        self.i += 1
        return tok

    # ---- statements: returns a Lean term (string); `k` = translation of what follows (None = nothing follows)
    def block(self, k):
        """`{ stmt* }` already opened; parses up to the matching '}'"""
        stmts = []
        start = self.i
        # collect statement start positions by parsing recursively with continuation: parse list right-to-left is awkward,
        # so parse into an AST first
        ast = []
        while self.peek() != "}":
            if self.peek() is None:
                raise TErr("unterminated block")
            ast.append(self.stmt_ast())
        self.eat("}")
        return ast

    def stmt_ast(self):
        tok = self.peek()
        if tok == "{":
            self.eat("{")
            return ("block", self.block(None))
        if tok == "if":
            self.eat("if"); self.eat("(")
            c = self.expr()
            self.eat(")")
            th = self.stmt_ast()
            el = None
            if self.peek() == "else":
                self.eat("else")
                el = self.stmt_ast()
            return ("if", c, th, el)
        if tok == "return":
            self.eat("return")
            e = self.expr()
            self.eat(";")
            return ("return", e)
        if tok == "utils" or tok == "StableCompare":
            # local comparator object:  utils::StableCompare<hlim::Clock*> name;
            txt = []
            while self.peek() != ";":
                txt.append(self.eat())
            self.eat(";")
            s = "".join(txt)
            m = re.fullmatch(r"(?:utils::)?StableCompare<(?:hlim::)?(\w+)\*>(\w+)", s)
            if not m:
                raise TErr("local declaration not understood: " + s)
            if m.group(1) not in PTR_KEYS:
                raise TErr("local comparator for unknown pointer key " + m.group(1))
            self.funcs[m.group(2)] = (PTR_KEYS[m.group(1)], "ptr")
            return ("nop",)
        raise TErr("statement not understood at: " + " ".join(self.t[self.i:self.i + 8]))

    # ---- expressions: returns (lean, type) with type in {'B','N','P','K'} (M Bool, M Nat, Ptr, key struct)
    def expr(self):
        a = self.operand()
        op = self.peek()
        if op in ("==", "!="):
            self.eat()
            self.eat("nullptr")
            if a[1] != "P":
                raise TErr("nullptr comparison of a non-pointer")
            return ("(%s %s)" % ("isNull" if op == "==" else "notNull", a[0]), "B")
        if op in ("<", ">"):
            self.eat()
            b = self.operand()
            if a[1] != "N" or b[1] != "N":
                raise TErr("'<'/'>' on non-integers (a pointer comparison would be address dependent!): %r %s %r" % (a, op, b))
            return ("(%s %s %s)" % ("ltM" if op == "<" else "gtM", a[0], b[0]), "B")
        if a[1] != "B":
            raise TErr("expression is not boolean: %r" % (a,))
        return a

    def operand(self):
        tok = self.eat()
        if tok in ("true", "false"):
            return ("(some %s)" % tok, "B")
        if tok in ("lhs", "rhs"):
            base, ty = tok, self.ptype
            if self.peek() == ".":
                if ty == "ptr":
                    raise TErr("field access on a pointer key")
                self.eat(".")
                f = self.eat()
                fields = STRUCTS[ty]
                if f not in fields:
                    raise TErr("unknown field %s.%s" % (ty, f))
                base = "%s.%s" % (tok, f)
                ty = fields[f]
            elif ty != "ptr":
                return (tok, "K")
            if ty == "ptr":
                if self.peek() == "->":
                    self.eat("->"); self.eat("getId"); self.eat("("); self.eat(")")
                    return ("(getId %s)" % base, "N")
                return (base, "P")
            return ("(some %s)" % base, "N")
        if tok in self.funcs:
            lean, aty = self.funcs[tok]
            if self.peek() == "<":     # explicit template argument
                while self.eat() != ">":
                    pass
            self.eat("(")
            a = self.operand(); self.eat(","); b = self.operand()
            self.eat(")")
            want = "P" if aty == "ptr" else "K"
            if a[1] != want or b[1] != want:
                raise TErr("argument types of %s" % tok)
            return ("(%s %s %s)" % (lean, a[0], b[0]), "B")
        raise TErr("operand not understood: %r (…%s)" % (tok, " ".join(self.t[max(0, self.i - 6):self.i + 3])))


def lower(ast_list, k):
    """sequence of statements followed by continuation k (None = falls off the end)"""
    if not ast_list:
        return k
    s, rest = ast_list[0], ast_list[1:]
    kr = lower(rest, k)
    if s[0] == "nop":
        return kr
    if s[0] == "return":
        if rest and any(x[0] != "nop" for x in rest):
            raise TErr("unreachable code after return")
        return s[1][0]
    if s[0] == "block":
        return lower(s[1], kr)
    if s[0] == "if":
        th = lower([s[2]], kr)
        el = lower([s[3]], kr) if s[3] is not None else kr
        if th is None or el is None:
            raise TErr("control reaches the end of a non-void function")
        return "(ifM %s\n    %s\n    %s)" % (s[1][0], th.replace("\n", "\n  "), el.replace("\n", "\n  "))
    raise TErr("ast " + s[0])


def translate(body, ptype, funcs):
    p = Parser(tokenize(body), ptype, funcs)
    ast = []
    while p.peek() is not None:
        ast.append(p.stmt_ast())
    term = lower(ast, None)
    if term is None:
        raise TErr("no return")
    return term


# pointer key class -> Lean comparator name
PTR_KEYS = {"Clock": "cmpClockPtr", "NodeGroup": "cmpNodeGroupPtr", "Node_Pin": "cmpNodePinPtr", "Node_MultiDriver": "cmpMultiDriverPtr",
            "BaseNode": "cmpNodePtr"}


def body_of(text, header_rx, what):
    ms = list(re.finditer(header_rx, text, re.S))
    if len(ms) != 1:
        raise TErr("expected exactly one definition of %s, found %d" % (what, len(ms)))
    i = ms[0].end() - 1
    if text[i] != "{":
        raise TErr("header regex of %s must end at '{'" % what)
    d, j = 0, i
    while j < len(text):
        if text[j] == "{":
            d += 1
        elif text[j] == "}":
            d -= 1
            if d == 0:
                return text[i + 1:j]
        j += 1
    raise TErr("unbalanced braces in " + what)


def check_struct(text, name, fields_rx, what):
    m = re.search(r"struct\s+" + name + r"\s*\{(.*?)\n\};", text, re.S)
    if not m:
        raise TErr("struct %s not found (%s)" % (name, what))
    body = m.group(1)
    # data members = declarations at nesting depth 0 that are not functions
    depth, cur, members = 0, [], []
    for ch in body:
        if ch == "{":
            depth += 1
        elif ch == "}":
            depth -= 1
            if depth == 0:
                cur = []
                continue
        if depth == 0:
            if ch == ";":
                members.append(" ".join("".join(cur).split()))
                cur = []
            else:
                cur.append(ch)
    data = [d for d in members if d and "(" not in d.split("=")[0] and "operator" not in d and not d.startswith(("using", "static", "friend"))]
    if len(data) != len(fields_rx):
        raise TErr("struct %s: data members %r do not match the modelled layout (%s)" % (name, data, what))
    for d, rx in zip(data, fields_rx):
        if not re.fullmatch(rx, d):
            raise TErr("struct %s: member %r does not match %r" % (name, d, rx))


def generate():
    rd = lambda p: strip_comments(open(os.path.join(SRC, p)).read())
    cpp = rd("utils/StableContainers.cpp")
    hdr = rd("utils/StableContainers.h")
    nsh = rd("export/vhdl/NamespaceScope.h")
    prh = rd("export/vhdl/Process.h")
    nph = rd("hlim/NodePort.h")
    # --- layouts assumed by Basis.lean
    check_struct(nph, "NodePort", [r"BaseNode \*node = nullptr", r"size_t port = INV_PORT"], "hlim/NodePort.h")
    check_struct(nph, "RefCtdNodePort", [r"NodePtr<BaseNode> node", r"size_t port = INV_PORT"], "hlim/NodePort.h")
    check_struct(nsh, "NodeInternalStorageSignal", [r"hlim::BaseNode \*node", r"size_t signalIdx"], "export/vhdl/NamespaceScope.h")
    check_struct(prh, "RegisterConfig", [r"hlim::Clock \*clock = nullptr", r"hlim::Clock \*reset = nullptr", r"hlim::Clock::TriggerEvent triggerEvent = .*",
                                         r"hlim::RegisterAttributes::ResetType resetType = .*", r"bool resetHighActive = true"], "export/vhdl/Process.h")
    if "bool operator==(std::nullptr_t)" not in rd("hlim/NodePtr.h").replace("  ", " ") and not re.search(r"operator\s*==\s*\(\s*(std::)?nullptr_t", rd("hlim/NodePtr.h")):
        # RefCtdNodePort::node is a NodePtr; `lhs.node == nullptr` needs either a nullptr comparison or the implicit conversion to a raw pointer
        if not re.search(r"operator\s+NodeType\s*\*\s*\(\s*\)\s*const", rd("hlim/NodePtr.h")):
            raise TErr("NodePtr has neither operator==(nullptr_t) nor a conversion to the raw pointer: `lhs.node == nullptr` on RefCtdNodePort is not what is modelled")
    # --- container aliases
    if not re.search(r"using StableSet = std::set<Type, StableCompare<typename ConstFreePointer<Type>::type>>;", hdr):
        raise TErr("StableSet is no longer std::set<Type, StableCompare<…>>")
    if not re.search(r"using StableMap = std::map<KeyType, ValueType, StableCompare<typename ConstFreePointer<KeyType>::type>>;", hdr):
        raise TErr("StableMap is no longer std::map<Key, Value, StableCompare<…>>")
    api = {}
    for cls in ("UnstableSet", "UnstableMap"):
        m = re.search(r"class " + cls + r"\s*\{(.*?)\n\};", hdr, re.S)
        if not m:
            raise TErr(cls + " not found")
        pub = m.group(1).split("protected:")[0]
        names = set(re.findall(r"\b(operator\s*(?:\[\]|<=>|==|<)|~?[A-Za-z_]\w*)\s*\(", pub))
        names = {re.sub(r"\s+", "", n) for n in names} - {"forward", "template", "class", "typename", cls, "m_set", "m_map"}
        api[cls] = sorted(names)
    want = {"UnstableSet": ["anyOrder", "clear", "contains", "emplace", "empty", "erase", "insert", "size"],
            "UnstableMap": ["anyOrder", "clear", "contains", "emplace", "empty", "end", "erase", "find", "insert", "operator<=>", "operator[]", "size", "try_emplace"]}
    for cls in want:
        if api[cls] != want[cls]:
            raise TErr("%s public interface changed: %s (reviewed: %s) — a new member may expose the address order" % (cls, api[cls], want[cls]))
    # --- bodies
    out = ["import GateryModel.C10.Basis",
           "/-! GENERATED by tools/translate_stablecompare.py from utils/StableContainers.cpp (+ the StableCompare specialisations in",
           "    export/vhdl/NamespaceScope.h and export/vhdl/Process.h) — do not edit by hand. `M = Option`, `none` = null dereference. -/",
           "namespace Gatery.Gen.StableCompare", "open Gatery.C10", ""]

    def emit(name, cxx, ptype, body, funcs, doc):
        term = translate(body, ptype, funcs)
        ty = "Ptr" if ptype == "ptr" else ptype
        out.append("/-- %s — C++: `%s` -/" % (doc, " ".join(body.split()).replace("`", "'")))
        out.append("def %s (lhs rhs : %s) : M Bool :=\n  %s" % (name, ty, term))
        out.append("")

    sc = r"bool\s+StableCompare<%s>::operator\(\)\s*\(const %s\s*&lhs,\s*const %s\s*&rhs\)\s*const\s*\{"
    emit("cmpNodePort", "", "NodePort", body_of(cpp, sc % ("hlim::NodePort", "hlim::NodePort", "hlim::NodePort"), "StableCompare<NodePort>"), {},
         "utils/StableContainers.cpp StableCompare<hlim::NodePort>::operator()")
    emit("cmpRefCtdNodePort", "", "NodePort", body_of(cpp, sc % ("hlim::RefCtdNodePort", "hlim::RefCtdNodePort", "hlim::RefCtdNodePort"), "StableCompare<RefCtdNodePort>"), {},
         "utils/StableContainers.cpp StableCompare<hlim::RefCtdNodePort>::operator() (NodePtr<BaseNode> node modelled as the raw pointer)")
    emit("stableCompareWithId", "", "ptr",
         body_of(cpp, r"template<typename Type>\s*bool stableCompareWithId\(const Type\* const &lhs, const Type\* const &rhs\)\s*\{", "stableCompareWithId"), {},
         "utils/StableContainers.cpp stableCompareWithId<Type>")
    funcs = {"stableCompareWithId": ("stableCompareWithId", "ptr")}
    emit("cmpNodePtr", "", "ptr",
         body_of(cpp, r"bool stableCompareNodes\(const hlim::BaseNode\* const &lhs, const hlim::BaseNode\* const &rhs\)\s*\{", "stableCompareNodes"), funcs,
         "utils/StableContainers.cpp stableCompareNodes (= StableCompare<NodeType*> for every NodeType derived from BaseNode, see header check)")
    fw = body_of(hdr, r"template<std::derived_from<hlim::BaseNode> NodeType>\s*struct StableCompare<NodeType\*>\s*\{\s*bool operator\(\)\(const NodeType\* const &lhs, const NodeType\* const &rhs\) const\s*\{",
                 "StableCompare<NodeType*>")
    if " ".join(fw.split()) != "return stableCompareNodes(lhs, rhs);":
        raise TErr("StableCompare<NodeType*> no longer forwards to stableCompareNodes: " + fw)
    for cls, lean in (("Clock", "cmpClockPtr"), ("NodeGroup", "cmpNodeGroupPtr"), ("Node_Pin", "cmpNodePinPtr"), ("Node_MultiDriver", "cmpMultiDriverPtr")):
        rx = r"bool\s+StableCompare<hlim::%s\*>::operator\(\)\s*\(const hlim::%s\* const &lhs, const hlim::%s\* const &rhs\)\s*const\s*\{" % (cls, cls, cls)
        emit(lean, "", "ptr", body_of(cpp, rx, "StableCompare<%s*>" % cls), funcs, "utils/StableContainers.cpp StableCompare<hlim::%s*>::operator()" % cls)
    emit("cmpStorageSignal", "", "StorageSignal",
         body_of(nsh, r"struct gtry::utils::StableCompare<gtry::vhdl::NodeInternalStorageSignal>\s*\{\s*bool operator\(\)\(const gtry::vhdl::NodeInternalStorageSignal &lhs, const gtry::vhdl::NodeInternalStorageSignal &rhs\) const\s*\{",
                 "StableCompare<NodeInternalStorageSignal>"), {},
         "export/vhdl/NamespaceScope.h StableCompare<vhdl::NodeInternalStorageSignal>::operator()")
    emit("cmpRegisterConfig", "", "RegisterConfig",
         body_of(prh, r"struct gtry::utils::StableCompare<gtry::vhdl::RegisterConfig>\s*\{\s*bool operator\(\)\(const gtry::vhdl::RegisterConfig &lhs, const gtry::vhdl::RegisterConfig &rhs\) const\s*\{",
                 "StableCompare<RegisterConfig>"), {},
         "export/vhdl/Process.h StableCompare<vhdl::RegisterConfig>::operator()")
    # --- every StableCompare specialisation and every key type in use is covered
    known_specs = {"hlim::NodePort", "hlim::RefCtdNodePort", "hlim::Clock*", "hlim::NodeGroup*", "hlim::Node_Pin*", "hlim::Node_MultiDriver*", "NodeType*",
                   "gtry::vhdl::NodeInternalStorageSignal", "gtry::vhdl::RegisterConfig"}
    node_classes = set()
    for root, _, fs in os.walk(os.path.join(SRC, "hlim")):
        for f in fs:
            if f.endswith(".h"):
                node_classes.update(re.findall(r"class\s+(Node_\w+|BaseNode)\b", open(os.path.join(root, f), errors="replace").read()))
    used = {}
    for root, _, fs in os.walk(SRC):
        for f in fs:
            if not f.endswith((".h", ".cpp")):
                continue
            t = strip_comments(open(os.path.join(root, f), errors="replace").read())
            for m in re.finditer(r"struct\s+(?:gtry::utils::)?StableCompare<\s*([^>]+?)\s*>\s*\{", t):
                if m.group(1) not in known_specs and m.group(1) != "Type":
                    raise TErr("untranslated StableCompare specialisation <%s> in %s" % (m.group(1), f))
            for m in re.finditer(r"Stable(?:Set|Map)\s*<\s*([^,<>]+?)\s*[,>]", t):
                k = re.sub(r"\bconst\b|\s+|hlim::|gtry::|vhdl::", "", m.group(1))
                used[k] = used.get(k, 0) + 1
    for k in used:
        base = k.rstrip("*")
        ok = (k in ("NodePort", "RefCtdNodePort", "RegisterConfig", "NodeInternalStorageSignal", "Type", "KeyType")
              or (k.endswith("*") and (base in ("Clock", "NodeGroup", "NodeType") or base in node_classes)))
        if not ok:
            raise TErr("StableSet/StableMap used with key type %s for which no translated comparator exists" % k)
    out.append("/-- key types found in use with StableSet/StableMap in source/gatery (each has a translated comparator above) -/")
    out.append("def keyTypesInUse : List String := [%s]" % ", ".join('"%s"' % k for k in sorted(used)))
    out += ["", "end Gatery.Gen.StableCompare", ""]
    return "\n".join(out)


def run():
    """returns (ok, message); writes the file only if its content changed"""
    try:
        new = generate()
    except (TErr, OSError, KeyError) as e:
        return False, "translate_stablecompare: %s" % e
    old = open(OUT).read() if os.path.exists(OUT) else None
    if new != old:
        os.makedirs(os.path.dirname(OUT), exist_ok=True)
        with open(OUT, "w") as f:
            f.write(new)
        return True, "Gen/StableCompare.lean regenerated (content changed)"
    return True, "Gen/StableCompare.lean unchanged"


if __name__ == "__main__":
    ok, msg = run()
    print(msg)
    sys.exit(0 if ok else 1)
