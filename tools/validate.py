#!/usr/bin/env python3-vt
"""validate MANIFEST.json and evidence/*.json against the schemas (uses the tooling venv's jsonschema)"""
import json, glob, sys, jsonschema
m = json.load(open('/verif/MANIFEST.json'))
jsonschema.validate(m, json.load(open('/root/.vp/MANIFEST.schema.json')))
es = json.load(open('/root/.vp/EVIDENCE.schema.json'))
props = [json.loads(l)['id'] for l in open('/verif/properties.jsonl')]
claimed = [c['property_id'] for c in m['checks']]
na = [c['property_id'] for c in m.get('not_applicable', [])]
assert sorted(claimed + na) == sorted(props), (sorted(claimed + na), props)
for c in m['checks']:
    f = '/verif/' + c['evidence_file']
    try:
        jsonschema.validate(json.load(open(f)), es)
    except Exception as e:
        print('EVIDENCE INVALID', f, str(e)[:300]); sys.exit(1)
print('manifest + %d evidence files valid; claimed=%s' % (len(claimed), claimed))
