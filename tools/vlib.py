"""Shared runner library for the gatery verification checks (see DESIGN.md §3.5).

A check script (checks/cXX.py) builds a `Check` object, registers its steps and calls run().
Steps, in order:
  1. rebuild gatery from /repo's working tree (incremental, hooks on)
  2. run translators (regenerate lean/GateryModel/Gen/*.lean from the C++ text)
  3. lake build the property's Lean modules + driver  (theorems are re-checked here)
  4. audit: forbidden tokens, `#print axioms` of every property theorem
  5. build harness, run corpus + generated cases through harness | driver (correspondence + property search)
  6. verdict, evidence
"""
import fcntl
import hashlib
import json
import os
import re
import subprocess
import sys
import time

VERIF = os.path.dirname(os.path.dirname(os.path.abspath(__file__)))
REPO = os.environ.get("GATERY_REPO", "/repo")
BUILD = os.environ.get("VERIF_BUILD", os.path.join(VERIF, ".build"))
LEAN = os.environ.get("VERIF_LEAN", os.path.join(VERIF, "lean"))
# where evidence/ and replays/ are written; mutation experiments set VERIF_OUT so that the committed evidence is not overwritten
OUT = os.environ.get("VERIF_OUT", VERIF)
ALLOWED_AXIOMS = {"propext", "Classical.choice", "Quot.sound"}
FORBIDDEN = ["sorry", "admit", "native_decide", "bv_decide", "implemented_by", "unsafe ", "maxHeartbeats 0",
             "ofReduceBool", "reduceBool"]


def sh(cmd, **kw):
    return subprocess.run(cmd, shell=isinstance(cmd, str), stdout=subprocess.PIPE, stderr=subprocess.STDOUT,
                          text=True, **kw)


class Lock:
    def __init__(self, name):
        os.makedirs(BUILD, exist_ok=True)
        self.path = os.path.join(BUILD, ".lock-" + name)

    def __enter__(self):
        self.f = open(self.path, "w")
        fcntl.flock(self.f, fcntl.LOCK_EX)

    def __exit__(self, *a):
        fcntl.flock(self.f, fcntl.LOCK_UN)
        self.f.close()


def build_gatery(flavor="plain"):
    r = sh([os.path.join(VERIF, "tools", "build_repo.sh"), flavor])
    if r.returncode != 0:
        return None, r.stdout
    return r.stdout.strip().splitlines()[-1], ""


def harness_flags(bdir, flavor="plain"):
    san = []
    if flavor == "asan":
        san = ["-fsanitize=address,undefined", "-fno-sanitize=vptr", "-fno-sanitize-recover=all", "-fno-omit-frame-pointer", "-g1"]
    cflags = ["-std=gnu++23", "-O1", "-g0", "-w", "-fcoroutines", "-DGATERY_VERIF", "-I" + REPO + "/source",
              "-I" + bdir + "/gen", "-I" + os.path.join(VERIF, "harness"), "-DNOMINMAX", "-DBOOST_STACKTRACE_USE_BACKTRACE"] + san
    ldflags = ["-L" + bdir, "-Wl,--start-group", "-lgatery_scl", "-lgatery_core", "-Wl,--end-group",
               "-lboost_system", "-lboost_filesystem", "-lboost_thread", "-lboost_iostreams", "-lboost_json",
               "-lyaml-cpp", "-ldl", "-lbacktrace", "-lpthread"] + san
    return cflags, ldflags


def build_harness(name, bdir, flavor="plain", extra_cflags=(), link_gatery=True):
    """Compile harness/<name>.cpp against the freshly built gatery libs. Re-links whenever the libs changed."""
    src = os.path.join(VERIF, "harness", name + ".cpp")
    outdir = os.path.join(BUILD, "harness-" + flavor)
    os.makedirs(outdir, exist_ok=True)
    out = os.path.join(outdir, name)
    obj = out + ".o"
    cflags, ldflags = harness_flags(bdir, flavor)
    with Lock("harness-" + name + "-" + flavor):
        # object depends on harness source, harness headers and every gatery header (cheap approximation: newest mtime)
        dep_m = max(os.path.getmtime(src), newest_mtime(os.path.join(VERIF, "harness"), (".h",)),
                    newest_mtime(os.path.join(REPO, "source"), (".h",)))
        if not os.path.exists(obj) or os.path.getmtime(obj) < dep_m:
            r = sh(["g++"] + cflags + list(extra_cflags) + ["-c", src, "-o", obj])
            if r.returncode != 0:
                return None, r.stdout
        libs_m = max(os.path.getmtime(os.path.join(bdir, l)) for l in ("libgatery_core.a", "libgatery_scl.a"))
        if not os.path.exists(out) or os.path.getmtime(out) < max(os.path.getmtime(obj), libs_m):
            r = sh(["g++", obj, "-o", out] + (ldflags if link_gatery else []))
            if r.returncode != 0:
                return None, r.stdout
    return out, ""


def newest_mtime(root, exts):
    m = 0.0
    for d, _, fs in os.walk(root):
        for f in fs:
            if f.endswith(exts):
                try:
                    m = max(m, os.path.getmtime(os.path.join(d, f)))
                except OSError:
                    pass
    return m


def lake_build(targets):
    """Build Lean targets; returns (ok, log)."""
    with Lock("lake"):
        r = sh(["lake", "build"] + list(targets), cwd=LEAN)
    return r.returncode == 0, r.stdout


def strip_lean_comments(text):
    # remove nested block comments and line comments
    out = []
    i, depth, n = 0, 0, len(text)
    while i < n:
        if text.startswith("/-", i):
            depth += 1
            i += 2
        elif depth and text.startswith("-/", i):
            depth -= 1
            i += 2
        elif depth:
            i += 1
        elif text.startswith("--", i):
            j = text.find("\n", i)
            i = n if j < 0 else j
        else:
            out.append(text[i])
            i += 1
    return "".join(out)


def audit_sources(paths):
    """grep forbidden tokens (comments and string literals stripped) in the given lean files/dirs; returns list of hits"""
    hits = []
    files = []
    for p in paths:
        p = os.path.join(LEAN, p)
        if os.path.isdir(p):
            for d, _, fs in os.walk(p):
                files += [os.path.join(d, f) for f in fs if f.endswith(".lean")]
        elif os.path.exists(p):
            files.append(p)
    for f in files:
        t = strip_lean_comments(open(f).read())
        t = re.sub(r'"(\\.|[^"\\])*"', '""', t)
        for tok in FORBIDDEN:
            for m in re.finditer(re.escape(tok), t):
                hits.append("%s: %s" % (os.path.relpath(f, LEAN), tok))
        for m in re.finditer(r"^\s*axiom\s", t, re.M):
            hits.append("%s: axiom" % os.path.relpath(f, LEAN))
    return hits, files


def property_theorems(prop_module_file):
    """names of all theorems declared in a Properties file (namespace-qualified)"""
    t = strip_lean_comments(open(os.path.join(LEAN, prop_module_file)).read())
    names = []
    ns = []
    for line in t.splitlines():
        m = re.match(r"\s*namespace\s+(\S+)", line)
        if m:
            ns.append(m.group(1))
            continue
        m = re.match(r"\s*end\s+(\S+)", line)
        if m and ns and ns[-1] == m.group(1):
            ns.pop()
            continue
        m = re.match(r"\s*(?:@\[[^\]]*\]\s*)?(?:protected\s+|private\s+)?theorem\s+(\S+)", line)
        if m:
            names.append(".".join(ns + [m.group(1)]))
    return names


def print_axioms(module, theorems):
    """run `#print axioms` for each theorem; returns dict name -> list of axioms, or None + log on failure"""
    os.makedirs(os.path.join(BUILD, "audit"), exist_ok=True)
    f = os.path.join(BUILD, "audit", module.replace(".", "_") + "_axioms.lean")
    with open(f, "w") as o:
        o.write("import %s\n" % module)
        for t in theorems:
            o.write("#print axioms %s\n" % t)
    with Lock("lake"):
        r = sh(["lake", "env", "lean", f], cwd=LEAN)
    res = {}
    cur = None
    txt = r.stdout
    for m in re.finditer(r"'([^']+)' (depends on axioms: \[([^\]]*)\]|does not depend on any axioms)", txt, re.S):
        name = m.group(1)
        ax = [a.strip() for a in (m.group(3) or "").replace("\n", " ").split(",") if a.strip()]
        res[name] = ax
    if r.returncode != 0 or len(res) != len(theorems):
        return None, txt
    return res, txt


def splitmix64(x):
    x = (x + 0x9E3779B97F4A7C15) & 0xFFFFFFFFFFFFFFFF
    z = x
    z = ((z ^ (z >> 30)) * 0xBF58476D1CE4E5B9) & 0xFFFFFFFFFFFFFFFF
    z = ((z ^ (z >> 27)) * 0x94D049BB133111EB) & 0xFFFFFFFFFFFFFFFF
    return z ^ (z >> 31)


def load_known_findings(prop):
    p = os.path.join(VERIF, "known_findings.json")
    if not os.path.exists(p):
        return []
    return [e for e in json.load(open(p)).get("findings", []) if e.get("property") == prop]


class Check:
    """Accumulates the verdict of one property check and writes evidence/replays."""

    def __init__(self, prop, tier, seed):
        self.prop = prop
        self.tier = tier
        os.environ["VERIF_TIER_EFFECTIVE"] = tier   # read by run_pipe for the stream time limit
        self.seed = seed
        self.t0 = time.time()
        self.violations = []   # (replay_path, no_failing_input_found)
        self.known_hits = []
        self.cov = {}
        self.assumptions = []
        self.notes = []
        os.makedirs(os.path.join(OUT, "evidence"), exist_ok=True)
        os.makedirs(os.path.join(OUT, "replays"), exist_ok=True)

    def log(self, *a):
        print("[%s %6.1fs]" % (self.prop, time.time() - self.t0), *a, flush=True)

    def replay_path(self, tag):
        return os.path.join(OUT, "replays", "%s-%s-seed%d.json" % (self.prop, tag, self.seed))

    def violation(self, tag, payload, concrete, signature=None):
        """Record a violation. `concrete`=True if payload holds a failing input for the property itself.
        A concrete violation whose signature is listed as `known` in known_findings.json becomes a KNOWN-FINDING."""
        if concrete and signature is not None:
            for e in load_known_findings(self.prop):
                if e.get("kind") == "known" and e.get("signature") == signature:
                    if signature not in self.known_hits:
                        self.known_hits.append(signature)
                        print("KNOWN-FINDING: property=%s %s" % (self.prop, e.get("text", signature)), flush=True)
                    return
        path = self.replay_path(tag)
        payload = dict(payload)
        payload.update({"property": self.prop, "seed": self.seed, "tier": self.tier, "concrete_failing_input": concrete})
        if signature:
            payload["signature"] = signature
        with open(path, "w") as o:
            json.dump(payload, o, indent=1)
        self.violations.append((path, not concrete))

    def finish(self, level, coverage, assumptions=None):
        cov = dict(coverage)
        ev = {
            "property_id": self.prop, "tier": self.tier, "seed": self.seed, "level": level,
            "coverage": cov, "assumptions": assumptions or self.assumptions,
            "wall_s": round(time.time() - self.t0, 2), "violations": len(self.violations),
        }
        if self.known_hits:
            ev["known_findings_hit"] = self.known_hits
        # every listed known finding is announced on every run; those this run's inputs did not exercise are marked as such
        listed = [e for e in load_known_findings(self.prop) if e.get("kind") == "known"]
        for e in listed:
            if e.get("signature") not in self.known_hits:
                print("KNOWN-FINDING: property=%s %s [listed; not exercised by the inputs of this run]" % (self.prop, e.get("text", e.get("signature"))), flush=True)
        if listed:
            ev["known_findings_listed"] = [e.get("signature") for e in listed]
        with open(os.path.join(OUT, "evidence", self.prop + ".json"), "w") as o:
            json.dump(ev, o, indent=1)
        # one line per distinct replay; prefer concrete ones first
        seen = set()
        for path, nofail in sorted(self.violations, key=lambda v: v[1]):
            if path in seen:
                continue
            seen.add(path)
            print("VIOLATION property=%s replay=%s%s" % (self.prop, path, " no-failing-input-found" if nofail else ""), flush=True)
        if self.violations:
            sys.exit(1)
        self.log("OK (%s tier, %.1fs)" % (self.tier, time.time() - self.t0))
        sys.exit(0)


def lean_proof_stage(chk, modules, prop_file, prop_module, exe=None, gen_steps=()):
    """Translators -> lake build -> audit. Returns dict with proof coverage; records violations
    (no concrete input yet: caller runs the search afterwards and may upgrade)."""
    info = {"theorems": {}, "lean_ok": False, "failed": []}
    for step in gen_steps:
        ok, msg = step()
        if not ok:
            info["failed"].append("translator: " + msg)
    ok, log = lake_build(list(modules) + ([exe] if exe else []))
    info["lean_ok"] = ok
    if not ok:
        errs = [l for l in log.splitlines() if "error" in l][:20]
        info["failed"].append("lake build: " + " | ".join(errs))
        info["build_log_tail"] = log[-3000:]
        return info
    hits, files = audit_sources([os.path.dirname(prop_file), os.path.join("GateryModel", "Core"), os.path.join("GateryModel", "Gen"),
                                 os.path.join("GateryModel", chk.prop)])
    if hits:
        info["failed"].append("forbidden tokens: " + "; ".join(sorted(set(hits))))
    thms = property_theorems(prop_file)
    ax, log = print_axioms(prop_module, thms)
    if ax is None:
        info["failed"].append("#print axioms failed: " + log[-1500:])
    else:
        info["theorems"] = ax
        for t, a in ax.items():
            bad = [x for x in a if x not in ALLOWED_AXIOMS]
            if bad:
                info["failed"].append("theorem %s uses axioms %s" % (t, bad))
    info["files_audited"] = len(files)
    return info


def leanchecker(modules):
    res = {}
    for m in modules:
        with Lock("lake"):
            r = sh(["lake", "env", "leanchecker", m], cwd=LEAN)
        res[m] = (r.returncode == 0)
    return res


def run_pipe(harness_cmd, driver_cmd, keep=None, timeout=None):
    """harness | driver ; returns (driver stdout lines, harness rc, driver rc, harness stderr tail)"""
    # glibc poisons freed (and fresh) heap memory: a use-after-free in gatery that would otherwise read stale but intact data
    # (e.g. an iterator into a node vector that reallocated) yields garbage and crashes instead of passing silently
    henv = dict(os.environ)
    henv.setdefault("MALLOC_PERTURB_", "165")
    h = subprocess.Popen(harness_cmd, stdout=subprocess.PIPE, stderr=subprocess.PIPE, env=henv)
    if keep:
        tee = subprocess.Popen(["tee", keep], stdin=h.stdout, stdout=subprocess.PIPE)
        src = tee.stdout
    else:
        src = h.stdout
    d = subprocess.Popen(driver_cmd, stdin=src, stdout=subprocess.PIPE, stderr=subprocess.STDOUT, text=True)
    # a harness or driver that hangs (seen once: the C04 driver on a mutated tree whose root clock frequency was truncated to 0) must not
    # hang the check: after the time limit both are killed and the stream counts as crashed (= correspondence broken, reported)
    if timeout is None:
        timeout = int(os.environ.get("VERIF_STREAM_TIMEOUT", "0")) or (5400 if os.environ.get("VERIF_TIER_EFFECTIVE", "quick") == "thorough" else 1200)
    timed_out = False
    try:
        out, _ = d.communicate(timeout=timeout)
    except subprocess.TimeoutExpired:
        timed_out = True
        for p in [h, d] + ([tee] if keep else []):
            try:
                p.kill()
            except Exception:
                pass
        out, _ = d.communicate()
    herr = h.stderr.read().decode(errors="replace")
    h.wait()
    if timed_out:
        herr += "\nTIMEOUT: harness | driver did not finish within %d s and was killed" % timeout
    return (out or "").splitlines(), h.returncode, d.returncode, herr[-3000:]


def driver_path(name):
    return os.path.join(LEAN, ".lake", "build", "bin", name)


def std_args(prop):
    import argparse
    ap = argparse.ArgumentParser()
    ap.add_argument("--tier", default=os.environ.get("VERIF_TIER", "quick"), choices=["quick", "thorough"])
    ap.add_argument("--seed", type=int, default=int(os.environ.get("VERIF_SEED", "1")))
    ap.add_argument("--replay", default=None)
    return ap.parse_args()


# ---------------------------------------------------------------------------------------------
# Standard check flow shared by the property scripts
# ---------------------------------------------------------------------------------------------

def parse_driver(lines):
    """split driver output into DIFF / PROPFAIL message lists and the SUMMARY dict"""
    diffs = [l for l in lines if l.startswith("DIFF ")]
    fails = [l for l in lines if l.startswith("PROPFAIL ")]
    summ = {}
    for l in lines:
        if l.startswith("SUMMARY "):
            try:
                summ = json.loads(l[len("SUMMARY "):])
            except Exception as e:  # malformed summary = driver problem
                summ = {"_bad_summary": l[:300]}
    return diffs, fails, summ


def extract_case(protocol_file, case_id):
    """return the lines of one `case <id> …` … `end` block of a saved harness stream"""
    out, on = [], False
    with open(protocol_file, errors="replace") as f:
        for l in f:
            if l.startswith("case "):
                on = l.split()[1] == str(case_id)
            if on:
                out.append(l.rstrip("\n"))
                if l.startswith("end"):
                    break
    return out


def case_of(msg):
    m = re.search(r"case=(\S+)", msg)
    return m.group(1) if m else None


def restore_committed(paths):
    """restore the committed version of generated Lean files (the translation of the last good tree)"""
    for p in paths:
        sh(["git", "-C", VERIF, "checkout", "--", p])


class Stream:
    """one harness|driver run"""

    def __init__(self, chk, harness, driver, args, tag):
        self.args = [str(a) for a in args]
        self.keep = os.path.join(BUILD, "streams", "%s-%s.txt" % (chk.prop, tag))
        os.makedirs(os.path.dirname(self.keep), exist_ok=True)
        lines, hrc, drc, herr = run_pipe([harness] + self.args, [driver], keep=self.keep)
        self.lines, self.hrc, self.drc, self.herr = lines, hrc, drc, herr
        self.diffs, self.fails, self.summary = parse_driver(lines)
        self.crashed = (hrc != 0) or (drc != 0) or not self.summary or "_bad_summary" in self.summary


def merge_hist(a, b):
    for k, v in b.items():
        if isinstance(v, dict):
            a[k] = merge_hist(a.get(k, {}), v)
        elif isinstance(v, (int, float)):
            a[k] = a.get(k, 0) + v
        else:
            a[k] = v
    return a


def replay_mode(chk, cfg, harness, driver, path):
    """--replay <file>: re-run the harness stream recorded in a replay file on the current tree and report whether the recorded
    failure (same case, or any failure when the file names no case) shows again. Exit 1 + VIOLATION line if it does, exit 0 otherwise.
    Writes no evidence."""
    try:
        rep = json.load(open(path))
    except Exception as e:
        print("replay: cannot read %s: %s" % (path, e)); sys.exit(2)
    if rep.get("property") not in (None, chk.prop):
        print("replay: %s belongs to property %s, not %s" % (path, rep.get("property"), chk.prop)); sys.exit(2)
    cands = [rep] + [d for d in rep.get("details", []) if isinstance(d, dict)]
    hargs = next((c["harness_args"] for c in cands if c.get("harness_args")), None)
    if not hargs:
        print("replay: %s records no harness stream (a broken theorem / audit finding is re-checked by running the check itself)" % path)
        sys.exit(2)
    if isinstance(hargs, str):
        hargs = [x.strip(" '\"") for x in hargs.strip("[]").split(",")]
    cid = rep.get("case")
    if cid is None:
        m = next((c.get("first_diff") or c.get("message") for c in cands if c.get("first_diff") or c.get("message")), None)
        cid = case_of(m) if m else None
    s = Stream(chk, harness, driver, hargs, "replay")
    hits = [l for l in s.diffs + s.fails if cid is None or case_of(l) == str(cid)]
    chk.log("replay of %s: harness args %s, case %s: %d matching DIFF/PROPFAIL line(s) (stream total: %d diffs, %d propfails)%s"
            % (os.path.basename(path), " ".join(map(str, hargs)), cid, len(hits), len(s.diffs), len(s.fails), " STREAM CRASHED" if s.crashed else ""))
    for l in hits[:10]:
        print(l[:600])
    if hits or s.crashed:
        print("VIOLATION property=%s replay=%s" % (chk.prop, path), flush=True)
        sys.exit(1)
    print("replay: the recorded failure does not show on the current tree", flush=True)
    sys.exit(0)


def standard_check(cfg):
    """
    cfg keys:
      prop            'C18'
      lean_modules    lake targets holding model + proofs + property theorems (e.g. ['GateryModel.Properties.C18'])
      prop_file       'GateryModel/Properties/C18.lean' ; prop_module 'GateryModel.Properties.C18'
      exe             'gv_c18'            (lean_exe driver)
      harness         'c18'               (harness/c18.cpp)
      streams         {'quick': [[ncases, param], ...], 'thorough': [...]}   harness args after the seed
      search          [[ncases, param], ...]   extra streams run only when a theorem/correspondence broke
      translators     list of callables -> (ok, msg); gen_files: list of generated lean files (relative to /verif)
      signature       callable(propfail_line, case_lines) -> str   (for known_findings matching)
      trusted_base, level_text, rule, nontrivial (callable(summary)->int), extra_cov (callable(summary)->dict)
      flavor          'plain' | 'asan' for thorough
    """
    a = std_args(cfg["prop"])
    chk = Check(cfg["prop"], a.tier, a.seed)
    bdir, log = build_gatery("plain")
    if bdir is None:
        chk.log("gatery does not build:\n" + log[-3000:])
        chk.violation("build", {"what": "gatery does not build from /repo's working tree", "log": log[-3000:]}, False)
        chk.finish("proof", {"obligations": 1, "discharged": 0, "checker_cmd": "lake build", "trusted_base": cfg.get("trusted_base", []),
                             "explanation": "build failure"})
    chk.log("gatery built")
    # --- theorems ---------------------------------------------------------------------------
    info = lean_proof_stage(chk, cfg["lean_modules"], cfg["prop_file"], cfg["prop_module"], exe=cfg["exe"],
                            gen_steps=cfg.get("translators", ()))
    proof_broken = list(info["failed"])
    if proof_broken:
        chk.log("PROOF STAGE BROKEN: " + " || ".join(proof_broken)[:1500])
        if not info["lean_ok"] and cfg.get("gen_files"):
            # fall back to the committed translation so that the driver (model of the last good tree) can be built for the search
            restore_committed(cfg["gen_files"])
            ok, log = lake_build([cfg["exe"]])
            chk.log("driver rebuilt from committed generated files: %s" % ok)
    else:
        chk.log("theorems checked: %d, axioms clean" % len(info["theorems"]))
    if a.tier == "thorough" and not proof_broken:
        lc = leanchecker(cfg.get("leanchecker_modules", [cfg["prop_module"]]))
        info["leanchecker"] = lc
        if not all(lc.values()):
            proof_broken.append("leanchecker rejected: %s" % [m for m, ok in lc.items() if not ok])
    # --- correspondence ---------------------------------------------------------------------
    harness, log = build_harness(cfg["harness"], bdir)
    if harness is None:
        chk.log("harness does not build:\n" + log[-3000:])
        chk.violation("harness-build", {"what": "harness no longer compiles against /repo (API changed?)", "log": log[-3000:]}, False)
        chk.finish("proof", {"obligations": max(1, len(info["theorems"])), "discharged": 0, "checker_cmd": "lake build",
                             "trusted_base": cfg.get("trusted_base", []), "explanation": "harness build failure"})
    driver = driver_path(cfg["exe"])
    if a.replay:
        replay_mode(chk, cfg, harness, driver, a.replay)
    total = {}
    all_diffs, all_fails, samples, crashed = [], [], [], []
    streams = []
    corpus_dir = os.path.join(VERIF, "corpus", cfg["prop"])
    plan = [("gen%d" % i, [a.seed] + list(s)) for i, s in enumerate(cfg["streams"][a.tier])]
    if os.path.isdir(corpus_dir):
        for f in sorted(os.listdir(corpus_dir)):
            if f.endswith(".args"):
                plan.insert(0, ("corpus-" + f[:-5], open(os.path.join(corpus_dir, f)).read().split()))

    def run(tag, args):
        s = Stream(chk, harness, driver, args, tag)
        streams.append((tag, s))
        merge_hist(total, s.summary)
        all_diffs.extend((tag, d) for d in s.diffs)
        all_fails.extend((tag, f) for f in s.fails)
        if s.crashed:
            crashed.append((tag, s))
        return s

    for tag, args in plan:
        s = run(tag, args)
        chk.log("stream %s args=%s: cases=%s diffs=%d propfails=%d%s" % (tag, " ".join(map(str, args)), s.summary.get("cases"), len(s.diffs), len(s.fails),
                                                                       " CRASHED hrc=%s drc=%s" % (s.hrc, s.drc) if s.crashed else ""))
    broken = bool(proof_broken or all_diffs or crashed)
    if broken and not all_fails:
        # search for a concrete failing input with more/other cases
        for i, sargs in enumerate(cfg.get("search", [])):
            s = run("search%d" % i, [a.seed + 1000 + i] + list(sargs))
            chk.log("search stream %d: cases=%s diffs=%d propfails=%d" % (i, s.summary.get("cases"), len(s.diffs), len(s.fails)))
            if s.fails:
                break
    # --- verdict ----------------------------------------------------------------------------
    sigf = cfg.get("signature")
    reported = set()
    case_cache = {}
    for tag, f in all_fails[:5000]:
        s = dict(streams)[tag]
        cid = case_of(f)
        # signature from the message alone when possible (cheap); the case block is only extracted for reported failures
        sig = sigf(f, []) if sigf else None
        key = sig or "first"
        if key in reported:
            continue
        reported.add(key)
        if (tag, cid) not in case_cache:
            case_cache[(tag, cid)] = extract_case(s.keep, cid) if cid is not None else []
        case_lines = case_cache[(tag, cid)]
        chk.violation("propfail-" + re.sub(r"\W+", "_", key)[:40],
                      {"what": "the property fails on the implementation for this concrete input", "message": f[:4000],
                       "harness_args": s.args, "case": cid, "case_lines": case_lines[:400],
                       "replay_cmd": "%s %s   # then see case %s" % (harness, " ".join(s.args), cid)}, True, signature=sig)
    # a broken theorem / correspondence is reported unless a concrete violation (not suppressed as a known finding) explains it
    concrete_reported = any(not nofail for _, nofail in chk.violations)
    if broken and not concrete_reported:
        what = []
        if proof_broken:
            what.append({"theorems_no_longer_checked": proof_broken, "build_log_tail": info.get("build_log_tail", "")})
        if all_diffs:
            tag, dmsg = all_diffs[0]
            s = dict(streams)[tag]
            what.append({"correspondence_broken": cfg["prop"] + " model/implementation correspondence (harness %s | driver %s)" % (cfg["harness"], cfg["exe"]),
                         "first_diff": dmsg[:4000], "n_diffs": len(all_diffs), "harness_args": s.args,
                         "case_lines": extract_case(s.keep, case_of(dmsg))[:400]})
        for tag, s in crashed:
            what.append({"stream_crashed": tag, "harness_rc": s.hrc, "driver_rc": s.drc, "stderr": s.herr, "harness_args": s.args,
                         "driver_tail": s.lines[-5:]})
        chk.violation("unproved", {"what": "a theorem or the model/implementation correspondence no longer checks; no failing input found by the search",
                                   "details": what}, False)
    # --- evidence ---------------------------------------------------------------------------
    nthm = len(info["theorems"]) if info["theorems"] else len(property_theorems(cfg["prop_file"]))
    discharged = 0 if proof_broken else nthm
    ev_samples = []
    for tag, s in streams[:2]:
        try:
            with open(s.keep, errors="replace") as f:
                ev_samples.append({"stream": tag, "harness_args": s.args, "first_lines": [next(f).rstrip("\n") for _ in range(12)]})
        except StopIteration:
            pass
    cov = {
        "obligations": max(1, nthm), "discharged": discharged,
        "checker_cmd": "cd /verif/lean && lake build %s && lake env lean <#print axioms of every theorem in %s>" % (" ".join(cfg["lean_modules"]), cfg["prop_file"]),
        "trusted_base": cfg.get("trusted_base", []),
        "theorems_and_axioms": info["theorems"],
        "proof_stage_failures": proof_broken,
        "correspondence": {"streams": [{"tag": t, "args": s.args, "summary": s.summary, "diffs": len(s.diffs), "propfails": len(s.fails)} for t, s in streams],
                           "totals": total},
        "evaluations": int(total.get(cfg.get("eval_key", "ops"), total.get("cases", 0)) or 0),
        "distinct_nontrivial": int(cfg["nontrivial"](total)) if cfg.get("nontrivial") else int(total.get("cases", 0) or 0),
        "rule": cfg.get("rule", ""),
        "samples": ev_samples or ["(no stream ran)"],
        "traces_validated_against_impl": int(total.get("cases", 0) or 0),
        "explanation": cfg.get("level_text", ""),
    }
    if "leanchecker" in info:
        cov["leanchecker"] = info["leanchecker"]
    if cfg.get("extra_cov"):
        cov.update(cfg["extra_cov"](total))
    chk.finish("proof", cov, cfg.get("assumptions", []))
